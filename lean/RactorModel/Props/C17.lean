import RactorModel.Lemmas.GenAuth
import RactorModel.Lemmas.Session
import RactorModel.Lemmas.MultiSession
import RactorModel.Lemmas.MultiSessionHonest
import RactorModel.Lemmas.Transitive
import RactorModel.Extracted

/-!
# C17 — nothing from a peer takes effect before authentication

Property theorems only. Models: `Model/Auth.lean` (the two handshake state machines of
`node/auth.rs`), `Model/Session.lean` (the gate of `node/node_session.rs`); lemmas in
`Lemmas/Auth.lean`, `Lemmas/Session.lean`. The digest function `H` is an arbitrary function
(SHA-256 is never inspected); the challenges drawn by `rand`, every answer of the `NodeServer`
and of the registries are universally quantified inputs (`Env`).
-/

namespace C17
open Auth Session

section
variable {C D : Type} [DecidableEq D] (H : C → Nat → D)

/-! ## the handshake state machines -/

/-- `Close` is absorbing in both machines. -/
theorem fsm_close_absorbing (cookie : C) (fresh : Nat) (m : Msg D) :
    Server.next H cookie fresh (.close : Server D) m = .close ∧
    Client.next H cookie fresh (.close : Client D) m = .close :=
  ⟨Server.next_close H cookie fresh m, Client.next_close H cookie fresh m⟩

/-- The server reaches `Ok` only from the state holding an expected digest, and only with a
`ChallengeReply` carrying exactly that digest. -/
theorem server_ok_only_with_expected_digest (cookie : C) (fresh : Nat) (st : Server D) (m : Msg D) (d : D) :
    Server.next H cookie fresh st m = .ok d ↔
      ∃ c e c', st = .waitingReply c e ∧ m = .clientChallenge c' e ∧ d = H cookie c' :=
  Server.next_ok_iff H cookie fresh st m d

/-- The client reaches `Ok` only from the state holding an expected digest, and only with a
`ChallengeAck` carrying exactly that digest. -/
theorem client_ok_only_with_expected_digest (cookie : C) (fresh : Nat) (st : Client D) (m : Msg D) :
    Client.next H cookie fresh st m = .ok ↔
      ∃ n cs sc reply ours e, st = .waitingAck n cs sc reply ours e ∧ m = .serverAck e :=
  Client.next_ok_iff H cookie fresh st m

/-- Total case analysis: every message that is not the one expected in the current state
(malformed = `empty`, out of order, repeated) yields `Close`. -/
theorem fsm_unexpected_message_closes (cookie : C) (fresh : Nat) (m : Msg D) :
    (∀ st : Server D, st.expects m = false → Server.next H cookie fresh st m = .close) ∧
    (∀ st : Client D, st.expects m = false → Client.next H cookie fresh st m = .close) :=
  ⟨fun st h => Server.next_unexpected H cookie fresh st m h,
   fun st h => Client.next_unexpected H cookie fresh st m h⟩

/-- A wrong digest closes, whatever else the message contains. -/
theorem fsm_wrong_digest_closes (cookie : C) (fresh : Nat) (c c' : Nat) (e dg : D) (h : e ≠ dg)
    (n cs : String) (sc ours : Nat) (reply : D) :
    Server.next H cookie fresh (.waitingReply c e) (.clientChallenge c' dg) = .close ∧
    Client.next H cookie fresh (.waitingAck n cs sc reply ours e) (.serverAck dg) = .close := by
  simp [Server.next, Client.next, h]

/-- The digest a state waits for is always the digest of the challenge that state holds
(`start_challenge` and both `next` functions establish it, for every drawn challenge). -/
theorem fsm_expected_digest_is_of_own_challenge (cookie : C) (fresh : Nat) :
    (∀ (s : Server D), (Server.startChallenge H cookie fresh s).wf H cookie) ∧
    (∀ (s : Server D) (m : Msg D), (Server.next H cookie fresh s m).wf H cookie) ∧
    (∀ (c : Client D) (m : Msg D), (Client.next H cookie fresh c m).wf H cookie) :=
  ⟨Server.startChallenge_wf H cookie fresh, Server.next_wf H cookie fresh, Client.next_wf H cookie fresh⟩

/-! ## the session gate -/

/-- (gate, one step) Whatever the state, the environment and the input: an effect that
delivers to a local actor or a proxy, creates or stops a proxy, changes a process group,
makes the session listable, starts monitoring or dials a peer-supplied address is emitted
only by a step that ends authenticated. -/
theorem gate_step (cfg : Cfg C) (st : SState D) (env : Env) (i : In D) :
    ∀ e ∈ (handle H cfg st env i).2, e.gated = true → (handle H cfg st env i).1.auth.isOk = true :=
  (handle_facts H cfg st env i).gate

theorem stateAfter_cons (cfg : Cfg C) (st : SState D) (x : Env × In D) (rest : List (Env × In D)) :
    stateAfter H cfg st (x :: rest) = stateAfter H cfg (handle H cfg st x.1 x.2).1 rest := rfl

/-- (gate, every history) For every finite input sequence, every gated effect occurs at an
index whose step ends authenticated. -/
theorem gate (cfg : Cfg C) (inputs : List (Env × In D)) : ∀ (st : SState D),
    ∀ se ∈ run H cfg st inputs, ∀ e ∈ se.2, e.gated = true → se.1.auth.isOk = true := by
  induction inputs with
  | nil => intro st se h; simp [run] at h
  | cons x rest ih =>
    intro st se hse e he hg
    obtain ⟨env, i⟩ := x
    simp only [run, List.mem_cons] at hse
    rcases hse with rfl | hse
    · exact gate_step H cfg st env i e he hg
    · exact ih _ se hse e he hg

/-- (authentication needs the digest) From any not yet authenticated state whose waiting
digest is well-formed — in particular from the initial state —, if the session is authenticated
after `inputs` then some input `x` of the sequence, arriving in the state reached by the
inputs before it, was the handshake message carrying exactly `H cookie c` for the challenge
`c` held at that moment. A peer that never presents that digest is never authenticated. -/
theorem authenticated_requires_digest (cfg : Cfg C) (inputs : List (Env × In D)) :
    ∀ (st : SState D), st.auth.wf H cfg.cookie → st.auth.isOk = false →
      (stateAfter H cfg st inputs).auth.isOk = true →
      ∃ pre x post, inputs = pre ++ x :: post ∧
        presents H cfg.cookie (stateAfter H cfg st pre).auth x.2 := by
  induction inputs with
  | nil => intro st _ hno hok; simp [stateAfter, hno] at hok
  | cons x rest ih =>
    intro st hwf hno hok
    obtain ⟨env, i⟩ := x
    have f := handle_facts H cfg st env i
    by_cases h1 : (handle H cfg st env i).1.auth.isOk = true
    · exact ⟨[], (env, i), rest, rfl, f.okNeeds hwf hno h1⟩
    · have h1' : (handle H cfg st env i).1.auth.isOk = false := by simpa using h1
      obtain ⟨pre, y, post, hsplit, hp⟩ := ih _ (f.wf hwf) h1' hok
      exact ⟨(env, i) :: pre, y, post, by rw [hsplit]; rfl, hp⟩

omit [DecidableEq D] in
theorem init_wf (cfg : Cfg C) : (init cfg : SState D).auth.wf H cfg.cookie ∧ (init cfg : SState D).auth.isOk = false := by
  unfold init
  cases cfg.isServer <;> simp [AuthSt.wf, AuthSt.isOk, Server.init, Client.init, Server.wf, Client.wf, Server.isOk, Client.isOk]

/-- (no effect without the digest) For every finite input sequence on a fresh session, a
gated effect anywhere in the run implies that the right digest was presented at or before
that point. Contrapositive: a peer that does not know `H cookie c` for the challenge `c` of
this session — e.g. one that only knows another cookie, given `H` separates them — causes no
delivery, no proxy, no group change, no listing. -/
theorem no_effect_without_digest (cfg : Cfg C) (inputs : List (Env × In D)) :
    ∀ (st : SState D), st.auth.wf H cfg.cookie → st.auth.isOk = false →
      ∀ se ∈ run H cfg st inputs, ∀ e ∈ se.2, e.gated = true →
      ∃ pre x post, inputs = pre ++ x :: post ∧
        presents H cfg.cookie (stateAfter H cfg st pre).auth x.2 := by
  induction inputs with
  | nil => intro st _ _ se h; simp [run] at h
  | cons x rest ih =>
    intro st hwf hno se hse e he hg
    obtain ⟨env, i⟩ := x
    have f := handle_facts H cfg st env i
    by_cases h1 : (handle H cfg st env i).1.auth.isOk = true
    · exact ⟨[], (env, i), rest, rfl, f.okNeeds hwf hno h1⟩
    · have h1' : (handle H cfg st env i).1.auth.isOk = false := by simpa using h1
      simp only [run, List.mem_cons] at hse
      rcases hse with rfl | hse
      · exact absurd (f.gate e he hg) h1
      · obtain ⟨pre, y, post, hsplit, hp⟩ := ih _ (f.wf hwf) h1' se hse e he hg
        exact ⟨(env, i) :: pre, y, post, by rw [hsplit]; rfl, hp⟩

/-- (every cookie different from the real one) A peer that computes all its digests with another
cookie `cookie'` — whatever challenges it applies it to — is never authenticated and causes no
gated effect, PROVIDED the digest function separates the two cookies:
`hsep : ∀ c c', H cookie' c' ≠ H cookie c`. This hypothesis is the only place where a property of
`H` is used. For the real `challenge_digest` it is SHA-256 collision resistance (assumed) together
with the fact that the whole cookie and the whole challenge are fed to SHA-256 — the latter is
what the `digest` ops of the correspondence harness check on the real function. -/
theorem wrong_cookie_never_authenticated (cfg : Cfg C) (cookie' : C)
    (hsep : ∀ c c', H cookie' c' ≠ H cfg.cookie c)
    (inputs : List (Env × In D))
    (hpeer : ∀ x ∈ inputs, ∀ dg, digestOf x.2 = some dg → ∃ c', dg = H cookie' c') :
    (stateAfter H cfg (init cfg : SState D) inputs).auth.isOk = false ∧
    ∀ se ∈ run H cfg (init cfg : SState D) inputs, ∀ e ∈ se.2, e.gated = false := by
  obtain ⟨hwf, hno⟩ := init_wf H cfg
  -- no input can present the expected digest
  have hnever : ∀ pre x post, inputs = pre ++ x :: post →
      ¬ presents H cfg.cookie (stateAfter H cfg (init cfg : SState D) pre).auth x.2 := by
    intro pre x post hsplit hp
    have hx : x ∈ inputs := by rw [hsplit]; simp
    generalize (stateAfter H cfg (init cfg : SState D) pre).auth = a at hp
    obtain ⟨env, i⟩ := x
    cases i with
    | frame f =>
      cases f with
      | auth m =>
        cases m with
        | clientChallenge c2 dg =>
          obtain ⟨c', hc'⟩ := hpeer (env, _) hx dg rfl
          cases a with
          | server s =>
            cases s <;> simp only [presents] at hp
            rename_i c d
            exact hsep c c' (by rw [← hc', hp.1, hp.2])
          | client cl => cases cl <;> simp only [presents] at hp
        | serverAck dg =>
          obtain ⟨c', hc'⟩ := hpeer (env, _) hx dg rfl
          cases a with
          | server s => cases s <;> simp only [presents] at hp
          | client cl =>
            cases cl <;> simp only [presents] at hp
            rename_i n cs sc reply ours e
            exact hsep ours c' (by rw [← hc', hp.1, hp.2])
        | _ => cases a <;> rename_i z <;> cases z <;> simp only [presents] at hp
      | _ => cases a <;> rename_i z <;> cases z <;> simp only [presents] at hp
    | _ => cases a <;> rename_i z <;> cases z <;> simp only [presents] at hp
  constructor
  · cases hh : (stateAfter H cfg (init cfg : SState D) inputs).auth.isOk
    · rfl
    · obtain ⟨pre, x, post, hs, hp⟩ := authenticated_requires_digest H cfg inputs _ hwf hno hh
      exact absurd hp (hnever pre x post hs)
  · intro se hse e he
    cases hg : e.gated
    · rfl
    · obtain ⟨pre, x, post, hs, hp⟩ := no_effect_without_digest H cfg inputs _ hwf hno se hse e he hg
      exact absurd hp (hnever pre x post hs)

/-- (close is final) Once an authentication state machine is `Close` the session is never
authenticated again, for every continuation. -/
theorem close_is_final (cfg : Cfg C) (inputs : List (Env × In D)) :
    ∀ (st : SState D), st.auth.isClose = true →
      (stateAfter H cfg st inputs).auth.isClose = true ∧ (stateAfter H cfg st inputs).auth.isOk = false := by
  have aux : ∀ a : AuthSt D, a.isClose = true → a.isOk = false := by
    intro a h
    cases hh : a.isOk
    · rfl
    · rw [isOk_not_isClose a hh] at h; exact absurd h (by simp)
  induction inputs with
  | nil => intro st h; exact ⟨h, aux _ h⟩
  | cons x rest ih =>
    intro st h
    obtain ⟨env, i⟩ := x
    exact ih _ ((handle_facts H cfg st env i).closeAbs h)

/-- (violation stops the session) The step that enters `Close` — a malformed, out-of-order or
wrong-digest authentication message — calls `myself.stop` (`StopSelf`) in that very step; and a
stopped session handles nothing: no effect at all, ever after. -/
theorem close_stops_session (cfg : Cfg C) (st : SState D) (env : Env) (i : In D)
    (h0 : st.auth.isClose = false) (h1 : (handle H cfg st env i).1.auth.isClose = true) :
    (handle H cfg st env i).1.stopped = true ∧ (∃ r, Effect.stopSelf r ∈ (handle H cfg st env i).2) ∧
    ∀ inputs, ∀ se ∈ run H cfg (handle H cfg st env i).1 inputs, se.2 = [] := by
  obtain ⟨hs, hr⟩ := (handle_facts H cfg st env i).closeStops h0 h1
  refine ⟨hs, hr, ?_⟩
  generalize (handle H cfg st env i).1 = s at hs
  intro inputs
  induction inputs with
  | nil => intro se h; simp [run] at h
  | cons x rest ih =>
    intro se hse
    obtain ⟨env', i'⟩ := x
    have : handle H cfg s env' i' = (s, []) := by simp [handle, hs]
    simp only [run, this, List.mem_cons] at hse
    rcases hse with rfl | hse
    · rfl
    · exact ih se hse

/-- (every violation stops the session) On a live, not yet authenticated session, any
authentication message other than the one the state goes on with — malformed (`empty`), of the
wrong kind, out of order, repeated, or carrying a wrong digest — closes the state machine, stops
the session in that very step and emits no gated effect. -/
theorem auth_violation_stops_session (cfg : Cfg C) (st : SState D) (env : Env) (m : Msg D)
    (hlive : st.stopped = false) (hself : selfConnection cfg st = false)
    (hno : st.auth.isOk = false) (hv : st.auth.accepts m = false) :
    (handle H cfg st env (.frame (.auth m))).1.auth.isClose = true ∧
    (handle H cfg st env (.frame (.auth m))).1.stopped = true ∧
    Effect.stopSelf "auth_fail" ∈ (handle H cfg st env (.frame (.auth m))).2 ∧
    ∀ e ∈ (handle H cfg st env (.frame (.auth m))).2, e.gated = false := by
  have hfacts := handle_facts H cfg st env (.frame (.auth m))
  have hstep : handle H cfg st env (.frame (.auth m)) = onAuthFrame H cfg st env m := by
    simp [handle, hlive, hself]
  -- the state machine closes
  have hclose : (handleAuth H cfg st env m).1.auth.isClose = true ∧
      (handleAuth H cfg st env m).1.stopped = true ∧
      Effect.stopSelf "auth_fail" ∈ (handleAuth H cfg st env m).2 := by
    unfold handleAuth
    rw [if_neg (by simp [hno])]
    obtain ⟨auth, name, connId, rdy, proxies, advertised, monitoring, stopped⟩ := st
    cases auth with
    | server s =>
      have hn := Server.next_violation H cfg.cookie env.fresh s m hv
      cases s <;> simp [AuthSt.isClose, authServer, hn, Server.isClose]
    | client c =>
      have hn := Client.next_violation H cfg.cookie env.fresh c m hv
      cases c <;> simp [AuthSt.isClose, authClient, hn, Client.isClose]
  have hnok : (handleAuth H cfg st env m).1.auth.isOk = false := by
    cases hh : (handleAuth H cfg st env m).1.auth.isOk
    · rfl
    · rw [isOk_not_isClose _ hh] at hclose; exact absurd hclose.1 (by simp)
  have hr : onAuthFrame H cfg st env m = handleAuth H cfg st env m := by
    simp [onAuthFrame, hnok]
  rw [hstep, hr]
  refine ⟨hclose.1, hclose.2.1, hclose.2.2, ?_⟩
  intro e he
  cases hg : e.gated
  · rfl
  · have := hfacts.gate e (by rw [hstep, hr]; exact he) hg
    rw [hstep, hr, hnok] at this
    exact absurd this (by simp)

/-- (allow-list, one step) A cast or call is handed to a local actor only if its pid is in
the set advertised to this peer and the actor is live and supports remoting right now. -/
theorem delivery_only_to_advertised (cfg : Cfg C) (st : SState D) (env : Env) (i : In D) (pid : Nat) (k : Bool)
    (h : Effect.deliverLocal pid k ∈ (handle H cfg st env i).2) :
    pid ∈ st.advertised ∧ env.remotable pid = true :=
  (handle_facts H cfg st env i).deliver pid k h

/-- (allow-list, every history) Every pid in the advertised set was announced to the peer
in a `Spawn` control message this session sent (or was in the set we started from). -/
theorem advertised_were_announced (cfg : Cfg C) (inputs : List (Env × In D)) :
    ∀ (st : SState D), ∀ p ∈ (stateAfter H cfg st inputs).advertised,
      p ∈ st.advertised ∨
      ∃ se ∈ run H cfg st inputs, ∃ ps, Effect.send (.control (.spawn ps)) ∈ se.2 ∧ p ∈ ps := by
  induction inputs with
  | nil => intro st p hp; exact Or.inl hp
  | cons x rest ih =>
    intro st p hp
    obtain ⟨env, i⟩ := x
    rcases ih _ p hp with h | ⟨se, hse, ps, hs, hps⟩
    · rcases (handle_facts H cfg st env i).announced p h with h' | ⟨ps, hs, hps⟩
      · exact Or.inl h'
      · exact Or.inr ⟨_, by simp [run], ps, hs, hps⟩
    · exact Or.inr ⟨se, by simp only [run, List.mem_cons]; exact Or.inr hse, ps, hs, hps⟩

/-- An unauthenticated session is inert: it has no proxies, has advertised nothing and
monitors nothing — so there is nothing a later frame could reach. -/
theorem unauthenticated_session_is_inert (cfg : Cfg C) (inputs : List (Env × In D)) :
    (stateAfter H cfg (init cfg : SState D) inputs).auth.isOk = false →
    (stateAfter H cfg (init cfg : SState D) inputs).proxies = [] ∧
    (stateAfter H cfg (init cfg : SState D) inputs).advertised = [] ∧
    (stateAfter H cfg (init cfg : SState D) inputs).monitoring = false := by
  have key : ∀ (inputs : List (Env × In D)) (st : SState D),
      (st.monitoring = true → st.auth.isOk = true) →
      (st.auth.isOk = false → st.proxies = [] ∧ st.advertised = [] ∧ st.monitoring = false) →
      (stateAfter H cfg st inputs).auth.isOk = false →
      (stateAfter H cfg st inputs).proxies = [] ∧ (stateAfter H cfg st inputs).advertised = [] ∧
      (stateAfter H cfg st inputs).monitoring = false := by
    intro inputs
    induction inputs with
    | nil => intro st _ hq h; exact hq h
    | cons x rest ih =>
      intro st hinv hq h
      obtain ⟨env, i⟩ := x
      have f := handle_facts H cfg st env i
      apply ih _ (f.monInv hinv) _ h
      intro hno
      have hst : st.auth.isOk = false := by
        cases hh : st.auth.isOk
        · rfl
        · rw [f.okStable hh] at hno; exact absurd hno (by simp)
      obtain ⟨q1, q2, q3⟩ := hq hst
      obtain ⟨i1, i2, i3⟩ := f.inert hinv hno
      exact ⟨by rw [i1, q1], by rw [i2, q2], by rw [i3, q3]⟩
  apply key inputs (init cfg)
  · intro h; simp [init] at h
  · intro _; simp [init]

end

/-! ## round 4: several sessions with the same peer — the reflection finding (F11)

`wrong_cookie_never_authenticated` above is about ONE session and assumes (`hpeer`) that the peer
computed every digest it sends itself. `Model/MultiSession.lean` drops both restrictions: any
number of inbound and outbound sessions of one node, opened at any time, inputs interleaved in
any order, and a peer that may also COPY any digest the node has sent on any session (`legal`).
-/

section
open Multi
variable {C D : Type} [DecidableEq D] (H : C → Nat → D)

/-- (what exactly a cookie-less peer needs) For every run of the multi-session node against a peer
that does not know the cookie (its digests are copied from the node's frames or computed with
another cookie that `H` separates from the real one): whenever a step authenticates a session,
the digest presented in that step is one the NODE ITSELF had put on the wire before, on some
session. The only way in without the cookie is reflection. -/
theorem authentication_only_by_cookie_or_reflection (cookie cookie' : C)
    (hsep : ∀ c c', H cookie' c' ≠ H cookie c)
    (pre post : List (Op D)) (k : Nat) (env : Env) (i : In D)
    (hl : legal H cookie' (Multi.empty cookie : Node C D) (pre ++ .input k env i :: post))
    (cfg : Cfg C) (st : SState D)
    (hk : (nodeAfter H (Multi.empty cookie : Node C D) pre).sessions[k]? = some (cfg, st))
    (hno : st.auth.isOk = false) (hok : (handle H cfg st env i).1.auth.isOk = true) :
    ∃ d, digestOf i = some d ∧ d ∈ (nodeAfter H (Multi.empty cookie : Node C D) pre).seen := by
  have hinv := inv_nodeAfter H pre _ (empty_inv H cookie)
  have hm : (cfg, st) ∈ (nodeAfter H (Multi.empty cookie : Node C D) pre).sessions := List.mem_of_getElem? hk
  obtain ⟨hc, hw⟩ := hinv _ hm
  rw [nodeAfter_cookie] at hc hw
  have hc' : cfg.cookie = cookie := hc
  have hp := (handle_facts H cfg st env i).okNeeds (by rw [hc']; exact hw) hno hok
  obtain ⟨d, c, hd, hdc⟩ := presents_digest H hp
  have hl' := (legal_split H cookie' pre _ _ post hl).1 d hd
  rcases hl' with h | ⟨c', hc2⟩
  · exact ⟨d, hd, h⟩
  · exact absurd (by rw [← hc2, hdc, hc']) (hsep c c')

/-- (`_partial`: no relay ⇒ no authentication) Under the explicit hypothesis `noServerChallenge ops`
— the node is never asked to answer a peer-chosen challenge, i.e. no input of the run is a
`ServerChallenge` frame (the peer has inbound connections only, or the node dials trusted
addresses only) — a peer without the cookie is never authenticated on ANY of the sessions, causes
no gated effect anywhere in the run and never sees a single digest of the real cookie, however
many sessions it opens, however it interleaves them and whatever it replays. -/
theorem no_relay_never_authenticated_partial (cookie cookie' : C)
    (hsep : ∀ c c', H cookie' c' ≠ H cookie c) (ops : List (Op D)) :
    ∀ (n : Node C D), n.cookie = cookie → Quiet H n →
      legal H cookie' n ops → noServerChallenge ops = true →
      ∀ ne ∈ Multi.run H n ops,
        (∀ e ∈ ne.2, e.gated = false) ∧ (∀ p ∈ ne.1.sessions, p.2.auth.isOk = false) ∧ ne.1.seen = [] := by
  induction ops with
  | nil => intro n _ _ _ _ ne h; simp [Multi.run] at h
  | cons op rest ih =>
    intro n hc hq hl hns ne hne
    have hns1 : noServerChallenge [op] = true ∧ noServerChallenge rest = true := by
      cases op with
      | «open» a b c d e => simpa [noServerChallenge] using hns
      | input k env i => simpa [noServerChallenge] using hns
      | deauth ks => simpa [noServerChallenge] using hns
    have hs := quiet_step H cookie' n op (by rw [hc]; exact hsep) hq ⟨hl.1, trivial⟩ hns1.1
    simp only [Multi.run, List.mem_cons] at hne
    rcases hne with rfl | hne
    · exact ⟨hs.2, hs.1.2.1, hs.1.2.2⟩
    · exact ih _ (by rw [step_cookie, hc]) hs.1 hl.2 hns1.2 ne hne

omit [DecidableEq D] in
/-- the fresh node is `Quiet` -/
theorem empty_quiet (cookie : C) : Quiet H (Multi.empty cookie : Node C D) :=
  ⟨empty_inv H cookie, by intro p hp; simp [Multi.empty] at hp, rfl⟩

/-- (clause "sessions are listed only after the handshake", NodeServer side) `GetSessions` answers
from `authenticated_sessions`; a session enters that set only through the `ConnectionAuthenticated`
cast, which the session sends only in the step that completes its handshake (`gate`), and leaves it
whenever the `NodeServer` says so (election losers, cleanup). Hence, for every run of the node —
any number of sessions, any interleaving, any peer —: every session `GetSessions` lists exists and
has completed the challenge handshake. -/
theorem listed_sessions_completed_the_handshake (cookie : C) (ops : List (Op D)) :
    ∀ k ∈ getSessions (nodeAfter H (Multi.empty cookie : Node C D) ops),
      ∃ cfg st, (nodeAfter H (Multi.empty cookie : Node C D) ops).sessions[k]? = some (cfg, st) ∧
        st.auth.isOk = true :=
  listedOk_nodeAfter H ops _ (by intro k hk; simp [Multi.empty] at hk)

end

/-! ### authentication frames AFTER authentication

`auth_violation_stops_session` needs `hno : st.auth.isOk = false`. What the code does with an
authentication frame on an ALREADY authenticated session (`handle_auth`: `if state.auth.is_ok()
{ return; }`, node_session.rs) is the complement: nothing — no effect, no state change, and in
particular the session is NOT closed. Read literally ("any … out-of-order … authentication message
closes the session") this is a deviation; it is not counted as a violation of C17 because the
clause protects the way INTO the authenticated state ("… and it can never become authenticated
afterwards") and such a frame has no effect whatsoever. -/

section
variable {C D : Type} [DecidableEq D] (H : C → Nat → D)

/-- (what the code does) On a live authenticated session every authentication frame — of any kind,
with any digest — is ignored: same state, no effect; the session stays up and authenticated. -/
theorem auth_frame_after_authentication_is_ignored (cfg : Cfg C) (st : SState D) (env : Env) (m : Msg D)
    (hlive : st.stopped = false) (hself : selfConnection cfg st = false) (hok : st.auth.isOk = true) :
    handle H cfg st env (.frame (.auth m)) = (st, []) := by
  simp [handle, hlive, hself, onAuthFrame, handleAuth, hok]

end

/-- a toy digest for the examples below -/
def toyHH (cookie : Nat) (c : Nat) : Nat := cookie * 1000 + c

/-! ### the transitive dial (`NodeConnectionMode::Transitive`, the node-list exchange) -/

section
variable {C D : Type} [DecidableEq D] (H : C → Nat → D)

/-- (a peer's list makes this node dial only unknown peers, only after authentication, never itself)
Whatever the state, the environment and the input: the session asks for a connection to `addr` only
if it IS authenticated (before this very input), runs in `Transitive` mode, the input is a
`NodeSessions` frame, and `addr` is the connection string of a listed peer `p` that is not this node
(neither by name nor by connection string) and that matches no session `GetSessions` lists (neither
its name nor its connection string equals a listed name or connection string). -/
theorem transitive_dials_only_unknown_peers (cfg : Cfg C) (st : SState D) (env : Env) (i : In D) (addr : String)
    (h : Effect.connect addr ∈ (handle H cfg st env i).2) :
    st.auth.isOk = true ∧ cfg.transitive = true ∧
    ∃ peers, i = .frame (.control (.nodeSessions peers)) ∧ ∃ p ∈ peers, p.2 = addr ∧
      p.1 ≠ cfg.thisName ∧ p.2 ≠ cfg.thisConn ∧
      ∀ ss, env.sessions = some ss → ∀ s ∈ ss, p.1 ≠ s.1 ∧ p.1 ≠ s.2 ∧ p.2 ≠ s.1 ∧ p.2 ≠ s.2 :=
  handle_connect H cfg st env i addr h

/-- non-vacuity: an authenticated transitive session told about {itself, a connected peer, a new
peer} dials exactly the new one. -/
example :
    (handle toyHH { isServer := true, cookie := 7, thisName := "a@h", thisConn := "h:1", transitive := true, connId := 0 }
      { auth := .server (.ok 0), name := some ("b@h", "h:2"), connId := 0, ready := .ready, proxies := [],
        advertised := [], monitoring := true, stopped := false }
      { check := .failed, elected := false, fresh := 0, localPids := [], groups := [], remotable := fun _ => false,
        sessions := some [("b@h", "h:2")] }
      (.frame (.control (.nodeSessions [("a@h", "x:1"), ("c@h", "h:1"), ("b@h", "h:9"), ("d@h", "h:2"), ("e@h", "h:3")])))).2
    = [.notify .getSessions, .connect "h:3"] := by decide

end

/-! ### every way a session is created goes through the same gate (source facts, E-SRC)

`client::connect`, `client::connect_enc` and `client::connect_external` do nothing but cast
`ConnectionOpened{,External} { is_server: false }` to the `NodeServer`; the listener casts the same
messages with `is_server: true`. Both arms of `NodeServer::handle` build the session with
`NodeSession::new(node_id, is_server, self.cookie.clone(), …)` — the `Op.open` of
`Model/MultiSession.lean`. The extractor reads this off the sources on every run. -/

theorem client_connects_only_open_a_client_session :
    Extracted.clientConnectCasts =
      [("connect", "ConnectionOpened", "false"), ("connect_enc", "ConnectionOpened", "false"),
       ("connect_external", "ConnectionOpenedExternal", "false")] := by decide

theorem every_session_is_created_with_the_node_cookie :
    Extracted.sessionCreationSites =
      [("ConnectionOpened", "self.cookie.clone()", "is_server"),
       ("ConnectionOpenedExternal", "self.cookie.clone()", "is_server")] := by decide

/-! ### a retracted pid is no longer reachable -/

section
variable {C D : Type} [DecidableEq D] (H : C → Nat → D)

/-- ("advertised to that peer" as a current fact) When a local actor exits, the monitoring session
sends `Terminate` and drops the pid from its allow-list: right afterwards the pid is not advertised,
and no cast or call to it is delivered — whatever the registries answer — until it is announced again. -/
theorem retracted_pid_is_not_reachable (cfg : Cfg C) (st : SState D) (env env' : Env) (pid : Nat) (i : In D)
    (hlive : st.stopped = false) (hm : st.monitoring = true) :
    pid ∉ (handle H cfg st env (.pidTerminate pid true)).1.advertised ∧
    Effect.send (.control (.terminate [pid])) ∈ (handle H cfg st env (.pidTerminate pid true)).2 ∧
    ∀ k, Effect.deliverLocal pid k ∉ (handle H cfg (handle H cfg st env (.pidTerminate pid true)).1 env' i).2 := by
  have h1 : pid ∉ (handle H cfg st env (.pidTerminate pid true)).1.advertised := by
    simp [handle, hlive, hm]
  refine ⟨h1, by simp [handle, hlive, hm], ?_⟩
  intro k hk
  exact h1 (delivery_only_to_advertised H cfg _ env' i pid k hk).1

end

/-! ### the witness: the full statement is FALSE of the code (finding F11) -/

section
open Multi

/-- an injective digest: separates any two different cookies (`hsep` holds) -/
def pairH (cookie : Nat) (c : Nat) : Nat × Nat := (cookie, c)

def envR (fresh : Nat) : Env :=
  { check := .noOther, elected := true, fresh := fresh, localPids := [3], groups := [],
    remotable := fun p => p == 3, sessions := some [] }

/-- The relay of `corpus/C17/e-lts-f11-reflection-inbound-outbound.ops`: session 0 is inbound
(server-side), session 1 outbound (client-side); the node draws the challenges 5 (on 0) and 6 (on 1);
the peer hands challenge 5 back on session 1, copies the node's answer `H 7 5` to session 0 and the
node's `ChallengeAck` `H 7 6` to session 1; then casts to the advertised actor 3 on session 0. -/
def reflectionOps : List (Op (Nat × Nat)) :=
  [ .open true "v@h" "h:1" false 0,
    .open false "v@h" "h:1" false 99,
    .input 0 (envR 5) (.frame (.auth (.name ⟨"evil@h", "pc", 1⟩))),
    .input 1 (envR 0) (.frame (.auth (.serverStatus 0))),
    .input 1 (envR 6) (.frame (.auth (.serverChallenge "evil2@h" "pc2" 5))),
    .input 0 (envR 0) (.frame (.auth (.clientChallenge 6 (pairH 7 5)))),
    .input 1 (envR 0) (.frame (.auth (.serverAck (pairH 7 6)))),
    .input 0 (envR 0) (.frame (.node (.cast 3))) ]

/-- (negation on the witness) The unrestricted statement "a peer that does not know the cookie is
never authenticated and causes no gated effect" is FALSE for the multi-session node, even for an
injective digest function: the run `reflectionOps` is `legal` for a peer whose own cookie is 8 ≠ 7
(every digest it sends was first sent by the node), `pairH` separates the cookies, and yet both
sessions become authenticated and a cast is delivered to local actor 3. -/
theorem reflection_authenticates_without_cookie :
    (∀ c c', pairH 8 c' ≠ pairH 7 c) ∧
    legal pairH 8 (Multi.empty 7 : Node Nat (Nat × Nat)) reflectionOps ∧
    Effect.authenticated ∈ (Multi.run pairH (Multi.empty 7 : Node Nat (Nat × Nat)) reflectionOps).flatMap (·.2) ∧
    Effect.deliverLocal 3 false ∈ (Multi.run pairH (Multi.empty 7 : Node Nat (Nat × Nat)) reflectionOps).flatMap (·.2) ∧
    (nodeAfter pairH (Multi.empty 7 : Node Nat (Nat × Nat)) reflectionOps).sessions.map (·.2.auth.isOk) = [true, true] := by
  refine ⟨by intro c c' h; simp [pairH] at h, ?_, by decide, by decide, by decide⟩
  · refine ⟨trivial, trivial, ?_, ?_, ?_, ?_, ?_, ?_, trivial⟩
    · intro d h; simp [digestOf] at h
    · intro d h; simp [digestOf] at h
    · intro d h; simp [digestOf] at h
    · intro d h
      simp only [digestOf, Option.some.injEq] at h
      subst h
      exact Or.inl (by decide)
    · intro d h
      simp only [digestOf, Option.some.injEq] at h
      subst h
      exact Or.inl (by decide)
    · intro d h; simp [digestOf] at h

/-- … and `GetSessions` lists both sessions of the cookie-less peer. -/
example : getSessions (nodeAfter pairH (Multi.empty 7 : Node Nat (Nat × Nat)) reflectionOps) = [0, 1] := by decide

/-- non-vacuity of `no_relay_never_authenticated_partial`: a run with two inbound sessions on which
the peer replays and guesses; hypotheses hold, and the conclusion is about a non-trivial run. -/
example :
    noServerChallenge
      ([ .open true "v@h" "h:1" false 0, .open true "v@h" "h:1" false 0,
         .input 0 (envR 5) (.frame (.auth (.name ⟨"evil@h", "pc", 1⟩))),
         .input 1 (envR 6) (.frame (.auth (.name ⟨"evil2@h", "pc", 1⟩))),
         .input 0 (envR 0) (.frame (.auth (.clientChallenge 6 (pairH 8 5)))),
         .input 1 (envR 0) (.frame (.node (.cast 3))) ] : List (Op (Nat × Nat))) = true := by decide

end

#print axioms C17.authentication_only_by_cookie_or_reflection
#print axioms C17.no_relay_never_authenticated_partial
#print axioms C17.empty_quiet
#print axioms C17.retracted_pid_is_not_reachable
#print axioms C17.transitive_dials_only_unknown_peers
#print axioms C17.client_connects_only_open_a_client_session
#print axioms C17.every_session_is_created_with_the_node_cookie
#print axioms C17.auth_frame_after_authentication_is_ignored
#print axioms C17.listed_sessions_completed_the_handshake
#print axioms C17.reflection_authenticates_without_cookie

/-! ## non-vacuity -/

section
/-- a toy digest: the statements hold for every `H`, this one makes the examples computable -/
def toyH (cookie : Nat) (c : Nat) : Nat := cookie * 1000 + c

def toyCfg : Cfg Nat :=
  { isServer := true, cookie := 7, thisName := "a@h", thisConn := "h:1", transitive := false, connId := 0 }

def toyEnv (fresh : Nat) : Env :=
  { check := .noOther, elected := true, fresh := fresh, localPids := [3], groups := [("sc", "g", [3])],
    remotable := fun p => p == 3, sessions := some [] }

/-- a peer that knows the cookie authenticates and its cast to the advertised pid 3 is delivered … -/
example :
    ((run toyH toyCfg (init toyCfg : SState Nat)
      [(toyEnv 5, .frame (.auth (.name ⟨"b@h", "h:2", 9⟩))),
       (toyEnv 0, .frame (.auth (.clientChallenge 11 (toyH 7 5)))),
       (toyEnv 0, .frame (.node (.cast 3))),
       (toyEnv 0, .frame (.node (.cast 4)))]).map (·.2)) =
    [[.notify .updateSession, .notify .checkSession, .send (.auth (.serverStatus 0)),
      .send (.auth (.serverChallenge "a@h" "h:1" 5))],
     [.send (.auth (.serverAck (toyH 7 11))), .authenticated, .notify .checkSession, .monitor,
      .send (.control (.spawn [3])), .send (.control (.pgJoin "sc" "g" [3])), .send (.control .ready)],
     [.deliverLocal 3 false],
     []] := by decide

/-- … while one that presents the digest of another cookie is closed and nothing happens afterwards. -/
example :
    ((run toyH toyCfg (init toyCfg : SState Nat)
      [(toyEnv 5, .frame (.auth (.name ⟨"b@h", "h:2", 9⟩))),
       (toyEnv 0, .frame (.auth (.clientChallenge 11 (toyH 8 5)))),
       (toyEnv 0, .frame (.node (.cast 3))),
       (toyEnv 0, .frame (.control (.spawn [1])))]).map (·.2)) =
    [[.notify .updateSession, .notify .checkSession, .send (.auth (.serverStatus 0)),
      .send (.auth (.serverChallenge "a@h" "h:1" 5))],
     [.stopSelf "auth_fail"],
     [],
     []] := by decide
end



/-! ### Translator tie (rs2lean): kernel-checked equivalence between the definitions that
`extract/rs2lean.py` regenerates from the CURRENT Rust source on every run
(`RactorModel/Generated/*.lean`) and the hand-written model functions the theorems above are
about. A semantic change of the Rust function changes the generated text and these stop checking. -/

section XlateTie
open Generated.Auth GenAuth

theorem generated_server_init_eq_model {D : Type} [DecidableEq D] (H : String → Nat → D) (fresh : Nat) :
    absServer (ServerAuthenticationProcess.init H fresh) = (Auth.Server.init : Auth.Server D) := rfl

theorem generated_client_init_eq_model {D : Type} [DecidableEq D] (H : String → Nat → D) (fresh : Nat) :
    absClient (ClientAuthenticationProcess.init H fresh) = (Auth.Client.init : Auth.Client D) := rfl

theorem generated_server_start_challenge_eq_model {D : Type} [DecidableEq D] (H : String → Nat → D) (cookie : String) (fresh : Nat)
    (s : ServerAuthenticationProcess D) :
    absServer (ServerAuthenticationProcess.start_challenge H fresh s cookie)
      = Auth.Server.startChallenge H cookie fresh (absServer s) := by
  cases s <;> rfl

theorem generated_server_next_eq_model {D : Type} [DecidableEq D] (H : String → Nat → D) (cookie : String) (fresh : Nat)
    (s : ServerAuthenticationProcess D) (m : AuthenticationMessage D) :
    absServer (ServerAuthenticationProcess.next H fresh s m cookie)
      = Auth.Server.next H cookie fresh (absServer s) (absMsg m) := by
  rcases m with ⟨_ | m⟩
  · cases s <;> rfl
  · cases m <;> cases s <;>
      simp [ServerAuthenticationProcess.next, ServerAuthenticationProcess.start_challenge, absMsg, apply_ite absServer, Auth.Server.next, Auth.Server.startChallenge] <;>
      simp [absServer, absName] <;> (cases ‹ClientStatus D› with | mk b => cases b <;> simp)

theorem generated_client_next_eq_model {D : Type} [DecidableEq D] (H : String → Nat → D) (cookie : String) (fresh : Nat)
    (c : ClientAuthenticationProcess D) (m : AuthenticationMessage D) :
    absClient (ClientAuthenticationProcess.next H fresh c m cookie)
      = Auth.Client.next H cookie fresh (absClient c) (absMsg m) := by
  rcases m with ⟨_ | m⟩
  · cases c <;> rfl
  · cases m <;> cases c <;>
      simp [ClientAuthenticationProcess.next, absMsg, apply_ite absClient, Auth.Client.next] <;>
      simp [absClient]

/-- the abstraction functions are onto the model types: the equivalences above cover every model
state and message (not only images of some generated values). -/
theorem generated_auth_abstraction_onto {D : Type} (s : Auth.Server D) (c : Auth.Client D) (m : Auth.Msg D) :
    (∃ s', absServer s' = s) ∧ (∃ c', absClient c' = c) ∧ (∃ m', absMsg m' = m) :=
  ⟨⟨_, absServer_concServer s⟩, ⟨_, absClient_concClient c⟩, ⟨_, absMsg_concMsg m⟩⟩
end XlateTie

/-! ### E-SRC tie of the model's inertness guards (wave 2, `extract.py: cluster_session_guards`)

`unauthenticated_session_is_inert` rests on three guards of `Model/Session.lean`:
`handleNode` / `handleControl` start with `if !st.auth.isOk then (st, [])`, and the local-event arms of
`Session.handle` (`pidSpawn`, `pidTerminate`, `pgChanged`) are guarded by `st.monitoring`, a flag only
`afterAuthenticated` sets. The Rust arms `PidLifecycleEvent` / `ProcessGroupChanged` of
`handle_supervisor_evt` carry NO such guard: they are unreachable before authentication because the
SUBSCRIPTIONS that produce those events are made only in `fn after_authenticated`, which is called
only on the step on which `state.auth` becomes ok. The theorems below read exactly that off the
CURRENT `ractor_cluster/src/node/node_session.rs` (non-test, non-`verif` part) on every run.

They are source-SHAPE facts, only as good as the extractor (regexes + brace matching over the
comment-stripped text; no name resolution, no macro expansion): they say where the calls and guards
textually are, not what the called functions do. A missing item is extracted as a sentinel
(`"?"` / `[]`), so the equalities fail rather than hold vacuously. -/

/-- ties `st.monitoring` of `Session.handle` (= "`after_authenticated` ran"): in node_session.rs every
call of a function named `monitor` / `monitor_scope` (any path, also as a method; `demonitor*` are not
counted) sits in `fn after_authenticated`, and there are exactly the three subscriptions the model's
`afterAuthenticated` stands for (its `Effect.monitor`: pid registry, all pg scopes, all pg groups). The
ping loop (same `Effect.monitor`) is likewise started from `after_authenticated` only. So before
`after_authenticated` has run, nothing makes the runtime deliver a `PidLifecycleEvent` or a
`ProcessGroupChanged` to the session. Source-shape fact, only as good as the extractor. -/
theorem monitors_are_installed_only_by_after_authenticated :
    Extracted.sessionMonitorCalls =
      [("pid_registry::monitor", "after_authenticated"), ("pg::monitor_scope", "after_authenticated"),
       ("pg::monitor", "after_authenticated")] ∧
    Extracted.sessionMonitorCalls.length = 3 ∧
    (∀ c ∈ Extracted.sessionMonitorCalls, c.2 = "after_authenticated") ∧
    Extracted.sessionPingLoopStarts =
      [("start_ping_loop", "after_authenticated"), ("start_ping_loop_with_delay", "start_ping_loop")] := by
  decide

/-- ties `onAuthFrame` of `Model/Session.lean` (`if !p && r.1.auth.isOk then … afterAuthenticated`),
the only place where the model sets `monitoring := true`: the ONLY call of `after_authenticated(` in
node_session.rs is in `Actor::handle`, in the `Auth` arm of `match network_message` (itself in the
`MessageReceived` arm), inside `if !p_state && state.auth.is_ok()` and then `if elected`; and in that
arm `p_state` is `state.auth.is_ok()` read BEFORE `self.handle_auth(..)` runs. So it runs only on the
step on which the session becomes authenticated. Source-shape fact, only as good as the extractor. -/
theorem after_authenticated_is_called_only_on_the_authenticating_step :
    Extracted.afterAuthenticatedCalls =
      [("handle",
        ["match message", "arm MessageReceived if state.tcp.is_some()",
         "if let Some(network_message) = maybe_network_message.message",
         "match network_message", "arm Auth",
         "if !p_state && state.auth.is_ok()", "if elected"])] ∧
    (∀ c ∈ Extracted.afterAuthenticatedCalls,
      c.1 = "handle" ∧ "if !p_state && state.auth.is_ok()" ∈ c.2 ∧ "arm Auth" ∈ c.2) ∧
    Extracted.afterAuthenticatedGuardPrefix =
      ["let p_state = state.auth.is_ok()", "self.handle_auth(state, auth_message, myself.clone()).await"] := by
  decide

/-- ties the first line of the model's `handleNode` and `handleControl` (`if !st.auth.isOk then (st, [])`):
the first statement of `fn handle_node` and of `fn handle_control` is `if !state.auth.is_ok() { … }`
whose block is one log line followed by `return` (string literals blanked by the extractor).
Source-shape fact, only as good as the extractor. -/
theorem node_and_control_handlers_return_first_when_unauthenticated :
    Extracted.sessionFirstGuards =
      [("handle_node", "!state.auth.is_ok()", "tracing::warn!(\"\"); return;"),
       ("handle_control", "!state.auth.is_ok()", "tracing::warn!(\"\"); return Ok(());")] := by
  decide

/-- ties the shape of `Session.handle` / `In`: the arms of `NodeSession::handle`, of its inner
`match network_message` (with the `self.` methods each arm calls) and of `handle_supervisor_evt` are
the modelled ones. A NEW arm — a new message kind that could have an effect before authentication —
or an arm that calls another handler changes these tables. (`SendMessage`, `GetAuthenticationState`,
`GetReadyState` are sent by local actors, not by the peer; `ActorStarted` / `ActorFailed` /
`ActorTerminated` concern the session's own children.) Source-shape fact, only as good as the extractor. -/
theorem session_handler_arms_are_the_modelled_ones :
    Extracted.sessionHandleArms =
      [("MessageReceived", "state.tcp.is_some()"), ("SendMessage", "state.tcp.is_some()"),
       ("GetAuthenticationState", ""), ("GetReadyState", ""), ("_", "")] ∧
    Extracted.sessionNetworkArms =
      [("Auth", "handle_auth,after_authenticated"), ("Node", "handle_node"), ("Control", "handle_control")] ∧
    Extracted.sessionSupervisorArms =
      [("ActorStarted", ""), ("ActorFailed", ""), ("ActorTerminated", ""),
       ("ProcessGroupChanged", ""), ("PidLifecycleEvent", "")] := by
  decide

/-! ## round 4, wave 2: honest peers AND a cookie-less adversary on the same node

`Model/MultiSessionHonest.lean`: the sessions of the node are split by `adv : Nat → Bool`.
THREAT MODEL: an honest peer (`adv k = false`) knows the cookie and its inputs are completely
unconstrained; the adversary (`adv k = true`) does not know the cookie, sees every frame the node
sends on the sessions IT terminates and may replay any of it on any of its sessions at any later
time; it does NOT see the honest peers' traffic (it is an end point, not a wire-tapper). Any number
of sessions of both kinds, either direction, opened at any time, inputs interleaved in any order.
-/

section
open Multi
variable {C D : Type} [DecidableEq D] (H : C → Nat → D)

/-- (who gets in) For every run with any number of honest peers and an adversary: a step that
authenticates a session is a step of an honest peer's session, or it presents a digest the node
ITSELF emitted earlier on one of the adversary's sessions (`j`, with `adv j`) — the reflection of
finding F11, recognised by the decidable classifier `hasReflectedDigest` on the adversary's view.
Nothing the node sent to honest peers, and nothing the adversary can compute, gets it in.
(`j` may be the same session only if the node's drawn challenge collides with the peer-chosen one:
`Env.fresh` is arbitrary here.) -/
theorem authenticated_session_is_honest_or_reflected (adv : Nat → Bool) (cookie cookie' : C)
    (hsep : ∀ c c', H cookie' c' ≠ H cookie c)
    (pre post : List (Op D)) (k : Nat) (env : Env) (i : In D)
    (hl : advLegal H adv cookie' (Multi.empty cookie : Node C D) [] (pre ++ .input k env i :: post))
    (cfg : Cfg C) (st : SState D)
    (hk : (nodeAfter H (Multi.empty cookie : Node C D) pre).sessions[k]? = some (cfg, st))
    (hno : st.auth.isOk = false) (hok : (handle H cfg st env i).1.auth.isOk = true) :
    adv k = false ∨
    (hasReflectedDigest (advView H adv (Multi.empty cookie : Node C D) [] pre) i = true ∧
      ∃ d j, digestOf i = some d ∧ adv j = true ∧
        (j, d) ∈ advView H adv (Multi.empty cookie : Node C D) [] pre) := by
  cases hadv : adv k
  · exact Or.inl rfl
  · right
    have hinv := inv_nodeAfter H pre _ (empty_inv H cookie)
    have hm : (cfg, st) ∈ (nodeAfter H (Multi.empty cookie : Node C D) pre).sessions := List.mem_of_getElem? hk
    obtain ⟨hc, hw⟩ := hinv _ hm
    rw [nodeAfter_cookie] at hc hw
    have hc' : cfg.cookie = cookie := hc
    have hp := (handle_facts H cfg st env i).okNeeds (by rw [hc']; exact hw) hno hok
    obtain ⟨d, c, hd, hdc⟩ := presents_digest H hp
    have hl' := (advLegal_split H adv cookie' pre _ _ _ post hl).1 hadv d hd
    rcases hl' with ⟨j, hj⟩ | ⟨c', hc2⟩
    · have haj := advView_adv H adv pre _ [] (by intro p hp; simp at hp) _ hj
      refine ⟨?_, d, j, hd, haj, hj⟩
      unfold hasReflectedDigest
      rw [hd]
      exact List.any_eq_true.mpr ⟨(j, d), hj, by simp⟩
    · exact absurd (by rw [← hc2, hdc, hc']) (hsep c c')

/-- (the node never dials the adversary ⇒ the adversary never gets in) If every session of the
adversary is INBOUND (server-side on the node: `advInbound`), then in every run — any number of
honest peers authenticating and talking meanwhile on inbound or outbound sessions, any
interleaving, any replay —: at every point of the run the adversary has not seen a single digest,
none of its sessions is authenticated, and no step of one of its sessions has a gated effect
(no delivery, no proxy, no group change, not listed, no monitor, no transitive dial).
Reason: a server-side session emits its only digest (`ChallengeAck`) in the step that
authenticates it. Checked against the real `NodeServer`: engine `e-lts` relay variants 4/5 (two
inbound sessions: nothing to relay) and oracle clause `reflected-digest-accepted-with-inbound-sessions-only`. -/
theorem inbound_only_adversary_is_never_authenticated (adv : Nat → Bool) (cookie cookie' : C)
    (hsep : ∀ c c', H cookie' c' ≠ H cookie c) (pre post : List (Op D))
    (hl : advLegal H adv cookie' (Multi.empty cookie : Node C D) [] (pre ++ post))
    (hin : advInbound adv 0 (pre ++ post) = true) :
    advView H adv (Multi.empty cookie : Node C D) [] pre = [] ∧
    (∀ k cfg st, adv k = true →
      (nodeAfter H (Multi.empty cookie : Node C D) pre).sessions[k]? = some (cfg, st) →
      st.auth.isOk = false) ∧
    (∀ k env i rest, post = .input k env i :: rest → adv k = true →
      ∀ e ∈ (step H (nodeAfter H (Multi.empty cookie : Node C D) pre) (.input k env i)).2, e.gated = false) := by
  have hr := advQuiet_run H adv cookie' pre (Multi.empty cookie : Node C D) [] post hsep
    (empty_advQuiet H adv cookie) hl hin
  obtain ⟨⟨hinv, hadv, hview⟩, hl2, hin2⟩ := hr
  refine ⟨hview, fun k cfg st hk hget => (hadv k cfg st hk hget).2, ?_⟩
  intro k env i rest hpost hk
  subst hpost
  have hsep' : ∀ c c', H cookie' c' ≠ H (nodeAfter H (Multi.empty cookie : Node C D) pre).cookie c := by
    rw [nodeAfter_cookie]; exact hsep
  have hi := advInbound_cons H adv _ (.input k env i) rest hin2
  exact (advQuiet_step H adv cookie' _ _ (.input k env i) hsep' ⟨hinv, hadv, hview⟩ ⟨hl2.1, trivial⟩ hi.1).2
    k env i rfl hk

/-- non-vacuity: an honest peer (session 0, inbound; session 2, outbound — it knows cookie 7) completes
both handshakes and casts to actor 3 while the adversary (sessions 1 and 3, both inbound, own
cookie 8) guesses, replays a challenge and tries to use its sessions: the hypotheses of
`inbound_only_adversary_is_never_authenticated` hold, the honest sessions ARE authenticated, the
adversary's are not. -/
def honestAndAdversaryOps : List (Op (Nat × Nat)) :=
  [ .open true "v@h" "h:1" false 0,
    .open true "v@h" "h:1" false 0,
    .open false "v@h" "h:1" false 99,
    .open true "v@h" "h:1" false 0,
    .input 0 (envR 5) (.frame (.auth (.name ⟨"good@h", "gc", 1⟩))),
    .input 1 (envR 6) (.frame (.auth (.name ⟨"evil@h", "pc", 1⟩))),
    .input 0 (envR 0) (.frame (.auth (.clientChallenge 9 (pairH 7 5)))),
    .input 2 (envR 0) (.frame (.auth (.serverStatus 0))),
    .input 2 (envR 4) (.frame (.auth (.serverChallenge "good2@h" "gc2" 6))),
    .input 1 (envR 0) (.frame (.auth (.clientChallenge 6 (pairH 8 6)))),
    .input 3 (envR 6) (.frame (.auth (.name ⟨"evil2@h", "pc", 1⟩))),
    .input 2 (envR 0) (.frame (.auth (.serverAck (pairH 7 4)))),
    .input 3 (envR 0) (.frame (.auth (.serverChallenge "evil2@h" "pc" 6))),
    .input 0 (envR 0) (.frame (.node (.cast 3))),
    .input 1 (envR 0) (.frame (.node (.cast 3))) ]

def advOdd (k : Nat) : Bool := k % 2 == 1

example : advInbound advOdd 0 honestAndAdversaryOps = true := by decide
example : (nodeAfter pairH (Multi.empty 7 : Node Nat (Nat × Nat)) honestAndAdversaryOps).sessions.map (·.2.auth.isOk)
    = [true, false, true, false] := by decide
example : Effect.deliverLocal 3 false ∈
    (Multi.run pairH (Multi.empty 7 : Node Nat (Nat × Nat)) honestAndAdversaryOps).flatMap (·.2) := by decide
/-- the node did send digests of the real cookie in that run (to the honest peer) — none to the adversary -/
example : (nodeAfter pairH (Multi.empty 7 : Node Nat (Nat × Nat)) honestAndAdversaryOps).seen
    = [pairH 7 9, pairH 7 6] ∧
    advView pairH advOdd (Multi.empty 7 : Node Nat (Nat × Nat)) [] honestAndAdversaryOps = [] := by decide

/-- … and the F11 run is the other branch of `authenticated_session_is_honest_or_reflected`: both
sessions belong to the adversary, one is outbound, and the authenticating inputs are classified as
reflected digests. -/
example : advInbound (fun _ => true) 0 reflectionOps = false ∧
    hasReflectedDigest (advView pairH (fun _ => true) (Multi.empty 7 : Node Nat (Nat × Nat)) [] (reflectionOps.take 5))
      (.frame (.auth (.clientChallenge 6 (pairH 7 5)))) = true := by decide

end

end C17

#print axioms C17.fsm_close_absorbing
#print axioms C17.server_ok_only_with_expected_digest
#print axioms C17.client_ok_only_with_expected_digest
#print axioms C17.fsm_unexpected_message_closes
#print axioms C17.fsm_wrong_digest_closes
#print axioms C17.fsm_expected_digest_is_of_own_challenge
#print axioms C17.gate_step
#print axioms C17.stateAfter_cons
#print axioms C17.gate
#print axioms C17.authenticated_requires_digest
#print axioms C17.init_wf
#print axioms C17.no_effect_without_digest
#print axioms C17.wrong_cookie_never_authenticated
#print axioms C17.close_is_final
#print axioms C17.close_stops_session
#print axioms C17.auth_violation_stops_session
#print axioms C17.delivery_only_to_advertised
#print axioms C17.advertised_were_announced
#print axioms C17.unauthenticated_session_is_inert
-- rs2lean tie
#print axioms C17.generated_server_init_eq_model
#print axioms C17.generated_client_init_eq_model
#print axioms C17.generated_server_start_challenge_eq_model
#print axioms C17.generated_server_next_eq_model
#print axioms C17.generated_client_next_eq_model
#print axioms C17.generated_auth_abstraction_onto
-- E-SRC tie of the inertness guards (wave 2)
#print axioms C17.monitors_are_installed_only_by_after_authenticated
#print axioms C17.after_authenticated_is_called_only_on_the_authenticating_step
#print axioms C17.node_and_control_handlers_return_first_when_unauthenticated
#print axioms C17.session_handler_arms_are_the_modelled_ones
-- honest peers + adversary, inbound-only adversary (wave 2)
#print axioms C17.authenticated_session_is_honest_or_reflected
#print axioms C17.inbound_only_adversary_is_never_authenticated
