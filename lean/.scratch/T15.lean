import RactorModel.Lemmas.GenLeakyBucket
namespace C15
section XlateTie
open Generated.LeakyBucket GenLeakyBucket

theorem generated_leaky_new_eq_model (instLim clock refill interval max : Nat) (initial : Option Nat) :
    absLB (LeakyBucketRateLimiter.new instLim clock refill interval max initial)
        = LeakyBucket.new ⟨refill, interval, max, instLim⟩ initial clock
      ∧ absCfg instLim (LeakyBucketRateLimiter.new instLim clock refill interval max initial)
        = ⟨refill, interval, max, instLim⟩ := by
  refine ⟨?_, rfl⟩
  simp [LeakyBucketRateLimiter.new, absLB, LeakyBucket.new, Rust.instantCheckedAdd, LeakyBucket.checkedAdd]

/-- `refresh`, for every state within the range of the Rust types: `now` an `Instant`
(ns offset `< 2^127`), `interval` a `Duration` (`< 2^64 s`). -/
theorem generated_leaky_refresh_eq_model (instLim clock : Nat) (s : LeakyBucketRateLimiter) (now : Nat)
    (hnow : now < 2 ^ 127) (hint : s.interval < 2 ^ 64 * 1000000000) :
    absLB (LeakyBucketRateLimiter.refresh instLim clock s now)
        = LeakyBucket.refresh (absCfg instLim s) (absLB s) now
      ∧ absCfg instLim (LeakyBucketRateLimiter.refresh instLim clock s now) = absCfg instLim s := by
  unfold LeakyBucketRateLimiter.refresh LeakyBucket.refresh
  rcases s with ⟨refill, interval, max, balance, deadline⟩
  cases deadline with
  | none => exact ⟨rfl, rfl⟩
  | some d =>
    simp only [absLB, absCfg]
    by_cases h1 : now < d
    · simp [h1]
    · by_cases h2 : interval = 0
      · subst h2
        simp [h1, LeakyBucket.satAdd, Rust.satAdd, LeakyBucket.USIZE_MAX]
      · have hr : (now - d) % interval < 2 ^ 64 * 1000000000 :=
          Nat.lt_trans (Nat.mod_lt _ (Nat.pos_of_ne_zero h2)) hint
        have hq : (now - d) / interval + 1 < 2 ^ 128 := by
          have : (now - d) / interval ≤ now - d := Nat.div_le_self _ _
          omega
        simp only [h1, h2, decide_false, Bool.false_eq_true, ↓reduceIte, split_nanos _ hr, periods_eq _ hq]
        simp [LeakyBucket.tokens, LeakyBucket.periods, LeakyBucket.satMul, LeakyBucket.satAdd, Rust.satMul, Rust.satAdd,
          LeakyBucket.USIZE_MAX, _root_.LeakyBucket.MAX_LB_BALANCE, Generated.LeakyBucket.MAX_LB_BALANCE, Rust.instantCheckedAdd, LeakyBucket.checkedAdd]

theorem generated_leaky_check_eq_model (instLim clock : Nat) (s : LeakyBucketRateLimiter)
    (hnow : clock < 2 ^ 127) (hint : s.interval < 2 ^ 64 * 1000000000) :
    (absLB (LeakyBucketRateLimiter.check instLim clock s).1, (LeakyBucketRateLimiter.check instLim clock s).2)
        = LeakyBucket.check (absCfg instLim s) (absLB s) clock
      ∧ absCfg instLim (LeakyBucketRateLimiter.check instLim clock s).1 = absCfg instLim s := by
  have h := generated_leaky_refresh_eq_model instLim clock s clock hnow hint
  simp only [LeakyBucketRateLimiter.check, LeakyBucket.check, ← h.1, h.2]
  exact ⟨rfl, trivial⟩

/-- `bump` (`balance -= 1` is wrapping subtraction at 64 bits; `balance` a `usize`). -/
theorem generated_leaky_bump_eq_model (instLim clock : Nat) (s : LeakyBucketRateLimiter) (hb : s.balance < 2 ^ 64) :
    absLB (LeakyBucketRateLimiter.bump instLim clock s) = LeakyBucket.bump (absLB s)
      ∧ absCfg instLim (LeakyBucketRateLimiter.bump instLim clock s) = absCfg instLim s := by
  unfold LeakyBucketRateLimiter.bump LeakyBucket.bump
  by_cases h : s.balance > 0
  · have : Rust.wSub 64 s.balance 1 = s.balance - 1 := by unfold Rust.wSub; omega
    simp [h, absLB, absCfg, this]
  · simp [h, absLB]
end XlateTie
end C15
