import RactorModel.Model.Registry

/-! Invariant of the `Registry` model and its preservation by every atomic region. -/

namespace Registry

/-- No remote proxy carries a name (the excluding hypothesis of the legacy `_partial` theorem). -/
def noNamedProxy (s : State) : Prop := ∀ x ∈ s.actors, x.remote = true → x.name = none

structure Inv (legacy : Bool) (s : State) : Prop where
  ids : s.actors.Pairwise (fun x y => x.id ≠ y.id)
  keys : s.names.Pairwise (fun p q => p.1 ≠ q.1)
  holder : ∀ p ∈ s.names, ∃ x ∈ s.actors, x.id = p.2 ∧ x.name = some p.1 ∧ x.remote = false ∧ x.pc < 3
  visible : (legacy = true → noNamedProxy s) →
    ∀ x ∈ s.actors, x.remote = false → ∀ n, x.name = some n → x.pc < 3 → (n, x.id) ∈ s.names
  pcs : ∀ x ∈ s.actors, (x.pc = 0 ↔ x.status < stopping) ∧ x.pc ≤ 3 ∧ (x.status = stopped → x.pc = 3)
          ∧ x.status ≤ stopped
  pidKeys : s.pids.Pairwise (· ≠ ·)
  pidHolder : ∀ a ∈ s.pids, ∃ x ∈ s.actors, x.id = a ∧ x.remote = false ∧ x.pc < 2
  pidVisible : ∀ x ∈ s.actors, x.remote = false → x.pc < 2 → x.id ∈ s.pids

theorem inv_init (l : Bool) : Inv l init := by
  constructor <;> simp [init, noNamedProxy]

theorem getA_some {s : State} {a : Nat} {x : Actor} (h : getA s a = some x) :
    x ∈ s.actors ∧ x.id = a := by
  unfold getA at h
  exact ⟨List.mem_of_find?_eq_some h, by simpa using List.find?_some h⟩

theorem fresh_iff {s : State} {a : Nat} : fresh s a = true ↔ ∀ x ∈ s.actors, x.id ≠ a := by
  simp [fresh, getA, List.find?_eq_none]

theorem whereIs_none {s : State} {n : Nat} (h : (whereIs s n).isSome = false) :
    ∀ p ∈ s.names, p.1 ≠ n := by
  simpa [whereIs, List.find?_eq_none] using h

theorem whereIs_some_of_mem {s : State} {n a : Nat} (hk : s.names.Pairwise (fun p q => p.1 ≠ q.1))
    (h : (n, a) ∈ s.names) : whereIs s n = some a := by
  unfold whereIs
  generalize s.names = l at *
  induction l with
  | nil => simp at h
  | cons p l ih =>
    rw [List.pairwise_cons] at hk
    rcases List.mem_cons.mp h with rfl | h'
    · simp
    · have : (p.1 == n) = false := by
        simpa using fun e => hk.1 _ h' (by simpa using e)
      rw [List.find?_cons, this]
      exact ih hk.2 h'

theorem whereIs_mem {s : State} {n a : Nat} (h : whereIs s n = some a) : (n, a) ∈ s.names := by
  unfold whereIs at h
  obtain ⟨p, hp, rfl⟩ := Option.map_eq_some_iff.mp h
  have h1 := List.mem_of_find?_eq_some hp
  have h2 : p.1 = n := by simpa using List.find?_some hp
  subst h2; exact h1

theorem mem_setA {s : State} {a : Nat} {f : Actor → Actor} {y : Actor} :
    y ∈ (setA s a f).actors ↔ ∃ x ∈ s.actors, y = if x.id = a then f x else x := by
  simp [setA, List.mem_map, eq_comm]

theorem noNamedProxy_setA {s : State} {a : Nat} {f : Actor → Actor}
    (hf : ∀ x, (f x).remote = x.remote ∧ (f x).name = x.name)
    (h : noNamedProxy (setA s a f)) : noNamedProxy s := by
  intro x hx hr
  have := h (if x.id = a then f x else x) (mem_setA.mpr ⟨x, hx, rfl⟩)
  split at this <;> simp_all

theorem ids_setA {s : State} {a : Nat} {f : Actor → Actor} (hf : ∀ x, (f x).id = x.id)
    (h : s.actors.Pairwise (fun x y => x.id ≠ y.id)) :
    (setA s a f).actors.Pairwise (fun x y => x.id ≠ y.id) := by
  simp only [setA, List.pairwise_map]
  refine h.imp ?_
  intro x y hxy
  split <;> split <;> simp_all

end Registry

namespace Registry

theorem inv_register {l : Bool} {s : State} (h : Inv l s) (a n : Nat) :
    Inv l (step l s (.register a n)).1 := by
  unfold step
  by_cases hf : fresh s a = true
  · by_cases hw : (whereIs s n).isSome = true
    · simpa [hf, hw] using h
    · simp only [hf, hw, Bool.not_true, Bool.false_eq_true, ↓reduceIte]
      have hfr := fresh_iff.mp hf
      have hvac := whereIs_none (by simpa using hw)
      have hnp : (l = true → noNamedProxy ⟨s.names ++ [(n, a)], s.pids ++ [a],
          s.actors ++ [⟨a, some n, false, 0, 0⟩]⟩) → (l = true → noNamedProxy s) := by
        intro h1 hl x hx; exact h1 hl x (by simp [hx])
      constructor
      · simp only [List.pairwise_append, List.pairwise_cons, List.Pairwise.nil, and_true]
        exact ⟨h.ids, by simp, by simpa using hfr⟩
      · simp only [List.pairwise_append, List.pairwise_cons, List.Pairwise.nil, and_true]
        exact ⟨h.keys, by simp, by simpa using hvac⟩
      · intro p hp
        rcases List.mem_append.mp hp with hp | hp
        · obtain ⟨x, hx, hh⟩ := h.holder p hp
          exact ⟨x, by simp [hx], hh⟩
        · simp only [List.mem_singleton] at hp; subst hp
          exact ⟨⟨a, some n, false, 0, 0⟩, by simp, by simp⟩
      · intro hc x hx hr m hm hpc
        rcases List.mem_append.mp hx with hx | hx
        · have := h.visible (hnp hc) x hx hr m hm hpc
          simp [this]
        · simp only [List.mem_singleton] at hx; subst hx
          simp at hm; subst hm; simp
      · intro x hx
        rcases List.mem_append.mp hx with hx | hx
        · exact h.pcs x hx
        · simp only [List.mem_singleton] at hx; subst hx; simp [stopping, stopped]
      · simp only [List.pairwise_append, List.pairwise_cons, List.Pairwise.nil, and_true]
        refine ⟨h.pidKeys, by simp, ?_⟩
        intro b hb
        obtain ⟨x, hx, hh⟩ := h.pidHolder b hb
        intro c hc; simp at hc; subst hc
        intro e; exact hfr x hx (by omega)
      · intro b hb
        rcases List.mem_append.mp hb with hb | hb
        · obtain ⟨x, hx, hh⟩ := h.pidHolder b hb
          exact ⟨x, by simp [hx], hh⟩
        · simp only [List.mem_singleton] at hb; subst hb
          exact ⟨⟨b, some n, false, 0, 0⟩, by simp, by simp⟩
      · intro x hx hr hpc
        rcases List.mem_append.mp hx with hx | hx
        · simp [h.pidVisible x hx hr hpc]
        · simp only [List.mem_singleton] at hx; subst hx; simp
  · simpa [hf] using h

end Registry

namespace Registry

theorem id_inj {l : List Actor} (hids : l.Pairwise (fun x y => x.id ≠ y.id)) {x y : Actor}
    (hx : x ∈ l) (hy : y ∈ l) (e : x.id = y.id) : x = y := by
  induction l with
  | nil => simp at hx
  | cons z l ih =>
    rw [List.pairwise_cons] at hids
    rcases List.mem_cons.mp hx with rfl | hx' <;> rcases List.mem_cons.mp hy with rfl | hy'
    · rfl
    · exact absurd e (hids.1 _ hy')
    · exact absurd e.symm (hids.1 _ hx')
    · exact ih hids.2 hx' hy'

theorem getA_unique {s : State} {a : Nat} {x y : Actor}
    (hids : s.actors.Pairwise (fun x y => x.id ≠ y.id))
    (h : getA s a = some x) (hy : y ∈ s.actors) (hya : y.id = a) : y = x := by
  obtain ⟨hx, hxa⟩ := getA_some h
  exact id_inj hids hy hx (hya.trans hxa.symm)

@[simp] theorem setA_names (s : State) (a : Nat) (f : Actor → Actor) : (setA s a f).names = s.names := rfl
@[simp] theorem setA_pids (s : State) (a : Nat) (f : Actor → Actor) : (setA s a f).pids = s.pids := rfl

theorem inv_create {l : Bool} {s : State} (h : Inv l s) (a : Nat) :
    Inv l (step l s (.create a)).1 := by
  unfold step
  by_cases hf : fresh s a = true
  · simp only [hf, Bool.not_true, Bool.false_eq_true, ↓reduceIte]
    have hfr := fresh_iff.mp hf
    have hnp : (l = true → noNamedProxy ⟨s.names, s.pids ++ [a],
        s.actors ++ [⟨a, none, false, 0, 0⟩]⟩) → (l = true → noNamedProxy s) := by
      intro h1 hl x hx; exact h1 hl x (by simp [hx])
    constructor
    · simp only [List.pairwise_append, List.pairwise_cons, List.Pairwise.nil, and_true]
      exact ⟨h.ids, by simp, by simpa using hfr⟩
    · exact h.keys
    · intro p hp
      obtain ⟨x, hx, hh⟩ := h.holder p hp
      exact ⟨x, by simp [hx], hh⟩
    · intro hc x hx hr m hm hpc
      rcases List.mem_append.mp hx with hx | hx
      · exact h.visible (hnp hc) x hx hr m hm hpc
      · simp only [List.mem_singleton] at hx; subst hx; simp at hm
    · intro x hx
      rcases List.mem_append.mp hx with hx | hx
      · exact h.pcs x hx
      · simp only [List.mem_singleton] at hx; subst hx; simp [stopping, stopped]
    · simp only [List.pairwise_append, List.pairwise_cons, List.Pairwise.nil, and_true]
      refine ⟨h.pidKeys, by simp, ?_⟩
      intro b hb
      obtain ⟨x, hx, hh⟩ := h.pidHolder b hb
      intro c hc; simp at hc; subst hc
      intro e; exact hfr x hx (by omega)
    · intro b hb
      rcases List.mem_append.mp hb with hb | hb
      · obtain ⟨x, hx, hh⟩ := h.pidHolder b hb
        exact ⟨x, by simp [hx], hh⟩
      · simp only [List.mem_singleton] at hb; subst hb
        exact ⟨⟨b, none, false, 0, 0⟩, by simp, by simp⟩
    · intro x hx hr hpc
      rcases List.mem_append.mp hx with hx | hx
      · simp [h.pidVisible x hx hr hpc]
      · simp only [List.mem_singleton] at hx; subst hx; simp
  · simpa [hf] using h

theorem inv_proxy {l : Bool} {s : State} (h : Inv l s) (a : Nat) (n : Option Nat) :
    Inv l (step l s (.proxy a n)).1 := by
  unfold step
  by_cases hf : fresh s a = true
  · simp only [hf, Bool.not_true, Bool.false_eq_true, ↓reduceIte]
    have hfr := fresh_iff.mp hf
    have hnp : (l = true → noNamedProxy ⟨s.names, s.pids,
        s.actors ++ [⟨a, n, true, 0, 0⟩]⟩) → (l = true → noNamedProxy s) := by
      intro h1 hl x hx; exact h1 hl x (by simp [hx])
    constructor
    · simp only [List.pairwise_append, List.pairwise_cons, List.Pairwise.nil, and_true]
      exact ⟨h.ids, by simp, by simpa using hfr⟩
    · exact h.keys
    · intro p hp
      obtain ⟨x, hx, hh⟩ := h.holder p hp
      exact ⟨x, by simp [hx], hh⟩
    · intro hc x hx hr m hm hpc
      rcases List.mem_append.mp hx with hx | hx
      · exact h.visible (hnp hc) x hx hr m hm hpc
      · simp only [List.mem_singleton] at hx; subst hx; simp at hr
    · intro x hx
      rcases List.mem_append.mp hx with hx | hx
      · exact h.pcs x hx
      · simp only [List.mem_singleton] at hx; subst hx; simp [stopping, stopped]
    · exact h.pidKeys
    · intro b hb
      obtain ⟨x, hx, hh⟩ := h.pidHolder b hb
      exact ⟨x, by simp [hx], hh⟩
    · intro x hx hr hpc
      rcases List.mem_append.mp hx with hx | hx
      · exact h.pidVisible x hx hr hpc
      · simp only [List.mem_singleton] at hx; subst hx; simp at hr
  · simpa [hf] using h

/-- Updating only `status`/`pc` of actor `a` (found as `x0`): the per-actor obligations. -/
theorem inv_setA {l : Bool} {s : State} (h : Inv l s) {a : Nat} {x0 : Actor} (hg : getA s a = some x0)
    (st pc : Nat) (names' : List (Nat × Nat)) (pids' : List Nat)
    (hkeys : names'.Pairwise (fun p q => p.1 ≠ q.1))
    (hpk : pids'.Pairwise (· ≠ ·))
    (hpcs : (pc = 0 ↔ st < stopping) ∧ pc ≤ 3 ∧ (st = stopped → pc = 3) ∧ st ≤ stopped)
    -- entries that survive
    (hsub : ∀ p ∈ names', p ∈ s.names ∧ (p.2 = a → pc < 3))
    (hvis : (l = true → noNamedProxy s) → ∀ x ∈ s.actors, x.remote = false → ∀ n, x.name = some n →
        (if x.id = a then pc else x.pc) < 3 → (n, x.id) ∈ names')
    (hpsub : ∀ b ∈ pids', b ∈ s.pids ∧ (b = a → pc < 2))
    (hpvis : ∀ x ∈ s.actors, x.remote = false → (if x.id = a then pc else x.pc) < 2 → x.id ∈ pids') :
    Inv l (setA ⟨names', pids', s.actors⟩ a (fun x => { x with status := st, pc := pc })) := by
  have hmem : ∀ y, y ∈ (setA ⟨names', pids', s.actors⟩ a (fun x => { x with status := st, pc := pc })).actors ↔
      ∃ x ∈ s.actors, y = if x.id = a then { x with status := st, pc := pc } else x := by
    intro y; exact mem_setA
  have hnp : (l = true → noNamedProxy (setA ⟨names', pids', s.actors⟩ a
      (fun x => { x with status := st, pc := pc }))) → (l = true → noNamedProxy s) := by
    intro h1 hl
    exact noNamedProxy_setA (s := ⟨names', pids', s.actors⟩) (f := fun x => { x with status := st, pc := pc })
      (fun x => ⟨rfl, rfl⟩) (h1 hl)
  constructor
  · exact ids_setA (s := ⟨names', pids', s.actors⟩) (fun x => rfl) h.ids
  · exact hkeys
  · intro p hp
    obtain ⟨hp1, hp2⟩ := hsub p hp
    obtain ⟨x, hx, h1, h2, h3, h4⟩ := h.holder p hp1
    refine ⟨_, (hmem _).mpr ⟨x, hx, rfl⟩, ?_⟩
    split
    · next e => exact ⟨h1, h2, h3, hp2 (h1.symm.trans e)⟩
    · exact ⟨h1, h2, h3, h4⟩
  · intro hc y hy hr n hn hpc
    obtain ⟨x, hx, rfl⟩ := (hmem _).mp hy
    have := hvis (hnp hc) x hx
    split at hr <;> split at hn <;> split at hpc <;> simp_all
  · intro y hy
    obtain ⟨x, hx, rfl⟩ := (hmem _).mp hy
    split
    · exact hpcs
    · exact h.pcs x hx
  · exact hpk
  · intro b hb
    obtain ⟨hb1, hb2⟩ := hpsub b hb
    obtain ⟨x, hx, h1, h2, h3⟩ := h.pidHolder b hb1
    refine ⟨_, (hmem _).mpr ⟨x, hx, rfl⟩, ?_⟩
    split
    · next e => exact ⟨h1, h2, hb2 (h1.symm.trans e)⟩
    · exact ⟨h1, h2, h3⟩
  · intro y hy hr hpc
    obtain ⟨x, hx, rfl⟩ := (hmem _).mp hy
    have := hpvis x hx
    split at hr <;> split at hpc <;> simp_all

end Registry

namespace Registry

theorem setA_congr {s : State} {a : Nat} {f g : Actor → Actor}
    (h : ∀ x ∈ s.actors, x.id = a → f x = g x) : setA s a f = setA s a g := by
  unfold setA
  congr 1
  apply List.map_congr_left
  intro x hx
  split
  · next e => exact h x hx e
  · rfl

theorem filter_keys {names : List (Nat × Nat)} (n : Nat)
    (h : names.Pairwise (fun p q => p.1 ≠ q.1)) : (removeName names n).Pairwise (fun p q => p.1 ≠ q.1) :=
  h.filter _

theorem inv_publish {l : Bool} {s : State} (h : Inv l s) (a st : Nat) :
    Inv l (step l s (.publish a st)).1 := by
  unfold step
  cases hg : getA s a with
  | none => simpa [hg] using h
  | some x0 =>
    simp only [hg]
    split
    · exact h
    · split
      · exact h
      · next h1 h2 =>
        obtain ⟨hx0, hid⟩ := getA_some hg
        have hp := h.pcs x0 hx0
        let f0 : Actor → Actor := fun y => { y with status := max x0.status st, pc := electPc st x0 }
        have e : setA s a (fun y => { y with status := max y.status st, pc := electPc st y }) =
            setA ⟨s.names, s.pids, s.actors⟩ a f0 := by
          apply setA_congr
          intro x hx hxa
          rw [getA_unique h.ids hg hx hxa]
        rw [e]
        have hpc' : ∀ k, electPc st x0 < k → x0.pc < k := by
          intro k; unfold electPc; split
          · next c => have := hp.1.mpr c.2; omega
          · exact id
        have hpc2 : ∀ k, k ≥ 2 → x0.pc < k → electPc st x0 < k := by
          intro k hk; unfold electPc; split <;> omega
        apply inv_setA h hg _ _ s.names s.pids h.keys h.pidKeys
        · simp only [stopping, stopped, electPc] at *
          by_cases c : st ≥ 5 ∧ x0.status < 5
          · simp only [c, and_self, if_true]; omega
          · simp only [c, if_false]; omega
        · intro p hp'
          refine ⟨hp', fun e => ?_⟩
          obtain ⟨x, hx, q1, _, _, q4⟩ := h.holder p hp'
          have : x = x0 := getA_unique h.ids hg hx (q1.trans e)
          subst this
          exact hpc2 3 (by omega) q4
        · intro hc x hx hr n hn hlt
          apply h.visible hc x hx hr n hn
          split at hlt
          · next e => rw [getA_unique h.ids hg hx e]; exact hpc' _ hlt
          · exact hlt
        · intro b hb
          refine ⟨hb, fun e => ?_⟩
          obtain ⟨x, hx, q1, _, q4⟩ := h.pidHolder b hb
          have : x = x0 := getA_unique h.ids hg hx (q1.trans e)
          subst this
          exact hpc2 2 (by omega) q4
        · intro x hx hr hlt
          apply h.pidVisible x hx hr
          split at hlt
          · next e => rw [getA_unique h.ids hg hx e]; exact hpc' _ hlt
          · exact hlt

end Registry

namespace Registry

theorem key_unique {s : State} (hk : s.names.Pairwise (fun p q => p.1 ≠ q.1)) {n b c : Nat}
    (hb : (n, b) ∈ s.names) (hc : (n, c) ∈ s.names) : b = c := by
  have h1 := whereIs_some_of_mem hk hb
  have h2 := whereIs_some_of_mem hk hc
  rw [h1] at h2; exact Option.some.inj h2

theorem mem_removeName {names : List (Nat × Nat)} {n : Nat} {p : Nat × Nat} :
    p ∈ removeName names n ↔ p ∈ names ∧ p.1 ≠ n := by
  simp [removeName]

theorem inv_unregPid {l : Bool} {s : State} (h : Inv l s) (a : Nat) :
    Inv l (step l s (.unregPid a)).1 := by
  unfold step
  cases hg : getA s a with
  | none => simpa [hg] using h
  | some x0 =>
    simp only [hg]
    split
    · exact h
    · next hpc =>
      have hpc : x0.pc = 1 := by omega
      obtain ⟨hx0, hid⟩ := getA_some hg
      have hp := h.pcs x0 hx0
      let f0 : Actor → Actor := fun y => { y with status := x0.status, pc := 2 }
      let pids' := if x0.remote then s.pids else s.pids.filter (· != a)
      have e : setA (if x0.remote = true then s else { s with pids := s.pids.filter (· != a) }) a
            (fun x => { x with pc := 2 }) = setA ⟨s.names, pids', s.actors⟩ a f0 := by
        have : (if x0.remote = true then s else { s with pids := s.pids.filter (· != a) }) =
            ⟨s.names, pids', s.actors⟩ := by
          simp only [pids']; split <;> rfl
        rw [this]
        apply setA_congr
        intro x hx hxa
        have : x = x0 := getA_unique h.ids hg hx hxa
        subst this; rfl
      rw [e]
      apply inv_setA h hg _ _ s.names pids' h.keys
      · simp only [pids']; split
        · exact h.pidKeys
        · exact h.pidKeys.filter _
      · simp only [stopping, stopped] at *; omega
      · intro p hp'; exact ⟨hp', fun _ => by omega⟩
      · intro hc x hx hr n hn hlt
        apply h.visible hc x hx hr n hn
        split at hlt
        · next e => rw [getA_unique h.ids hg hx e]; omega
        · exact hlt
      · intro b hb
        have hb' : b ∈ s.pids ∧ (x0.remote = false → b ≠ a) := by
          simp only [pids'] at hb; split at hb
          · next r => exact ⟨hb, fun c => by simp [r] at c⟩
          · have := List.mem_filter.mp hb; exact ⟨this.1, fun _ => by simpa using this.2⟩
        refine ⟨hb'.1, fun eba => ?_⟩
        obtain ⟨x, hx, q1, q2, _⟩ := h.pidHolder b hb'.1
        have : x = x0 := getA_unique h.ids hg hx (q1.trans eba)
        subst this
        exact absurd eba (hb'.2 q2)
      · intro x hx hr hlt
        have hne : x.id ≠ a := by
          intro e; rw [if_pos e] at hlt; omega
        rw [if_neg hne] at hlt
        have := h.pidVisible x hx hr hlt
        simp only [pids']; split
        · exact this
        · exact List.mem_filter.mpr ⟨this, by simpa using hne⟩

theorem inv_unregName_aux {l : Bool} {s : State} (h : Inv l s) {a : Nat} {x0 : Actor}
    (hg : getA s a = some x0) (hpc : x0.pc = 2) (names' : List (Nat × Nat))
    (hn : (names' = s.names ∧ (x0.name = none ∨ x0.remote = true)) ∨
      ∃ n, x0.name = some n ∧ (l = true ∨ x0.remote = false) ∧ names' = removeName s.names n) :
    Inv l (setA ⟨names', s.pids, s.actors⟩ a (fun x => { x with pc := 3 })) := by
  obtain ⟨hx0, hid⟩ := getA_some hg
  have hp := h.pcs x0 hx0
  let f0 : Actor → Actor := fun y => { y with status := x0.status, pc := 3 }
  have e : setA ⟨names', s.pids, s.actors⟩ a (fun x => { x with pc := 3 }) =
      setA ⟨names', s.pids, s.actors⟩ a f0 := by
    apply setA_congr
    intro x hx hxa
    have : x = x0 := getA_unique h.ids hg hx hxa
    subst this; rfl
  rw [e]
  have hsubset : ∀ p ∈ names', p ∈ s.names := by
    intro p hp'
    rcases hn with ⟨rfl, _⟩ | ⟨n, _, _, rfl⟩
    · exact hp'
    · exact (mem_removeName.mp hp').1
  apply inv_setA h hg _ _ names' s.pids
  · rcases hn with ⟨rfl, _⟩ | ⟨n, _, _, rfl⟩
    · exact h.keys
    · exact filter_keys _ h.keys
  · exact h.pidKeys
  · simp only [stopping, stopped] at *; omega
  · intro p hp'
    refine ⟨hsubset p hp', fun epa => ?_⟩
    exfalso
    obtain ⟨x, hx, q1, q2, q3, _⟩ := h.holder p (hsubset p hp')
    have : x = x0 := getA_unique h.ids hg hx (q1.trans epa)
    subst this
    rcases hn with ⟨_, hh | hh⟩ | ⟨n, hn1, _, rfl⟩
    · rw [q2] at hh; cases hh
    · rw [q3] at hh; cases hh
    · rw [q2] at hn1
      exact (mem_removeName.mp hp').2 (Option.some.inj hn1)
  · intro hc x hx hr n hnm hlt
    have hne : x.id ≠ a := by
      intro e; rw [if_pos e] at hlt; omega
    rw [if_neg hne] at hlt
    have hin := h.visible hc x hx hr n hnm hlt
    rcases hn with ⟨rfl, _⟩ | ⟨m, hm, hcond, rfl⟩
    · exact hin
    · refine mem_removeName.mpr ⟨hin, ?_⟩
      show n ≠ m
      intro enm; subst enm
      by_cases hrem : x0.remote = true
      · have hl : l = true := by
          rcases hcond with hl | hl
          · exact hl
          · rw [hrem] at hl; cases hl
        have := hc hl x0 hx0 hrem
        rw [hm] at this; cases this
      · have hloc : x0.remote = false := by simpa using hrem
        have hin0 := h.visible hc x0 hx0 hloc n hm (by omega)
        exact hne ((key_unique h.keys hin hin0).trans hid)
  · intro b hb
    refine ⟨hb, fun eba => ?_⟩
    exfalso
    obtain ⟨x, hx, q1, _, q3⟩ := h.pidHolder b hb
    have : x = x0 := getA_unique h.ids hg hx (q1.trans eba)
    subst this; omega
  · intro x hx hr hlt
    apply h.pidVisible x hx hr
    split at hlt
    · omega
    · exact hlt

theorem inv_unregName {l : Bool} {s : State} (h : Inv l s) (a : Nat) :
    Inv l (step l s (.unregName a)).1 := by
  unfold step
  cases hg : getA s a with
  | none => simpa [hg] using h
  | some x0 =>
    simp only [hg]
    split
    · exact h
    · next hpc =>
      have hpc : x0.pc = 2 := by omega
      cases hn : x0.name with
      | none =>
        simp only
        exact inv_unregName_aux h hg hpc s.names (Or.inl ⟨rfl, Or.inl hn⟩)
      | some n =>
        simp only
        by_cases hc : (l || !x0.remote) = true
        · rw [if_pos hc]
          refine inv_unregName_aux h hg hpc (removeName s.names n) (Or.inr ⟨n, hn, ?_, rfl⟩)
          cases l <;> simp_all
        · rw [if_neg hc]
          refine inv_unregName_aux h hg hpc s.names (Or.inl ⟨rfl, Or.inr ?_⟩)
          cases l <;> simp_all

theorem inv_drain {l : Bool} {s : State} (h : Inv l s) (a : Nat) : Inv l (step l s (.drain a)).1 := by
  unfold step
  cases hg : getA s a with
  | none => simpa [hg] using h
  | some x0 =>
    simp only [hg]
    split
    · next c =>
      obtain ⟨hx0, hid⟩ := getA_some hg
      have hp := h.pcs x0 hx0
      have hpc0 : x0.pc = 0 := hp.1.mpr c.2
      have e : setA s a (fun y => { y with status := draining }) =
          setA ⟨s.names, s.pids, s.actors⟩ a (fun y => { y with status := draining, pc := x0.pc }) := by
        apply setA_congr
        intro x hx hxa
        rw [getA_unique h.ids hg hx hxa]
      rw [e]
      apply inv_setA h hg _ _ s.names s.pids h.keys h.pidKeys
      · simp only [stopping, stopped, draining] at *; omega
      · intro p hp'
        refine ⟨hp', fun _ => by omega⟩
      · intro hc x hx hr n hn hlt
        apply h.visible hc x hx hr n hn
        split at hlt
        · next e' => rw [getA_unique h.ids hg hx e']; omega
        · exact hlt
      · intro b hb
        exact ⟨hb, fun _ => by omega⟩
      · intro x hx hr hlt
        apply h.pidVisible x hx hr
        split at hlt
        · next e' => rw [getA_unique h.ids hg hx e']; omega
        · exact hlt
    · exact h

theorem inv_step {l : Bool} {s : State} (h : Inv l s) (op : Op) : Inv l (step l s op).1 := by
  cases op with
  | register a n => exact inv_register h a n
  | create a => exact inv_create h a
  | proxy a n => exact inv_proxy h a n
  | publish a st => exact inv_publish h a st
  | unregPid a => exact inv_unregPid h a
  | unregName a => exact inv_unregName h a
  | lookup n => exact h
  | lookupPid a => exact h
  | waitRet a => exact h
  | drain a => exact inv_drain h a

theorem inv_run {l : Bool} {s : State} (h : Inv l s) (ops : List Op) : Inv l (run l s ops) := by
  induction ops generalizing s with
  | nil => exact h
  | cons op ops ih => exact ih (inv_step h op)

end Registry
