import RactorModel.Lemmas.GenElection
import RactorModel.Lemmas.TwoNode
import RactorModel.Lemmas.Agreement
import RactorModel.Lemmas.HandshakeRefine
import RactorModel.Lemmas.HandshakeProgress
import RactorModel.Lemmas.NodeState
import RactorModel.Lemmas.CheckSession
import RactorModel.Lemmas.HandshakeDial
import RactorModel.Lemmas.HandshakeFail
import RactorModel.Lemmas.HandshakeRefineB
import RactorModel.Lemmas.Reconnect
import RactorModel.Lemmas.HandshakePre
import RactorModel.Lemmas.HandshakeReady

/-!
# C18 — duplicate connections converge on one and the same link

Property theorems only; helper lemmas live in `Lemmas/Election.lean`, `Lemmas/TwoNode.lean`,
the executable model (tied to `ractor_cluster/src/node.rs` by the correspondence check) in
`Model/Election.lean`.
-/

namespace C18
open Election

/-- (order-independence) The elected set does not depend on the order in which the
candidates are examined: permuting the candidate list permutes the result. -/
theorem elect_order_independent (ord : Ordering) {cs cs' : List Cand} (h : cs.Perm cs') :
    (elect ord cs).Perm (elect ord cs') := by
  rw [elect_eq_pipeline, elect_eq_pipeline]
  exact (pipeline_perm ord h).map _

/-- Only candidates are ever elected. -/
theorem elect_subset (ord : Ordering) (cs : List Cand) :
    ∀ i ∈ elect ord cs, ∃ c ∈ cs, c.id = i := by
  intro i hi
  rw [elect_eq_pipeline] at hi
  obtain ⟨c, hc, rfl⟩ := List.mem_map.mp hi
  exact ⟨c, (pipeline_sublist ord cs).subset hc, rfl⟩

/-- The election never closes every connection to a peer. -/
theorem elect_nonempty (ord : Ordering) {cs : List Cand} (h : cs ≠ []) : elect ord cs ≠ [] := by
  rw [elect_eq_pipeline]
  simpa using pipeline_ne_nil ord h


/-- (agreement) For two nodes with distinct names and any non-empty multiset of physical
connections (arbitrary initiators, arbitrary nonces including the legacy `0` and repeats,
session actor ids distinct on each node):

* the symmetric survivors `T` all have one direction and one nonce;
* the accepting node (the one that did not dial the survivors) retains exactly one
  connection `acc ∈ T`, the one with its smallest actor id;
* the initiating node retains exactly `T` — in particular it still holds `acc`.
-/
theorem agreement (o : Ordering) (ho : o ≠ .eq) (cs : List Conn) (hne : cs ≠ [])
    (hA : (cs.map (·.idA)).Nodup) (hB : (cs.map (·.idB)).Nodup) :
    (∃ d, ∀ c ∈ survivors o cs, c.aInit = d) ∧
    (∀ c ∈ survivors o cs, ∀ c' ∈ survivors o cs, nz c.nonce = nz c'.nonce) ∧
    ∃ acc ∈ survivors o cs,
      (acc.aInit = false →
        electA o cs = [acc.idA] ∧ electB o cs = (survivors o cs).map (·.idB) ∧
        ∀ c ∈ survivors o cs, acc.idA ≤ c.idA) ∧
      (acc.aInit = true →
        electB o cs = [acc.idB] ∧ electA o cs = (survivors o cs).map (·.idA) ∧
        ∀ c ∈ survivors o cs, acc.idB ≤ c.idB) :=
  Election.agreement_core o ho cs hne hA hB


/-- (oracle soundness) The run-time oracle `worldOk`, which `bin/check` evaluates on the
answers the REAL `elect_sessions` gives for both nodes, holds of the model's answers for
every two-node world — so an implementation that agrees with the model passes it, and an
oracle failure on the implementation is a genuine violation of the agreement property. -/
theorem worldOk_model (o : Ordering) (ho : o ≠ .eq) (cs : List Conn) (hne : cs ≠ [])
    (hA : (cs.map (·.idA)).Nodup) (hB : (cs.map (·.idB)).Nodup) :
    worldOk cs (electA o cs) (electB o cs) = true := by
  obtain ⟨⟨d, hd⟩, hn, acc, hacc, h1, h2⟩ := agreement o ho cs hne hA hB
  have hsub := survivors_sublist o cs
  have haccs : acc ∈ cs := hsub.subset hacc
  have hpair : ∀ c ∈ survivors o cs, ∀ c' ∈ survivors o cs,
      c.aInit = c'.aInit ∧ nz c.nonce = nz c'.nonce := by
    intro c hc c' hc'
    exact ⟨by rw [hd c hc, hd c' hc'], hn c hc c' hc'⟩
  unfold worldOk
  cases hai : acc.aInit
  · obtain ⟨eA, eB, _⟩ := h1 hai
    have kA : cs.filter (fun c => (electA o cs).contains c.idA) = [acc] := by
      rw [eA]; exact filter_key_singleton (·.idA) haccs hA
    have kB : cs.filter (fun c => (electB o cs).contains c.idB) = survivors o cs := by
      rw [eB]; exact filter_keys_of_sublist (·.idB) hsub hB
    simp only [kA, kB]
    simp only [eA, eB, hai]
    simp only [Bool.and_eq_true, List.all_eq_true, List.any_eq_true, beq_iff_eq, List.mem_map,
      List.mem_cons, List.mem_append, List.not_mem_nil, or_false, forall_eq, List.length_cons,
      List.length_nil, List.contains_eq_mem, decide_eq_true_eq, Bool.false_eq_true, if_false]
    refine ⟨⟨⟨⟨acc, haccs, rfl⟩, ?_⟩, ?_⟩, trivial, hacc⟩
    · rintro i ⟨c, hc, rfl⟩; exact ⟨c, hsub.subset hc, rfl⟩
    · intro c hc c' hc'
      have hcT : c ∈ survivors o cs := by rcases hc with rfl | h; exact hacc; exact h
      have hcT' : c' ∈ survivors o cs := by rcases hc' with rfl | h; exact hacc; exact h
      exact hpair c hcT c' hcT'
  · obtain ⟨eB, eA, _⟩ := h2 hai
    have kB : cs.filter (fun c => (electB o cs).contains c.idB) = [acc] := by
      rw [eB]; exact filter_key_singleton (·.idB) haccs hB
    have kA : cs.filter (fun c => (electA o cs).contains c.idA) = survivors o cs := by
      rw [eA]; exact filter_keys_of_sublist (·.idA) hsub hA
    simp only [kA, kB]
    simp only [eA, eB]
    cases hT : survivors o cs with
    | nil => rw [hT] at hacc; simp at hacc
    | cons c rest =>
      have hcT : c ∈ survivors o cs := by rw [hT]; simp
      have hca : c.aInit = true := by rw [hd c hcT, ← hd acc hacc, hai]
      rw [hT] at hacc hsub hpair
      simp only [hca, if_true]
      simp only [Bool.and_eq_true, List.all_eq_true, List.any_eq_true, beq_iff_eq, List.mem_map,
        List.mem_cons, List.mem_append, List.not_mem_nil, or_false, forall_eq, List.length_cons,
        List.length_nil, List.contains_eq_mem, decide_eq_true_eq]
      have hmem : ∀ x : Conn, (x = c ∨ x ∈ rest) ∨ x = acc → x ∈ c :: rest := by
        intro x hx
        rcases hx with h | rfl
        · exact List.mem_cons.mpr h
        · exact hacc
      refine ⟨⟨⟨?_, ⟨acc, haccs, rfl⟩⟩, ?_⟩, trivial, List.mem_cons.mp hacc⟩
      · rintro i ⟨x, hx, rfl⟩; exact ⟨x, hsub.subset (List.mem_cons.mpr hx), rfl⟩
      · intro x hx x' hx'
        exact hpair x (hmem x hx) x' (hmem x' hx')

/-- (same link) Whatever each node retains is a surviving connection: same direction — the
dials of the node whose name sorts last when both directions exist — and the least
non-legacy nonce of that direction. Stated by quantifiers over the connections only. -/
theorem survivors_spec (o : Ordering) (cs : List Conn) (c : Conn) :
    c ∈ survivors o cs ↔
      (c ∈ cs ∧ ((∃ x ∈ cs, x.aInit = true) → (∃ y ∈ cs, y.aInit = false) →
          (o = .lt → c.aInit = true) ∧ (o = .gt → c.aInit = false))) ∧
      ∀ c' ∈ dirC o cs, c'.nonce ≠ 0 → c.nonce ≠ 0 ∧ c.nonce ≤ c'.nonce := by
  unfold survivors
  rw [mem_nonceC, mem_dirC]

/-- (unique minimum) If a single connection survives the symmetric part (for instance
because its nonce is the unique minimum), both nodes retain exactly that connection. -/
theorem unique_survivor (o : Ordering) (ho : o ≠ .eq) (cs : List Conn) (hne : cs ≠ [])
    (hA : (cs.map (·.idA)).Nodup) (hB : (cs.map (·.idB)).Nodup) (c : Conn)
    (hT : survivors o cs = [c]) : electA o cs = [c.idA] ∧ electB o cs = [c.idB] := by
  obtain ⟨_, _, acc, hacc, h1, h2⟩ := agreement o ho cs hne hA hB
  rw [hT] at hacc h1 h2
  have : acc = c := by simpa using hacc
  subst this
  cases h : acc.aInit
  · obtain ⟨a, b, _⟩ := h1 h; exact ⟨a, by simpa using b⟩
  · obtain ⟨a, b, _⟩ := h2 h; exact ⟨by simpa using b, a⟩

/-- (convergence / stability) The connection kept by the accepting node is never dropped by
either node's symmetric stages when other connections disappear: for every sub-multiset `R`
of the connections that still contains it, it is still a survivor. Hence once the accepting
node has closed its losers, re-election on the initiating node — over whatever subset is
still open — keeps that same physical connection. -/
theorem survivor_stable (o : Ordering) (cs R : List Conn) (hR : R.Sublist cs) (c : Conn)
    (hc : c ∈ survivors o cs) (hcR : c ∈ R) : c ∈ survivors o R :=
  Election.survivor_stable_core o cs R hR c hc hcR



/-- (every interleaving of the two nodes' handshakes) Elections are run incrementally: each
time a session authenticates, a node elects among the connections that are authenticated and
still open THERE at that moment — some sub-multiset `R` of all connections `cs`, depending on
the interleaving. Whatever `R` is, as long as it contains the connection `acc` that the
accepting node would keep among all of `cs`, NEITHER node's partial election ever closes
`acc`: the accepting node elects exactly `acc`, the initiating node's elected set contains it.
So no schedule of authentications and closings on the two nodes can lose the final link, and
when everything has authenticated and every loser is closed, what remains on both nodes is
that one connection. -/
theorem winner_survives_every_partial_election (o : Ordering) (ho : o ≠ .eq) (cs R : List Conn)
    (hA : (cs.map (·.idA)).Nodup) (hB : (cs.map (·.idB)).Nodup) (hR : R.Sublist cs)
    (acc : Conn) (hacc : acc ∈ survivors o cs) (haccR : acc ∈ R) :
    (acc.aInit = false → (∀ c ∈ survivors o cs, acc.idA ≤ c.idA) →
        electA o R = [acc.idA] ∧ acc.idB ∈ electB o R) ∧
    (acc.aInit = true → (∀ c ∈ survivors o cs, acc.idB ≤ c.idB) →
        electB o R = [acc.idB] ∧ acc.idA ∈ electA o R) :=
  Election.winner_survives_every_partial_election_core o ho cs R hA hB hR acc hacc haccR

/-- (convergence) A set of connections `R` that is at rest on both nodes — each node's election
over `R` keeps all of `R` (nothing more will be closed) — and still contains the acceptor's
global choice `acc`, is exactly `[acc]`: both nodes end with the same single physical link. -/
theorem quiescent_set_is_the_single_winner (o : Ordering) (ho : o ≠ .eq) (cs R : List Conn)
    (hA : (cs.map (·.idA)).Nodup) (hB : (cs.map (·.idB)).Nodup) (hR : R.Sublist cs)
    (acc : Conn) (hacc : acc ∈ survivors o cs) (haccR : acc ∈ R)
    (hminA : acc.aInit = false → ∀ c ∈ survivors o cs, acc.idA ≤ c.idA)
    (hminB : acc.aInit = true → ∀ c ∈ survivors o cs, acc.idB ≤ c.idB)
    (hrestA : electA o R = R.map (·.idA)) (hrestB : electB o R = R.map (·.idB)) : R = [acc] := by
  obtain ⟨h1, h2⟩ := winner_survives_every_partial_election o ho cs R hA hB hR acc hacc haccR
  cases hai : acc.aInit
  · obtain ⟨eA, _⟩ := h1 hai (hminA hai)
    rw [hrestA] at eA
    have hl : R.length = 1 := by simpa using congrArg List.length eA
    match R, hl, haccR with
    | [x], _, hm => simp at hm; rw [hm]
  · obtain ⟨eB, _⟩ := h2 hai (hminB hai)
    rw [hrestB] at eB
    have hl : R.length = 1 := by simpa using congrArg List.length eB
    match R, hl, haccR with
    | [x], _, hm => simp at hm; rw [hm]


/-! ### every interleaving of the two nodes' handshakes (`Model/Handshake.lean`) -/

/-- **Both nodes converge on one and the same link, whatever the schedule.** Two nodes with
distinct names, any non-empty set of connections between them (any initiators, any nonces incl.
legacy `0` and repeats). There is ONE connection `acc` — fixed by the connections alone, not by
the schedule — such that for EVERY sequence of steps of the two `NodeServer`s (sessions
authenticating on either node in any order, each followed by that node's election over the
sessions authenticated and open THERE at that moment; `check_candidate` probes of sessions that
have not authenticated yet; either node noticing, at any later time, that the other closed a
connection):

* `acc` is never closed, by either node, at any point of the run;
* whenever the run is at rest (every connection still open somewhere is open and authenticated
  on both nodes), BOTH nodes hold exactly `[acc]`. -/
theorem handshake_converges_on_one_link (o : Ordering) (ho : o ≠ .eq) (cs : List Conn) (hne : cs ≠ [])
    (hA : (cs.map (·.idA)).Nodup) (hB : (cs.map (·.idB)).Nodup) :
    ∃ acc ∈ cs, ∀ ops : List HOp,
      (∀ l ∈ hsRun o cs ops, l.c = acc → l.openA = true ∧ l.openB = true) ∧
      (hsQuiescent (hsRun o cs ops) = true →
        openOnA (hsRun o cs ops) = [acc] ∧ openOnB (hsRun o cs ops) = [acc]) := by
  obtain ⟨acc, hw⟩ := exists_winner o ho cs hne hA hB
  have X : Ctx o cs acc := ⟨ho, hA, hB, hw⟩
  exact ⟨acc, X.mem, fun ops => ⟨(hsRun_inv X ops).accOpen, (hsRun_inv X ops).quiescent X⟩⟩

/-- The winner is the connection the full election picks: a survivor of the direction and nonce
rules with the smallest session id on the accepting node (`IsWinner`), and ANY connection with
that description is kept by every run — so the link the two nodes end up with can be read off
the connections without knowing the schedule. -/
theorem handshake_winner_is_the_elected_one (o : Ordering) (ho : o ≠ .eq) (cs : List Conn)
    (hA : (cs.map (·.idA)).Nodup) (hB : (cs.map (·.idB)).Nodup) (acc : Conn) (hw : IsWinner o cs acc)
    (ops : List HOp) (hq : hsQuiescent (hsRun o cs ops) = true) :
    openOnA (hsRun o cs ops) = [acc] ∧ openOnB (hsRun o cs ops) = [acc] :=
  (hsRun_inv ⟨ho, hA, hB, hw⟩ ops).quiescent ⟨ho, hA, hB, hw⟩ hq


/-- **The handshakes come to rest.** (progress) A state that is not at rest always has a step
that does something; a step that does something strictly decreases the measure `hsMu`
(3 per open end + 1 per open, not yet authenticated end); a step that is not enabled changes
nothing. Hence in EVERY run — any schedule, any repetitions, any number of useless steps — at
most `8 · #connections` steps do anything, and a run in which no enabled step is postponed for
ever reaches a state at rest, where by `handshake_converges_on_one_link` both nodes hold the
same single link. -/
theorem handshake_comes_to_rest (o : Ordering) (cs : List Conn) (ops : List HOp) :
    hsEffective o (hsInit cs) ops ≤ 8 * cs.length ∧
    (∀ w : List Link, hsQuiescent w = false → ∃ op, hsEnabled o w op = true) ∧
    (∀ (w : List Link) (op : HOp), hsEnabled o w op = true → hsMu (hsStep o w op) < hsMu w) ∧
    (∀ (w : List Link) (op : HOp), hsEnabled o w op = false → hsStep o w op = w) := by
  refine ⟨?_, enabled_of_not_quiescent o, hsStep_decreases o, hsStep_of_not_enabled o⟩
  have := effective_bound o ops (hsInit cs)
  rw [hsMu_init] at this
  omega

/-- **Late and repeated dials.** Connections are dialled at ANY time of the run (`DOp.dial`) —
before, between and after the handshakes of the others, also when a link is already up — with
fresh session ids, any initiator and any nonce; all other steps are those of
`handshake_converges_on_one_link`. At EVERY moment of every such run, for the winner `acc` of the
full election over the connections dialled SO FAR (there is one as soon as something was dialled):

* `acc` is open on both nodes (no step taken so far has closed it);
* if the run is at rest, both nodes hold exactly `[acc]`.

So a link that was elected, ready and at rest IS displaced when a later dial wins the election over
the larger set (the example below) — and then both nodes move to the same new link. -/
theorem late_dials_converge (o : Ordering) (ho : o ≠ .eq) (ops : List DOp)
    (hA : ((dials ops).map (·.idA)).Nodup) (hB : ((dials ops).map (·.idB)).Nodup) :
    (dRun o ops).1 = dials ops ∧
    (dials ops ≠ [] → ∃ acc, IsWinner o (dials ops) acc) ∧
    ∀ acc, IsWinner o (dials ops) acc →
      (∀ l ∈ (dRun o ops).2, l.c = acc → l.openA = true ∧ l.openB = true) ∧
      (hsQuiescent (dRun o ops).2 = true →
        openOnA (dRun o ops).2 = [acc] ∧ openOnB (dRun o ops).2 = [acc]) := by
  obtain ⟨h1, ops', h2⟩ := dRun_is_hsRun o ops hA hB
  refine ⟨h1, fun hne => exists_winner o ho _ hne hA hB, ?_⟩
  intro acc hw
  have X : Ctx o (dials ops) acc := ⟨ho, hA, hB, hw⟩
  rw [h2]
  exact ⟨(hsRun_inv X ops').accOpen, (hsRun_inv X ops').quiescent X⟩

/-- displacement of a ready link: c0 (nonce 9) is dialled, authenticates on both nodes, the run is
at rest with `[c0]`; then c1 (same direction, nonce 3) is dialled: after its handshake both nodes
are at rest with `[c1]`. -/
example :
    let c0 : Conn := ⟨false, 9, 10, 20⟩
    let c1 : Conn := ⟨false, 3, 11, 21⟩
    let ops1 : List DOp := [.dial c0, .hs (.authA 10), .hs (.authB 20)]
    let ops2 : List DOp := ops1 ++ [.dial c1, .hs (.preA 11), .hs (.authA 11), .hs (.authB 21), .hs (.seeB 20)]
    hsQuiescent (dRun .gt ops1).2 = true ∧ openOnA (dRun .gt ops1).2 = [c0] ∧ openOnB (dRun .gt ops1).2 = [c0] ∧
    hsQuiescent (dRun .gt ops2).2 = true ∧ openOnA (dRun .gt ops2).2 = [c1] ∧ openOnB (dRun .gt ops2).2 = [c1] := by
  decide

/-- **Never two links, never different links — whatever fails.** Late dials (`FOp.dial`), the
election steps of both nodes (`FOp.hs`) AND either end of any connection going away at any time
for a reason outside the election (`FOp.failA` / `FOp.failB`: transport failure, the session's own
`CheckSession` failing or timing out so that it closes / stops itself), in any order: whenever such
a run is at rest, both nodes hold the SAME connections, and at most ONE. What is lost compared to
`late_dials_converge` is "at least one": if the elected link goes away after its competitors were
closed, both nodes are left with no link until somebody dials again (example below; on the real
code: finding F12, repaired). -/
theorem with_failures_never_two_links (o : Ordering) (ho : o ≠ .eq) (ops : List FOp)
    (hA : ((fDials ops).map (·.idA)).Nodup) (hB : ((fDials ops).map (·.idB)).Nodup)
    (hq : hsQuiescent (fRun o ops) = true) :
    openOnA (fRun o ops) = openOnB (fRun o ops) ∧ (openOnA (fRun o ops)).length ≤ 1 := by
  have I0 : FInv ([] : List Link) := by
    refine ⟨⟨?_, ?_⟩, ⟨?_, ?_⟩⟩ <;> simp [activeA, activeB]
  have I := fRun_aux o ho ops [] I0 (by simpa using hA) (by simpa using hB)
  exact I.atRest hq

/-- what is lost: c0 is up on both nodes; c1 (lower nonce) is dialled and wins on node B, which
closes c0; before node A gets to elect, its end of c1 gives up (`failA`): at rest NO link is left,
although two connections existed — the model of finding F12. With a re-dial the nodes converge again. -/
example :
    let c0 : Conn := ⟨false, 9, 10, 20⟩
    let c1 : Conn := ⟨false, 3, 11, 21⟩
    let c2 : Conn := ⟨true, 5, 12, 22⟩
    let ops : List FOp := [.dial c0, .hs (.authA 10), .hs (.authB 20), .dial c1, .hs (.authB 21),
                           .failA 11, .hs (.seeA 10), .hs (.seeB 21)]
    hsQuiescent (fRun .gt ops) = true ∧ openOnA (fRun .gt ops) = [] ∧ openOnB (fRun .gt ops) = [] ∧
    hsQuiescent (fRun .gt (ops ++ [.dial c2, .hs (.authA 12), .hs (.authB 22)])) = true ∧
    openOnA (fRun .gt (ops ++ [.dial c2, .hs (.authA 12), .hs (.authB 22)])) = [c2] := by
  decide

/-- **At every instant** of every run (late dials, election steps, failing ends — not only after one
`commit` and not only at rest): the sessions a node holds authenticated and open all have ONE direction
and ONE nonce, and on the node that accepted them there is AT MOST ONE. (On the initiating node several
same-nonce dials may stay authenticated until the acceptor's choice closes all but one.) -/
theorem at_every_instant_at_most_one_on_the_acceptor (o : Ordering) (ho : o ≠ .eq) (ops : List FOp)
    (hA : ((fDials ops).map (·.idA)).Nodup) (hB : ((fDials ops).map (·.idB)).Nodup) :
    ((∀ c ∈ activeA (fRun o ops), ∀ c' ∈ activeA (fRun o ops), c.aInit = c'.aInit ∧ nz c.nonce = nz c'.nonce) ∧
     ((∀ c ∈ activeA (fRun o ops), c.aInit = false) → (activeA (fRun o ops)).length ≤ 1)) ∧
    ((∀ c ∈ activeB (fRun o ops), ∀ c' ∈ activeB (fRun o ops), c.aInit = c'.aInit ∧ nz c.nonce = nz c'.nonce) ∧
     ((∀ c ∈ activeB (fRun o ops), c.aInit = true) → (activeB (fRun o ops)).length ≤ 1)) :=
  fRun_inv o ho ops hA hB

/-- **One ready session per peer** (trace theorem). `node_session_ready` events are logged per node
(`ROp.readyA` / `ROp.readyB`: emitted iff `is_elected`), interleaved arbitrarily with late dials,
election steps and failing ends. Whenever the run is at rest: all the sessions reported ready on a
node that are still alive are ONE session, and the live ready sessions of the two nodes are the two
ends of ONE connection — the single link both nodes hold. (Earlier ready events of sessions closed
since — a displaced link — remain in the log; they are not live.) -/
theorem one_live_ready_session_per_peer (o : Ordering) (ho : o ≠ .eq) (ops : List ROp)
    (hA : ((fDials (rProj ops)).map (·.idA)).Nodup) (hB : ((fDials (rProj ops)).map (·.idB)).Nodup)
    (hq : hsQuiescent (rRun o ops).w = true) :
    ∀ a ∈ liveReadyA (rRun o ops), ∀ b ∈ liveReadyB (rRun o ops),
      ∃ c, openOnA (rRun o ops).w = [c] ∧ openOnB (rRun o ops).w = [c] ∧ a = c.idA ∧ b = c.idB := by
  have hw := rRun_w o ops
  have hq' : hsQuiescent (fRun o (rProj ops)) = true := by rw [← hw]; exact hq
  obtain ⟨hAB, hlen⟩ := with_failures_never_two_links o ho (rProj ops) hA hB hq'
  rw [← hw] at hAB hlen
  intro a ha b hb
  simp only [liveReadyA, liveReadyB, List.mem_filter, List.any_eq_true, Bool.and_eq_true, beq_iff_eq] at ha hb
  obtain ⟨_, l, hl, hla, hlo⟩ := ha
  obtain ⟨_, l', hl', hlb, hlo'⟩ := hb
  have h1 : l.c ∈ openOnA (rRun o ops).w := List.mem_map.mpr ⟨l, List.mem_filter.mpr ⟨hl, hlo⟩, rfl⟩
  have h2 : l'.c ∈ openOnB (rRun o ops).w := List.mem_map.mpr ⟨l', List.mem_filter.mpr ⟨hl', hlo'⟩, rfl⟩
  rw [← hAB] at h2
  match hL : openOnA (rRun o ops).w, hlen, h1, h2 with
  | [c], _, h1, h2 =>
    simp only [List.mem_singleton] at h1 h2
    exact ⟨c, rfl, by rw [← hAB, hL], by rw [← hla, h1], by rw [← hlb, h2]⟩
  | [], _, h1, _ => simp at h1
  | _ :: _ :: _, hlen, _, _ => simp at hlen

/-- non-vacuity: c0 comes up and is reported ready on both nodes, c1 (lower nonce) displaces it and is
reported ready: the logs hold two events per node, the live ready session is c1's on both. -/
example :
    let c0 : Conn := ⟨false, 9, 10, 20⟩
    let c1 : Conn := ⟨false, 3, 11, 21⟩
    let s := rRun .gt [.f (.dial c0), .f (.hs (.authA 10)), .f (.hs (.authB 20)), .readyA 10, .readyB 20,
      .f (.dial c1), .f (.hs (.authA 11)), .f (.hs (.authB 21)), .readyA 10, .readyA 11, .readyB 21, .f (.hs (.seeB 20))]
    hsQuiescent s.w = true ∧ s.logA = [10, 11] ∧ s.logB = [20, 21] ∧ liveReadyA s = [11] ∧ liveReadyB s = [21] := by
  decide

/-- (tie of the `authA` step to the `NodeServerState` model that the correspondence run compares
with `node.rs`) `commit_authenticated` on node A's state — one registered session per connection
open on A — elects among exactly the step's `activeA (markA w a)` and names as losers exactly the
sessions the step closes. -/
theorem commit_is_the_auth_step (nameA nameB : String) (w : List Link) (a : Nat)
    (h : pendingA w a = true) :
    ∃ st', (nsOfA nameA nameB w).commit a =
      some (st', (electA (nameOrd nameB nameA) (activeA (markA w a))).contains a,
        ((markA w a).filter (fun l => l.authA && l.openA &&
          !(electA (nameOrd nameB nameA) (activeA (markA w a))).contains l.c.idA)).map (·.c.idA)) :=
  commit_is_stepAuthA nameA nameB w a h

/-- (tie of the `preA` step) `check_candidate` tells a session that has not authenticated yet
that another connection continues exactly when the step closes it. -/
theorem check_candidate_is_the_pre_step (nameA nameB : String) (w : List Link) (a : Nat)
    (hnd : ((w.map (·.c)).map (·.idA)).Nodup) (h : pendingA w a = true) :
    ((nsOfA nameA nameB w).checkCandidate a = .otherContinues) ↔
      (electA (nameOrd nameB nameA) (candA w a)).contains a = false :=
  checkCandidate_is_stepPreA nameA nameB w a hnd h

/-- (the two nodes compare the names the other way round) `peer_name.cmp(this_node_name)` on node B
is the swap of node A's comparison, and it is `Equal` only for equal names — the facts behind
`electB o = elect o.swap ∘ viewB` and the hypothesis `o ≠ .eq` ("distinct node names") of the
convergence theorems. -/
theorem name_order_is_antisymmetric (a b : String) :
    nameOrd a b = (nameOrd b a).swap ∧ (nameOrd a b = .eq ↔ a = b) :=
  ⟨nameOrd_swap a b, nameOrd_eq_iff a b⟩

/-- (B-side tie of the `authB` step) `commit_authenticated` on node B's `NodeServerState` — its own
name `nameB`, peer `nameA`, one registered session per connection open on B — elects with B's own
comparison `nameOrd nameA nameB`, which is exactly the step's `electB (nameOrd nameB nameA)`, and
names as losers exactly the sessions the step closes. -/
theorem commit_is_the_auth_step_on_B (nameA nameB : String) (w : List Link) (b : Nat)
    (h : pendingB w b = true) :
    ∃ st', (nsOfB nameB nameA w).commit b =
      some (st', (electB (nameOrd nameB nameA) (activeB (markB w b))).contains b,
        ((markB w b).filter (fun l => l.authB && l.openB &&
          !(electB (nameOrd nameB nameA) (activeB (markB w b))).contains l.c.idB)).map (·.c.idB)) :=
  commit_is_stepAuthB nameB nameA w b h

/-- (B-side tie of the `preB` step) -/
theorem check_candidate_is_the_pre_step_on_B (nameA nameB : String) (w : List Link) (b : Nat)
    (hnd : ((w.map (·.c)).map (·.idB)).Nodup) (h : pendingB w b = true) :
    ((nsOfB nameB nameA w).checkCandidate b = .otherContinues) ↔
      (electB (nameOrd nameB nameA) (candB w b)).contains b = false :=
  checkCandidate_is_stepPreB nameB nameA w b hnd h

/-- (the pre-authentication check as the session performs it) The session calls `CheckSession` with the
peer's name and its own nonce, not `check_candidate`. On either node's state in the handshake world
that call answers `check_candidate` of the one session carrying that nonce — the `preA` / `preB` step,
by `check_candidate_is_the_pre_step{,_on_B}` — and `NoOtherConnection` (carry on) when several open
sessions share the nonce (legacy 0, repeated nonces). So the step the code takes (`stepPreSA` /
`stepPreSB`, compared with the real `check_session` by the `hpsA` / `hpsB` ops) is a `pre` step or
nothing, and every theorem about `hsStep` runs covers it. -/
theorem check_session_is_the_pre_step_or_nothing (nameA nameB : String) (o : Ordering) (w : List Link) (n x : Nat) :
    ((∀ a, matchA w n = [a] →
        (nsOfA nameA nameB w).checkSession nameB n = (nsOfA nameA nameB w).checkCandidate a) ∧
     (2 ≤ (matchA w n).length → (nsOfA nameA nameB w).checkSession nameB n = .noOther)) ∧
    ((∀ b, matchB w n = [b] →
        (nsOfB nameB nameA w).checkSession nameA n = (nsOfB nameB nameA w).checkCandidate b) ∧
     (2 ≤ (matchB w n).length → (nsOfB nameB nameA w).checkSession nameA n = .noOther)) ∧
    (stepPreSA o w x = stepPreA o w x ∨ stepPreSA o w x = w) ∧
    (stepPreSB o w x = stepPreB o w x ∨ stepPreSB o w x = w) :=
  ⟨checkSession_nsOfA nameA nameB w n, checkSession_nsOfB nameA nameB w n,
   stepPreSA_cases o w x, stepPreSB_cases o w x⟩

/-- Non-vacuity: three connections (both nodes dialled, one legacy nonce); node B authenticates
everything first, node A last, closes are noticed late — the run comes to rest with one link,
and a different schedule comes to rest with the same link. -/
example :
    let cs : List Conn := [⟨true, 5, 10, 20⟩, ⟨false, 3, 11, 21⟩, ⟨false, 0, 12, 22⟩]
    let run1 := hsRun .lt cs [.authB 20, .authB 21, .authB 22, .authA 12, .authA 11, .authA 10,
      .seeA 10, .seeA 11, .seeA 12, .seeB 20, .seeB 21, .seeB 22]
    let run2 := hsRun .lt cs [.authA 11, .preA 12, .authB 21, .preB 22, .authA 10, .authB 20, .authA 12, .authB 22,
      .seeB 20, .seeB 21, .seeB 22, .seeA 10, .seeA 11, .seeA 12]
    hsQuiescent run1 = true ∧ hsQuiescent run2 = true ∧
    openOnA run1 = openOnB run1 ∧ openOnA run1 = openOnA run2 ∧ (openOnA run1).length = 1 := by
  decide

/-! ### `NodeServerState`: unauthenticated sessions cannot displace or veto -/

/-- (non-interference, commit) Whatever name, direction and nonce an UNAUTHENTICATED session
`u` claims, and wherever it sits in the session table, `commit_authenticated(id)` for
another session elects the same survivor flag and closes the same losers as if `u` did not
exist. -/
theorem unauthenticated_cannot_influence_commit (thisName : String) (l1 l2 : List Session)
    (u : Session) (id : Nat) (hu : u.auth = false) (hid : u.id ≠ id) :
    ((NS.mk thisName (l1 ++ u :: l2)).commit id).map (fun r => (r.2.1, r.2.2)) =
      ((NS.mk thisName (l1 ++ l2)).commit id).map (fun r => (r.2.1, r.2.2)) :=
  commit_insert thisName l1 l2 u id hu hid

/-- (non-interference, status reply) …nor the reply `check_candidate` gives to another session. -/
theorem unauthenticated_cannot_influence_check (thisName : String) (l1 l2 : List Session)
    (u : Session) (id : Nat) (hu : u.auth = false) (hid : u.id ≠ id) :
    (NS.mk thisName (l1 ++ u :: l2)).checkCandidate id =
      (NS.mk thisName (l1 ++ l2)).checkCandidate id :=
  checkCandidate_insert thisName l1 l2 u id hu hid

/-- (non-interference, ready) …nor whether another session is reported ready (`is_elected`). -/
theorem unauthenticated_cannot_influence_ready (thisName : String) (l1 l2 : List Session)
    (u : Session) (id : Nat) (hu : u.auth = false) (hid : u.id ≠ id) :
    (NS.mk thisName (l1 ++ u :: l2)).isElected id = (NS.mk thisName (l1 ++ l2)).isElected id :=
  isElected_insert thisName l1 l2 u id hu hid

/-- (non-interference, the function the sessions call) `check_candidate` is not what a session
asks: it asks `CheckSession` with its peer's name and its own nonce (`check_session`), which
first looks for the sessions registered under that (name, nonce) — authenticated or not. For an
asker `s` (registered, wire-valid nonce) and ANY unauthenticated other session `u`: the reply with
`u` in the table is the reply without `u`, or `NoOtherConnection`; and it IS the reply without `u`
unless `u` claims exactly the asker's (name, nonce). Equality does NOT hold in general (example
below): a spoofer that shares (name, nonce 0) turns `OtherConnectionContinues` into
`NoOtherConnection`. -/
theorem unauthenticated_can_only_let_continue (thisName : String) (l1 l2 : List Session) (u s : Session)
    (peer : String) (hu : u.auth = false) (hs : s ∈ l1 ++ l2) (hp : s.peerName = some peer)
    (hw : s.conn ≠ some 0) (hid : ∀ x ∈ l1 ++ l2, x.id ≠ u.id) :
    ((NS.mk thisName (l1 ++ u :: l2)).checkSession peer (s.conn.getD 0) =
        (NS.mk thisName (l1 ++ l2)).checkSession peer (s.conn.getD 0) ∨
     (NS.mk thisName (l1 ++ u :: l2)).checkSession peer (s.conn.getD 0) = .noOther) ∧
    ((u.peerName == some peer && u.conn == (if s.conn.getD 0 == 0 then none else some (s.conn.getD 0))) = false →
     (NS.mk thisName (l1 ++ u :: l2)).checkSession peer (s.conn.getD 0) =
        (NS.mk thisName (l1 ++ l2)).checkSession peer (s.conn.getD 0)) :=
  checkSession_insert thisName l1 l2 u s peer hu hs hp hw hid

/-- (no veto) Consequently an unauthenticated session can never make `CheckSession` tell another
session to stop: a reply that lets the asker continue without the spoofer lets it continue with it. -/
theorem unauthenticated_cannot_veto_check_session (thisName : String) (l1 l2 : List Session) (u s : Session)
    (peer : String) (hu : u.auth = false) (hs : s ∈ l1 ++ l2) (hp : s.peerName = some peer)
    (hw : s.conn ≠ some 0) (hid : ∀ x ∈ l1 ++ l2, x.id ≠ u.id)
    (hc : ((NS.mk thisName (l1 ++ l2)).checkSession peer (s.conn.getD 0)).continues = true) :
    ((NS.mk thisName (l1 ++ u :: l2)).checkSession peer (s.conn.getD 0)).continues = true := by
  rcases (checkSession_insert thisName l1 l2 u s peer hu hs hp hw hid).1 with h | h
  · rw [h]; exact hc
  · rw [h]; rfl

/-- the flip (the auditor's counter-example, reproduced on the real `NodeServerState` by the
`ni checks` ops): session 1 (legacy nonce, unauthenticated) loses against the authenticated session 2;
a spoofer 3 sharing (name, nonce 0) makes its query ambiguous and the reply `NoOtherConnection`. What
survives among AUTHENTICATED sessions is decided by `commit_authenticated` alone, which the spoofer
cannot influence (`unauthenticated_cannot_influence_commit`). -/
example :
    (NS.mk "b@h" [⟨1, true, some "a@h", none, false⟩, ⟨2, true, some "a@h", some 5, true⟩]).checkSession "a@h" 0
      = .otherContinues ∧
    (NS.mk "b@h" [⟨1, true, some "a@h", none, false⟩, ⟨3, true, some "a@h", none, false⟩,
                  ⟨2, true, some "a@h", some 5, true⟩]).checkSession "a@h" 0 = .noOther := by decide

/-- (session death: the `NodeServer` forgets it) After the `ActorTerminated` / `ActorFailed` arm of
`handle_supervisor_evt` removed a session, nothing of it is left: it is not found, not listed by
`GetSessions`, not a candidate of any election, not elected, and a `check_candidate` for it says
"another connection continues". -/
theorem closed_session_leaves_no_trace (st : NS) (id : Nat) :
    (st.close id).find id = none ∧ id ∉ (st.close id).listed ∧
    (∀ peer b, id ∉ ((st.close id).candidatesFor peer b).map (·.id)) ∧
    (st.close id).isElected id = false ∧ (st.close id).checkCandidate id = .otherContinues :=
  close_no_trace st id

/-- (re-election on reconnection) When every session of `peer` has gone (the link died), a freshly
opened session — either direction, any nonce incl. the legacy 0 — that registers `peer`'s name and
authenticates is elected: `commit_authenticated` lets it survive and closes nobody, `GetSessions`
lists it, `is_elected` holds (it will be reported ready) and its own `CheckSession` answers
`NoOtherConnection`. Sessions of OTHER peers, authenticated or not, are irrelevant. -/
theorem reconnection_is_elected (st : NS) (peer : String) (id : Nat) (srv : Bool) (n : Nat)
    (hnone : ∀ s ∈ st.sessions, s.peerName ≠ some peer) (hfresh : ∀ s ∈ st.sessions, s.id ≠ id) :
    ∃ st2, (((st.opened id srv).register id peer n).1).commit id = some (st2, true, []) ∧
      id ∈ st2.listed ∧ st2.isElected id = true ∧ st2.checkSession peer n = .noOther :=
  reconnect_elected st peer id srv n hnone hfresh

/-- (the link died, the peer reconnects) Take ANY `NodeServerState`; the supervision handler removes
every session that claims `peer`'s name (`closeAll (sessionsOf peer)` — the link and all its
duplicates are gone). A new connection (`ConnectionOpened`, fresh actor id, either direction) that
registers `peer` with any nonce and authenticates is accepted afresh: its commit survives with no
losers, it is listed and elected, and its own `CheckSession` answers `NoOtherConnection` — nothing
of the dead sessions can veto or displace it. (Oracle clause `reconnection-not-accepted-afresh` of
the `fresh` ops, run through the real `handle_supervisor_evt`.) -/
theorem reconnection_is_accepted_afresh (st : NS) (peer : String) (id : Nat) (srv : Bool) (n : Nat)
    (hfresh : ∀ s ∈ st.sessions, s.id ≠ id) :
    ∃ st2, (((((st.closeAll (st.sessionsOf peer)).open id srv).register id peer n).1).commit id
        = some (st2, true, [])) ∧
      id ∈ st2.listed ∧ st2.isElected id = true ∧ st2.checkSession peer n = .noOther := by
  have hs := (closeAll_sessions (st.sessionsOf peer) st).1
  have hnone : ∀ s ∈ (st.closeAll (st.sessionsOf peer)).sessions, s.peerName ≠ some peer := by
    intro s hs' hp
    rw [hs] at hs'
    obtain ⟨hmem, hnot⟩ := List.mem_filter.mp hs'
    have : s.id ∈ st.sessionsOf peer := by
      unfold NS.sessionsOf
      exact List.mem_map.mpr ⟨s, List.mem_filter.mpr ⟨hmem, by simp [hp]⟩, rfl⟩
    simp [this] at hnot
  have hfr : ∀ s ∈ (st.closeAll (st.sessionsOf peer)).sessions, s.id ≠ id := by
    intro s hs'
    rw [hs] at hs'
    exact hfresh s (List.mem_filter.mp hs').1
  exact reconnect_elected (st.closeAll (st.sessionsOf peer)) peer id srv n hnone hfr

/-- (every authenticated loser is stopped by the commit step itself) `commit_authenticated` names the
candidate among the losers whenever the candidate does not survive — so the `ConnectionAuthenticated`
handler, which stops every loser, stops a losing candidate too; the NodeServer does not rely on the
session's own `CheckSession`, which cannot identify the caller when its (name, nonce) is shared
(legacy nonce 0, repeated nonces: `check_session` then answers `NoOtherConnection`). End to end:
engine `e-lts-legacy-peer`, clause `two-live-links-to-one-peer` on the LIVE session actors. -/
theorem losing_candidate_is_stopped_by_the_commit (st : NS) (id : Nat) (st' : NS) (losers : List Nat)
    (h : st.commit id = some (st', false, losers)) : id ∈ losers :=
  commit_loser_includes_candidate st id st' losers h

/-- … and in the two-node handshake model: after the `authA` step every session node A still holds
authenticated and open — the candidate included — is one the election kept. -/
theorem auth_step_keeps_only_the_elected (o : Ordering) (w : List Link) (a : Nat) (h : pendingA w a = true) :
    activeA (stepAuthA o w a) =
      (activeA (markA w a)).filter (fun c => (electA o (activeA (markA w a))).contains c.idA) := by
  unfold stepAuthA
  rw [if_pos h, activeA_closeLosers]

/-- the legacy case: two server-side sessions of one peer with the legacy nonce; the second one
authenticates, loses the tie-break, is named as loser — while its own `CheckSession` says
`NoOtherConnection`. -/
example :
    let st : NS := { thisName := "b@host", sessions :=
      [⟨1, true, some "a@host", none, true⟩, ⟨2, true, some "a@host", none, false⟩] }
    (st.commit 2).map (fun r => (r.2.1, r.2.2)) = some (false, [2]) ∧
    st.checkSession "a@host" 0 = .noOther := by decide

/-- (stability) An elected set re-elects itself: a second election closes nothing more. -/
theorem elected_set_is_stable (o : Ordering) (cs : List Cand) :
    elect o (pipeline o cs) = elect o cs := by
  rw [elect_eq_pipeline, elect_eq_pipeline, pipeline_idem]

/-- (one ready session per peer) After `commit_authenticated`, the authenticated sessions of
that peer are exactly the elected set; on the accepting node (all of them server-side) at
most ONE session of that peer is left authenticated — and only authenticated, elected
sessions are ever reported ready or listed. -/
theorem commit_leaves_elected_set (st : NS) (id : Nat) (s : Session) (peer : String)
    (hnd : (st.sessions.map (·.id)).Nodup) (hf : st.find id = some s) (hp : s.peerName = some peer) :
    ∃ st2 surv losers, st.commit id = some (st2, surv, losers) ∧
      st2.candidatesFor peer true =
        pipeline (nameOrd peer st.thisName) ((st.markAuth id).candidatesFor peer true) ∧
      ((∀ c ∈ st2.candidatesFor peer true, c.isServer = true) →
        (st2.candidatesFor peer true).length ≤ 1) := by
  have hnd1 : ((st.markAuth id).sessions.map (·.id)).Nodup := by
    have : (st.markAuth id).sessions.map (·.id) = st.sessions.map (·.id) := by
      simp only [NS.markAuth, List.map_map]
      apply List.map_congr_left
      intro x _; simp only [Function.comp]; split <;> rfl
    rw [this]; exact hnd
  have hthis : (st.markAuth id).thisName = st.thisName := rfl
  have key := deauth_candidates (st.markAuth id) peer (nameOrd peer st.thisName) hnd1
  refine ⟨(st.markAuth id).deauth ((st.markAuth id).losersOf peer
      (elect (nameOrd peer st.thisName) ((st.markAuth id).candidatesFor peer true))),
    (elect (nameOrd peer st.thisName) ((st.markAuth id).candidatesFor peer true)).contains id,
    (st.markAuth id).losersOf peer (elect (nameOrd peer st.thisName) ((st.markAuth id).candidatesFor peer true)),
    ?_, key, ?_⟩
  · unfold NS.commit; rw [hf]; simp only [hp]
  · intro hall
    rw [key] at hall ⊢
    have hCnd : (((st.markAuth id).candidatesFor peer true).map (·.id)).Nodup := by
      have : ((st.markAuth id).candidatesFor peer true).map (·.id) =
          ((st.markAuth id).sessions.filter (fun s => s.peerName == some peer && (!true || s.auth))).map (·.id) := by
        simp [NS.candidatesFor, Session.toCand, Function.comp_def]
      rw [this]
      exact ((List.filter_sublist).map _).nodup hnd1
    exact pipeline_acceptor_unique _ _ hCnd hall

/-- (the winner is not told to leave) Right after authenticating, a session asks
`CheckSession` with its own (peer name, nonce) and stops itself unless the reply lets it
continue. An authenticated, ELECTED session always gets a reply that lets it continue —
also when several sessions share its (name, nonce) — so the election never leaves a peer
with no connection. -/
theorem elected_session_continues (st : NS) (hnd : (st.sessions.map (·.id)).Nodup)
    (hw : ∀ s ∈ st.sessions, s.conn ≠ some 0) (id : Nat) (hel : st.isElected id = true) :
    ∃ r, st.postAuthReply id = some r ∧ r.continues = true :=
  elected_continues st hnd hw id hel

/-- (every reachable `NodeServerState` is well formed) From the empty table, under any sequence of
`ConnectionOpened` / `UpdateSession` / `ConnectionAuthenticated` / session exits — session actor ids
never reused while in the table —: session ids are distinct and no session carries the nonce
`Some(0)` (`NonZeroU64`). These are the hypotheses `hnd` / `hw` of `elected_session_continues`, so
that theorem holds in every reachable state: an authenticated, elected session is never told to stop. -/
theorem reachable_states_are_well_formed (thisName : String) (ops : List NSOp)
    (hf : nsFresh { thisName := thisName, sessions := [] } ops) :
    ((nsRun thisName ops).sessions.map (·.id)).Nodup ∧ (∀ s ∈ (nsRun thisName ops).sessions, s.conn ≠ some 0) ∧
    ∀ id, (nsRun thisName ops).isElected id = true →
      ∃ r, (nsRun thisName ops).postAuthReply id = some r ∧ r.continues = true := by
  have h := nsRun_wf_aux ops { thisName := thisName, sessions := [] } ⟨by simp, by simp⟩ hf
  exact ⟨h.1, h.2, fun id hel => elected_continues _ h.1 h.2 id hel⟩

/-- non-vacuity: a state with an authenticated server-side session, a second server-side
duplicate committing, and an unauthenticated spoofer claiming the same name. -/
def exampleNS : NS :=
  { thisName := "b@h",
    sessions := [⟨1, true, some "a@h", some 7, true⟩, ⟨2, true, some "a@h", some 3, false⟩,
                 ⟨3, true, some "a@h", none, false⟩] }
example : (exampleNS.commit 2).map (fun r => (r.2.1, r.2.2)) = some (true, [1]) := by decide
example : ((exampleNS.commit 2).map (fun r => (r.1.candidatesFor "a@h" true).map (·.id))) = some [2] := by decide

/-! ### Non-vacuity: concrete worlds that satisfy the hypotheses -/

/-- Simultaneous dial plus a repeated legacy dial: 3 connections, names differ. -/
def exampleWorld : List Conn :=
  [⟨true, 19, 1, 4⟩, ⟨false, 7, 2, 3⟩, ⟨false, 0, 5, 6⟩]

example : exampleWorld ≠ [] ∧ (exampleWorld.map (·.idA)).Nodup ∧ (exampleWorld.map (·.idB)).Nodup := by
  decide
example : electA .gt exampleWorld = [2] ∧ electB .gt exampleWorld = [3] := by decide
example : electA .lt exampleWorld = [1] ∧ electB .lt exampleWorld = [4] := by decide
/-- repeated nonce, same direction: the accepting node (A) picks one, B keeps both. -/
example : electA .gt [⟨false, 41, 12, 21⟩, ⟨false, 41, 11, 22⟩] = [11]
    ∧ electB .gt [⟨false, 41, 12, 21⟩, ⟨false, 41, 11, 22⟩] = [21, 22] := by decide


/-! ### Translator tie (rs2lean): kernel-checked equivalence between the definitions that
`extract/rs2lean.py` regenerates from the CURRENT Rust source on every run
(`RactorModel/Generated/*.lean`) and the hand-written model functions the theorems above are
about. A semantic change of the Rust function changes the generated text and these stop checking. -/

section XlateTie
open Generated.Election GenElection

theorem generated_elect_sessions_eq_model (this peer : String) (cs : List SessionElectionCandidate) :
    elect_sessions this peer cs = Election.elect (compare peer this) (cs.map absCand) := by
  unfold elect_sessions Election.elect Election.pipeline
  simp only [List.length_map, decide_eq_true_eq]
  split
  · simp [absCand, Function.comp_def]
  · rw [dir_abs, nonce_abs, tie_abs]
    simp only [List.map_map, Function.comp_def, absCand]
    -- per value of the comparison both sides reduce (robust to a reordering of the `Ordering` arms)
    cases compare peer this <;> rfl

theorem generated_elect_sessions_covers_model (this peer : String) (cs : List Election.Cand) :
    elect_sessions this peer (cs.map concCand) = Election.elect (compare peer this) cs := by
  rw [generated_elect_sessions_eq_model, map_abs_conc]
end XlateTie

/-! ### ready events: the lower bound (wave 2) -/

/-- **The link both nodes hold IS reported ready, on both nodes** (lower bound to
`one_live_ready_session_per_peer`; together: EXACTLY one live ready session per peer). Any run of
late dials, election steps, failing ends and ready steps, in any order. If the run is at rest
(`hsQuiescent`), a connection between the two nodes is still up (`openOnA … ≠ []`: no failure took
the last link) and both `NodeServer`s have been scheduled (`readyQuiescent`: every ready step
enabled now has been taken — the fairness assumption, stated on the state), then there is ONE
connection `c` such that both nodes hold exactly `[c]`, `c`'s session on A is in A's log and live,
`c`'s session on B is in B's log and live, and NO other session is live-ready on either node. The
guard `is_elected` of the ready step is not assumed to hold for `c`: it is derived (at rest the
authenticated open sessions are `[c]`, and a single candidate is elected). -/
theorem the_link_is_reported_ready_on_both_nodes (o : Ordering) (ho : o ≠ .eq) (ops : List ROp)
    (hA : ((fDials (rProj ops)).map (·.idA)).Nodup) (hB : ((fDials (rProj ops)).map (·.idB)).Nodup)
    (hq : hsQuiescent (rRun o ops).w = true)
    (hr : readyQuiescent o (rRun o ops) = true)
    (hup : openOnA (rRun o ops).w ≠ []) :
    ∃ c, openOnA (rRun o ops).w = [c] ∧ openOnB (rRun o ops).w = [c] ∧
      c.idA ∈ liveReadyA (rRun o ops) ∧ c.idB ∈ liveReadyB (rRun o ops) ∧
      (∀ a ∈ liveReadyA (rRun o ops), a = c.idA) ∧ (∀ b ∈ liveReadyB (rRun o ops), b = c.idB) := by
  have hw := rRun_w o ops
  have hq' : hsQuiescent (fRun o (rProj ops)) = true := by rw [← hw]; exact hq
  obtain ⟨hAB, hlen⟩ := with_failures_never_two_links o ho (rProj ops) hA hB hq'
  rw [← hw] at hAB hlen
  match hL : openOnA (rRun o ops).w, hlen, hup with
  | [c], _, _ =>
    have hLB : openOnB (rRun o ops).w = [c] := by rw [← hAB, hL]
    obtain ⟨h1, h2⟩ := ready_reported_at_rest o (rRun o ops) c hq hr hL hLB
    refine ⟨c, rfl, hLB, h1, h2, ?_, ?_⟩
    · intro a ha
      obtain ⟨c', hc', rfl⟩ := liveReadyA_open _ a ha
      rw [hL] at hc'; simp only [List.mem_singleton] at hc'; rw [hc']
    · intro b hb
      obtain ⟨c', hc', rfl⟩ := liveReadyB_open _ b hb
      rw [hLB] at hc'; simp only [List.mem_singleton] at hc'; rw [hc']
  | [], _, hup => exact absurd rfl hup
  | _ :: _ :: _, hlen, _ => simp at hlen

/-- The same as lists: at rest, with a link up and both nodes scheduled, the DISTINCT live ready
sessions of each node are exactly one — the end of the single link (the raw log may repeat it:
a `NodeServer` that handles `ConnectionReady` twice reports twice). -/
theorem exactly_one_live_ready_session_per_peer (o : Ordering) (ho : o ≠ .eq) (ops : List ROp)
    (hA : ((fDials (rProj ops)).map (·.idA)).Nodup) (hB : ((fDials (rProj ops)).map (·.idB)).Nodup)
    (hq : hsQuiescent (rRun o ops).w = true)
    (hr : readyQuiescent o (rRun o ops) = true)
    (hup : openOnA (rRun o ops).w ≠ []) :
    ∃ c, openOnA (rRun o ops).w = [c] ∧ openOnB (rRun o ops).w = [c] ∧
      (liveReadyA (rRun o ops)).eraseDups = [c.idA] ∧ (liveReadyB (rRun o ops)).eraseDups = [c.idB] := by
  obtain ⟨c, h1, h2, h3, h4, h5, h6⟩ := the_link_is_reported_ready_on_both_nodes o ho ops hA hB hq hr hup
  exact ⟨c, h1, h2, eraseDups_all_eq h3 h5, eraseDups_all_eq h4 h6⟩

/-- **Without failures the premise "a link is up" is a theorem.** A run of late dials, election
steps and ready steps only (no `failA` / `failB`), at least one dial: at rest, once both nodes have
been scheduled, the winner `acc` of the full election over the connections dialled so far is the
link both nodes hold, and it is the one and only live ready session on each node. -/
theorem without_failures_the_winner_is_reported_ready (o : Ordering) (ho : o ≠ .eq) (ops : List ROp)
    (hnf : ∀ op ∈ ops, op.noFail = true) (hne : fDials (rProj ops) ≠ [])
    (hA : ((fDials (rProj ops)).map (·.idA)).Nodup) (hB : ((fDials (rProj ops)).map (·.idB)).Nodup)
    (hq : hsQuiescent (rRun o ops).w = true)
    (hr : readyQuiescent o (rRun o ops) = true) :
    ∃ acc, IsWinner o (fDials (rProj ops)) acc ∧
      openOnA (rRun o ops).w = [acc] ∧ openOnB (rRun o ops).w = [acc] ∧
      acc.idA ∈ liveReadyA (rRun o ops) ∧ acc.idB ∈ liveReadyB (rRun o ops) ∧
      (∀ a ∈ liveReadyA (rRun o ops), a = acc.idA) ∧ (∀ b ∈ liveReadyB (rRun o ops), b = acc.idB) := by
  have hd := dials_rToD ops
  have hwd := rRun_noFail o ops hnf
  obtain ⟨_, hex, hall⟩ := late_dials_converge o ho (rToD ops) (by rw [hd]; exact hA) (by rw [hd]; exact hB)
  rw [hd] at hex hall
  obtain ⟨acc, hacc⟩ := hex hne
  obtain ⟨_, hrest⟩ := hall acc hacc
  rw [← hwd] at hrest
  obtain ⟨eA, eB⟩ := hrest hq
  obtain ⟨c, h1, h2, h3, h4, h5, h6⟩ :=
    the_link_is_reported_ready_on_both_nodes o ho ops hA hB hq hr (by rw [eA]; simp)
  have : c = acc := by rw [eA] at h1; simpa using h1.symm
  subst this
  exact ⟨c, hacc, h1, h2, h3, h4, h5, h6⟩

/-- non-vacuity of the lower bound (all hypotheses hold on a concrete run, with a displaced link and a
failing end that does not hit the winner), and necessity of the fairness hypothesis: the same run
without node B's last ready step is at rest with the link up, and B has no live ready session. -/
example :
    let c0 : Conn := ⟨false, 9, 10, 20⟩
    let c1 : Conn := ⟨false, 3, 11, 21⟩
    let pre : List ROp := [.f (.dial c0), .f (.hs (.authA 10)), .f (.hs (.authB 20)), .readyA 10, .readyB 20,
      .f (.dial c1), .f (.hs (.authA 11)), .f (.hs (.authB 21)), .f (.failA 10), .readyA 10, .readyA 11,
      .f (.hs (.seeB 20))]
    let s := rRun .gt (pre ++ [.readyB 21])
    let s' := rRun .gt pre
    (hsQuiescent s.w = true ∧ readyQuiescent .gt s = true ∧ openOnA s.w = [c1] ∧
      liveReadyA s = [11] ∧ liveReadyB s = [21] ∧ s.logA = [10, 11] ∧ s.logB = [20, 21]) ∧
    (hsQuiescent s'.w = true ∧ readyQuiescent .gt s' = false ∧ openOnA s'.w = [c1] ∧ liveReadyB s' = []) := by
  decide

/-- … and of the failure-free corollary -/
example :
    let c0 : Conn := ⟨false, 9, 10, 20⟩
    let c1 : Conn := ⟨true, 3, 11, 21⟩
    let ops : List ROp := [.f (.dial c0), .f (.dial c1), .f (.hs (.authA 10)), .f (.hs (.authB 20)),
      .f (.hs (.authA 11)), .f (.hs (.authB 21)), .f (.hs (.seeB 21)), .readyA 10, .readyA 11, .readyB 20, .readyB 21]
    ops.all ROp.noFail = true ∧ hsQuiescent (rRun .gt ops).w = true ∧ readyQuiescent .gt (rRun .gt ops) = true ∧
    openOnA (rRun .gt ops).w = [c0] ∧ liveReadyA (rRun .gt ops) = [10] ∧ liveReadyB (rRun .gt ops) = [20] := by
  decide

/-! ### failures that spare the winner (wave 2) -/

/-- **"At least one" is regained when no failure hits the winner.** Late dials, election steps and
failing ends in any order (`fRun`), `acc` the winner of the full election over ALL connections the run
dials, and no `failA acc.idA` / `failB acc.idB` anywhere in the run (every other end may fail at any
time, before or after `acc` is dialled): no step of the run closes `acc`, and whenever the run is at
rest both nodes hold exactly `[acc]`. (`with_failures_never_two_links` allows every failure and only
gives "the same, at most one".) -/
theorem failures_that_spare_the_winner_keep_the_link (o : Ordering) (ho : o ≠ .eq) (ops : List FOp)
    (hA : ((fDials ops).map (·.idA)).Nodup) (hB : ((fDials ops).map (·.idB)).Nodup)
    (acc : Conn) (hw : IsWinner o (fDials ops) acc) (hsp : ∀ op ∈ ops, op.spares acc = true) :
    (∀ l ∈ fRun o ops, l.c = acc → l.openA = true ∧ l.openB = true) ∧
    (hsQuiescent (fRun o ops) = true → openOnA (fRun o ops) = [acc] ∧ openOnB (fRun o ops) = [acc]) := by
  have X : Ctx o (fDials ops) acc := ⟨ho, hA, hB, hw⟩
  have I := fRun_spares_inv o ops acc X hsp
  exact ⟨I.accOpen, I.quiescent X⟩

/-- **The link is reported ready whenever no failure hits the winner** (lower bound with failures,
run-level premise instead of "a link is up"). Late dials, election steps, failing ends that spare the
winner `acc` of the election over all dials, and ready steps, in any order: at rest both nodes hold
exactly `[acc]`, and once both `NodeServer`s have been scheduled (`readyQuiescent`) `acc`'s sessions
are the one and only live ready session on each node. -/
theorem winner_spared_by_failures_is_reported_ready (o : Ordering) (ho : o ≠ .eq) (ops : List ROp)
    (hA : ((fDials (rProj ops)).map (·.idA)).Nodup) (hB : ((fDials (rProj ops)).map (·.idB)).Nodup)
    (acc : Conn) (hw : IsWinner o (fDials (rProj ops)) acc) (hsp : ∀ op ∈ ops, op.spares acc = true)
    (hq : hsQuiescent (rRun o ops).w = true) :
    openOnA (rRun o ops).w = [acc] ∧ openOnB (rRun o ops).w = [acc] ∧
    (readyQuiescent o (rRun o ops) = true →
      acc.idA ∈ liveReadyA (rRun o ops) ∧ acc.idB ∈ liveReadyB (rRun o ops) ∧
      (∀ a ∈ liveReadyA (rRun o ops), a = acc.idA) ∧ (∀ b ∈ liveReadyB (rRun o ops), b = acc.idB)) := by
  have hwd := rRun_w o ops
  obtain ⟨_, hrest⟩ := failures_that_spare_the_winner_keep_the_link o ho (rProj ops) hA hB acc hw
    (rProj_spares acc ops hsp)
  rw [← hwd] at hrest
  obtain ⟨eA, eB⟩ := hrest hq
  refine ⟨eA, eB, fun hr => ?_⟩
  obtain ⟨c, h1, _, h3, h4, h5, h6⟩ :=
    the_link_is_reported_ready_on_both_nodes o ho ops hA hB hq hr (by rw [eA]; simp)
  have : c = acc := by rw [eA] at h1; simpa using h1.symm
  subst this
  exact ⟨h3, h4, h5, h6⟩

/-- non-vacuity: the run of the example above — c1 (nonce 3) wins over c0 (nonce 9); `failA 10` hits
c0 only, so every op spares c1 -/
example :
    let c0 : Conn := ⟨false, 9, 10, 20⟩
    let c1 : Conn := ⟨false, 3, 11, 21⟩
    let ops : List ROp := [.f (.dial c0), .f (.hs (.authA 10)), .f (.hs (.authB 20)), .readyA 10, .readyB 20,
      .f (.dial c1), .f (.hs (.authA 11)), .f (.hs (.authB 21)), .f (.failA 10), .readyA 10, .readyA 11,
      .f (.hs (.seeB 20)), .readyB 21]
    ops.all (ROp.spares c1) = true ∧ fDials (rProj ops) = [c0, c1] ∧
    hsQuiescent (rRun .gt ops).w = true ∧ readyQuiescent .gt (rRun .gt ops) = true ∧
    openOnA (rRun .gt ops).w = [c1] ∧ liveReadyA (rRun .gt ops) = [11] ∧ liveReadyB (rRun .gt ops) = [21] := by
  decide

/-! ### lingering `node_sessions` entries (wave 2, `Model/HandshakeLinger.lean`) -/

/-- **Safety does not depend on when the dead entries are removed.** Runs in which a closed session's
`node_sessions` entry LINGERS until the node handles its `ActorTerminated` (`LOp.reapA/reapB`, at any
later time or never) and in which the sessions' pre-authentication `CheckSession` is answered from the
real table — lookup by (name, nonce) over open AND lingering entries (`LOp.preSA/preSB`) — together
with late dials, election steps and failing ends: such a run moves the world exactly like some run of
`fStep` over the same dials (the real-table pre-check is the `preA` step or nothing), hence at rest
both nodes hold the same connections and at most one. -/
theorem lingering_entries_never_two_links (o : Ordering) (ho : o ≠ .eq) (ops : List LOp)
    (hA : ((lDials ops).map (·.idA)).Nodup) (hB : ((lDials ops).map (·.idB)).Nodup) :
    (∃ fops : List FOp, (lRun o ops).w = fRun o fops ∧ fDials fops = lDials ops) ∧
    (hsQuiescent (lRun o ops).w = true →
      openOnA (lRun o ops).w = openOnB (lRun o ops).w ∧ (openOnA (lRun o ops).w).length ≤ 1) := by
  obtain ⟨fops, h1, h2⟩ := lRun_is_fRun o ops
  refine ⟨⟨fops, h1, h2⟩, fun hq => ?_⟩
  rw [h1] at hq ⊢
  exact with_failures_never_two_links o ho fops (by rw [h2]; exact hA) (by rw [h2]; exact hB) hq

/-- **With wire-valid, pairwise distinct nonces the lingering entries are invisible.** At every
moment of every such run whose dials carry non-zero, pairwise distinct nonces: the pre-check of an OPEN
session answered from the real table (lingering entries included) is the pre-check of
`Model/Handshake.lean` (`stepPreSA` / `stepPreSB`, closed sessions dropped at once) — whatever has
been reaped or not. -/
theorem lingering_entries_are_invisible_with_unique_nonces (o : Ordering) (ops : List LOp)
    (hnz : ∀ c ∈ lDials ops, c.nonce ≠ 0) (hnd : ((lDials ops).map (·.nonce)).Nodup) :
    (∀ a, (∀ l ∈ (lRun o ops).w, l.c.idA = a → l.openA = true) →
      stepPreLA o (lRun o ops) a = stepPreSA o (lRun o ops).w a) ∧
    (∀ b, (∀ l ∈ (lRun o ops).w, l.c.idB = b → l.openB = true) →
      stepPreLB o (lRun o ops) b = stepPreSB o (lRun o ops).w b) := by
  obtain ⟨fops, h1, h2⟩ := lRun_is_fRun o ops
  have hc : (lRun o ops).w.map (·.c) = lDials ops := by rw [h1, fRun_conns, h2]
  have hnz' : ∀ l ∈ (lRun o ops).w, l.c.nonce ≠ 0 := fun l hl =>
    hnz l.c (by rw [← hc]; exact List.mem_map.mpr ⟨l, hl, rfl⟩)
  have hnd' : ((lRun o ops).w.map (fun l => l.c.nonce)).Nodup := by
    have : (lRun o ops).w.map (fun l => l.c.nonce) = ((lRun o ops).w.map (·.c)).map (·.nonce) := by
      rw [List.map_map]; rfl
    rw [this, hc]; exact hnd
  exact ⟨fun a h => stepPreLA_unique_nonces o _ a hnz' hnd' h,
         fun b h => stepPreLB_unique_nonces o _ b hnz' hnd' h⟩

/-- **`check_session` and the lingering entries, on the `NodeServerState`.** Node A's real table
(`nsOfLA`: an entry per open session and per closed, not yet reaped one — the latter not in
`authenticated_sessions`) against the table of the handshake model (`nsOfA`: open sessions only), any
state, any query nonce `n`:

* the lingering entries are never election candidates;
* `check_candidate` of an open session answers the same on both tables;
* if no lingering entry carries the nonce `n`, `check_session(nameB, n)` answers the same on both;
* if it differs at all it is because the lookup became ambiguous, and then the reply on the real table
  is `NoOtherConnection` — a lingering entry can let a session continue, never stop one;
* once everything closed has been reaped the lookups coincide. -/
theorem check_session_sees_lingering_entries_only_through_their_nonce (nameA nameB : String) (s : LState)
    (hnd : ((s.w.map (·.c)).map (·.idA)).Nodup) (n : Nat) :
    (∀ peer, (nsOfLA nameA nameB s).candidatesFor peer true = (nsOfA nameA nameB s.w).candidatesFor peer true) ∧
    (∀ l ∈ s.w, l.openA = true →
      (nsOfLA nameA nameB s).checkCandidate l.c.idA = (nsOfA nameA nameB s.w).checkCandidate l.c.idA) ∧
    ((∀ k ∈ s.w, s.lingersA k = true → nz k.c.nonce ≠ nz n) →
      (nsOfLA nameA nameB s).checkSession nameB n = (nsOfA nameA nameB s.w).checkSession nameB n) ∧
    ((nsOfLA nameA nameB s).matching nameB n = matchLA s n ∧
      (2 ≤ (matchLA s n).length → (nsOfLA nameA nameB s).checkSession nameB n = .noOther)) ∧
    (s.lingeringA = [] → matchLA s n = matchA s.w n) :=
  ⟨nsOfLA_candidates nameA nameB s, fun l hl ho => checkCandidate_nsOfLA nameA nameB s hnd l hl ho,
   checkSession_nsOfLA nameA nameB s n hnd,
   ⟨nsOfLA_matching nameA nameB s n, checkSession_nsOfLA_ambiguous nameA nameB s n⟩,
   matchLA_all_reaped s n⟩

/-- the legacy-nonce window: `cl` (nonce 0) was closed on A and its entry lingers; `cw` (nonce 5) is up
on A; `ca` (nonce 0) asks `CheckSession` before authenticating. On the real table the lookup finds
`[10, 13]` — ambiguous, `NoOtherConnection`, `ca` carries on; after `reapA 10` (and in
`Model/Handshake.lean`) the lookup finds `[13]`, `check_candidate` says another connection continues
and `ca` is closed at once. Either way `ca` does not survive its own `commit_authenticated`. -/
example :
    let cl : Conn := ⟨false, 0, 10, 20⟩
    let cw : Conn := ⟨false, 5, 12, 22⟩
    let ca : Conn := ⟨false, 0, 13, 23⟩
    let pre : List LOp := [.f (.dial cl), .f (.failA 10), .f (.dial cw), .f (.hs (.authA 12)), .f (.dial ca)]
    let s := lRun .gt pre
    (s.lingeringA = [10] ∧ matchLA s 0 = [10, 13] ∧ matchA s.w 0 = [13]) ∧
    (stepPreLA .gt s 13 = s.w ∧ openOnA (stepPreLA .gt s 13) = [cw, ca]) ∧
    (openOnA (stepPreSA .gt s.w 13) = [cw]) ∧
    (openOnA (lRun .gt (pre ++ [.reapA 10, .preSA 13])).w = [cw]) ∧
    (openOnA (lRun .gt (pre ++ [.preSA 13, .f (.hs (.authA 13))])).w = [cw]) ∧
    ((nsOfLA "a@h" "b@h" s).checkSession "b@h" 0 = .noOther ∧
     (nsOfA "a@h" "b@h" s.w).checkSession "b@h" 0 = .otherContinues) := by
  decide

end C18

#print axioms C18.elect_order_independent
#print axioms C18.elect_subset
#print axioms C18.elect_nonempty
#print axioms C18.agreement
#print axioms C18.worldOk_model
#print axioms C18.survivors_spec
#print axioms C18.unique_survivor
#print axioms C18.survivor_stable
#print axioms C18.winner_survives_every_partial_election
#print axioms C18.quiescent_set_is_the_single_winner
#print axioms C18.handshake_converges_on_one_link
#print axioms C18.handshake_winner_is_the_elected_one
#print axioms C18.handshake_comes_to_rest
#print axioms C18.late_dials_converge
#print axioms C18.with_failures_never_two_links
#print axioms C18.at_every_instant_at_most_one_on_the_acceptor
#print axioms C18.one_live_ready_session_per_peer
#print axioms C18.commit_is_the_auth_step
#print axioms C18.check_candidate_is_the_pre_step
#print axioms C18.name_order_is_antisymmetric
#print axioms C18.commit_is_the_auth_step_on_B
#print axioms C18.check_candidate_is_the_pre_step_on_B
#print axioms C18.check_session_is_the_pre_step_or_nothing
#print axioms C18.unauthenticated_cannot_influence_commit
#print axioms C18.unauthenticated_cannot_influence_check
#print axioms C18.unauthenticated_cannot_influence_ready
#print axioms C18.unauthenticated_can_only_let_continue
#print axioms C18.unauthenticated_cannot_veto_check_session
#print axioms C18.losing_candidate_is_stopped_by_the_commit
#print axioms C18.auth_step_keeps_only_the_elected
#print axioms C18.closed_session_leaves_no_trace
#print axioms C18.reconnection_is_elected
#print axioms C18.reconnection_is_accepted_afresh
#print axioms C18.elected_set_is_stable
#print axioms C18.commit_leaves_elected_set
#print axioms C18.reachable_states_are_well_formed
#print axioms C18.elected_session_continues
-- rs2lean tie
#print axioms C18.generated_elect_sessions_eq_model
#print axioms C18.generated_elect_sessions_covers_model
-- ready events, lower bound (wave 2)
#print axioms C18.the_link_is_reported_ready_on_both_nodes
#print axioms C18.exactly_one_live_ready_session_per_peer
#print axioms C18.without_failures_the_winner_is_reported_ready
#print axioms C18.failures_that_spare_the_winner_keep_the_link
#print axioms C18.winner_spared_by_failures_is_reported_ready
-- lingering node_sessions entries (wave 2)
#print axioms C18.lingering_entries_never_two_links
#print axioms C18.lingering_entries_are_invisible_with_unique_nonces
#print axioms C18.check_session_sees_lingering_entries_only_through_their_nonce
