#!/usr/bin/env python3
"""
rs2lean: translate a RESTRICTED subset of Rust (selected pure functions of the ractor
repository) into Lean 4 definitions, regenerated from the CURRENT sources on every run.

    lean/RactorModel/Generated/<Area>.lean      (generated, git-ignored like Extracted.lean)

`Props/Cxx.lean` proves `Generated.<Area>.f = Model.f` (through an explicit abstraction function
where the shapes differ), so a semantic change of one of these Rust functions changes the
generated text and the kernel-checked equivalence stops checking on the next run.

The translator is a hand-written tokenizer + recursive-descent parser + a syntax-directed
emitter; which functions are translated and how foreign names (library calls, foreign types)
are read is declared in `extract/rs2lean_targets.py`. Anything outside the subset raises
`Unsupported` naming the construct: the function is then NOT emitted (its equivalence theorem
cannot elaborate) and the failure is recorded in `Generated/Report.lean` and in the JSON report
read by bin/check.  Nothing is ever skipped silently; what is dropped on purpose (log/tracing
macros, assertions, attribute lines, reference/clone/`into` noise) is listed in the header of
the generated file.

Called from extract/extract.py (one entry point) or directly:
    python3 extract/rs2lean.py --repo /repo --outdir lean/RactorModel/Generated [--json report.json]
"""
import argparse
import json
import re
import sys
from pathlib import Path


class Unsupported(Exception):
    pass


# ======================================================================================
# Tokenizer
# ======================================================================================

PUNCT = ["<<=", ">>=", "...", "..=", "::", "->", "=>", "==", "!=", "<=", ">=", "&&", "||", "+=", "-=", "*=", "/=",
         "%=", "^=", "&=", "|=", "<<", ">>", ".."]


class Tok:
    __slots__ = ("k", "v", "line")

    def __init__(self, k, v, line):
        self.k, self.v, self.line = k, v, line

    def __repr__(self):
        return f"{self.k}:{self.v}@{self.line}"


def tokenize(src):
    toks = []
    i, n, line = 0, len(src), 1
    while i < n:
        c = src[i]
        if c == "\n":
            line += 1
            i += 1
        elif c.isspace():
            i += 1
        elif src.startswith("//", i):
            while i < n and src[i] != "\n":
                i += 1
        elif src.startswith("/*", i):
            depth = 1
            i += 2
            while i < n and depth:
                if src.startswith("/*", i):
                    depth += 1
                    i += 2
                elif src.startswith("*/", i):
                    depth -= 1
                    i += 2
                else:
                    if src[i] == "\n":
                        line += 1
                    i += 1
        elif c == '"' or (c in "br" and re.match(r'b?r?#*"', src[i:i + 8])):
            m = re.match(r'(b?)(r?)(#*)"', src[i:])
            raw, hashes = m.group(2), m.group(3)
            j = i + m.end()
            buf = []
            if raw:
                end = '"' + hashes
                e = src.index(end, j)
                buf.append(src[j:e])
                j = e + len(end)
            else:
                while src[j] != '"':
                    if src[j] == "\\":
                        buf.append(src[j:j + 2])
                        j += 2
                    else:
                        buf.append(src[j])
                        j += 1
                j += 1
            s = "".join(buf)
            line += src[i:j].count("\n")
            toks.append(Tok("str", s, line))
            i = j
        elif c == "'":
            m = re.match(r"'(\\.[^']*|[^'\\])'", src[i:])
            if m:
                toks.append(Tok("char", m.group(1), line))
                i += m.end()
            else:
                m = re.match(r"'[A-Za-z_]\w*", src[i:])
                toks.append(Tok("life", m.group(0), line))
                i += m.end()
        elif c.isdigit():
            m = re.match(r"0x[0-9a-fA-F_]+|0b[01_]+|0o[0-7_]+|\d[\d_]*(\.\d[\d_]*)?", src[i:])
            txt = m.group(0)
            j = i + m.end()
            # a `.` followed by an identifier/`.` is a method call / range, not a float
            if "." in txt and not re.match(r"\d", txt.split(".")[1][:1] or "x"):
                txt = txt.split(".")[0]
                j = i + len(txt)
            ms = re.match(r"(u8|u16|u32|u64|u128|usize|i8|i16|i32|i64|i128|isize|f32|f64)\b", src[j:])
            suffix = None
            if ms:
                suffix = ms.group(1)
                j += ms.end()
            elif src[j:j + 1] == "_" and re.match(r"_(u8|u16|u32|u64|u128|usize|i8|i16|i32|i64|i128|isize)\b", src[j:]):
                ms = re.match(r"_(\w+)", src[j:])
                suffix = ms.group(1)
                j += ms.end()
            toks.append(Tok("num", (txt.replace("_", ""), suffix), line))
            i = j
        elif c.isalpha() or c == "_":
            m = re.match(r"[A-Za-z_]\w*", src[i:])
            toks.append(Tok("id", m.group(0), line))
            i += m.end()
        else:
            for p in PUNCT:
                if src.startswith(p, i):
                    toks.append(Tok("p", p, line))
                    i += len(p)
                    break
            else:
                toks.append(Tok("p", c, line))
                i += 1
    toks.append(Tok("eof", "", line))
    return toks


# ======================================================================================
# Item index: containers (impl/mod/trait) and the fn / enum / struct / const items in them
# ======================================================================================

OPEN = {"(": ")", "[": "]", "{": "}"}


def match_close(toks, i):
    """index of the token closing the bracket opened at toks[i]"""
    depth = 0
    o = toks[i].v
    c = OPEN[o]
    while True:
        t = toks[i]
        if t.k == "eof":
            raise Unsupported("unbalanced brackets")
        if t.k == "p" and t.v == o:
            depth += 1
        elif t.k == "p" and t.v == c:
            depth -= 1
            if depth == 0:
                return i
        i += 1


class Items:
    """All `fn`, `enum`, `struct`, `const` items of a file with their container path."""

    def __init__(self, toks, skip_mods=("tests", "verif_hooks")):
        self.toks = toks
        self.fns = {}      # (container, name) -> token index of `fn`
        self.enums = {}
        self.structs = {}
        self.consts = {}
        self._scan(0, len(toks) - 1, None, skip_mods)

    def _scan(self, i, end, container, skip_mods):
        toks = self.toks
        while i < end:
            t = toks[i]
            if t.k == "p" and t.v == "#" and toks[i + 1].v in ("[", "!"):
                j = i + 1
                if toks[j].v == "!":
                    j += 1
                i = match_close(toks, j) + 1
                continue
            if t.k == "id" and t.v == "mod" and toks[i + 1].k == "id":
                name = toks[i + 1].v
                if toks[i + 2].v == "{":
                    e = match_close(toks, i + 2)
                    if name not in skip_mods:
                        self._scan(i + 3, e, container, skip_mods)
                    i = e + 1
                    continue
            if t.k == "id" and t.v in ("impl", "trait"):
                # header up to the `{` at bracket depth 0
                j = i + 1
                hdr = []
                angle = 0
                while not (toks[j].v == "{" and toks[j].k == "p"):
                    hdr.append(toks[j])
                    j += 1
                e = match_close(toks, j)
                name = self._impl_name(hdr)
                self._scan(j + 1, e, name, skip_mods)
                i = e + 1
                continue
            if t.k == "id" and t.v == "fn" and toks[i + 1].k == "id":
                name = toks[i + 1].v
                self.fns.setdefault((container, name), i)
                # skip to the end of the body (or `;` for trait method declarations)
                j = i + 2
                while not (toks[j].k == "p" and toks[j].v in ("{", ";")):
                    if toks[j].k == "p" and toks[j].v in OPEN and toks[j].v != "{":
                        j = match_close(toks, j)
                    j += 1
                i = (match_close(toks, j) if toks[j].v == "{" else j) + 1
                continue
            if t.k == "id" and t.v in ("enum", "struct") and toks[i + 1].k == "id":
                (self.enums if t.v == "enum" else self.structs).setdefault(toks[i + 1].v, i)
                j = i + 2
                while not (toks[j].k == "p" and toks[j].v in ("{", ";", "(")):
                    j += 1
                if toks[j].v == ";":
                    i = j + 1
                else:
                    i = match_close(toks, j) + 1
                continue
            if t.k == "id" and t.v == "const" and toks[i + 1].k == "id" and toks[i + 2].v == ":":
                self.consts.setdefault(toks[i + 1].v, i)
                while toks[i].v != ";":
                    if toks[i].k == "p" and toks[i].v in OPEN:
                        i = match_close(toks, i)
                    i += 1
                continue
            if t.k == "p" and t.v == "{":
                # some other braced item (macro_rules, extern block, ...): skip
                i = match_close(toks, i) + 1
                continue
            i += 1

    @staticmethod
    def _impl_name(hdr):
        """`impl<T> Foo<T>` -> "Foo";  `impl<T> Tr for Foo<T>` -> "Tr for Foo";  `trait Tr` -> "Tr"."""
        words = []
        depth = 0
        for t in hdr:
            if t.k == "p" and t.v == "<":
                depth += 1
            elif t.k == "p" and t.v == ">":
                depth -= 1
            elif t.k == "p" and t.v == ">>":
                depth -= 2
            elif depth == 0 and t.k == "id":
                if t.v == "where":
                    break
                words.append(t.v)
        # keep last path segment of each side of `for`
        if "for" in words:
            k = words.index("for")
            return f"{words[k - 1]} for {words[-1]}"
        return words[-1] if words else None


# ======================================================================================
# Parser (restricted Rust) -> AST of tuples
# ======================================================================================

BINPREC = {
    "||": 1, "&&": 2,
    "==": 3, "!=": 3, "<": 3, ">": 3, "<=": 3, ">=": 3,
    "|": 4, "^": 5, "&": 6, "<<": 7, ">>": 7,
    "+": 8, "-": 8, "*": 9, "/": 9, "%": 9,
}
ASSIGN_OPS = {"=", "+=", "-=", "*=", "/=", "%=", "&=", "|=", "^=", "<<=", ">>="}
DROPPED_MACROS = {"trace", "debug", "info", "warn", "error", "log", "event", "println", "eprintln", "print", "eprint", "dbg"}
ASSERT_MACROS = {"debug_assert", "debug_assert_eq", "debug_assert_ne"}


class Parser:
    def __init__(self, toks, i, fname="?"):
        self.toks = toks
        self.i = i
        self.fname = fname
        self.dropped = []

    # ---- helpers
    @property
    def t(self):
        return self.toks[self.i]

    def peek(self, k=1):
        return self.toks[self.i + k]

    def at(self, v, k="p"):
        return self.t.k == k and self.t.v == v

    def at_id(self, v):
        return self.t.k == "id" and self.t.v == v

    def eat(self, v, k="p"):
        if self.at(v, k):
            self.i += 1
            return True
        return False

    def expect(self, v, k="p"):
        if not self.at(v, k):
            self.fail(f"expected `{v}` but found `{self.t.v}`")
        self.i += 1

    def fail(self, what):
        raise Unsupported(f"{self.fname}: line {self.t.line}: {what}")

    def ident(self):
        if self.t.k != "id":
            self.fail(f"expected identifier, found `{self.t.v}`")
        v = self.t.v
        self.i += 1
        return v

    def skip_attrs(self):
        while self.at("#") and self.peek().v == "[":
            self.i = match_close(self.toks, self.i + 1) + 1

    # ---- types
    def ty(self):
        """type -> ('ty', name, [args]) | ('tuple', [..]) ; references / lifetimes / `mut` / `dyn` dropped"""
        while True:
            if self.eat("&") or self.eat("&&"):
                continue
            if self.t.k == "life":
                self.i += 1
                continue
            if self.at_id("mut") or self.at_id("dyn") or self.at_id("impl"):
                self.i += 1
                continue
            break
        if self.eat("("):
            elems = []
            while not self.at(")"):
                elems.append(self.ty())
                if not self.eat(","):
                    break
            self.expect(")")
            return ("tuple", elems)
        if self.eat("["):
            el = self.ty()
            if self.eat(";"):
                ln = self.expr()
                self.expect("]")
                return ("ty", "Array", [el])
            self.expect("]")
            return ("ty", "Slice", [el])
        if self.t.k != "id":
            self.fail(f"unsupported type syntax at `{self.t.v}`")
        if self.at_id("fn") and self.peek().v == "(":
            self.i = match_close(self.toks, self.i + 1) + 1
            if self.eat("->"):
                self.ty()
            return ("ty", "FnPtr", [])
        name = self.ident()
        args = []
        while True:
            if self.at("<"):
                args = self.generic_args()
            if self.at("::") and self.peek().k == "id":
                self.i += 1
                name = self.ident()
                args = []
                continue
            break
        return ("ty", name, args)

    def generic_args(self):
        self.expect("<")
        args = []
        while not (self.at(">") or self.at(">>")):
            if self.t.k == "life":
                self.i += 1
            else:
                args.append(self.ty())
                if self.eat("="):       # associated type binding
                    args[-1] = self.ty()
            if not self.eat(","):
                break
        if self.at(">>"):
            # split `>>`
            self.toks[self.i] = Tok("p", ">", self.t.line)
            return args
        self.expect(">")
        return args

    # ---- patterns
    def pattern(self):
        alts = [self.pattern1()]
        while self.at("|"):
            self.i += 1
            alts.append(self.pattern1())
        return alts[0] if len(alts) == 1 else ("p_or", alts)

    def pattern1(self):
        if self.eat("&") or self.eat("&&"):
            self.eat("mut", "id")
            return self.pattern1()
        if self.at("|"):      # leading `|`
            self.i += 1
            return self.pattern1()
        if self.at("("):
            self.i += 1
            elems = []
            while not self.at(")"):
                elems.append(self.pattern())
                if not self.eat(","):
                    break
            self.expect(")")
            return elems[0] if len(elems) == 1 and self.toks[self.i - 2].v != "," else ("p_tuple", elems)
        if self.t.k == "num" or self.at("-"):
            neg = self.eat("-")
            v, suf = self.t.v
            self.i += 1
            if self.at("..=") or self.at("..") or self.at("..."):
                self.fail("range pattern")
            return ("p_lit", ("int", -int(v, 0) if neg else int(v, 0), suf))
        if self.t.k == "str":
            v = self.t.v
            self.i += 1
            return ("p_lit", ("str", v))
        if self.t.k == "id" and self.t.v in ("true", "false"):
            v = self.t.v == "true"
            self.i += 1
            return ("p_lit", ("bool", v))
        if self.at("_", "id"):
            self.i += 1
            return ("p_wild",)
        if self.at(".."):
            self.i += 1
            return ("p_rest",)
        if self.t.k == "id":
            by_ref = self.eat("ref", "id")
            self.eat("mut", "id")
            segs = [self.ident()]
            while self.at("::"):
                self.i += 1
                if self.at("<"):
                    self.generic_args()
                    continue
                segs.append(self.ident())
            if self.at("("):
                self.i += 1
                elems = []
                while not self.at(")"):
                    elems.append(self.pattern())
                    if not self.eat(","):
                        break
                self.expect(")")
                return ("p_ctor", segs, elems)
            if self.at("{"):
                self.i += 1
                fields, rest = [], False
                while not self.at("}"):
                    if self.eat(".."):
                        rest = True
                        break
                    self.eat("ref", "id")
                    self.eat("mut", "id")
                    f = self.ident()
                    if self.eat(":"):
                        fields.append((f, self.pattern()))
                    else:
                        fields.append((f, ("p_bind", f)))
                    if not self.eat(","):
                        break
                self.expect("}")
                return ("p_struct", segs, fields, rest)
            if len(segs) == 1 and (segs[0][0].islower() or segs[0][0] == "_") :
                if self.at("@"):
                    self.fail("`@` pattern binding")
                return ("p_bind", segs[0])
            return ("p_path", segs)
        self.fail(f"unsupported pattern syntax at `{self.t.v}`")

    # ---- expressions
    def expr(self, no_struct=False):
        return self.assign(no_struct)

    def assign(self, ns):
        lhs = self.range_(ns)
        if self.t.k == "p" and self.t.v in ASSIGN_OPS:
            op = self.t.v
            self.i += 1
            rhs = self.assign(ns)
            return ("assign", op, lhs, rhs)
        return lhs

    def range_(self, ns):
        if self.at("..") or self.at("..="):
            self.fail("range expression")
        lhs = self.binary(0, ns)
        if self.at("..") or self.at("..="):
            self.fail("range expression")
        return lhs

    def binary(self, minprec, ns):
        lhs = self.cast(ns)
        while True:
            t = self.t
            if t.k != "p" or t.v not in BINPREC or BINPREC[t.v] <= minprec - 1 and False:
                break
            prec = BINPREC[t.v]
            if prec < minprec:
                break
            # `|` `||` could start a closure only in prefix position; here they are operators
            op = t.v
            self.i += 1
            rhs = self.binary(prec + 1, ns)
            if prec == 3 and self.t.k == "p" and self.t.v in BINPREC and BINPREC[self.t.v] == 3:
                self.fail("chained comparison")
            lhs = ("binary", op, lhs, rhs)
        return lhs

    def cast(self, ns):
        e = self.unary(ns)
        while self.at_id("as"):
            self.i += 1
            e = ("cast", e, self.ty())
        return e

    def unary(self, ns):
        if self.at("!"):
            self.i += 1
            return ("unary", "!", self.unary(ns))
        if self.at("-"):
            self.i += 1
            return ("unary", "-", self.unary(ns))
        if self.at("*"):
            self.i += 1
            return ("deref", self.unary(ns))
        if self.at("&") or self.at("&&"):
            self.i += 1
            self.eat("mut", "id")
            return ("ref", self.unary(ns))
        return self.postfix(self.primary(ns), ns)

    def call_args(self):
        self.expect("(")
        args = []
        while not self.at(")"):
            args.append(self.expr())
            if not self.eat(","):
                break
        self.expect(")")
        return args

    def postfix(self, e, ns):
        while True:
            if self.at("?"):
                self.i += 1
                e = ("try", e)
                continue
            if self.at("."):
                self.i += 1
                if self.at_id("await"):
                    self.fail("`.await`")
                if self.t.k == "num":
                    idx = self.t.v[0]
                    self.i += 1
                    e = ("tfield", e, int(idx))
                    continue
                name = self.ident()
                if self.at("::"):
                    self.i += 1
                    self.generic_args()
                if self.at("("):
                    e = ("mcall", e, name, self.call_args())
                else:
                    e = ("field", e, name)
                continue
            if self.at("("):
                e = ("call", e, self.call_args())
                continue
            if self.at("["):
                self.i += 1
                lo = hi = None
                if self.at(".."):
                    self.i += 1
                    if not self.at("]"):
                        hi = self.binary(0, False)
                    ix = ("range", None, hi)
                else:
                    lo = self.binary(0, False)
                    if self.at(".."):
                        self.i += 1
                        if not self.at("]"):
                            hi = self.binary(0, False)
                        ix = ("range", lo, hi)
                    else:
                        ix = lo
                self.expect("]")
                e = ("index", e, ix)
                continue
            return e

    def block(self):
        """{ stmts; tail? } -> ('block', [stmts], tail|None)"""
        self.expect("{")
        stmts, tail = [], None
        while not self.at("}"):
            if self.at("#") and self.peek().v == "[" and [t.v for t in self.toks[self.i + 2:self.i + 9]] == ["cfg", "(", "feature", "=", "verif", ")", "]"]:
                # `#[cfg(feature = "verif")] stmt;` — a verification hook: dropped
                line = self.t.line
                self.i += 9
                if self.at_id("let"):
                    self.i += 1
                    self.pattern()
                    if self.eat(":"):
                        self.ty()
                    if self.eat("="):
                        self.expr()
                    self.expect(";")
                else:
                    self.expr()
                    self.eat(";")
                self.dropped.append(f"#[cfg(feature = \"verif\")] statement (line {line})")
                continue
            if self.at("#") and self.peek().v == "[" and self.toks[self.i + 2].v == "cfg":
                # conditional compilation of a statement: parsed, rejected by the emitter
                self.i = match_close(self.toks, self.i + 1) + 1
                if self.at_id("let"):
                    self.fail("`#[cfg(...)]` on a statement (`let`)")
                inner = self.expr()
                self.eat(";")
                stmts.append(("expr", ("cfg", inner)))
                continue
            self.skip_attrs()
            if self.eat(";"):
                continue
            if self.at_id("let"):
                self.i += 1
                pat = self.pattern()
                ty = None
                if self.eat(":"):
                    ty = self.ty()
                init = None
                els = None
                if self.eat("="):
                    init = self.expr()
                    if self.at_id("else"):
                        self.i += 1
                        els = self.block()
                self.expect(";")
                stmts.append(("let", pat, ty, init, els))
                continue
            if self.t.k == "id" and self.t.v in ("fn", "struct", "enum", "impl", "use", "const", "static", "type", "mod", "trait"):
                if not (self.t.v == "const" and self.peek().v == "{"):
                    self.fail(f"nested item `{self.t.v}`")
            e = self.expr()
            blocklike = e[0] in ("if", "match", "block", "for", "while", "loop")
            if self.eat(";"):
                stmts.append(("expr", e))
            elif self.at("}"):
                tail = e
            elif blocklike:
                stmts.append(("expr", e))
            else:
                self.fail(f"expected `;` or `}}` after expression, found `{self.t.v}`")
        self.expect("}")
        return ("block", stmts, tail)

    def cond(self):
        """condition of `if`/`while`: expr | let PAT = expr ; `&&`-chains of let are rejected"""
        if self.at_id("let"):
            self.i += 1
            pat = self.pattern()
            self.expect("=")
            e = self.binary(3, True)   # no lazy boolean operators in the scrutinee
            if self.at("&&") or self.at("||"):
                self.fail("let-chain (`if let … && …`)")
            return ("let", pat, e)
        return self.expr(no_struct=True)

    def primary(self, ns):
        t = self.t
        if t.k == "num":
            self.i += 1
            if "." in t.v[0] or t.v[1] in ("f32", "f64"):
                self.fail("floating point literal")
            return ("int", int(t.v[0], 0), t.v[1])
        if t.k == "str":
            self.i += 1
            return ("str", t.v)
        if t.k == "char":
            self.fail("char literal")
        if t.k == "life":
            self.fail("loop label")
        if t.k == "p":
            if t.v == "(":
                self.i += 1
                elems = []
                trailing = False
                while not self.at(")"):
                    elems.append(self.expr())
                    trailing = False
                    if not self.eat(","):
                        break
                    trailing = True
                self.expect(")")
                if len(elems) == 1 and not trailing:
                    return ("paren", elems[0])
                return ("tuple", elems)
            if t.v == "{":
                return self.block()
            if t.v in ("|", "||"):
                return self.closure()
            if t.v == "[":
                self.fail("array literal")
            if t.v == "<":
                self.fail("qualified path `<T as Trait>::…`")
            self.fail(f"unexpected `{t.v}`")
        # identifiers / keywords
        v = t.v
        if v in ("true", "false"):
            self.i += 1
            return ("bool", v == "true")
        if v == "if":
            self.i += 1
            c = self.cond()
            th = self.block()
            el = None
            if self.at_id("else"):
                self.i += 1
                if self.at_id("if"):
                    el = self.primary(ns)
                else:
                    el = self.block()
            return ("if", c, th, el)
        if v == "match":
            self.i += 1
            scrut = self.expr(no_struct=True)
            self.expect("{")
            arms = []
            while not self.at("}"):
                self.skip_attrs()
                pat = self.pattern()
                guard = None
                if self.at_id("if"):
                    self.i += 1
                    guard = self.expr()
                self.expect("=>")
                body = self.expr()
                arms.append((pat, guard, body))
                if not self.eat(","):
                    if not self.at("}") and body[0] not in ("block", "if", "match"):
                        self.fail("expected `,` between match arms")
            self.expect("}")
            return ("match", scrut, arms)
        if v == "return":
            self.i += 1
            if self.at(";") or self.at("}") or self.at(","):
                return ("return", None)
            return ("return", self.expr())
        if v == "move":
            self.i += 1
            return self.closure()
        if v == "loop":
            self.i += 1
            return ("loop", self.block())
        if v == "while":
            self.i += 1
            c = self.cond()
            return ("while", c, self.block())
        if v == "for":
            self.i += 1
            pat = self.pattern()
            self.expect("in", "id")
            it = self.expr(no_struct=True)
            return ("for", pat, it, self.block())
        if v in ("unsafe", "async", "break", "continue", "yield", "await"):
            self.fail(f"`{v}`")
        # path
        segs = [self.ident()]
        turbofish = None
        while self.at("::"):
            self.i += 1
            if self.at("<"):
                turbofish = self.generic_args()
                continue
            segs.append(self.ident())
        if self.at("!") and self.peek().k == "p" and self.peek().v in ("(", "[", "{"):
            return self.macro(segs)
        if self.at("{") and not ns and (segs[-1][0].isupper()):
            # struct literal
            self.i += 1
            fields, base = [], None
            while not self.at("}"):
                if self.eat(".."):
                    base = self.expr()
                    break
                f = self.ident()
                if self.eat(":"):
                    fields.append((f, self.expr()))
                else:
                    fields.append((f, ("path", [f])))
                if not self.eat(","):
                    break
            self.expect("}")
            return ("struct", segs, fields, base)
        return ("path", segs)

    def closure(self):
        params = []
        if self.eat("||"):
            pass
        else:
            self.expect("|")
            while not self.at("|"):
                p = self.pattern1()
                if self.eat(":"):
                    self.ty()
                params.append(p)
                if not self.eat(","):
                    break
            self.expect("|")
        if self.eat("->"):
            self.ty()
        body = self.expr()
        return ("closure", params, body)

    def macro(self, segs):
        name = segs[-1]
        self.expect("!")
        open_i = self.i
        close_i = match_close(self.toks, open_i)
        if name in DROPPED_MACROS:
            self.dropped.append(f"{'::'.join(segs)}! (line {self.toks[open_i].line})")
            self.i = close_i + 1
            return ("dropped",)
        if name in ASSERT_MACROS:
            self.dropped.append(f"{name}! (line {self.toks[open_i].line})")
            self.i = close_i + 1
            return ("dropped",)
        if name == "format":
            tmpl = next((t.v for t in self.toks[open_i:close_i] if t.k == "str"), "")
            self.i = close_i + 1
            return ("format", tmpl)
        if name == "vec":
            self.i = open_i + 1
            elems = []
            while self.i < close_i:
                elems.append(self.expr())
                if self.at(";") and len(elems) == 1:
                    self.i += 1
                    n = self.expr()
                    if self.i != close_i:
                        self.fail("vec! with unexpected contents")
                    self.i += 1
                    return ("vec_repeat", elems[0], n)
                if not self.eat(","):
                    break
            if self.i != close_i:
                self.fail("vec! with unexpected contents")
            self.i += 1
            return ("vec", elems)
        if name == "matches":
            self.i = open_i + 1
            e = self.expr()
            self.expect(",")
            pat = self.pattern()
            guard = None
            if self.at_id("if"):
                self.i += 1
                guard = self.expr()
            self.eat(",")
            if self.i != close_i:
                self.fail("matches! with unexpected arguments")
            self.i += 1
            return ("matches", e, pat, guard)
        self.i = close_i + 1
        return ("macro", "::".join(segs))


def parse_fn(toks, i, fname):
    """parse the fn item starting at toks[i] (the `fn` keyword)"""
    p = Parser(toks, i, fname)
    p.expect("fn", "id")
    name = p.ident()
    if p.at("<"):
        p.generic_args()
    p.expect("(")
    params = []
    mutref = []
    while not p.at(")"):
        p.skip_attrs()
        if p.at("&") and (p.peek().v in ("self", "mut") or p.peek().k == "life"):
            p.i += 1
            if p.t.k == "life":
                p.i += 1
            mut = p.eat("mut", "id")
            p.expect("self", "id")
            params.append(("self", "mut" if mut else "ref"))
        elif p.at_id("self") or (p.at_id("mut") and p.peek().v == "self"):
            p.eat("mut", "id")
            p.i += 1
            params.append(("self", "val"))
        else:
            p.eat("mut", "id")
            nm = p.ident()
            p.expect(":")
            j = p.i
            if p.at("&"):
                j += 1
                if p.toks[j].k == "life":
                    j += 1
                if p.toks[j].k == "id" and p.toks[j].v == "mut":
                    mutref.append(nm)
            params.append((nm, p.ty()))
        if not p.eat(","):
            break
    p.expect(")")
    ret = None
    if p.eat("->"):
        ret = p.ty()
    if p.at_id("where"):
        while not p.at("{"):
            p.i += 1
    body = p.block()
    return {"name": name, "params": params, "ret": ret, "body": body, "dropped": p.dropped, "line": toks[i].line, "mutref": mutref}


def parse_enum(toks, i, fname):
    p = Parser(toks, i, fname)
    p.expect("enum", "id")
    name = p.ident()
    if p.at("<"):
        p.generic_args()
    p.expect("{")
    variants = []
    while not p.at("}"):
        p.skip_attrs()
        vn = p.ident()
        fields = []
        if p.at("("):
            p.i += 1
            while not p.at(")"):
                p.skip_attrs()
                fields.append((None, p.ty()))
                if not p.eat(","):
                    break
            p.expect(")")
        elif p.at("{"):
            p.i += 1
            while not p.at("}"):
                p.skip_attrs()
                p.eat("pub", "id")
                fn_ = p.ident()
                p.expect(":")
                fields.append((fn_, p.ty()))
                if not p.eat(","):
                    break
            p.expect("}")
        disc = None
        if p.eat("="):
            disc = p.expr()
        variants.append((vn, fields, disc))
        if not p.eat(","):
            break
    p.expect("}")
    return {"name": name, "variants": variants}


def parse_struct(toks, i, fname):
    p = Parser(toks, i, fname)
    p.expect("struct", "id")
    name = p.ident()
    if p.at("<"):
        p.generic_args()
    if p.at_id("where"):
        while not p.at("{"):
            p.i += 1
    fields = []
    if p.at("{"):
        p.i += 1
        while not p.at("}"):
            p.skip_attrs()
            if p.eat("pub", "id") and p.at("("):
                p.i = match_close(p.toks, p.i) + 1
            fn_ = p.ident()
            p.expect(":")
            fields.append((fn_, p.ty()))
            if not p.eat(","):
                break
        p.expect("}")
    else:
        p.fail("tuple/unit struct")
    return {"name": name, "fields": fields}


def parse_const(toks, i, fname):
    p = Parser(toks, i, fname)
    p.expect("const", "id")
    name = p.ident()
    p.expect(":")
    ty = p.ty()
    p.expect("=")
    e = p.expr()
    return {"name": name, "ty": ty, "value": e}


# ======================================================================================
# Emitter: AST -> Lean text
# ======================================================================================

INTW = {"u8": 8, "u16": 16, "u32": 32, "u64": 64, "u128": 128, "usize": 64}
SIGNED = {"i8", "i16", "i32", "i64", "i128", "isize"}
KNOWN_CONSTS = {
    ("usize", "MAX"): (2 ** 64 - 1, "usize"), ("u64", "MAX"): (2 ** 64 - 1, "u64"), ("u32", "MAX"): (2 ** 32 - 1, "u32"),
    ("u16", "MAX"): (2 ** 16 - 1, "u16"), ("u8", "MAX"): (255, "u8"), ("u128", "MAX"): (2 ** 128 - 1, "u128"),
    ("isize", "MAX"): (2 ** 63 - 1, "isize"), ("i64", "MAX"): (2 ** 63 - 1, "i64"), ("i32", "MAX"): (2 ** 31 - 1, "i32"),
    ("usize", "BITS"): (64, "u32"), ("u64", "BITS"): (64, "u32"), ("u32", "BITS"): (32, "u32"),
    ("usize", "MIN"): (0, "usize"), ("u64", "MIN"): (0, "u64"), ("u32", "MIN"): (0, "u32"),
}
IDENTITY_METHODS = {"clone", "to_owned", "as_ref", "as_str", "as_slice", "to_vec", "copied", "cloned", "into", "borrow",
                    "as_mut", "iter", "into_iter", "collect", "to_string", "get"}
LEAN_KEYWORDS = {"end", "from", "at", "open", "in", "do", "then", "fun", "show", "have", "by", "with", "where", "from",
                 "local", "instance", "structure", "class", "def", "theorem", "match", "if", "else", "let", "import",
                 "namespace", "section", "variable", "universe", "macro", "syntax", "deriving", "extends", "mut", "for",
                 "return", "try", "catch", "finally", "unless", "using", "calc", "exact", "Type", "Prop", "Sort", "nomatch",
                 "private", "protected", "partial", "unsafe", "opaque", "axiom", "example", "abbrev", "inductive", "mutual", "export", "prefix", "infix", "notation", "set_option", "attribute"}


def T(name, *args):
    return ("ty", name, list(args))


def ty_name(ty):
    return ty[1] if ty and ty[0] == "ty" else None


def is_int(ty):
    return ty_name(ty) in INTW


def lean_ident(n):
    return f"«{n}»" if n in LEAN_KEYWORDS else n


def ind(s, n=2):
    pad = " " * n
    return "\n".join(pad + l if l else l for l in s.split("\n"))


def lean_str(s):
    return '"' + s.replace("\\", "\\\\").replace('"', '\\"') + '"'


class Val:
    def __init__(self, lean, ty=None):
        self.lean = lean
        self.ty = ty


def walk(e):
    """all tuple nodes of an AST"""
    if isinstance(e, tuple):
        yield e
        for x in e:
            yield from walk(x)
    elif isinstance(e, list):
        for x in e:
            yield from walk(x)


class Area:
    """Translation context of one generated file."""

    def __init__(self, spec, repo):
        self.spec = spec
        self.repo = Path(repo)
        self.enums, self.structs, self.consts = {}, {}, {}
        self.fninfo = {}      # (container, name) -> dict
        self.out = []
        self.report = []      # per function: dict(function, lean, ok, error, dropped, notes)
        self.dropped_all = []
        self.identity_used = set()
        self.files = {}

    def load(self, rel):
        if rel not in self.files:
            p = self.repo / rel
            if not p.exists():
                raise Unsupported(f"source file {rel} not found")
            toks = tokenize(p.read_text())
            self.files[rel] = (toks, Items(toks))
        return self.files[rel]

    # ---- types -------------------------------------------------------------------------
    def tparams(self):
        return self.spec.get("type_params", "")

    def targs(self):
        return " ".join(re.findall(r"\((\w+)\s*:", self.tparams()))

    def lean_ty(self, ty, self_ty=None, top=True):
        if ty is None:
            return "Unit"
        if ty[0] == "tuple":
            if not ty[1]:
                return "Unit"
            return "(" + " × ".join(self.lean_ty(t, self_ty, False) for t in ty[1]) + ")"
        n, args = ty[1], ty[2]
        if n == "Self":
            n, args = self_ty, []
        if n in self.spec.get("aliases", {}):
            toks = tokenize(self.spec["aliases"][n])
            return self.lean_ty(Parser(toks, 0, "<spec>").ty(), self_ty, top)
        m = self.spec.get("types", {})
        if n in m:
            r = m[n]
        elif n in INTW:
            r = "Nat"
        elif n in SIGNED:
            raise Unsupported(f"signed integer type `{n}`")
        elif n == "bool":
            r = "Bool"
        elif n in ("str", "String"):
            r = "String"
        elif n in FnTr.ATOMIC_TY:
            r = "Nat"
        elif n in ("Option",):
            r = "Option " + self.lean_ty(args[0], self_ty, False)
        elif n in ("Vec", "Slice", "Array", "VecDeque"):
            r = "List " + self.lean_ty(args[0], self_ty, False)
        elif n == "Result":
            err = self.spec.get("error_type", "Unit")
            r = f"Except {err} " + self.lean_ty(args[0], self_ty, False)
        elif n == "Ordering":
            r = "Ordering"
        elif n in self.enums or n in self.structs:
            a = self.targs()
            r = f"{n} {a}" if a else n
        else:
            raise Unsupported(f"type `{n}` (not in the subset and not declared in the target spec)")
        return r if top or " " not in r else f"({r})"

    def emit_types(self):
        spec = self.spec
        w = self.out.append
        decls = []   # (kind, parsed) in spec order
        if spec.get("foreign_rust"):
            toks = tokenize(spec["foreign_rust"])
            it = Items(toks, skip_mods=())
            for name, i in sorted(list(it.enums.items()) + list(it.structs.items()), key=lambda x: x[1]):
                if name in it.enums:
                    decls.append(("enum", parse_enum(toks, i, "<spec foreign_rust>"), "spec"))
                else:
                    decls.append(("struct", parse_struct(toks, i, "<spec foreign_rust>"), "spec"))
        n_foreign = len(decls)
        for tdecl in spec.get("source_types", []):
            toks, it = self.load(tdecl.get("file", spec["file"]))
            name = tdecl["name"]
            if name in it.enums:
                decls.append(("enum", parse_enum(toks, it.enums[name], name), tdecl.get("file", spec["file"])))
            elif name in it.structs:
                decls.append(("struct", parse_struct(toks, it.structs[name], name), tdecl.get("file", spec["file"])))
            else:
                raise Unsupported(f"type `{name}` not found in {tdecl.get('file', spec['file'])}")
            only = tdecl.get("fields")
            if only is not None and decls[-1][0] == "struct":
                d = decls[-1][1]
                missing = [f for f in only if f not in [x[0] for x in d["fields"]]]
                if missing:
                    raise Unsupported(f"struct `{name}`: fields {missing} named in the spec no longer exist")
                d["all_fields"] = [x[0] for x in d["fields"]]
                d["fields"] = [x for x in d["fields"] if x[0] in only]
        if spec.get("foreign_after_source"):
            decls = decls[n_foreign:] + decls[:n_foreign]
        for kind, d, _ in decls:
            (self.enums if kind == "enum" else self.structs)[d["name"]] = d
        tp = self.tparams()
        for kind, d, origin in decls:
            name = d["name"]
            deriving = self.spec.get("deriving", "DecidableEq, Repr")
            if kind == "enum":
                w(f"/-- `enum {name}` ({origin}) -/")
                w(f"inductive {name} {tp}".rstrip() + " where")
                for vn, fields, disc in d["variants"]:
                    fs = " ".join(f"({lean_ident(fn_ or 'a' + str(k))} : {self.lean_ty(ft, name)})" for k, (fn_, ft) in enumerate(fields))
                    w(f"  | {lean_ident(vn)} {fs}".rstrip())
                w(f"  deriving {deriving}")
                if any(disc is not None for _, _, disc in d["variants"]):
                    w("")
                    w(f"/-- discriminants of `{name}` as written in the source -/")
                    w(f"def {name}.toNat : {name} → Nat")
                    nxt = 0
                    for vn, fields, disc in d["variants"]:
                        if disc is not None:
                            if disc[0] != "int":
                                raise Unsupported(f"enum `{name}`: non-literal discriminant")
                            nxt = disc[1]
                        pat = f".{lean_ident(vn)}" + " _" * len(fields)
                        w(f"  | {pat} => {nxt}")
                        nxt += 1
                    d["has_disc"] = True
            else:
                w(f"/-- `struct {name}` ({origin}){' — fields kept: ' + ', '.join(f for f, _ in d['fields']) + ' (of ' + ', '.join(d['all_fields']) + ')' if d.get('all_fields') else ''} -/")
                w(f"structure {name} {tp}".rstrip() + " where")
                for fn_, ft in d["fields"]:
                    w(f"  {lean_ident(fn_)} : {self.lean_ty(ft, name)}")
                w(f"  deriving {deriving}")
            w("")

    def emit_consts(self):
        for c in self.spec.get("consts", []):
            toks, it = self.load(c.get("file", self.spec["file"]))
            name = c["name"]
            try:
                if name not in it.consts:
                    raise Unsupported(f"const `{name}` not found")
                d = parse_const(toks, it.consts[name], name)
                ft = FnTr(self, {"name": name, "params": [], "ret": d["ty"], "body": None, "dropped": []}, None, {})
                v = ft.ex(d["value"], {}, d["ty"])
                self.out.append(f"/-- `const {name}: {ty_name(d['ty'])}` -/")
                self.out.append(f"def {name} : {self.lean_ty(d['ty'])} := {v.lean}")
                self.out.append("")
                self.consts[name] = d["ty"]
                self.report.append({"function": f"{c.get('file', self.spec['file'])}::{name}", "lean": f"Generated.{self.spec['area']}.{name}", "ok": True,
                                    "theorem": c.get("theorem")})
            except Unsupported as e:
                self.report.append({"function": f"{c.get('file', self.spec['file'])}::{name}", "lean": f"Generated.{self.spec['area']}.{name}", "ok": False,
                                    "theorem": c.get("theorem"), "error": str(e)})

    def emit_fns(self):
        spec = self.spec
        # first pass: signatures of all targets (so that siblings can call each other)
        parsed = []
        for f in spec["fns"]:
            rel = f.get("file", spec["file"])
            key = (f.get("container"), f["name"])
            label = f"{rel}::{(key[0] + '::') if key[0] else ''}{key[1]}"
            lean_name = f.get("lean") or ((key[0].split(" for ")[-1] + ".") if key[0] else "") + key[1]
            try:
                toks, it = self.load(rel)
                if key not in it.fns:
                    raise Unsupported(f"function `{label}` not found in the source")
                fn = parse_fn(toks, it.fns[key], label)
                fn["lean_name"] = lean_name
                fn["self_ty"] = f.get("self_ty") or (key[0].split(" for ")[-1] if key[0] else None)
                fn["spec"] = f
                self.fninfo[key] = fn
                self.fninfo[(None if key[0] is None else fn["self_ty"], key[1])] = fn
                parsed.append((label, fn, None))
            except Unsupported as e:
                parsed.append((label, {"lean_name": lean_name, "spec": f}, str(e)))
        for label, fn, err in parsed:
            rec = {"function": label, "lean": f"Generated.{spec['area']}.{fn['lean_name']}", "ok": False,
                   "theorem": fn["spec"].get("theorem")}
            if fn["spec"].get("properties"):
                rec["properties"] = fn["spec"]["properties"]
            if err is None:
                try:
                    tr = FnTr(self, fn, fn["self_ty"], fn["spec"])
                    text = tr.emit()
                    self.out.append(text)
                    self.out.append("")
                    rec.update(ok=True, dropped=fn["dropped"] + tr.dropped, notes=tr.notes, ints=tr.int_note())
                except Unsupported as e:
                    err = str(e)
                except RecursionError:
                    err = "translator recursion limit"
            if err is not None:
                rec["error"] = err
                fn["failed"] = True
                self.out.append(f"-- TRANSLATION FAILED for `{label}`: {err}")
                self.out.append(f"-- (no definition `{fn['lean_name']}` is emitted: its equivalence theorem cannot elaborate)")
                self.out.append("")
            self.report.append(rec)


class FnTr:
    """Translation of one function."""

    def __init__(self, area, fn, self_ty, fspec):
        self.a = area
        self.fn = fn
        self.self_ty = self_ty
        self.fspec = fspec or {}
        self.n = 0
        self.dropped = []
        self.notes = []
        self.widths = set()
        self.ndraw = 0

    def fail(self, what):
        raise Unsupported(f"{self.fn['name']}: {what}")

    def fresh(self):
        self.n += 1
        return f"x{self.n}"

    def note(self, s):
        if s not in self.notes:
            self.notes.append(s)

    def int_note(self):
        return "Nat with explicit wrap/saturation at " + ", ".join(sorted(self.widths)) if self.widths else "no integer arithmetic"

    # ---- signature & body --------------------------------------------------------------
    def emit(self):
        fn, a = self.fn, self.a
        env = {}
        params = []
        self.self_kind = None
        self.cas = False
        self.ret_ty = None
        if self.fspec.get("mode") in ("if_condition", "closure_arg"):
            return self.emit_fragment(self.fspec["mode"], [], a.spec.get("fn_params", ""))
        for p in fn["params"]:
            if p[0] == "self":
                self.self_kind = p[1]
                sty = T(self.self_ty)
                env["self"] = ("self", sty)
                params.append(f"(self : {a.lean_ty(sty)})")
            else:
                name, ty = p
                if name in self.fspec.get("drop_params", []):
                    continue
                ln = lean_ident(name)
                env[name] = (ln, self.resolve_ty(ty))
                params.append(f"({ln} : {a.lean_ty(ty, self.self_ty)})")
        ret_ty = self.resolve_ty(fn["ret"])
        self.ret_ty = ret_ty
        lret = a.lean_ty(ret_ty, self.self_ty)
        if self.self_kind == "mut":
            sself = a.lean_ty(T(self.self_ty))
            lret = sself if fn["ret"] is None else f"{sself} × {lret}"
        self.mutref = [m for m in fn.get("mutref", []) if m in env]
        if self.mutref:
            if self.self_kind == "mut":
                self.fail("`&mut` parameters together with `&mut self`")
            outs = [a.lean_ty(env[m][1], self.self_ty) for m in self.mutref] + ([lret] if fn["ret"] is not None else [])
            lret = " × ".join(self.par(o) if " " in o else o for o in outs)
        extra = a.spec.get("fn_params", "")
        mode = self.fspec.get("mode")
        if self.fspec.get("atomic_self") and self.self_kind == "ref":
            self.self_kind = "mut"
            sself = a.lean_ty(T(self.self_ty))
            lret = sself if fn["ret"] is None else f"{sself} × {lret}"
        self.cas = False
        if mode in ("if_condition", "closure_arg"):
            return self.emit_fragment(mode, params, extra)
        stmts, tail = fn["body"][1], fn["body"][2]
        self.before_loop = False
        if mode == "before_loop":
            # only the statements before the first loop: `some r` = returned r before the loop, `none` = loop reached
            idx = next((i for i, st in enumerate(stmts) if st[0] == "expr" and st[1][0] in ("while", "loop", "for")), None)
            if idx is None:
                self.fail("mode before_loop: the body has no loop statement")
            stmts = stmts[:idx]
            if self.assigned(("block", stmts, None), env):
                self.fail("mode before_loop: the statements before the loop assign to outer state")
            self.dropped.append("the loop and everything after it (only the early-return prefix is translated)")
            if self.self_kind == "mut":
                self.self_kind = "ref"
                lret = a.lean_ty(ret_ty, self.self_ty)
            lret = f"Option {self.par(lret)}"
            self.before_loop = True
            body = self.stk(stmts, None, env, lambda env2, _v: "none")
        elif mode == "tail_if_condition":
            last = tail if tail is not None else (stmts[-1][1] if stmts and stmts[-1][0] == "expr" else None)
            if last is None or last[0] != "if" or last[3] is not None or last[1][0] == "let":
                self.fail("mode tail_if_condition: the body does not end in an `if` without `else`")
            stmts = stmts if tail is not None else stmts[:-1]
            self.dropped.append("the body of the final `if` (only its condition is translated)")
            cond = last[1]
            sself = a.lean_ty(T(self.self_ty))
            lret = f"{sself} × Bool"
            body = self.stk(stmts, None, env, lambda env2, _v: f"({env2['self'][0]}, {self.ex(cond, env2).lean})")
        else:
            body = self.stk(stmts, tail, env, self.ret_k)
        if self.cas:
            base = a.lean_ty(ret_ty, self.self_ty) if fn["ret"] is not None else "Unit"
            lret = f"Rust.CasStep {self.par(base)}"
        self.int_note()
        hdr = [f"/-- `{fn['name']}` — translated from line {fn.get('line', '?')}; integers: {self.int_note()} -/"]
        sig = f"def {fn['lean_name']} {extra} {' '.join(params)} : {lret} :="
        return "\n".join(hdr + [re.sub(r"\s+", " ", sig), ind(body)])

    def resolve_ty(self, ty):
        if ty is None:
            return None
        if ty[0] == "ty" and ty[1] == "Self":
            return T(self.self_ty)
        if ty[0] == "ty" and ty[1] in self.a.spec.get("aliases", {}):
            return self.tyspec(self.a.spec["aliases"][ty[1]])
        if ty[0] == "ty":
            return ("ty", ty[1], [self.resolve_ty(x) for x in ty[2]])
        return ("tuple", [self.resolve_ty(x) for x in ty[1]])

    def emit_fragment(self, mode, params, extra):
        """translate only a fragment of the function (declared in the target spec)"""
        fn, a = self.fn, self.a
        env = {}
        ps = []
        for name, tys in self.fspec.get("bind", []):
            ty = self.tyspec(tys)
            env[name] = (lean_ident(name), ty)
            ps.append(f"({lean_ident(name)} : {a.lean_ty(ty)})")
        if mode == "if_condition":
            ifs = [n for n in walk(fn["body"]) if n and n[0] == "if" and n[1][0] != "let"]
            if self.fspec.get("mentions"):
                ifs = [n for n in ifs if any(x and x[0] == "path" and self.fspec["mentions"] in x[1] for x in walk(n[1]))]
            k = self.fspec.get("index", 0)
            if k >= len(ifs):
                self.fail(f"mode if_condition: the body has no `if` number {k}")
            v = self.ex(ifs[k][1], env)
            self.dropped.append(f"everything but the condition of `if` number {k} of the body")
            body, lret = v.lean, "Bool"
        else:
            m = self.fspec["method"]
            calls = [n for n in walk(fn["body"]) if n and n[0] == "mcall" and n[2] == m]
            if len(calls) != 1:
                self.fail(f"mode closure_arg: expected exactly one `.{m}(…)` call, found {len(calls)}")
            cl = [x for x in calls[0][3] if x[0] == "closure"]
            if len(cl) != 1:
                self.fail(f"mode closure_arg: `.{m}(…)` has no closure argument")
            ptys = [self.tyspec(t) for t in self.fspec.get("closure_params", [])]
            txt = self.closure(cl[0], ptys, env)
            rt = self.tyspec(self.fspec.get("closure_ret"))
            self.dropped.append(f"everything but the closure passed to `.{m}(…)`")
            body = txt
            lret = " → ".join([a.lean_ty(t) for t in ptys] + [a.lean_ty(rt)])
        hdr = [f"/-- fragment of `{fn['name']}` ({mode}) — translated from line {fn.get('line', '?')}; integers: {self.int_note()} -/"]
        sig = f"def {fn['lean_name']} {extra} {' '.join(ps)} : {lret} :="
        return "\n".join(hdr + [re.sub(r"\s+", " ", sig), ind(body)])

    def ret_k(self, env, v):
        """the function's result, given the value of the body / of a `return`"""
        val = v.lean if v is not None else "()"
        if self.cas:
            return f".done {self.par(val)}"
        if getattr(self, "before_loop", False):
            return f"some {self.par(val)}"
        if getattr(self, "mutref", None):
            outs = [env[m][0] for m in self.mutref] + ([val] if self.fn["ret"] is not None else [])
            return outs[0] if len(outs) == 1 else "(" + ", ".join(outs) + ")"
        if self.self_kind == "mut":
            s = env["self"][0]
            return s if self.fn["ret"] is None else f"({s}, {val})"
        if v is None and self.fn["ret"] is not None:
            self.fail("body has no value but the function has a return type")
        return val

    # ---- effects -----------------------------------------------------------------------
    ATOMIC_RMW = {"fetch_or": "Rust.bor {0} {1}", "fetch_and": "Rust.band {0} {1}", "fetch_xor": "Rust.bxor {0} {1}",
                  "fetch_add": "Rust.wAdd {w} {0} {1}", "fetch_sub": "Rust.wSub {w} {0} {1}", "store": "{1}", "swap": "{1}"}
    ATOMIC_TY = {"AtomicUsize": "usize", "AtomicU64": "u64", "AtomicU32": "u32", "AtomicU8": "u8", "AtomicU16": "u16"}
    MUTATING = {"copy_from_slice", "split_off", "fetch_or", "fetch_and", "fetch_xor", "fetch_add", "fetch_sub", "store", "swap", "retain", "push", "insert", "remove", "clear", "truncate", "sort", "sort_by", "sort_by_key", "dedup",
                "extend", "pop", "push_back", "pop_front", "swap_remove", "drain", "reverse", "take", "replace", "get_or_insert"}

    def is_sibling_mut(self, e):
        if e[0] == "mcall" and e[1] == ("path", ["self"]):
            fi = self.a.fninfo.get((self.self_ty, e[2]))
            return fi is not None and any(p[0] == "self" and p[1] == "mut" for p in fi["params"])
        return False

    def has_effect(self, e):
        for n in walk(e):
            if n and n[0] in ("return", "assign", "loop", "while", "for", "cfg", "try", "macro"):
                return True
            if n and n[0] == "let" and len(n) == 5 and n[4] is not None:
                return True
            if n and n[0] == "mcall" and isinstance(n[2], str) and (n[2] in self.MUTATING or self.is_sibling_mut(n)
                                                                   or n[2] in self.a.spec.get("mut_methods", {})
                                                                   or (n[2] in self.a.spec.get("mutarg_methods", {}) and len(n[3]) == 1)):
                return True
        return False

    def has_return(self, e):
        for n in walk(e):
            if n and n[0] == "return":
                return True
            if n and n[0] == "let" and len(n) == 5 and n[4] is not None:
                return True
        return False

    def assigned(self, e, env):
        """outer variables (rust names present in env) assigned / mutated inside e, in first-use order"""
        out = []

        def root(x):
            while x[0] in ("field", "tfield", "index", "paren", "deref", "ref"):
                x = x[1]
            return x[1][0] if x[0] == "path" and len(x[1]) == 1 else None
        for n in walk(e):
            r = None
            if n and n[0] == "assign":
                r = root(n[2])
            elif n and n[0] == "mcall" and isinstance(n[2], str) and (n[2] in self.MUTATING or self.is_sibling_mut(n)
                                                                     or n[2] in self.a.spec.get("mut_methods", {})):
                r = root(n[1])
            if r and r in env and r not in out:
                out.append(r)
        return out

    # ---- statements (CPS) --------------------------------------------------------------
    def stk(self, stmts, tail, env, k):
        if not stmts:
            if tail is None:
                return k(env, None)
            return self.exk(tail, env, k)
        s, rest = stmts[0], stmts[1:]

        def cont(env2, _v=None):
            return self.stk(rest, tail, env2, k)
        if s[0] == "let":
            _, pat, ty, init, els = s
            if init is None:
                self.fail("`let` without initialiser")
            if els is not None:
                if self.has_effect(init):
                    self.fail("effect in the scrutinee of let-else")
                v = self.ex(init, env)
                env2 = dict(env)
                lp = self.pat(pat, v.ty, env2)
                other = self.stk(els[1], els[2], env, self.diverge_k)
                return f"match {v.lean} with\n| {lp} =>\n{ind(cont(env2))}\n| _ =>\n{ind(other)}"

            def bind(env1, v):
                if ty is not None and v.ty is None:
                    v = Val(v.lean, self.resolve_ty(ty))
                env2 = dict(env1)
                if pat[0] == "p_bind":
                    ln = self.fresh()
                    vty = v.ty if ty is None else self.resolve_ty(ty)
                    env2[pat[1]] = (ln, vty)
                    asc = ""
                    try:
                        if vty is not None and ty_name(vty) not in ("Iter", "TryResult"):
                            asc = f" : {self.a.lean_ty(vty, self.self_ty)}"
                    except (Unsupported, TypeError, IndexError):
                        asc = ""
                    return f"let {ln}{asc} := {v.lean};\n{cont(env2)}"
                if pat[0] == "p_wild":
                    return cont(env2)
                lp = self.pat(pat, v.ty, env2)
                return f"match {v.lean} with\n| {lp} =>\n{ind(cont(env2))}"
            if self.has_effect(init):
                return self.exk(init, env, bind)
            return bind(env, self.ex(init, env))
        e = s[1]
        if e[0] == "dropped":
            return cont(env)
        if e[0] in ("if", "match", "block") and self.has_effect(e) and not self.has_return(e) and (rest or tail is not None or True):
            muts = self.assigned(e, env)
            if muts:
                names = [env[m][0] for m in muts]
                tup = names[0] if len(names) == 1 else "(" + ", ".join(names) + ")"
                inner = self.exk(e, env, lambda env2, _v: (env2[muts[0]][0] if len(muts) == 1 else "(" + ", ".join(env2[m][0] for m in muts) + ")"))
                ascs = [self.asc(env[m][1]) for m in muts]
                asc = ""
                if all(ascs):
                    asc = ascs[0] if len(ascs) == 1 else " : (" + " × ".join(self.par(x[3:]) for x in ascs) + ")"
                return f"let {tup}{asc} :=\n{ind('(' + inner + ')')};\n{cont(env)}"
        if self.has_effect(e):
            return self.exk(e, env, cont)
        # a pure expression statement has no effect: its value is discarded
        self.ex(e, env)
        self.dropped.append("pure expression statement (value discarded)")
        return cont(env)

    def asc(self, vty):
        try:
            if vty is not None and ty_name(vty) not in ("Iter", "TryResult"):
                return f" : {self.a.lean_ty(vty, self.self_ty)}"
        except (Unsupported, TypeError, IndexError):
            pass
        return ""

    def diverge_k(self, env, v):
        self.fail("the `else` block of a let-else must end in `return`")

    def exk(self, e, env, k):
        if not self.has_effect(e):
            if e[0] == "dropped":
                return k(env, None)
            return k(env, self.ex(e, env))
        t = e[0]
        if t == "return":
            if e[1] is None:
                return self.ret_k(env, None)
            return self.exk(e[1], env, self.ret_k)
        if t in ("while", "for"):
            self.fail(f"`{t}` loop (only iterator chains and compare-exchange retry loops are in the subset)")
        if t == "cfg":
            self.fail("`#[cfg(...)]` on a statement")
        if t == "try":
            self.fail("`?` operator")
        if t == "macro":
            self.fail(f"macro `{e[1]}!`")
        for n in walk(e):
            if n is not e and n and n[0] in ("cfg", "try", "macro") and t not in ("if", "match", "block", "paren", "ref", "deref", "assign", "mcall"):
                self.fail({"cfg": "`#[cfg(...)]` on a statement", "try": "`?` operator", "macro": f"macro `{n[1]}!`"}[n[0]])
        if t == "loop":
            return self.cas_loop(e[1], env)
        if t in ("paren", "ref", "deref"):
            return self.exk(e[1], env, k)
        if t == "block":
            return self.stk(e[1], e[2], env, lambda env2, v: k(self.outer(env, env2), v))
        if t == "if":
            c = e[1]
            els = e[3]

            def kk(env2, v):
                return k(self.outer(env, env2), v)
            if c[0] == "let":
                arms = [(c[1], None, e[2]), (("p_wild",), None, els if els is not None else ("block", [], None))]
                return self.match_k(c[2], arms, env, kk)
            if self.has_effect(c):
                self.reject_nodes(c)
                self.fail("effect inside an `if` condition")
            cv = self.ex(c, env)
            a = self.exk(e[2], env, kk)
            b = self.exk(els, env, kk) if els is not None else k(env, None)
            return f"if {cv.lean} then\n{ind(a)}\nelse\n{ind(b)}"
        if t == "match":
            return self.match_k(e[1], e[2], env, lambda env2, v: k(self.outer(env, env2), v))
        if t == "assign":
            op, lhs, rhs = e[1], e[2], e[3]
            if self.has_effect(rhs):
                self.reject_nodes(rhs)
                self.fail("effect on the right-hand side of an assignment")
            if op != "=":
                rhs = ("binary", op[:-1], lhs, rhs)
            rv = self.ex(rhs, env)
            return self.assign_to(lhs, rv, env, k)
        if t == "mcall":
            recv, name, args = e[1], e[2], e[3]
            if name in ("expect", "unwrap") and self.has_effect(recv):
                self.dropped.append(f"`.{name}()` on the result of a mutating call (the call itself is kept)")
                return self.exk(recv, env, k)
            if any(self.has_effect(x) for x in args) or (self.has_effect(recv)):
                self.reject_nodes(e)
                self.fail(f"effect inside the arguments/receiver of `.{name}()`")
            if self.is_sibling_mut(e):
                fi = self.a.fninfo[(self.self_ty, name)]
                if fi.get("failed"):
                    self.fail(f"calls `{name}`, whose translation failed")
                argv = [self.ex(x, env).lean for x in args]
                call = self.app(self.sib_name(fi), [env["self"][0]] + argv)
                if fi["ret"] is None:
                    return f"let {env['self'][0]} := {call};\n{k(env, None)}"
                r = self.fresh()
                return f"let {r} := {call};\nlet {env['self'][0]} := {r}.1;\n{k(env, Val(r + '.2', self.resolve_ty(fi['ret'])))}"
            mm = self.a.spec.get("mut_methods", {}).get(name)
            if mm is not None:
                rv = self.ex(recv, env)
                argv = [self.par(self.ex(x, env).lean) for x in args]
                return self.assign_to(recv, Val(mm.format(self.par(rv.lean), *argv), rv.ty), env, k)
            ma = self.a.spec.get("mutarg_methods", {}).get(name)
            if ma is not None and len(args) == 1:
                rv = self.ex(recv, env)
                av = self.ex(args[0], env)
                return self.assign_to(args[0], Val(ma.format(self.par(rv.lean), self.par(av.lean)), av.ty), env, k)
            if name == "copy_from_slice" and recv[0] == "index" and recv[2][0] == "range":
                base = recv[1]
                bv = self.ex(base, env)
                lo = self.ex(recv[2][1], env, T("usize")).lean if recv[2][1] is not None else "0"
                src = self.ex(args[0], env)
                self.note("`a[lo..hi].copy_from_slice(src)` overwrites `src.len()` elements from `lo` (Rust panics unless `hi - lo == src.len()` and in bounds)")
                return self.assign_to(base, Val(f"Rust.copyInto {self.par(bv.lean)} {self.par(lo)} {self.par(src.lean)}", bv.ty), env, k)
            if name == "split_off":
                rv = self.ex(recv, env)
                n = self.ex(args[0], env, T("usize"))
                tail = self.fresh()
                inner = self.assign_to(recv, Val(f"List.take {self.par(n.lean)} {self.par(rv.lean)}", rv.ty), env,
                                       lambda env2, _v: k(env2, Val(tail, rv.ty)))
                return f"let {tail}{self.asc(rv.ty)} := List.drop {self.par(n.lean)} {self.par(rv.lean)};\n{inner}"
            if name in self.ATOMIC_RMW and ty_name(self.ex(recv, env).ty) in self.ATOMIC_TY:
                rv = self.ex(recv, env)
                at = self.ATOMIC_TY.get(ty_name(rv.ty))
                if at is None:
                    self.fail(f"`.{name}()` on a receiver that is not a known atomic integer")
                w = self.width(T(at), f"`.{name}()`")
                a0 = self.ex(args[0], env, T(at))
                old = self.fresh()
                new = self.ATOMIC_RMW[name].format(self.par(rv.lean), self.par(a0.lean), w=w) if "{w}" in self.ATOMIC_RMW[name] else self.ATOMIC_RMW[name].format(self.par(rv.lean), self.par(a0.lean))
                inner = self.assign_to(recv, Val(new, rv.ty), env, lambda env2, _v: k(env2, Val(old, T(at))))
                return f"let {old} : Nat := {rv.lean};\n{inner}"
            if name == "retain":
                rv = self.ex(recv, env)
                el = self.elem_ty(rv.ty)
                f = self.closure(args[0], [el], env)
                return self.assign_to(recv, Val(f"List.filter {f} {self.par(rv.lean)}", rv.ty), env, k)
            if name == "push":
                rv = self.ex(recv, env)
                return self.assign_to(recv, Val(f"{self.par(rv.lean)} ++ [{self.ex(args[0], env).lean}]", rv.ty), env, k)
            if name == "clear":
                rv = self.ex(recv, env)
                return self.assign_to(recv, Val("[]", rv.ty), env, k)
            self.fail(f"mutating method `.{name}()`")
        self.reject_nodes(e)
        self.fail(f"effect (assignment/return) inside a `{t}` expression")

    def cas_loop(self, body, env):
        """`loop { …; match A.compare_exchange[_weak](cur, new, _, _) { Ok(_) => return v, Err(o) => cur = o } }`
        is translated as ONE iteration: `.done v` for a `return v` before the exchange, `.cas cur new v` at it."""
        self.cas = True
        stmts, tail = body[1], body[2]
        last = tail if tail is not None else (stmts[-1][1] if stmts and stmts[-1][0] == "expr" else None)
        pre = stmts if tail is not None else stmts[:-1]
        ok = last is not None and last[0] == "match" and last[1][0] == "mcall" and last[1][2] in ("compare_exchange", "compare_exchange_weak") and len(last[2]) == 2
        if not ok:
            self.fail("`loop` that is not a compare-exchange retry loop")
        cx = last[1]
        cur = cx[3][0]

        def fin(env2, _v):
            at = self.ATOMIC_TY.get(ty_name(self.ex(cx[1], env2).ty))
            if at is None:
                self.fail("compare_exchange on a receiver that is not a known atomic integer")
            c = self.ex(cur, env2, T(at))
            n = self.ex(cx[3][1], env2, T(at))
            okv = errok = None
            for pat, guard, b in last[2]:
                if pat[0] == "p_ctor" and pat[1] == ["Ok"]:
                    while b[0] == "block" and not b[1] and b[2] is not None:
                        b = b[2]
                    if b[0] == "block" and len(b[1]) >= 1 and b[2] is None and b[1][-1][0] == "expr" and b[1][-1][1][0] == "return":
                        pre_ok = b[1][:-1]
                        if any(x[0] != "expr" or x[1][0] != "dropped" for x in pre_ok):
                            self.fail("statements before `return` in the Ok arm of a compare-exchange loop")
                        b = b[1][-1][1]
                    if b[0] != "return" or guard is not None:
                        self.fail("the Ok arm of a compare-exchange loop must be `return …`")
                    okv = self.ex(b[1], env2, self.ret_ty).lean if b[1] is not None else "()"
                elif pat[0] == "p_ctor" and pat[1] == ["Err"] and pat[2] and pat[2][0][0] == "p_bind":
                    o = pat[2][0][1]
                    while b[0] == "block" and not b[1] and b[2] is not None:
                        b = b[2]
                    if b != ("assign", "=", cur, ("path", [o])):
                        self.fail("the Err arm of a compare-exchange loop must re-assign the observed value")
                    errok = True
            if okv is None or not errok:
                self.fail("compare-exchange loop without the expected Ok/Err arms")
            return f".cas {self.par(c.lean)} {self.par(n.lean)} {self.par(okv)}"
        return self.stk(pre, None, env, fin)

    def reject_nodes(self, e):
        """name the construct when a parsed-but-unsupported node hides inside e"""
        for n in walk(e):
            if n and n[0] == "cfg":
                self.fail("`#[cfg(...)]` on a statement")
            if n and n[0] == "try":
                self.fail("`?` operator")
            if n and n[0] == "macro":
                self.fail(f"macro `{n[1]}!`")
            if n and n[0] in ("while", "for"):
                self.fail(f"`{n[0]}` loop (only iterator chains and compare-exchange retry loops are in the subset)")

    def outer(self, env, env2):
        """after leaving a block: keep outer names only (their Lean names are stable under assignment)"""
        return {n: env2.get(n, v) if env2.get(n, v)[0] == v[0] else v for n, v in env.items()}

    def assign_to(self, lhs, rv, env, k):
        while lhs[0] in ("paren", "deref", "ref") or (lhs[0] == "tfield" and lhs[1] == ("path", ["self"]) and lhs[2] == 0
                                               and self.fspec.get("self_is_tuple_of_self")):
            lhs = lhs[1]
        if lhs[0] == "path" and len(lhs[1]) == 1 and lhs[1][0] in env:
            ln, ty = env[lhs[1][0]]
            return f"let {ln}{self.asc(ty)} := {rv.lean};\n{k(env, None)}"
        if lhs[0] == "field":
            base = lhs[1]
            bv = self.ex(base, env)
            self.field_ty(bv.ty, lhs[2])
            return self.assign_to(base, Val(f"{{ {bv.lean} with {lean_ident(lhs[2])} := {rv.lean} }}", bv.ty), env, k)
        self.fail("assignment to an unsupported place expression")

    def match_k(self, scrut, arms, env, k):
        if self.has_effect(scrut):
            self.reject_nodes(scrut)
            self.fail("effect inside a match scrutinee")
        sv = self.ex(scrut, env)
        return self.arms_k(sv, arms, env, lambda body, env2: self.exk(body, env2, k))

    def arms_k(self, sv, arms, env, body_tr):
        simple = re.fullmatch(r"[\w.«»]+", sv.lean) is not None
        pre = ""
        if not simple and any(g is not None for _, g, _ in arms):
            nm = self.fresh()
            pre = f"let {nm} := {sv.lean};\n"
            sv = Val(nm, sv.ty)
        return pre + self.arms_from(sv, arms, 0, env, body_tr)

    def arms_from(self, sv, arms, start, env, body_tr):
        lines = [f"match {sv.lean} with"]
        i = start
        while i < len(arms):
            pat, guard, body = arms[i]
            alts = pat[1] if pat[0] == "p_or" else [pat]
            if guard is not None:
                # `P if g => e`: when g fails the REMAINING arms are tried; values not matching P go there too
                if i + 1 >= len(arms):
                    self.fail("guard on the last match arm (no fall-through arm)")
                restm = self.arms_from(sv, arms, i + 1, env, body_tr)
                for alt in alts:
                    env2 = dict(env)
                    lp = self.pat(alt, sv.ty, env2)
                    b = body_tr(body, env2)
                    g = self.ex(guard, env2)
                    ite = "if " + g.lean + " then\n" + ind(b) + "\nelse\n" + ind(restm)
                    lines.append(f"| {lp} =>\n{ind(self.wrap(ite))}")
                if not (len(alts) == 1 and alts[0][0] in ("p_wild", "p_bind")):
                    lines.append(f"| _ =>\n{ind(self.wrap(restm))}")
                return "\n".join(lines)
            for alt in alts:
                env2 = dict(env)
                lp = self.pat(alt, sv.ty, env2)
                b = body_tr(body, env2)
                lines.append(f"| {lp} =>\n{ind(self.wrap(b))}")
            if pat[0] in ("p_wild", "p_bind"):
                break
            i += 1
        return "\n".join(lines)

    @staticmethod
    def wrap(b):
        return f"({b})" if ("match " in b or "\n" in b) and not b.startswith("(") else b

    # ---- patterns ----------------------------------------------------------------------
    def pat(self, p, ty, env):
        """Lean pattern text; binds variables into env (alpha-normalised)"""
        t = p[0]
        if t == "p_wild" or t == "p_rest":
            return "_"
        if t == "p_bind":
            ln = self.fresh()
            env[p[1]] = (ln, ty)
            return ln
        if t == "p_lit":
            l = p[1]
            if l[0] == "int":
                return str(l[1])
            if l[0] == "bool":
                return "true" if l[1] else "false"
            return lean_str(l[1])
        if t == "p_tuple":
            tys = ty[1] if ty and ty[0] == "tuple" else [None] * len(p[1])
            return "(" + ", ".join(self.pat(x, tys[i] if i < len(tys) else None, env) for i, x in enumerate(p[1])) + ")"
        if t in ("p_path", "p_ctor"):
            segs = p[1]
            args = p[2] if t == "p_ctor" else []
            ctor, ftys, _ = self.ctor(segs, ty)
            if any(x[0] == "p_rest" for x in args):
                k = [x[0] for x in args].index("p_rest")
                args = args[:k] + [("p_wild",)] * (len(ftys) - len(args) + 1) + args[k + 1:]
            if len(args) != len(ftys):
                self.fail(f"pattern `{'::'.join(segs)}` has {len(args)} fields, the type has {len(ftys)}")
            sub = [self.pat(x, ftys[i], env) for i, x in enumerate(args)]
            return ctor if not sub else f"{ctor} " + " ".join(s if re.fullmatch(r"[\w.«»]+", s) else f"({s})" for s in sub)
        if t == "p_struct":
            name = p[1][-1]
            if name == "Self":
                name = self.self_ty
            if name in self.a.structs:
                d = self.a.structs[name]
                parts = []
                given = dict(p[2])
                for fn_, ft in d["fields"]:
                    parts.append(self.pat(given[fn_], self.resolve_ty(ft), env) if fn_ in given else "_")
                for g in given:
                    if g not in [x[0] for x in d["fields"]]:
                        self.fail(f"struct pattern names field `{g}` which is not kept in the generated structure")
                return "⟨" + ", ".join(parts) + "⟩"
            self.fail(f"struct pattern on `{name}`")
        if t == "p_or":
            self.fail("nested or-pattern")
        self.fail(f"pattern kind {t}")

    def ctor(self, segs, expected_ty=None):
        """(lean constructor text, [field types], result type) for a Rust path naming a variant"""
        last = segs[-1]
        if len(segs) == 1:
            if last == "Some":
                inner = expected_ty[2][0] if ty_name(expected_ty) == "Option" and expected_ty[2] else None
                return "some", [inner], expected_ty
            if last == "None":
                return "none", [], expected_ty
            if last == "Ok":
                inner = expected_ty[2][0] if ty_name(expected_ty) == "Result" and expected_ty[2] else None
                return ".ok", [inner], expected_ty
            if last == "Err":
                return ".error", [None], expected_ty
        if len(segs) >= 2:
            en = segs[-2]
            if en == "Self":
                en = self.self_ty
            if en == "Ordering" and last in ("Less", "Equal", "Greater"):
                return {"Less": "Ordering.lt", "Equal": "Ordering.eq", "Greater": "Ordering.gt"}[last], [], T("Ordering")
            if en in self.a.enums:
                d = self.a.enums[en]
                for vn, fields, _ in d["variants"]:
                    if vn == last:
                        return f"{en}.{lean_ident(vn)}", [self.resolve_ty2(ft, en) for _, ft in fields], T(en)
                self.fail(f"enum `{en}` has no variant `{last}`")
        self.fail(f"path `{'::'.join(segs)}` is not a known constructor")

    def resolve_ty2(self, ty, self_name):
        if ty and ty[0] == "ty" and ty[1] == "Self":
            return T(self_name)
        return ty

    # ---- type helpers ------------------------------------------------------------------
    def field_ty(self, ty, f):
        n = ty_name(ty)
        if n in self.a.structs:
            d = self.a.structs[n]
            for fn_, ft in d["fields"]:
                if fn_ == f:
                    return self.resolve_ty(ft)
            if f in d.get("all_fields", []):
                self.fail(f"field `{n}.{f}` is used by the function but not kept by the target spec")
            self.fail(f"struct `{n}` has no field `{f}`")
        ft = self.a.spec.get("field_types", {}).get(n, {})
        if f in ft:
            return self.tyspec(ft[f])
        if n is None:
            self.fail(f"cannot determine the type of the receiver of field access `.{f}`")
        self.fail(f"field access `.{f}` on type `{n}`")

    def elem_ty(self, ty):
        if ty_name(ty) in ("Vec", "Slice", "Array", "Iter", "VecDeque", "Option") and ty[2]:
            return ty[2][0]
        return None

    def width(self, ty, what):
        n = ty_name(ty)
        if n in INTW:
            self.widths.add(f"{n}={INTW[n]}")
            return INTW[n]
        if n in SIGNED:
            self.fail(f"signed integer arithmetic ({what} on `{n}`)")
        m = self.a.spec.get("types", {})
        self.fail(f"cannot determine the integer width of the operand of {what}" + (f" (type `{n}`)" if n else ""))

    @staticmethod
    def par(s):
        return s if re.fullmatch(r"[\w.«»]+|\(.*\)|\[.*\]|\".*\"", s, flags=re.S) and (not s.startswith("(") or FnTr.balanced(s)) else f"({s})"

    @staticmethod
    def balanced(s):
        d = 0
        for i, c in enumerate(s):
            if c == "(":
                d += 1
            elif c == ")":
                d -= 1
                if d == 0 and i != len(s) - 1:
                    return False
        return True

    def app(self, f, args):
        return " ".join([f] + [self.par(a) for a in args])

    def sib_name(self, fi):
        extra = self.a.spec.get("fn_args", "")
        return (fi["lean_name"] + " " + extra).strip()

    def closure(self, c, ptys, env):
        while c[0] in ("paren", "ref"):
            c = c[1]
        if c[0] == "path":
            # a function path used as a closure
            v = self.ex(c, env)
            return self.par(v.lean)
        if c[0] != "closure":
            self.fail("expected a closure argument")
        self.reject_nodes(c[2])
        env2 = dict(env)
        ps = []
        for i, p in enumerate(c[1]):
            ps.append(self.pat(p, ptys[i] if i < len(ptys) else None, env2))
        if self.has_effect(c[2]):
            self.fail("effect (assignment/return) inside a closure")
        b = self.ex(c[2], env2)
        self.last_closure_ty = b.ty
        return f"(fun {' '.join(ps)} => {b.lean})"

    # ---- pure expressions --------------------------------------------------------------
    def ex(self, e, env, want=None):
        t = e[0]
        m = getattr(self, "ex_" + t, None)
        if m is None:
            self.fail(f"expression kind `{t}` in value position")
        return m(e, env, want)

    def ex_int(self, e, env, want):
        ty = T(e[2]) if e[2] else (want if is_int(want) else None)
        if ty is not None and is_int(ty) and e[1] >= 2 ** INTW[ty_name(ty)]:
            self.fail("integer literal out of range")
        return Val(str(e[1]), ty)

    def ex_bool(self, e, env, want):
        return Val("true" if e[1] else "false", T("bool"))

    def ex_str(self, e, env, want):
        return Val(lean_str(e[1]), T("str"))

    def ex_format(self, e, env, want):
        return Val(lean_str(e[1]), T("String"))

    def ex_paren(self, e, env, want):
        v = self.ex(e[1], env, want)
        return Val(self.par(v.lean), v.ty)

    def ex_ref(self, e, env, want):
        return self.ex(e[1], env, want)

    ex_deref = ex_ref

    def ex_dropped(self, e, env, want):
        self.fail("dropped (logging) macro used as a value")

    def ex_path(self, e, env, want):
        segs = e[1]
        if len(segs) == 1 and segs[0] in env:
            ln, ty = env[segs[0]]
            return Val(ln, ty)
        if len(segs) == 1 and segs[0] in self.a.consts:
            return Val(segs[0], self.a.consts[segs[0]])
        if len(segs) == 2 and tuple(segs) in KNOWN_CONSTS:
            v, ty = KNOWN_CONSTS[tuple(segs)]
            return Val(str(v), T(ty))
        key = "::".join(segs)
        for k, (tmpl, ty) in self.a.spec.get("paths", {}).items():
            if key == k or key.endswith("::" + k):
                return Val(tmpl, self.tyspec(ty))
        if segs[-1] == "None" and len(segs) == 1:
            return Val("none", want if ty_name(want) == "Option" else T("Option", None) if False else want)
        ctor, ftys, rty = self.ctor(segs, want)
        if ftys:
            self.fail(f"constructor `{key}` used without arguments")
        return Val(ctor, rty)

    def tyspec(self, s):
        if s is None or isinstance(s, tuple):
            return s
        toks = tokenize(s)
        return self.resolve_ty(Parser(toks, 0, "<spec>").ty())

    def ex_tuple(self, e, env, want):
        vs = [self.ex(x, env) for x in e[1]]
        if not vs:
            return Val("()", ("tuple", []))
        return Val("(" + ", ".join(v.lean for v in vs) + ")", ("tuple", [v.ty for v in vs]))

    def ex_struct(self, e, env, want):
        name = e[1][-1]
        if name == "Self":
            name = self.self_ty
        if name not in self.a.structs:
            self.fail(f"struct literal of `{name}` (type not generated)")
        d = self.a.structs[name]
        kept = [f for f, _ in d["fields"]]
        parts = []
        for f, x in e[2]:
            if f not in kept:
                if f in d.get("all_fields", []):
                    self.dropped.append(f"field `{name}.{f}` of a struct literal (not kept by the spec)")
                    continue
                self.fail(f"struct `{name}` has no field `{f}`")
            fty = self.resolve_ty(dict(d["fields"])[f])
            parts.append(f"{lean_ident(f)} := {self.ex(x, env, fty).lean}")
        lt = self.a.lean_ty(T(name))
        if e[3] is not None:
            b = self.ex(e[3], env)
            if not parts:
                return Val(b.lean, T(name))
            return Val(f"{{ {b.lean} with {', '.join(parts)} }}", T(name))
        missing = [f for f in kept if f not in [x[0] for x in e[2]]]
        if missing:
            self.fail(f"struct literal of `{name}` lacks fields {missing}")
        return Val(f"({{ {', '.join(parts)} }} : {lt})", T(name))

    def ex_field(self, e, env, want):
        b = self.ex(e[1], env)
        fty = self.field_ty(b.ty, e[2])
        return Val(f"{self.par(b.lean)}.{lean_ident(e[2])}", fty)

    def ex_tfield(self, e, env, want):
        if e[1] == ("path", ["self"]) and e[2] == 0 and self.fspec.get("self_is_tuple_of_self"):
            return self.ex(e[1], env)
        b = self.ex(e[1], env)
        if not (b.ty and b.ty[0] == "tuple"):
            self.fail("tuple field access on a value of unknown type")
        n, i = len(b.ty[1]), e[2]
        proj = ".2" * i + (".1" if i < n - 1 else "")
        return Val(f"{self.par(b.lean)}{proj}", b.ty[1][i])

    def ex_unary(self, e, env, want):
        v = self.ex(e[2], env, want)
        if e[1] == "!":
            if is_int(v.ty):
                w = self.width(v.ty, "`!`")
                return Val(f"Rust.bnot {w} {self.par(v.lean)}", v.ty)
            if ty_name(v.ty) == "bool":
                return Val(f"!{self.par(v.lean)}", T("bool"))
            self.fail("cannot determine whether `!` is boolean or bitwise (operand type unknown)")
        self.fail("unary minus")

    def ex_cast(self, e, env, want):
        v = self.ex(e[1], env)
        tn = ty_name(e[2])
        if tn in INTW:
            sn = ty_name(v.ty)
            if sn in INTW and INTW[sn] <= INTW[tn]:
                return Val(v.lean, e[2])
            if sn in ("isize", "i64", "i32") and re.fullmatch(r"\d+", v.lean):
                return Val(v.lean, e[2])     # non-negative constant
            if sn in self.a.enums and self.a.enums[sn].get("has_disc"):
                return Val(f"{sn}.toNat {self.par(v.lean)}", e[2])
            if sn in INTW or sn is None and re.fullmatch(r"\d+", v.lean):
                self.widths.add(f"{tn}={INTW[tn]}")
                return Val(f"Rust.cast {INTW[tn]} {self.par(v.lean)}", e[2])
            self.fail(f"`as {tn}` from a value of type `{sn}`")
        self.fail(f"cast to `{tn}`")

    CMP = {"<": "<", "<=": "≤", ">": ">", ">=": "≥"}

    def ex_binary(self, e, env, want):
        op = e[1]
        if op in ("&&", "||"):
            a, b = self.ex(e[2], env), self.ex(e[3], env)
            return Val(f"({a.lean} {op} {b.lean})", T("bool"))
        hint = want if is_int(want) and op not in self.CMP and op not in ("==", "!=") else None
        a = self.ex(e[2], env, hint)
        b = self.ex(e[3], env, a.ty or hint)
        if a.ty is None and b.ty is not None:
            a = self.ex(e[2], env, b.ty)
        ty = a.ty or b.ty
        if op in ("==", "!="):
            r = "=" if op == "==" else "≠"
            return Val(f"decide ({a.lean} {r} {b.lean})", T("bool"))
        if op in self.CMP:
            n = ty_name(ty)
            if n in self.a.enums and self.a.enums[n].get("has_disc"):
                return Val(f"decide ({n}.toNat {self.par(a.lean)} {self.CMP[op]} {n}.toNat {self.par(b.lean)})", T("bool"))
            lt = None
            try:
                lt = self.a.lean_ty(ty) if ty else None
            except Unsupported:
                pass
            if lt != "Nat":
                self.fail(f"ordering comparison `{op}` on a non-integer type (`{n}`)")
            return Val(f"decide ({a.lean} {self.CMP[op]} {b.lean})", T("bool"))
        if ty_name(ty) == "bool" and op in ("&", "|", "^"):
            l = {"&": "&&", "|": "||", "^": "!="}[op]
            return Val(f"({a.lean} {l} {b.lean})", T("bool"))
        so = self.a.spec.get("operators", {}).get((op, ty_name(a.ty)))
        if so is not None:
            return Val(so[0].format(self.par(a.lean), self.par(b.lean)), self.tyspec(so[1]))
        if op in ("/", "%"):
            self.width(ty, f"`{op}`")
            self.note(f"`{op}`: Lean `x {op} 0 = {'0' if op == '/' else 'x'}`, Rust panics on a zero divisor")
            return Val(f"({a.lean} {op} {b.lean})", ty)
        w = self.width(ty, f"`{op}`")
        f = {"+": "Rust.wAdd", "-": "Rust.wSub", "*": "Rust.wMul", "&": "Rust.band", "|": "Rust.bor", "^": "Rust.bxor",
             "<<": "Rust.shl", ">>": "Rust.shr"}[op]
        if op in ("+", "-", "*"):
            self.note(f"`{op}` is translated with release-mode wrapping at {w} bits (debug builds panic on overflow)")
        if op in ("&", "|", "^", ">>"):
            return Val(f"{f} {self.par(a.lean)} {self.par(b.lean)}", ty)
        return Val(f"{f} {w} {self.par(a.lean)} {self.par(b.lean)}", ty)

    def ex_if(self, e, env, want):
        c = e[1]
        if e[3] is None:
            # statement-like `if` without effects (only dropped/log statements inside): nothing to keep,
            # but the condition and the body are still translated so that nothing unsupported hides there
            if c[0] == "let":
                self.ex(c[2], env)
            else:
                self.ex(c, env)
            v = self.ex(e[2], env)
            if v.lean != "()":
                self.fail("`if` without `else` in value position")
            self.dropped.append("`if` without `else` whose body has no effect (only dropped statements)")
            return Val("()", ("tuple", []))
        if c[0] == "let":
            return self.ex_match(("match", c[2], [(c[1], None, e[2]), (("p_wild",), None, e[3])]), env, want)
        cv = self.ex(c, env)
        a = self.ex(e[2], env, want)
        b = self.ex(e[3], env, want or a.ty)
        return Val(f"(if {cv.lean} then {a.lean} else {b.lean})", a.ty or b.ty)

    def ex_match(self, e, env, want):
        sv = self.ex(e[1], env)
        tys = []

        def body_tr(body, env2):
            v = self.ex(body, env2, want)
            tys.append(v.ty)
            return v.lean
        txt = self.arms_k(sv, e[2], env, body_tr)
        ty = next((t for t in tys if t is not None), want)
        return Val("(" + txt.replace("\n", "\n ") + ")", ty)

    def ex_matches(self, e, env, want):
        arms = [(e[2], e[3], ("bool", True)), (("p_wild",), None, ("bool", False))]
        return self.ex_match(("match", e[1], arms), env, T("bool"))

    def ex_block(self, e, env, want):
        out = []
        if e[2] is None:
            txt = self.stk(e[1], None, env, lambda env2, v: "()")
            if txt != "()":
                self.fail("block without a value in value position")
            return Val("()", ("tuple", []))

        def k(env2, v):
            out.append(v)
            return v.lean
        txt = self.stk(e[1], e[2], env, k)
        if not e[1]:
            return out[0]
        return Val("(" + txt.replace("\n", "\n ") + ")", out[0].ty if out else None)

    def ex_vec(self, e, env, want):
        vs = [self.ex(x, env) for x in e[1]]
        return Val("[" + ", ".join(v.lean for v in vs) + "]", T("Vec", vs[0].ty if vs else None))

    def ex_closure(self, e, env, want):
        return Val(self.closure(e, [], env), None)

    def ex_index(self, e, env, want):
        if e[2][0] != "range":
            self.fail("index expression `a[i]`")
        a = self.ex(e[1], env)
        if ty_name(a.ty) not in ("Vec", "Slice", "Array"):
            self.fail("range index on a value that is not a vector/slice")
        lo = self.ex(e[2][1], env, T("usize")).lean if e[2][1] is not None else "0"
        if e[2][2] is None:
            return Val(f"List.drop {self.par(lo)} {self.par(a.lean)}", a.ty)
        hi = self.ex(e[2][2], env, T("usize")).lean
        self.note("`a[lo..hi]` is `(a.drop lo).take (hi - lo)` (Rust panics when the range is out of bounds)")
        return Val(f"Rust.slice {self.par(a.lean)} {self.par(lo)} {self.par(hi)}", a.ty)

    def ex_vec_repeat(self, e, env, want):
        v = self.ex(e[1], env)
        n = self.ex(e[2], env, T("usize"))
        return Val(f"List.replicate {self.par(n.lean)} {self.par(v.lean)}", T("Vec", v.ty))

    def ex_call(self, e, env, want):
        callee = e[1]
        if callee[0] != "path":
            self.fail("call of a non-path expression")
        segs = callee[1]
        key = "::".join(segs)
        args = e[2]
        nd = self.a.spec.get("nondet", {})
        if self.print_chain(e) in nd:
            ln, ty = nd[self.print_chain(e)]
            self.ndraw += 1
            if self.ndraw > 1:
                self.fail(f"more than one draw of `{self.print_chain(e)}` in one function")
            return Val(ln, self.tyspec(ty))
        # foreign calls declared in the spec
        for k, spec in self.a.spec.get("calls", {}).items():
            if key == k or key.endswith("::" + k):
                tmpl, rty = spec
                argv = [self.par(self.ex(x, env).lean) for x in args]
                try:
                    return Val(tmpl.format(*argv), self.tyspec(rty))
                except IndexError:
                    self.fail(f"call of `{key}` with {len(argv)} arguments (spec expects more)")
        if len(segs) == 2 and segs[0] in INTW and segs[1] == "try_from":
            v = self.ex(args[0], env)
            w = INTW[segs[0]]
            self.widths.add(f"{segs[0]}={w}")
            sn = ty_name(v.ty)
            if sn not in INTW and not (sn in SIGNED and re.fullmatch(r"\d+", v.lean)):
                self.fail(f"`{key}` of a value of type `{sn}`")
            return Val(f"Rust.tryFrom {w} {self.par(v.lean)}", T("TryResult", T(segs[0])))
        if len(segs) == 2 and segs[0] in INTW and segs[1] == "from":
            v = self.ex(args[0], env)
            sn = ty_name(v.ty)
            if sn in INTW and INTW[sn] <= INTW[segs[0]]:
                return Val(v.lean, T(segs[0]))
            self.fail(f"`{key}` of a value of type `{sn}`")
        # sibling translated function
        fi = None
        if len(segs) == 1:
            fi = self.a.fninfo.get((None, segs[0]))
        elif len(segs) == 2:
            fi = self.a.fninfo.get((self.self_ty if segs[0] == "Self" else segs[0], segs[1]))
        elif segs[0] == "crate":
            fi = self.a.fninfo.get((None, segs[-1]))
        if fi is not None:
            if fi.get("failed"):
                self.fail(f"calls `{key}`, whose translation failed")
            ps = [p for p in fi["params"] if p[0] not in fi["spec"].get("drop_params", [])]
            argv = [self.ex(x, env, self.resolve_ty(ps[i][1]) if i < len(ps) and ps[i][0] != "self" else None).lean for i, x in enumerate(args)]
            return Val(self.app(self.sib_name(fi), argv), self.resolve_ty2(fi["ret"], fi["self_ty"]))
        ctor, ftys, rty = self.ctor(segs, want)
        if len(ftys) != len(args):
            self.fail(f"constructor `{key}` applied to {len(args)} arguments, the type has {len(ftys)} fields")
        vs = [self.ex(x, env, ftys[i]) for i, x in enumerate(args)]
        if ctor == "some":
            rty = T("Option", vs[0].ty)
        if ctor == ".ok":
            rty = want if ty_name(want) == "Result" else T("Result", vs[0].ty)
            ctor = "Except.ok"
        if ctor == ".error":
            rty = want if ty_name(want) == "Result" else T("Result", None)
            ctor = "Except.error"
        return Val(self.app(ctor, [v.lean for v in vs]), rty)

    def ex_mcall(self, e, env, want):
        recv, name, args = e[1], e[2], e[3]
        # nondeterministic sources declared in the spec (matched on the printed receiver chain)
        printed = self.print_chain(e)
        nd = self.a.spec.get("nondet", {})
        if printed in nd:
            ln, ty = nd[printed]
            self.ndraws = getattr(self, "ndraws", {})
            self.ndraws[ln] = self.ndraws.get(ln, 0) + 1
            if self.ndraws[ln] > 1:
                self.fail(f"more than one draw of `{printed}` in one function (one `{ln}` parameter per call)")
            return Val(ln, self.tyspec(ty))
        # sibling method on self
        if recv == ("path", ["self"]):
            fi = self.a.fninfo.get((self.self_ty, name))
            if fi is not None:
                if fi.get("failed"):
                    self.fail(f"calls `{name}`, whose translation failed")
                if self.is_sibling_mut(e):
                    self.fail(f"`&mut self` method `{name}` called in value position")
                argv = [self.ex(x, env).lean for x in args]
                if fi["spec"].get("draws"):
                    self.ndraw += 1
                    if self.ndraw > 1:
                        self.fail("more than one nondeterministic draw in one function")
                return Val(self.app(self.sib_name(fi), [env["self"][0]] + argv), self.resolve_ty2(fi["ret"], fi["self_ty"]))
        r = self.ex(recv, env)
        rn = ty_name(r.ty)
        R = self.par(r.lean)
        fi = self.a.fninfo.get((rn, name)) if rn else None
        if fi is not None and fi["params"] and fi["params"][0][0] == "self" and fi["params"][0][1] != "mut":
            if fi.get("failed"):
                self.fail(f"calls `{rn}::{name}`, whose translation failed")
            argv = [self.ex(x, env).lean for x in args]
            return Val(self.app(self.sib_name(fi), [r.lean] + argv), self.resolve_ty2(fi["ret"], fi["self_ty"]))
        if rn in self.ATOMIC_TY and name == "load":
            return Val(r.lean, T(self.ATOMIC_TY[rn]))
        for sm in self.a.spec.get("methods", []):
            if sm["name"] == name and (sm.get("on") is None or sm["on"] == rn) and len(args) == sm.get("arity", max([int(x) for x in re.findall(r"\{(\d+)\}", sm["lean"])] + [0])):
                argv = [self.par(self.ex(x, env).lean) for x in args]
                return Val(sm["lean"].format(R, *argv), self.tyspec(sm.get("ty")) if sm.get("ty") != "same" else r.ty)

        def arg(i, want=None):
            return self.ex(args[i], env, want)
        # ---- integers
        if name in ("saturating_add", "saturating_mul", "saturating_sub", "wrapping_add", "wrapping_sub", "wrapping_mul",
                    "checked_add", "checked_sub", "checked_mul") and (is_int(r.ty) or rn is None):
            w = self.width(r.ty, f"`.{name}()`")
            b = arg(0, r.ty)
            f = {"saturating_add": f"Rust.satAdd {w}", "saturating_mul": f"Rust.satMul {w}", "saturating_sub": "Rust.satSub",
                 "wrapping_add": f"Rust.wAdd {w}", "wrapping_sub": f"Rust.wSub {w}", "wrapping_mul": f"Rust.wMul {w}",
                 "checked_add": f"Rust.checkedAdd {w}", "checked_sub": "Rust.checkedSub", "checked_mul": f"Rust.checkedMul {w}"}[name]
            ty = T("Option", r.ty) if name.startswith("checked") else r.ty
            return Val(f"{f} {R} {self.par(b.lean)}", ty)
        if name in ("min", "max") and len(args) == 1:
            b = arg(0, r.ty)
            ty = r.ty or b.ty
            if self.a.lean_ty(ty) != "Nat" if ty else True:
                self.fail(f"`.{name}(x)` on a non-integer or unknown type")
            return Val(f"Nat.{name} {R} {self.par(b.lean)}", ty)
        if name == "cmp" and len(args) == 1:
            b = arg(0, r.ty)
            return Val(f"compare {R} {self.par(b.lean)}", T("Ordering"))
        # ---- representation-only
        if name in IDENTITY_METHODS and not args and rn not in ("HashMap", "BTreeMap"):
            self.a.identity_used.add(name)
            ty = r.ty
            if name in ("iter", "into_iter") and rn in ("Vec", "Slice", "Array", "VecDeque"):
                ty = T("Iter", *r.ty[2])
            if name == "collect" and rn == "Iter":
                ty = T("Vec", *r.ty[2])
            if name == "to_vec":
                ty = r.ty
            return Val(r.lean, ty)
        # ---- iterators / vectors
        if rn in ("Iter", "Vec", "Slice", "Array", "VecDeque"):
            el = self.elem_ty(r.ty)
            if name in ("len", "count") and not args:
                return Val(f"{R}.length", T("usize"))
            if name == "is_empty":
                return Val(f"{R}.isEmpty", T("bool"))
            if name in ("any", "all"):
                return Val(f"List.{name} {R} {self.closure(args[0], [el], env)}", T("bool"))
            if name == "filter":
                return Val(f"List.filter {self.closure(args[0], [el], env)} {R}", T("Iter", el))
            if name == "map":
                f = self.closure(args[0], [el], env)
                return Val(f"List.map {f} {R}", T("Iter", self.last_closure_ty))
            if name == "filter_map":
                f = self.closure(args[0], [el], env)
                oty = self.last_closure_ty
                return Val(f"List.filterMap {f} {R}", T("Iter", oty[2][0] if ty_name(oty) == "Option" and oty[2] else None))
            if name in ("min", "max") and not args:
                if el is None or self.a.lean_ty(el) != "Nat":
                    self.fail(f"iterator `.{name}()` over a non-integer or unknown element type")
                return Val(f"List.{name}? {R}", T("Option", el))
            if name == "find":
                return Val(f"List.find? {self.closure(args[0], [el], env)} {R}", T("Option", el))
            if name == "find_map":
                f = self.closure(args[0], [el], env)
                return Val(f"List.findSome? {f} {R}", self.last_closure_ty)
            if name == "position":
                return Val(f"List.findIdx? {self.closure(args[0], [el], env)} {R}", T("Option", T("usize")))
            if name == "contains":
                return Val(f"decide ({arg(0, el).lean} ∈ {R})", T("bool"))
            if name == "rev":
                return Val(f"List.reverse {R}", r.ty)
            if name in ("first", "next") and not args:
                return Val(f"List.head? {R}", T("Option", el))
            if name == "last":
                return Val(f"List.getLast? {R}", T("Option", el))
            self.fail(f"iterator/vector method `.{name}()`")
        # ---- Option
        if rn == "Option":
            el = self.elem_ty(r.ty)
            if name == "unwrap_or":
                return Val(f"Option.getD {R} {self.par(arg(0, el).lean)}", el)
            if name in ("unwrap", "expect"):
                self.note(f"`.{name}()` on an Option: the `None` path (a Rust panic) yields `default`")
                return Val(f"Rust.unwrap {R}", el)
            if name == "is_some":
                return Val(f"Option.isSome {R}", T("bool"))
            if name == "is_none":
                return Val(f"Option.isNone {R}", T("bool"))
            if name == "map":
                f = self.closure(args[0], [el], env)
                return Val(f"Option.map {f} {R}", T("Option", self.last_closure_ty))
            if name == "and_then":
                f = self.closure(args[0], [el], env)
                return Val(f"Option.bind {R} {f}", self.last_closure_ty)
            if name == "filter":
                return Val(f"Option.filter {self.closure(args[0], [el], env)} {R}", r.ty)
            if name == "flatten":
                return Val(f"Option.join {R}", el)
            if name == "unwrap_or_default" and self.a.lean_ty(el) == "Nat":
                return Val(f"Option.getD {R} 0", el)
            self.fail(f"Option method `.{name}()`")
        # ---- Result of try_from (error payload is unit)
        if rn == "TryResult":
            el = r.ty[2][0]
            if name == "unwrap_or":
                return Val(f"Option.getD {R} {self.par(arg(0, el).lean)}", el)
            if name == "ok":
                return Val(r.lean, T("Option", el))
            if name == "map_err":
                f = self.closure(args[0], [None], env)
                return Val(f"Rust.okOr {R} ({f} ())", T("Result", el))
            if name in ("unwrap", "expect"):
                self.note(f"`.{name}()` on a conversion result: the failing path (a Rust panic) yields `default`")
                return Val(f"Rust.unwrap {R}", el)
            self.fail(f"method `.{name}()` on the result of try_from")
        if rn == "Result":
            if name == "map_err":
                f = self.closure(args[0], [None], env)
                return Val(f"Except.mapError {f} {R}", r.ty)
            if name == "is_ok":
                return Val(f"Except.isOk {R}", T("bool"))
            self.fail(f"Result method `.{name}()`")
        if rn == "bool" and name == "then_some":
            v = arg(0)
            return Val(f"(if {r.lean} then some {self.par(v.lean)} else none)", T("Option", v.ty))
        self.fail(f"method `.{name}()` on a receiver of type `{rn}`" if rn else f"method `.{name}()` on a receiver of unknown type")

    def print_chain(self, e):
        if e[0] == "mcall":
            return f"{self.print_chain(e[1])}.{e[2]}({', '.join(self.print_chain(x) for x in e[3])})"
        if e[0] == "call":
            return f"{self.print_chain(e[1])}({', '.join(self.print_chain(x) for x in e[2])})"
        if e[0] == "path":
            return "::".join(e[1])
        if e[0] == "field":
            return f"{self.print_chain(e[1])}.{e[2]}"
        if e[0] in ("ref", "deref", "paren"):
            return self.print_chain(e[1])
        return "<expr>"


# ======================================================================================
# Driver
# ======================================================================================

def generate_area(spec, repo):
    a = Area(spec, repo)
    w = a.out.append
    fatal = None
    try:
        a.emit_types()
        a.emit_consts()
        a.emit_fns()
    except Unsupported as e:
        fatal = str(e)
        a.report.append({"function": f"{spec['file']} (types of area {spec['area']})", "lean": f"Generated.{spec['area']}", "ok": False, "error": fatal})
    head = ["/-",
            f"GENERATED by extract/rs2lean.py from `{spec['file']}` on every run. Do not edit.",
            "Equivalence theorems against the hand-written model live in `Props/` (`generated_*_eq_model`).",
            "",
            "Translated functions:"]
    for r in a.report:
        head.append(f"  * {r['function']} -> {r['lean']}: " + ("ok" if r["ok"] else "FAILED: " + r.get("error", "")))
        for d in r.get("dropped", []) or []:
            head.append(f"      dropped: {d}")
        for d in r.get("notes", []) or []:
            head.append(f"      note: {d}")
    if a.identity_used:
        head.append("Representation-only methods read as the identity: " + ", ".join(sorted(a.identity_used)))
    head.append("Attribute lines, comments, references (`&`, `*`), lifetimes and `mut` markers are dropped.")
    if spec.get("doc"):
        head.append("")
        head.append(spec["doc"].strip())
    head.append("-/")
    imports = [f"import {m}" for m in spec.get("imports", ["RactorModel.Model.RustSem"])]
    text = "\n".join(head[:1] + head[1:]) + "\n"
    text = "\n".join(imports) + "\n\n" + text + "\nset_option linter.unusedVariables false\n\n" + f"namespace Generated.{spec['area']}\n\n"
    if fatal:
        text += f"-- TRANSLATION FAILED: {fatal}\n\n"
    else:
        text += "\n".join(a.out) + "\n"
    text += f"end Generated.{spec['area']}\n"
    return text, a.report


def generate(repo, outdir, json_path=None, targets=None):
    if targets is None:
        sys.path.insert(0, str(Path(__file__).resolve().parent))
        import rs2lean_targets
        targets = rs2lean_targets.AREAS
    outdir = Path(outdir)
    outdir.mkdir(parents=True, exist_ok=True)
    report = []
    for spec in targets:
        try:
            text, rep = generate_area(spec, repo)
        except Exception as e:  # a translator crash is a failure of every function of the area
            text = f"-- rs2lean crashed on area {spec['area']}: {type(e).__name__}: {e}\n"
            rep = [{"function": f"{spec['file']}::{f['name']}", "lean": f"Generated.{spec['area']}.{f['name']}", "ok": False,
                    "theorem": f.get("theorem"), "error": f"translator crash: {type(e).__name__}: {e}"} for f in spec["fns"]]
        for r in rep:
            r["area"] = spec["area"]
            r.setdefault("properties", spec.get("properties", []))
        report += rep
        p = outdir / f"{spec['area']}.lean"
        if not p.exists() or p.read_text() != text:
            p.write_text(text)
    if json_path:
        Path(json_path).parent.mkdir(parents=True, exist_ok=True)
        Path(json_path).write_text(json.dumps(report, indent=1))
    return report


def main():
    ap = argparse.ArgumentParser()
    ap.add_argument("--repo", default="/repo")
    ap.add_argument("--outdir", required=True)
    ap.add_argument("--json")
    a = ap.parse_args()
    rep = generate(a.repo, a.outdir, a.json)
    bad = [r for r in rep if not r["ok"]]
    for r in bad:
        print(f"rs2lean: TRANSLATION FAILED {r['function']}: {r['error']}", file=sys.stderr)
    return 1 if bad else 0


if __name__ == "__main__":
    sys.exit(main())
