import RactorModel.Model.Advert

namespace Advert

/-- everything but the allow-list -/
def core (s : S) : Nat × List Nat × List Nat × List Nat × List Wire := (s.next, s.alive, s.pend, s.done, s.wire)

theorem core_frame (s : S) (i : Nat) : core (step s (.frame i)) = core s := by
  simp only [step]; split <;> rfl

/-- no step looks at the allow-list to decide what to announce -/
theorem core_step_congr (s s' : S) (h : core s = core s') (op : Op) : core (step s op) = core (step s' op) := by
  simp only [core, Prod.mk.injEq] at h
  obtain ⟨h1, h2, h3, h4, h5⟩ := h
  cases op with
  | spawn => simp [step, core, h1, h2, h3, h4, h5]
  | stop i => simp only [step, h2]; split <;> simp [core, h1, h2, h3, h4, h5]
  | evt i => simp only [step, h3]; split <;> simp [core, h1, h2, h3, h4, h5]
  | frame i => rw [core_frame, core_frame]; simp [core, h1, h2, h3, h4, h5]

theorem core_run_filter (ops : List Op) : ∀ s s' : S, core s = core s' →
    core (run s ops) = core (run s' (ops.filter fun o => !isFrame o)) := by
  induction ops with
  | nil => intro s s' h; simpa [run] using h
  | cons o os ih =>
    intro s s' h
    cases o with
    | frame i =>
      have : core (step s (.frame i)) = core s' := by rw [core_frame]; exact h
      simpa [run, isFrame, List.filter] using ih _ _ this
    | spawn => simpa [run, isFrame, List.filter] using ih _ _ (core_step_congr s s' h .spawn)
    | stop i => simpa [run, isFrame, List.filter] using ih _ _ (core_step_congr s s' h (.stop i))
    | evt i => simpa [run, isFrame, List.filter] using ih _ _ (core_step_congr s s' h (.evt i))

/-- the `Terminate`s on the wire are exactly the handled exits, in order -/
theorem terms_step (s : S) (h : terms s.wire = s.done) (op : Op) : terms (step s op).wire = (step s op).done := by
  cases op with
  | spawn => simpa [step, terms, List.filterMap_append] using h
  | stop i => simp only [step]; split <;> simpa using h
  | evt i =>
    simp only [step]; split
    · simp only [terms, List.filterMap_append] at h ⊢; simp [h]
    · exact h
  | frame i => simp only [step]; split <;> simpa using h

theorem terms_run (ops : List Op) : ∀ s : S, terms s.wire = s.done → terms (run s ops).wire = (run s ops).done := by
  induction ops with
  | nil => intro s h; simpa [run] using h
  | cons o os ih => intro s h; simpa [run] using ih _ (terms_step s h o)

/-- bookkeeping invariant: every actor that ever started is in exactly one of `alive`, `pend`, `done` -/
structure Inv (s : S) : Prop where
  a_lt : ∀ i ∈ s.alive, i < s.next
  p_lt : ∀ i ∈ s.pend, i < s.next
  d_lt : ∀ i ∈ s.done, i < s.next
  a_nd : s.alive.Nodup
  p_nd : s.pend.Nodup
  d_nd : s.done.Nodup
  ap : ∀ i ∈ s.alive, i ∉ s.pend
  ad : ∀ i ∈ s.alive, i ∉ s.done
  pd : ∀ i ∈ s.pend, i ∉ s.done
  all : ∀ i, i < s.next → i ∈ s.alive ∨ i ∈ s.pend ∨ i ∈ s.done

theorem inv_init : Inv {} := by
  constructor <;> simp

theorem inv_step (s : S) (h : Inv s) (op : Op) : Inv (step s op) := by
  obtain ⟨a_lt, p_lt, d_lt, a_nd, p_nd, d_nd, ap, ad, pd, all⟩ := h
  cases op with
  | spawn =>
    constructor <;> simp only [step]
    · intro i hi; rcases List.mem_cons.mp hi with rfl | hi
      · omega
      · have := a_lt i hi; omega
    · intro i hi; have := p_lt i hi; omega
    · intro i hi; have := d_lt i hi; omega
    · refine List.nodup_cons.mpr ⟨fun hm => ?_, a_nd⟩; have := a_lt _ hm; omega
    · exact p_nd
    · exact d_nd
    · intro i hi; rcases List.mem_cons.mp hi with rfl | hi
      · intro hm; have := p_lt _ hm; omega
      · exact ap i hi
    · intro i hi; rcases List.mem_cons.mp hi with rfl | hi
      · intro hm; have := d_lt _ hm; omega
      · exact ad i hi
    · exact pd
    · intro i hi
      by_cases he : i = s.next
      · left; simp [he]
      · rcases all i (by omega) with h | h | h
        · left; exact List.mem_cons_of_mem _ h
        · right; left; exact h
        · right; right; exact h
  | stop j =>
    simp only [step]; split
    · rename_i hj
      have hj : j ∈ s.alive := by simpa using hj
      constructor <;> simp only []
      · intro i hi; exact a_lt i (List.mem_of_mem_erase hi)
      · intro i hi; rcases List.mem_append.mp hi with hi | hi
        · exact p_lt i hi
        · simp at hi; subst hi; exact a_lt _ hj
      · exact d_lt
      · exact a_nd.erase _
      · refine List.nodup_append.mpr ⟨p_nd, by simp, ?_⟩
        intro a ha b hb; simp at hb; subst hb; intro he; subst he; exact ap _ hj ha
      · exact d_nd
      · intro i hi hm; rcases List.mem_append.mp hm with hm | hm
        · exact ap i (List.mem_of_mem_erase hi) hm
        · simp at hm; subst hm; exact (List.Nodup.mem_erase_iff a_nd).mp hi |>.1 rfl
      · intro i hi; exact ad i (List.mem_of_mem_erase hi)
      · intro i hi; rcases List.mem_append.mp hi with hi | hi
        · exact pd i hi
        · simp at hi; subst hi; exact ad _ hj
      · intro i hi
        by_cases he : i = j
        · right; left; simp [he]
        · rcases all i hi with h | h | h
          · left; exact (List.mem_erase_of_ne he).mpr h
          · right; left; exact List.mem_append_left _ h
          · right; right; exact h
    · exact ⟨a_lt, p_lt, d_lt, a_nd, p_nd, d_nd, ap, ad, pd, all⟩
  | evt j =>
    simp only [step]; split
    · rename_i hj
      have hj : j ∈ s.pend := by simpa using hj
      constructor <;> simp only []
      · exact a_lt
      · intro i hi; exact p_lt i (List.mem_of_mem_erase hi)
      · intro i hi; rcases List.mem_append.mp hi with hi | hi
        · exact d_lt i hi
        · simp at hi; subst hi; exact p_lt _ hj
      · exact a_nd
      · exact p_nd.erase _
      · refine List.nodup_append.mpr ⟨d_nd, by simp, ?_⟩
        intro a ha b hb; simp at hb; subst hb; intro he; subst he; exact pd _ hj ha
      · intro i hi hm; exact ap i hi (List.mem_of_mem_erase hm)
      · intro i hi hm; rcases List.mem_append.mp hm with hm | hm
        · exact ad i hi hm
        · simp at hm; subst hm; exact ap _ hi hj
      · intro i hi hm; rcases List.mem_append.mp hm with hm | hm
        · exact pd i (List.mem_of_mem_erase hi) hm
        · simp at hm; subst hm; exact (List.Nodup.mem_erase_iff p_nd).mp hi |>.1 rfl
      · intro i hi
        by_cases he : i = j
        · right; right; simp [he]
        · rcases all i hi with h | h | h
          · left; exact h
          · right; left; exact (List.mem_erase_of_ne he).mpr h
          · right; right; exact List.mem_append_left _ h
    · exact ⟨a_lt, p_lt, d_lt, a_nd, p_nd, d_nd, ap, ad, pd, all⟩
  | frame j =>
    simp only [step]; split <;> exact ⟨a_lt, p_lt, d_lt, a_nd, p_nd, d_nd, ap, ad, pd, all⟩

theorem inv_run (ops : List Op) : ∀ s : S, Inv s → Inv (run s ops) := by
  induction ops with
  | nil => intro s h; simpa [run] using h
  | cons o os ih => intro s h; simpa [run] using ih _ (inv_step s h o)

end Advert

namespace List
theorem count_eq_one_of_mem' {l : List Nat} (hn : l.Nodup) {a : Nat} (h : a ∈ l) : l.count a = 1 := by
  induction l with
  | nil => cases h
  | cons b t ih =>
    have ⟨hb, ht⟩ := List.nodup_cons.mp hn
    by_cases he : b = a
    · subst he
      simp [List.count_cons, List.count_eq_zero.mpr hb]
    · rcases List.mem_cons.mp h with h | h
      · exact absurd h.symm he
      · simp [List.count_cons, he, ih ht h]
end List
