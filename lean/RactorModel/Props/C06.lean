import RactorModel.Lemmas.GenAdmission
import RactorModel.Extracted
import RactorModel.Lemmas.ExitRaceLive
import RactorModel.Lemmas.WaitForms

/-!
# C06 — shutdown waits are accurate and never miss the wake-up

Property theorems only, about the small-step model `Model/ExitRace.lean` (one step = one schedule
point of `set_status` / `notify_stop_listener` / `ActorLifecycleGuard::cleanup` / `wait`), for
**any number of waiters**, any other `set_status` callers, late repeated calls, waiters abandoned
at any step, and **all schedules**. Helper lemmas: `Lemmas/ExitRace*.lean`.
-/

namespace C06
open ExitRace

/-- (safety) A waiter that has returned recorded `ok = true` at its return (status was `Stopped`
and every cleanup step preceding `publish(Stopped)` was done: pid and name unregistered, group
monitors and memberships gone, children terminated, supervisor notified, unlinked, `post_stop`
returned on a graceful exit) — and this is still true in the current state, so the snapshot it
takes afterwards shows a fully stopped actor. For any number of waiters, any schedule. `post_stop` is
required as long as `Exiter.hasPostStop` holds: it is cleared only by a kill accepted BEFORE the
processing loop reached `post_stop` (`Tid.kill`; the exit is then a killed one and `post_stop` never
runs) — see `post_stop_skipped_only_after_kill`. -/
theorem waiter_returns_only_after_full_stop (g0 : G) (h0 : Initial g0) (sched : List Tid) :
    ∀ w ∈ (run g0 sched).waiters, ∀ ok, w.pc = .returned ok →
      ok = true ∧ (run g0 sched).sh.status = stStopped ∧
      (run g0 sched).sh.flags.complete (run g0 sched).exiter.hasPostStop = true := by
  intro w hw ok hok
  have I := inv_run _ sched (inv_initial g0 h0)
  obtain ⟨h1, h12⟩ := (I.ws w hw).ret ok hok
  have hok' := okNow_of_stage I.toInvCore h12
  simp only [okNow, snapshotOk, Bool.and_eq_true, beq_iff_eq] at hok'
  exact ⟨h1, hok'.1, hok'.2⟩

/-- (safety, state form) When a waiter has returned, the registry entry of the actor's name is not
the actor's any more — `Sh.name` is a modelled state component with three writers
(`status.unreg_name`, a successor registering the freed name, nobody giving it back) — whatever
successors, late `drain()`s, panicking clean-up statements and late `set_status` calls race. -/
theorem returned_waiter_name_released (g0 : G) (h0 : Initial g0) (sched : List Tid) :
    ∀ w ∈ (run g0 sched).waiters, ∀ ok, w.pc = .returned ok → (run g0 sched).sh.name ≠ .self := by
  intro w hw ok hok
  have I := inv_run _ sched (inv_initial g0 h0)
  have h12 := ((I.ws w hw).ret ok hok).2
  exact name_gone_run g0 sched (inv_initial g0 h0)
    (fun h3 => by rw [h0.exiter] at h3; simp [EPc.stage] at h3) (by omega)

/-- What `ok` records: a waiter that returns in this step stores `okNow g`, the observation of the
state it returns in. -/
theorem return_records_current_state (sh : Sh) (fl : Bool) (w : Waiter) (ok : Bool)
    (hnot : ∀ o, w.pc ≠ .returned o) (h : (stepWaiter sh fl w).2.pc = .returned ok) : ok = fl := by
  obtain ⟨pc, wk⟩ := w
  cases pc <;> simp only [stepWaiter] at h <;> (repeat' split at h) <;> simp_all

/-- (no lost wake-up, enabledness) Once the exiter has finished, a step of any waiter that has not
returned — whether it started before, during or after the exit — makes progress: no waiter is
ever left blocked. -/
theorem no_lost_wakeup_progress (g0 : G) (h0 : Initial g0) (sched : List Tid) (i : Nat)
    (hf : (run g0 sched).exiter.finished = true) (hr : 0 < remaining (run g0 sched) i) :
    remaining (step (run g0 sched) (.w i)) i < remaining (run g0 sched) i :=
  waiter_progress _ i (inv_run _ sched (inv_initial g0 h0)).toInvCore hf hr

/-- (no lost wake-up, fairness form) After the exiter has finished, every waiter that is scheduled
four more times (create `Notified`, read the status, first poll, one more poll) — whatever else runs
in between — and is not abandoned has returned. In particular a waiter that read a status other
than `Stopped` and has not polled its `Notified` yet (`WPc.checked`: the window between
`get_status()` and `notified.await`) when the exiter finishes still returns: its snapshot of the
`notify_waiters` generation is older than the generation its first poll sees. -/
theorem no_lost_wakeup (g0 : G) (h0 : Initial g0) (sched more : List Tid) (i : Nat)
    (hi : i < g0.waiters.length) (hf : (run g0 sched).exiter.finished = true)
    (ha : isAbandoned (run g0 sched) i = false)
    (hcount : 4 ≤ more.count (.w i)) (hna : Tid.abandon i ∉ more) :
    isReturned (run (run g0 sched) more) i = true := by
  have I := inv_run _ sched (inv_initial g0 h0)
  refine returns_when_scheduled _ i more I hf (by rw [length_run]; exact hi) ha ?_ hna
  have : remaining (run g0 sched) i ≤ 4 := by
    unfold remaining
    split
    · rename_i pc _; cases pc <;> simp [WPc.rank]
    · omega
  omega

/-- (they do complete) The exit sequence itself is never blocked — not even when one statement of
`ActorLifecycleGuard::cleanup` panics (`Tid.unwind`): the guard is still armed, so its `Drop` runs
`cleanup` again from the top. After 19 steps of the exiter, whatever else is scheduled in between
(waiters, drainers, a successor taking the freed name, one such panic), it has finished — so together
with `no_lost_wakeup` every fair schedule lets every waiter that is not abandoned return. -/
theorem exiter_always_finishes (g0 : G) (h0 : Initial g0) (sched : List Tid)
    (hcount : 19 ≤ sched.count .e) : (run g0 sched).exiter.finished = true := by
  apply exiter_finishes g0 sched (inv_initial g0 h0)
  have : g0.exiter.pc.stage = 0 := by rw [h0.exiter]; rfl
  simp only [exiterDebt, this]
  split <;> omega

/-- The lifecycle guard stays armed until the exit sequence has finished: a panic inside `cleanup`
always finds it armed (this is what makes the re-run, and hence the release of the waiters, happen). -/
theorem guard_armed_until_finished (g0 : G) (h0 : Initial g0) (sched : List Tid)
    (h : (run g0 sched).exiter.finished = false) : (run g0 sched).exiter.armed = true := by
  have I := inv_run _ sched (inv_initial g0 h0)
  apply I.armed
  have := stage_le (run g0 sched).exiter.pc
  by_cases h15 : (run g0 sched).exiter.pc.stage = 15
  · rw [stage_finished h15] at h; cases h
  · omega

/-- (cleanup once, seen from outside) A successor that registered the freed name while the old
actor was still exiting keeps it: no later step of the old actor's exit — whatever drains, panics
or late `set_status` calls happen — unregisters the name a second time. -/
theorem successor_keeps_name (g0 : G) (h0 : Initial g0) (sched more : List Tid)
    (hs : (run g0 sched).sh.name = .succ) : (run (run g0 sched) more).sh.name = .succ := by
  have I := inv_run _ sched (inv_initial g0 h0)
  generalize run g0 sched = g at *
  induction more generalizing g with
  | nil => exact hs
  | cons t l ih =>
    simp only [run, List.foldl_cons]
    exact ih _ (successor_keeps_name_step g t I hs) (inv_step g t I)

/-- (monotone) The status word never decreases — for any `set_status` callers and values, and for
`drain()` issued at any position of the exit sequence (its `fetch_update` lifts only a status below
`Stopping`). -/
theorem status_monotone (g : G) (sched : List Tid) (h : OnceInv g.sh) :
    g.sh.status ≤ (run g sched).sh.status :=
  (run_once g sched h).2

/-- (once) The cleanup block and the notify block of `set_status` are each elected at most once,
whatever `set_status` calls are made by whichever threads (any values, any interleaving), also
with drains at any position and with `cleanup` re-run after a panic. -/
theorem cleanup_elected_once (g0 : G) (h0 : g0.sh.cleanupRuns = 0 ∧ g0.sh.notifyRuns = 0)
    (sched : List Tid) :
    (run g0 sched).sh.cleanupRuns ≤ 1 ∧ (run g0 sched).sh.notifyRuns ≤ 1 := by
  have hi : OnceInv g0.sh := by
    constructor
    · rw [h0.1]; exact Nat.zero_le _
    · rw [h0.2]; exact Nat.zero_le _
  have := (run_once _ sched hi).1
  have h1 := this.cleanup
  have h2 := this.notify
  constructor
  · split at h1 <;> omega
  · split at h2 <;> omega

/-- (timeout) Abandoning a waiter changes no shared state of the actor — status, cleanup flags,
generation, the exiter, the other callers — and no other waiter's program counter; only the
`Notify` bookkeeping of the abandoned waiter (a wake-up it received from `notify_one` is passed
on). That the remaining waiters still all return is `no_lost_wakeup` (its schedules may contain
abandonments of other waiters). -/
theorem abandon_changes_nothing (g : G) (i : Nat) :
    (step g (.abandon i)).sh.status = g.sh.status ∧ (step g (.abandon i)).sh.flags = g.sh.flags ∧
    (step g (.abandon i)).sh.gen = g.sh.gen ∧ (step g (.abandon i)).exiter = g.exiter ∧
    (step g (.abandon i)).setters = g.setters ∧
    ∀ j, j ≠ i → pcOf (step g (.abandon i)) j = pcOf g j := by
  refine ⟨?_, ?_, ?_, ?_, ?_, fun j hj => other_steps_keep_pc g (.abandon i) j (by simp) (by simp; omega)⟩ <;>
  · simp only [step]
    split
    · rfl
    · split
      · rfl
      · rfl
      · split
        · first | rfl | (simp only [notifyOne]; split <;> rfl)
        · rfl

/-- `post_stop` is skipped only after an accepted kill: along every schedule the `post_stop`
obligation of the safety theorems is the initial one (graceful exit or not) unless a `kill()` /
`kill_and_wait()` was accepted before the processing loop reached `post_stop` — the signal then wins
the first poll of `run_with_signal(post_stop)` and the exit continues as a killed one. A kill
accepted later (inside `post_stop`, during `cleanup`) changes nothing. -/
theorem post_stop_skipped_only_after_kill (g0 : G) (hk : g0.sh.killPending = false) (sched : List Tid) :
    (run g0 sched).exiter.hasPostStop = (g0.exiter.hasPostStop && !(run g0 sched).sh.killPending) ∧
    (Tid.kill ∉ sched → (run g0 sched).exiter.hasPostStop = g0.exiter.hasPostStop) := by
  have h := kp_run g0.exiter.hasPostStop g0 sched (by rw [hk]; simp)
  refine ⟨h, fun hn => ?_⟩
  clear h
  induction sched generalizing g0 with
  | nil => rfl
  | cons t l ih =>
    simp only [run, List.foldl_cons]
    have ht : t ≠ .kill := fun e => hn (by simp [e])
    have hl : Tid.kill ∉ l := fun e => hn (List.mem_cons_of_mem _ e)
    obtain ⟨h1, h2⟩ := step_keeps_kp g0 t ht
    have := ih (step g0 t) (by rw [h2]; exact hk) hl
    simp only [run] at this
    rw [this, h1]

/-- a kill accepted while a graceful exit is between `Stopping` and `post_stop`: `post_stop` never
runs, the waiters still return only after the full stop (of a killed exit); the same kill accepted
once the actor is inside `post_stop` changes nothing -/
example :
    let g := run (init true [] [] 1) ([.w 0, .w 0, .w 0] ++ List.replicate 3 .e ++ [.kill] ++ List.replicate 16 .e ++ [.w 0])
    g.exiter.hasPostStop = false ∧ g.sh.flags.postStop = false ∧ g.sh.status = 6 ∧ g.exiter.finished = true ∧
      g.waiters.map (·.pc) = [.returned true] := by decide
example :
    let g := run (init true [] [] 1) ([.w 0, .w 0, .w 0] ++ List.replicate 5 .e ++ [.kill] ++ List.replicate 16 .e ++ [.w 0])
    g.exiter.hasPostStop = true ∧ g.sh.flags.postStop = true ∧ g.sh.killPending = false ∧
      g.waiters.map (·.pc) = [.returned true] := by decide

/-- (exit clean-up runs once — the terminal supervision event) The supervisor is handed exactly one
terminal event when no statement of `cleanup` panics, and never more than two: `Sh.supEvents` counts
the executions of `cleanup.notify`; a panic in a LATER statement of `cleanup` (`unlink`) makes the
still-armed guard's `Drop` run `cleanup` again with a fresh "actor_task_cancelled" event, so the
supervisor is told twice — by design of the guard; the model says so explicitly (witness below).
For all schedules, any waiters, drains, successors, late `set_status` calls. -/
theorem terminal_events_bounded (g0 : G) (h0 : Initial g0) (hz : g0.sh.supEvents = 0) (sched : List Tid) :
    (run g0 sched).sh.supEvents ≤ 2 ∧
    ((run g0 sched).exiter.unwound = false → (run g0 sched).sh.supEvents ≤ 1) ∧
    ((run g0 sched).exiter.finished = true → 1 ≤ (run g0 sched).sh.supEvents) := by
  have h0' : EvOk g0 := by
    refine ⟨by rw [hz]; exact Nat.zero_le _, fun hp => ?_⟩
    rw [h0.exiter] at hp; simp [EPc.pastNotify] at hp
  have E := evok_run g0 sched (inv_initial g0 h0) h0'
  have hle := E.le
  refine ⟨?_, fun hu => ?_, fun hf => E.ge (finished_pastNotify hf)⟩
  · have : b2n (run g0 sched).exiter.pc.pastNotify ≤ 1 ∧ b2n (run g0 sched).exiter.unwound ≤ 1 := by
      constructor <;> (unfold b2n; split <;> omega)
    omega
  · rw [hu] at hle
    have : b2n (run g0 sched).exiter.pc.pastNotify ≤ 1 := by unfold b2n; split <;> omega
    simp only [b2n, Bool.false_eq_true, if_false] at hle this
    omega

/-- witness: `cleanup.unlink` panics after the supervisor has been notified; the guard re-runs
`cleanup`: two terminal events, and both waiters are still released, after a full stop -/
example :
    let g := run (init true [] [] 2)
      ([.w 0, .w 0, .w 0] ++ List.replicate 9 .e ++ [.unwind] ++ List.replicate 12 .e ++ [.w 0, .w 1, .w 1])
    g.sh.supEvents = 2 ∧ g.exiter.unwound = true ∧ g.exiter.finished = true ∧
      g.waiters.map (·.pc) = [.returned true, .returned true] := by decide

/-! ### Round 4: every wait form, and the supervisor-side children wrappers (`Model/WaitForms.lean`)

Any number of actors ("kids"), each with its own complete exit machine; any number of concurrent
calls of `wait(None|Some t)`, `stop_and_wait`, `kill_and_wait`, `drain_and_wait` (each: a send step
that may fail, then `wait()`, which a timer may abandon) and join-handle awaits; racers using the
one-shot ports; `stop_children_and_wait` / `drain_children_and_wait` as sets of such calls whose
results are discarded. All schedules. -/

/-- (every wait form) A call that returned `Ok(())` — whichever form, with or without a timeout,
started before, during or after the exit — recorded a fully stopped actor at the moment of its
return (`snap = true`: the oracle `formOk`), and the actor is fully stopped in the current state as
well: status `Stopped`; every clean-up statement of the exit sequence has been executed
(`flags.complete`: the calls that unregister the pid and the name, drop group monitors and
memberships, terminate the children, notify the supervisor, unlink; `post_stop` returned on a
graceful exit — program order, the observable effect of each call is C10 / C11 / C05's subject);
and, in terms of modelled state rather than of executed statements: the registry entry of the name
is no longer the actor's (`Sh.name`, whoever races for the freed name), and its one-shot stop and
signal ports accept nothing any more (the port set went with the processing loop). -/
theorem ok_means_fully_stopped (x0 : X) (h0 : XInitial x0) (sched : List XTid) :
    ∀ c ∈ (xrun x0 sched).callers, ∀ snap, c.pc = .done (.ok snap) →
      snap = true ∧ ∃ kid, (xrun x0 sched).kids[c.kid]? = some kid ∧
        kid.fullyStopped = true ∧ kid.g.sh.status = stStopped ∧
        kid.g.sh.flags.complete kid.g.exiter.hasPostStop = true ∧
        kid.g.sh.name ≠ .self ∧ kid.stopOpen = false ∧ kid.signalOpen = false := by
  intro c hc snap hs
  have I := xinv_run _ sched (xinv_initial x0 h0)
  have hlt := I.has c hc (by rw [hs]; simp)
  obtain ⟨kid, hk⟩ : ∃ kid, (xrun x0 sched).kids[c.kid]? = some kid :=
    ⟨_, List.getElem?_eq_getElem hlt⟩
  have hok := (I.callers c hc kid hk).ok snap hs
  have hi := I.kids kid (List.mem_of_getElem? hk)
  have hf := fullyStopped_of_stage hi hok.2
  have hf' := hf
  simp only [Kid.fullyStopped, okNow, snapshotOk, Bool.and_eq_true, beq_iff_eq] at hf'
  have hname := xrun_name_gone x0 h0 sched kid (List.mem_of_getElem? hk) (by omega)
  have hgone : kid.g.exiter.pc.loopGone = true := loopGone_of_stage (by omega)
  exact ⟨hok.1, kid, hk, hf, hf'.1, hf'.2, hname, by simp [Kid.stopOpen, Kid.rxAlive, hgone],
    by simp [Kid.signalOpen, Kid.rxAlive, hgone]⟩

/-- The run-time oracle of the wait forms holds of every finished call of the model. -/
theorem form_oracle_holds (x0 : X) (h0 : XInitial x0) (sched : List XTid) :
    ∀ c ∈ (xrun x0 sched).callers, ∀ r, c.pc = .done r → formOk r = true := by
  intro c hc r hr
  cases r with
  | ok snap => exact (ok_means_fully_stopped x0 h0 sched c hc snap hr).1
  | sendErr => rfl
  | timeout => rfl

/-- A call whose send step failed (`stop_and_wait` on an actor whose one-shot stop port was already
used or whose port set is gone; `drain_and_wait` whose marker could not be enqueued) returned the
error WITHOUT waiting: its request was not accepted, and nothing is claimed about the actor. -/
theorem send_error_means_not_accepted (x0 : X) (h0 : XInitial x0) (sched : List XTid) :
    ∀ c ∈ (xrun x0 sched).callers, c.pc = .done .sendErr → c.accepted = false := by
  intro c hc hs
  have I := xinv_run _ sched (xinv_initial x0 h0)
  have hlt := I.has c hc (by rw [hs]; simp)
  exact (I.callers c hc _ (List.getElem?_eq_getElem hlt)).err hs

/-- (the send step, exactly) `stop_and_wait` returns the send error — without waiting — iff a
`stop()` issued now would not be accepted (the one-shot stop port was already used by somebody, or
the port set is gone), and goes on to `wait()` otherwise; `kill_and_wait` ignores the send error and
always waits; `drain_and_wait` fails iff the drain marker still has to be enqueued and the mailbox
receiver is gone; `wait` and the join handle have no send step. -/
theorem send_step_outcomes (kid : Kid) (c : Caller) :
    (c.form = .stopWait → ((sendStep kid c).2.pc = .done .sendErr ↔ kid.stopOpen = false) ∧
                          ((sendStep kid c).2.pc = .waiting ↔ kid.stopOpen = true)) ∧
    (c.form = .killWait → (sendStep kid c).2.pc = .waiting) ∧
    (c.form = .drainWait → ((sendStep kid c).2.pc = .done .sendErr ↔ (kid.ports.marker = false ∧ kid.rxAlive = false))) ∧
    (c.form = .wait ∨ c.form = .join → (sendStep kid c).2.pc = .waiting) := by
  refine ⟨fun hf => ?_, fun hf => ?_, fun hf => ?_, fun hf => ?_⟩
  · simp only [sendStep, hf, Kid.stopOpen]
    cases kid.ports.stop <;> cases kid.rxAlive <;> simp
  · simp only [sendStep, hf]
  · simp only [sendStep, hf]
    cases kid.ports.marker <;> cases kid.rxAlive <;> simp
  · rcases hf with hf | hf <;> simp only [sendStep, hf]

/-- (they do complete — every wait form) Once the actor's exit sequence has finished, every step of
a call that is not done yet — whichever form, whether it started before, during or after the exit —
strictly decreases the number of steps it still needs (`Caller.rank` ≤ 6: send step, create
`Notified`, read the status, first poll, one more poll): no call is ever left blocked, the only
assumption being that the caller is scheduled (and that nobody dropped its `Notified`). The exit
sequence itself always finishes (`exiter_always_finishes`). -/
theorem every_call_completes (x0 : X) (h0 : XInitial x0) (sched : List XTid) (j : Nat) (c : Caller) (kid : Kid)
    (hc : (xrun x0 sched).callers[j]? = some c) (hk : (xrun x0 sched).kids[c.kid]? = some kid)
    (hf : kid.g.exiter.finished = true) (hd : c.isDone = false)
    (hslot : c.form ≠ .join → c.w < kid.g.waiters.length ∧ isAbandoned kid.g c.w = false) :
    ∃ c' kid', (xstep (xrun x0 sched) (.call j)).callers[j]? = some c' ∧
      (xstep (xrun x0 sched) (.call j)).kids[c.kid]? = some kid' ∧
      Caller.rank kid' c' < Caller.rank kid c := by
  have I := xinv_run _ sched (xinv_initial x0 h0)
  have hi := I.kids kid (List.mem_of_getElem? hk)
  have hjl := (List.getElem?_eq_some_iff.1 hc).1
  have hkl := (List.getElem?_eq_some_iff.1 hk).1
  refine ⟨(callStep kid c).2, (callStep kid c).1, ?_, ?_, call_progress kid c hi hf hd hslot⟩
  · simp only [xstep, hc, hk]
    exact List.getElem?_set_self hjl
  · simp only [xstep, hc, hk]
    exact List.getElem?_set_self hkl

/-- non-vacuity of `every_call_completes`: a `stop_and_wait` whose stop was accepted, the exit runs
to its end before the call's first poll; four more steps of the call and it has returned `Ok` -/
example :
    let x0 : X := { kids := [{ g := init true [] [] 1 }], callers := [{ kid := 0, form := .stopWait, w := 0 }] }
    let x := xrun x0 ([.call 0] ++ List.replicate 17 (.kid 0 .e))
    (x.callers.map (fun c => (c.pc, c.isDone)) = [(.waiting, false)]) ∧
    (x.kids.map (fun k => (k.g.exiter.finished, k.g.waiters.length, isAbandoned k.g 0)) = [(true, 1, false)]) ∧
    (x.callers.map (fun c => Caller.rank (x.kids.getD 0 {}) c) = [5]) ∧
    ((xrun x [.call 0, .call 0]).callers.map (·.pc) = [.done (.ok true)]) := by decide

/-- (children wrappers, what holds) When `stop_children_and_wait` / `drain_children_and_wait` has
returned, every task of its `JoinSet` is done, and every child of the snapshot whose stop / drain
request was accepted by THIS call and whose wait did not time out is fully stopped. -/
theorem children_wrapper_accepted_children_stopped (x0 : X) (h0 : XInitial x0) (sched : List XTid) :
    ∀ wr ∈ (xrun x0 sched).wrappers, wr.returned = true →
      ∀ j ∈ wr.callers, ∀ c, (xrun x0 sched).callers[j]? = some c →
        c.isDone = true ∧
        (c.accepted = true → c.pc ≠ .done .timeout →
          ∃ kid, (xrun x0 sched).kids[c.kid]? = some kid ∧ kid.fullyStopped = true) := by
  intro wr hwr hret j hj c hc
  have I := xinv_run _ sched (xinv_initial x0 h0)
  have hd := I.wrappers wr hwr hret j hj c hc
  refine ⟨hd, fun hacc hnt => ?_⟩
  have hmem := List.mem_of_getElem? hc
  cases hpc : c.pc with
  | send => simp [Caller.isDone, hpc] at hd
  | waiting => simp [Caller.isDone, hpc] at hd
  | done r =>
    cases r with
    | ok snap =>
      obtain ⟨_, kid, hk, hf, _⟩ := ok_means_fully_stopped x0 h0 sched c hmem snap hpc
      exact ⟨kid, hk, hf⟩
    | sendErr =>
      have := send_error_means_not_accepted x0 h0 sched c hmem hpc
      rw [this] at hacc; cases hacc
    | timeout => exact absurd hpc hnt

/-- The wrapper oracle (`wrapperChildOk`) holds of every child of a returned wrapper. -/
theorem wrapper_oracle_holds (x0 : X) (h0 : XInitial x0) (sched : List XTid) :
    ∀ wr ∈ (xrun x0 sched).wrappers, wr.returned = true →
      ∀ j ∈ wr.callers, ∀ c kid, (xrun x0 sched).callers[j]? = some c →
        (xrun x0 sched).kids[c.kid]? = some kid →
        wrapperChildOk c.accepted (c.pc == .done .timeout) kid.fullyStopped = true := by
  intro wr hwr hret j hj c kid hc hk
  have h := (children_wrapper_accepted_children_stopped x0 h0 sched wr hwr hret j hj c hc).2
  simp only [wrapperChildOk, Bool.or_eq_true, Bool.not_eq_true', beq_iff_eq]
  cases hacc : c.accepted
  · exact Or.inl (Or.inl rfl)
  · by_cases ht : c.pc = .done .timeout
    · exact Or.inl (Or.inr ht)
    · obtain ⟨kid', hk', hf⟩ := h hacc ht
      rw [hk] at hk'; cases hk'
      exact Or.inr hf

/-- witness: one running child whose one-shot stop port a racer has used (`stop()` issued, the
child still in its handler: its exit sequence has not begun), then `stop_children_and_wait` -/
def strandedChild : X :=
  { kids := [{ g := init true [] [] 1 }],
    callers := [{ kid := 0, form := .stopWait, w := 0 }],
    wrappers := [{ callers := [0] }] }

/-- (children wrappers, what does NOT hold — outside C06's claim) `stop_children_and_wait` can
return while a child that had already been asked to stop by someone else is still `Running`: the
one-shot stop port refuses the second stop, the inner `stop_and_wait` returns
`Err(Messaging(ChannelClosed))` BEFORE waiting, and the wrapper discards that result. C06 speaks of
the wait forms "when they return Ok" — the inner call returned `Err`, the wrapper returns `()`. The
full-strength statement "when the wrapper returns every child of the snapshot is stopped" is
therefore false of the code; this is its negation on a concrete schedule. -/
theorem children_wrapper_may_return_with_running_child :
    let x := xrun strandedChild [.stop 0, .call 0, .wrap 0]
    XInitial strandedChild ∧
    x.wrappers.map (·.returned) = [true] ∧
    x.callers.map (fun c => (c.pc, c.accepted)) = [(.done .sendErr, false)] ∧
    x.kids.map (fun k => (k.g.sh.status, k.fullyStopped)) = [(2, false)] := by
  refine ⟨⟨?_, ?_, ?_⟩, by decide, by decide, by decide⟩
  · intro k hk
    simp only [strandedChild, List.mem_singleton] at hk
    subst hk
    exact initial_init true [] [] 1 rfl
  · intro c hc
    simp only [strandedChild, List.mem_singleton] at hc
    subst hc; exact ⟨rfl, rfl⟩
  · intro w hw
    simp only [strandedChild, List.mem_singleton] at hw
    subst hw; rfl

/-- `drain_children_and_wait` does wait for a child that somebody else already drained: a second
`drain()` is accepted (`DRAIN_MARKER_SENT` already set ⇒ `Ok`), so the inner call goes on to
`wait()`. Same child, racer = an earlier drain (status `Draining`, marker sent): the wrapper cannot
return before the child's exit has finished. -/
def drainingG (drainers : Nat) : G := { (init true [] [] 1 drainers) with sh := { status := 4 } }

example :
    let x0 : X := { kids := [{ g := drainingG 1, ports := { marker := true } }],
                    callers := [{ kid := 0, form := .drainWait, w := 0, d := 0 }],
                    wrappers := [{ callers := [0] }] }
    (xrun x0 [.call 0, .call 0, .call 0, .wrap 0]).wrappers.map (·.returned) = [false] ∧
    (xrun x0 ([.call 0, .call 0, .call 0, .wrap 0] ++ List.replicate 16 (.kid 0 .e) ++ [.call 0, .wrap 0])).wrappers.map
      (·.returned) = [true] := by decide

/-- (timeout) A timer that fires — `Timeout::poll` polls the inner future once more and drops it if
it is still pending — changes neither the status, nor any clean-up flag, nor the exiter, nor the
ports of the actor; and the call then reports `Ok` (that last poll completed: fully stopped, by
`ok_means_fully_stopped`) or `Timeout`, never anything else. -/
theorem timeout_has_no_effect (kid : Kid) (c : Caller) (h : c.isDone = false) :
    ((timeoutStep kid c).1.g.sh.status = kid.g.sh.status ∧ (timeoutStep kid c).1.g.sh.flags = kid.g.sh.flags ∧
      (timeoutStep kid c).1.g.exiter = kid.g.exiter ∧ (timeoutStep kid c).1.ports = kid.ports) ∧
    ((timeoutStep kid c).2 = c ∨ (∃ b, (timeoutStep kid c).2.pc = .done (.ok b)) ∨
      (timeoutStep kid c).2.pc = .done .timeout) :=
  ⟨timeoutStep_keeps kid c, timeoutStep_result kid c h⟩

/-- non-vacuity: four children — running, already asked to stop by a racer, draining, already
stopped — and one `stop_children_and_wait(None, Some t)` over all of them. Child 0 is stopped by
this call and awaited; child 1's stop is refused (`sendErr`), it is still running when the wrapper
returns; child 2 (draining) accepts the stop, its wait times out; child 3 had already exited (port
set gone): `sendErr`. -/
def fourChildren : X :=
  { kids := [{ g := init true [] [] 1 }, { g := init true [] [] 1 },
             { g := drainingG 0, ports := { marker := true } },
             { g := init true [] [] 1 }],
    callers := [{ kid := 0, form := .stopWait, timed := true }, { kid := 1, form := .stopWait, timed := true },
                { kid := 2, form := .stopWait, timed := true }, { kid := 3, form := .stopWait, timed := true }],
    wrappers := [{ callers := [0, 1, 2, 3] }] }

example :
    let x := xrun fourChildren
      (List.replicate 17 (.kid 3 .e) ++ [.stop 1, .call 0, .call 1, .call 2, .call 3, .call 0, .call 0, .call 2, .call 2]
        ++ List.replicate 16 (.kid 0 .e) ++ [.wrap 0, .timeout 2, .wrap 0, .call 0, .wrap 0])
    x.wrappers.map (·.returned) = [true] ∧
    x.callers.map (fun c => (c.pc, c.accepted))
      = [(.done (.ok true), true), (.done .sendErr, false), (.done .timeout, true), (.done .sendErr, false)] ∧
    x.kids.map (fun k => (k.g.sh.status, k.fullyStopped)) = [(6, true), (2, false), (4, false), (6, true)] := by
  decide

/-- `kill_and_wait` ignores the send error: on an actor whose signal port was already used it still
waits, and returns `Ok` once the actor has stopped; a join handle completes only when the exit
sequence has finished. -/
example :
    let x0 : X := { kids := [{ g := init false [] [] 1, ports := { signal := false } }],
                    callers := [{ kid := 0, form := .killWait, w := 0 }, { kid := 0, form := .join }] }
    (xrun x0 ([.call 0, .call 1, .call 1, .call 0, .call 0] ++ List.replicate 13 (.kid 0 .e) ++ [.call 1])).callers.map
        (fun c => (c.pc, c.accepted)) = [(.waiting, false), (.waiting, false)] ∧
    (xrun x0 ([.call 0, .call 1, .call 1, .call 0, .call 0] ++ List.replicate 14 (.kid 0 .e) ++ [.call 1, .call 0])).callers.map
        (fun c => (c.pc, c.accepted)) = [(.done (.ok true), false), (.done (.ok true), false)] := by
  decide

/-! ### Source guards (E-SRC) -/

/-- statement order of `ActorLifecycleGuard::cleanup` -/
theorem src_cleanup_order :
    Extracted.cleanupOrder = ["set_status:Stopping", "terminate", "notify_supervisor", "unlink", "set_status:Stopped"] := by
  decide

/-- statement order and the two elections of `ActorCell::set_status` -/
theorem src_set_status_order :
    Extracted.setStatusOrder = ["inner.set_status", "demonitor", "unregister_pid", "unregister", "demonitor_all",
      "leave_all", "notify_stop_listener"]
    ∧ Extracted.setStatusCleanupElectedOnce = true ∧ Extracted.setStatusNotifyElectedOnce = true := by
  decide

/-- `wait()` creates the `Notified` before reading the status; `notify_waiters` precedes `notify_one` -/
theorem src_wait_and_notify :
    Extracted.waitCreatesNotifiedBeforeStatusCheck = true ∧ Extracted.notifyOrder = ["notify_waiters", "notify_one"] := by
  decide

theorem src_status_discriminants :
    (Extracted.statusDiscriminants.lookup "Stopping", Extracted.statusDiscriminants.lookup "Stopped")
      = (some stStopping, some stStopped) := by decide

/-! ### Non-vacuity -/

/-- waiter 0 registers before the exit starts, waiter 1 creates its `Notified` during the exit and
polls after `notify_waiters`, waiter 2 starts after the exit: all three return, all with `ok`. -/
def exampleSched : List Tid :=
  [.w 0, .w 0] ++ List.replicate 12 .e ++ [.w 1] ++ List.replicate 3 .e ++ [.w 1, .e, .w 0, .w 2, .w 2]

example : (run (init true [] [[1, 2]] 3) exampleSched).waiters.map (·.pc)
    = [.returned true, .returned true, .returned true] := by decide
example : (run (init true [] [[1, 2]] 3) exampleSched).exiter.finished = true := by decide
example : (run (init true [] [[1, 2]] 3) [.w 0, .w 0, .w 0]).waiters.map (·.pc) = [.registered, .start, .start] := by
  decide
/-- the window between `get_status()` and the first poll of `Notified`: waiter 0 reads `Running`
(`checked`), the whole exit including `notify_waiters` and `notify_one` runs, then the first poll:
it completes because the generation moved (and leaves the permit for a later waiter) -/
example :
    (run (init true [] [] 2) [.w 0, .w 0]).waiters.map (·.pc) = [.checked 0, .start] ∧
    let g := run (init true [] [] 2) ([.w 0, .w 0] ++ List.replicate 17 .e ++ [.w 0])
    g.waiters.map (·.pc) = [.returned true, .start] ∧ g.sh.permit = true ∧ g.exiter.finished = true := by
  decide
/-- a timed-out waiter -/
example : (run (init false [6] [] 2) ([.w 0, .w 0, .abandon 0] ++ List.replicate 20 .e ++ [.w 1, .w 1])).waiters.map (·.pc)
    = [.abandoned, .returned true] := by decide

/-- the hypotheses of the theorems also cover an exit after `drain()` (status `Draining`) and after
a kill signal (children already terminated) -/
example : Initial { (init false [] [] 2) with sh := { status := 4, flags := { terminated := true } } } := by
  refine ⟨rfl, rfl, rfl, by decide, rfl, rfl, ⟨rfl, rfl⟩, ?_, rfl⟩
  intro w hw
  simp only [init, List.mem_replicate] at hw
  exact hw.2

/-- a drain arriving while the actor is parked in `post_stop` (status `Stopping`) changes nothing;
a successor takes the freed name and keeps it; `cleanup.notify` panics, `cleanup` is re-run, and
both waiters are released -/
example :
    let g := run (init true [] [] 2 1)
      ([.w 0, .w 0] ++ List.replicate 5 .e ++ [.d 0, .succ] ++ List.replicate 4 .e ++ [.unwind]
        ++ List.replicate 10 .e ++ [.w 0, .w 1, .w 1])
    g.sh.status = 6 ∧ g.sh.name = .succ ∧ g.sh.cleanupRuns = 1 ∧ g.exiter.finished = true
      ∧ g.waiters.map (·.pc) = [.returned true, .returned true] := by decide

/-! ### Translator tie (rs2lean): kernel-checked equivalence between the definitions that
`extract/rs2lean.py` regenerates from the CURRENT Rust source on every run
(`RactorModel/Generated/*.lean`) and the hand-written model functions the theorems above are
about. A semantic change of the Rust function changes the generated text and these stop checking. -/

section XlateTie
open Generated.Admission

/-- the condition under which `ActorCell::set_status` runs the registry/pg cleanup
(model: the election at pc `publish`). -/
theorem generated_set_status_cleanup_condition_eq_model (enq : Except MessagingErr Unit) (s prev : ActorStatus) :
    ActorCell.set_status_runs_cleanup enq s prev
      = (decide (s.toNat ≥ ExitRace.stStopping) && decide (prev.toNat < ExitRace.stStopping)) := by
  cases s <;> cases prev <;> rfl

/-- the condition under which `ActorCell::set_status` notifies the stop listeners. -/
theorem generated_set_status_notify_condition_eq_model (enq : Except MessagingErr Unit) (s prev : ActorStatus) :
    ActorCell.set_status_notifies enq s prev
      = (s.toNat == ExitRace.stStopped && decide (prev.toNat < ExitRace.stStopped)) := by
  cases s <;> cases prev <;> rfl
end XlateTie

/-! ### E-SRC, async-std backend (round 4)

`wait(Some(d))`, `stop_and_wait`, `kill_and_wait`, `drain_and_wait` go through `concurrency::timeout`; with
`--features async-std` it forwards duration and future unchanged to `async_std::future::timeout` and maps its error
to `Timeout`. The children waits (`stop_children_and_wait`, `drain_children_and_wait`) use the backend's `JoinSet`,
which polls the futures inline in the caller (`FuturesUnordered`) and never reports a join error. -/
theorem src_async_std_timeout :
    Extracted.asyncStdTimeoutBody = "async_std::future::timeout(dur,future).await.map_err(|_|super::Timeout)" := by decide
theorem src_async_std_joinset :
    Extracted.asyncStdJoinSetSpawnBody = "self.set.push(f.boxed());"
    ∧ Extracted.asyncStdJoinSetJoinNextBody = "self.set.next().await.map(|item|Ok(item))" := by decide

end C06

#print axioms C06.waiter_returns_only_after_full_stop
#print axioms C06.return_records_current_state
#print axioms C06.no_lost_wakeup_progress
#print axioms C06.no_lost_wakeup
#print axioms C06.exiter_always_finishes
#print axioms C06.guard_armed_until_finished
#print axioms C06.successor_keeps_name
#print axioms C06.status_monotone
#print axioms C06.cleanup_elected_once
#print axioms C06.abandon_changes_nothing
#print axioms C06.src_cleanup_order
#print axioms C06.src_set_status_order
#print axioms C06.src_wait_and_notify
#print axioms C06.src_status_discriminants
-- rs2lean tie
#print axioms C06.generated_set_status_cleanup_condition_eq_model
#print axioms C06.generated_set_status_notify_condition_eq_model
#print axioms C06.ok_means_fully_stopped
#print axioms C06.form_oracle_holds
#print axioms C06.send_error_means_not_accepted
#print axioms C06.children_wrapper_accepted_children_stopped
#print axioms C06.wrapper_oracle_holds
#print axioms C06.children_wrapper_may_return_with_running_child
#print axioms C06.timeout_has_no_effect
#print axioms C06.returned_waiter_name_released
#print axioms C06.send_step_outcomes
#print axioms C06.every_call_completes
#print axioms C06.terminal_events_bounded
#print axioms C06.post_stop_skipped_only_after_kill
#print axioms C06.src_async_std_timeout
#print axioms C06.src_async_std_joinset
