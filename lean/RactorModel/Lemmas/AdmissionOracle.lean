import RactorModel.Lemmas.AdmissionCore
import RactorModel.Lemmas.AdmissionLate
import RactorModel.Lemmas.AdmissionIds
import RactorModel.Lemmas.AdmissionQueue
import RactorModel.Lemmas.AdmissionOrder
import RactorModel.Lemmas.AdmissionBack

/-!
The run-time oracle `Obs.violations` (Model/Admission.lean) holds of every end state of the model:
the clauses the driver evaluates on the implementation's observations are consequences of the
invariants.
-/

namespace Admission

theorem nodupNat_of_count_le_one (l : List Nat) (h : ∀ i, l.count i ≤ 1) : nodupNat l = true := by
  induction l with
  | nil => rfl
  | cons x l ih =>
    simp only [nodupNat, Bool.and_eq_true, Bool.not_eq_true']
    constructor
    · cases hc : l.contains x
      · rfl
      · have hm : x ∈ l := by simpa using hc
        have := h x
        have : 0 < l.count x := List.count_pos_iff.mpr hm
        simp only [List.count_cons_self] at *
        omega
    · apply ih
      intro i
      have := h i
      simp only [List.count_cons] at this
      omega

theorem active_of_okPend (i : Nat) (f : Frame) (h : Frame.okPend i f = true) : Frame.active f = true := by
  unfold Frame.okPend at h; unfold Frame.active
  split <;> simp_all

theorem active_of_holds (f : Frame) (h : Frame.holds f = true) : Frame.active f = true := by
  unfold Frame.holds at h; unfold Frame.active; split <;> simp_all

/-- All invariants of a reachable state. -/
structure Reach (g : G) : Prop where
  core : Inv g
  late : LateInv g
  ids : ∀ i, IdInv i g
  q : QInv g.sh
  ord : ∀ m1 m2, OrdInv m1 m2 g
  back : BackInv g

theorem reach_run (progs : List (List Op)) (sched : List Tid) : Reach (run (init progs) sched) :=
  ⟨inv_run _ sched (inv_init progs), lateInv_run _ sched (lateInv_init progs),
   fun i => idInv_run i _ sched (idInv_init i progs), qinv_run _ sched (qinv_init progs),
   fun m1 m2 => ordInv_run m1 m2 _ sched (idInv_init m1 progs) (idInv_init m2 progs) (ordInv_init m1 m2 progs),
   backInv_run _ sched (backInv_init progs)⟩

/-- `closed` and no op in flight: the marker bit is set (C07 (5), state form). -/
theorem Reach.marker_of_closed {g : G} (R : Reach g) (hq : cnt Frame.active g = 0)
    (hc : g.sh.word.closed = true) : g.sh.word.marker = true ∧ g.sh.enq.count .drain + g.sh.markerDropped = 1 := by
  have I := R.core
  have hA : cnt Frame.holds g = 0 := by
    have := cnt_le_of_imp Frame.holds Frame.active active_of_holds g; omega
  have hC : cnt Frame.obliged g = 0 := by
    have := cnt_le_of_imp Frame.obliged Frame.active
      (fun f h => by unfold Frame.obliged at h; unfold Frame.active; split <;> simp_all) g
    omega
  have hB : cnt Frame.atMEnq g = 0 := by
    have := cnt_le_of_imp Frame.atMEnq Frame.active
      (fun f h => by unfold Frame.atMEnq at h; unfold Frame.active; split <;> simp_all) g
    omega
  have hm : g.sh.word.marker = true := by
    cases hm : g.sh.word.marker
    · have := I.oblig hc hm
      have := I.count_eq
      omega
    · rfl
  refine ⟨hm, ?_⟩
  have h1 := I.marker_one
  rw [hm, hB] at h1
  simp only [↓reduceIte] at h1
  omega

/-- order in a list implies order in each of its prefixes -/
theorem orderedIn_prefix (a b : Nat) (l m : List Nat) (h : orderedIn a b (l ++ m) = true) :
    orderedIn a b l = true := by
  induction l with
  | nil => simp [orderedIn, indexOf?]
  | cons y l ih =>
    simp only [orderedIn, List.cons_append, indexOf?] at h ih ⊢
    by_cases ha : (a == y) = true <;> by_cases hb : (b == y) = true <;>
      simp only [ha, hb, if_true, if_false, Bool.false_eq_true] at h ⊢
    · exact h
    · cases h4 : indexOf? l b <;> simp
    · cases h1 : indexOf? (l ++ m) a <;> simp [h1] at h
    · cases h1 : indexOf? (l ++ m) a <;> cases h2 : indexOf? (l ++ m) b <;> cases h3 : indexOf? l a <;>
        cases h4 : indexOf? l b <;> simp_all <;> omega

/-- **The oracle holds of the model.** For every reachable end state — no op in flight and the
receiver ran until it blocked — no clause of `Obs.violations` is violated. -/
theorem violations_nil {g : G} (R : Reach g) (he : endState g = true) : (obsOf g).violations = [] := by
  have I := R.core
  have Q := R.q
  simp only [endState, quiescent, Bool.and_eq_true, beq_iff_eq, List.isEmpty_iff, Bool.or_eq_true,
    Bool.not_eq_true'] at he
  obtain ⟨⟨⟨hq, hqueue⟩, htaken⟩, hdone⟩ := he
  -- started handlers are among the dequeued messages …
  have hsub : ∀ i, g.sh.handled.count i ≤ g.sh.deqd.count (.msg i) := by
    intro i
    have := congrArg (List.count i) Q.handled_eq
    simp only [List.count_append, count_msgIds] at this
    omega
  -- … and are all of them unless the loop was left for another reason than the marker
  have hEq : g.sh.stoppedByOther = false → g.sh.handled = msgIds g.sh.deqd := by
    intro hso
    have hd : g.sh.dropped = [] := by
      cases hd : g.sh.dropped with
      | nil => rfl
      | cons x l => have := (Q.dropped_why (by simp [hd])).1; simp [hso] at this
    have ht : g.sh.taken = none := by simpa using htaken
    have := Q.handled_eq
    rw [hd, ht] at this
    simpa using this.symm
  have hcount : ∀ i, g.sh.handled.count i ≤ 1 := by
    intro i
    have h1 := (R.ids i).one
    have hc := congrArg (List.count (Item.msg i)) Q.conserve
    simp only [List.count_append] at hc
    have := hsub i
    omega
  -- everything enqueued was dequeued, unless the receiver was stopped from outside
  have hall : g.sh.stoppedByOther = false → g.sh.flushed = [] := by
    intro hso
    cases hro : g.sh.rxOpen
    · have hst := Q.closed_stopped hro
      rcases Q.stopped_why hst with h | h
      · simp [hso] at h
      · have hl := I.marker_last
        rw [Q.conserve, List.append_assoc] at hl
        have := markerLast_prefix_all _ _ hl h
        exact (List.append_eq_nil_iff.mp this).1
    · exact Q.flushed_closed hro
  have c1 : nodupNat g.sh.handled = true := nodupNat_of_count_le_one _ hcount
  have c2 : g.sh.handled.all (fun i => g.sh.rets.any (fun r => r.isOkSend && r.id == i)) = true := by
    rw [List.all_eq_true]
    intro i hi
    have hd : 0 < g.sh.deqd.count (.msg i) := by
      have := hsub i
      have : 0 < g.sh.handled.count i := List.count_pos_iff.mpr hi
      omega
    have henq : 0 < g.sh.enq.count (.msg i) := by
      have hc := congrArg (List.count (Item.msg i)) Q.conserve
      simp only [List.count_append] at hc
      omega
    have h2 := (R.ids i).oks
    have hO : cnt (Frame.okPend i) g = 0 := by
      have := cnt_le_of_imp (Frame.okPend i) Frame.active (active_of_okPend i) g; omega
    have hpos : 0 < g.sh.rets.countP (Ret.okFor i) := by omega
    obtain ⟨r, hr, hrp⟩ := List.countP_pos_iff.mp hpos
    rw [List.any_eq_true]
    refine ⟨r, hr, ?_⟩
    simp only [Ret.okFor, Bool.and_eq_true, beq_iff_eq] at hrp
    simp only [Ret.isOkSend, Ret.isSend, Bool.and_eq_true, beq_iff_eq]
    exact ⟨⟨hrp.1.2, hrp.2⟩, hrp.1.1⟩
  have c3 : (g.sh.stoppedByOther || g.sh.rets.all (fun r => !r.isOkSend || g.sh.handled.contains r.id)) = true := by
    cases hso : g.sh.stoppedByOther
    · simp only [Bool.false_or]
      rw [List.all_eq_true]
      intro r hr
      cases hok : r.isOkSend
      · rfl
      · simp only [Bool.not_true, Bool.false_or]
        simp only [Ret.isOkSend, Ret.isSend, Bool.and_eq_true] at hok
        have hpos : 0 < g.sh.rets.countP (Ret.okFor r.id) :=
          List.countP_pos_iff.mpr ⟨r, hr, by
            simp only [Ret.okFor, beq_self_eq_true, Bool.true_and, Bool.and_eq_true]; exact hok⟩
        have h2 := (R.ids r.id).oks
        have hc := congrArg (List.count (Item.msg r.id)) Q.conserve
        simp only [List.count_append] at hc
        rw [hall hso, hqueue] at hc
        simp only [List.count_nil, Nat.add_zero] at hc
        have : 0 < g.sh.handled.count r.id := by rw [hEq hso, count_msgIds]; omega
        simpa using List.count_pos_iff.mp this
    · rfl
  have cOrd : g.sh.rets.all (fun r2 => !r2.isOkSend || r2.seenOk.all (fun m1 => orderedIn m1 r2.id g.sh.handled)) = true := by
    rw [List.all_eq_true]
    intro r2 hr2
    cases hok : r2.isOkSend
    · rfl
    · simp only [Bool.not_true, Bool.false_or]
      rw [List.all_eq_true]
      intro m1 hm1
      simp only [Ret.isOkSend, Ret.isSend, Bool.and_eq_true] at hok
      have hO := R.ord m1 r2.id
      have hpos : 0 < cnt (Frame.after m1 r2.id) g + g.sh.rets.countP (Ret.after m1 r2.id) := by
        have : 0 < g.sh.rets.countP (Ret.after m1 r2.id) :=
          List.countP_pos_iff.mpr ⟨r2, hr2, by
            have hk := hok.1
            simp only [Ret.after, Bool.and_eq_true, beq_self_eq_true, List.contains_eq_mem, decide_eq_true_eq]
            exact ⟨⟨hk, trivial⟩, hm1⟩⟩
        omega
      have hokpos : 0 < g.sh.rets.countP (Ret.okFor r2.id) :=
        List.countP_pos_iff.mpr ⟨r2, hr2, by
          simp only [Ret.okFor, beq_self_eq_true, Bool.true_and, Bool.and_eq_true]; exact hok⟩
      have h2 := (R.ids r2.id).oks
      have h1 := (R.ids r2.id).one
      have hbef := hO.ord hpos (by omega)
      rw [Q.conserve, List.append_assoc] at hbef
      have hord : orderedIn m1 r2.id (msgIds g.sh.deqd) = true := by
        apply orderedIn_of_before m1 r2.id (hO.ne hpos) _ _ _ hbef
        rw [← List.append_assoc, ← Q.conserve]
        omega
      rw [Q.handled_eq, List.append_assoc] at hord
      exact orderedIn_prefix _ _ _ _ hord
  have c4 : g.sh.rets.all (fun r => !(r.isSend && r.late) || r.res.isSendErr) = true := by
    rw [List.all_eq_true]
    intro r hr
    have := List.countP_eq_zero.mp R.late.late_log r hr
    simp only [Ret.lateBad, Bool.and_eq_true, not_and, Bool.not_eq_true] at this
    cases hs : r.isSend <;> cases hl : r.late <;> simp only [Bool.and_false, Bool.and_true, Bool.not_false,
      Bool.not_true, Bool.true_or, Bool.false_or, Bool.and_self]
    simp only [Ret.isSend] at hs
    have := this ⟨hs, hl⟩
    cases hres : r.res <;> simp_all [Res.isSendErr]
  have hA : cnt Frame.holds g = 0 := by
    have := cnt_le_of_imp Frame.holds Frame.active active_of_holds g; omega
  have c5 : g.sh.word.count = 0 := by rw [I.count_eq]; exact hA
  have c6 : (!g.sh.word.closed || g.sh.word.marker) = true := by
    cases hc : g.sh.word.closed
    · rfl
    · simp [(R.marker_of_closed hq hc).1]
  have hdr : g.sh.drainedExits ≤ 1 := by
    have h1 := I.marker_one
    have hc := congrArg (List.count Item.drain) Q.conserve
    simp only [List.count_append] at hc
    rw [Q.drained_eq]
    split at h1 <;> omega
  have c8 : (!g.sh.word.closed || g.sh.stoppedByOther || (g.sh.drainedExits == 1 && !g.sh.rxOpen)) = true := by
    cases hc : g.sh.word.closed
    · rfl
    · cases hso : g.sh.stoppedByOther
      · simp only [Bool.not_true, Bool.false_or, Bool.and_eq_true, beq_iff_eq, Bool.not_eq_true']
        obtain ⟨hm, hcd⟩ := R.marker_of_closed hq hc
        -- the marker was enqueued (it can only be dropped when the receiver is gone, and it is
        -- gone only because of the marker) and, the channel being empty, dequeued
        have hmem : Item.drain ∈ g.sh.deqd := by
          cases hro : g.sh.rxOpen
          · rcases Q.stopped_why (Q.closed_stopped hro) with h | h
            · simp [hso] at h
            · exact h
          · have hd0 : g.sh.markerDropped = 0 := by
              cases hd : g.sh.markerDropped with
              | zero => rfl
              | succ n => have := I.dropped (by omega); simp [hro] at this
            have : 0 < g.sh.enq.count .drain := by omega
            have hmem := List.count_pos_iff.mp this
            rw [Q.conserve, Q.flushed_closed hro, hqueue] at hmem
            simpa using hmem
        have hst := Q.stopped hmem
        have hro : g.sh.rxOpen = false := by
          rcases hdone with h | h
          · simp [hst] at h
          · exact h
        refine ⟨?_, hro⟩
        have : 0 < g.sh.deqd.count .drain := List.count_pos_iff.mpr hmem
        rw [Q.drained_eq] at hdr ⊢
        omega
      · simp
  have c9 : (g.sh.word.closed || g.sh.drainedExits == 0) = true := by
    cases hd : g.sh.drainedExits with
    | zero => simp
    | succ n =>
      have : 0 < g.sh.deqd.count .drain := by rw [← Q.drained_eq]; omega
      have hc := congrArg (List.count Item.drain) Q.conserve
      simp only [List.count_append] at hc
      have h1 := I.marker_one
      have hm : g.sh.word.marker = true := by
        cases hm : g.sh.word.marker
        · rw [hm] at h1; simp at h1; omega
        · rfl
      simp [(I.marker_imp hm).1]
  have c10 : g.sh.rets.all (fun r => !r.backBad) = true := by
    rw [List.all_eq_true]
    intro r hr
    have := List.countP_eq_zero.mp R.back.back_log r hr
    simpa using this
  simp only [Obs.violations, obsOf, c1, c2, c3, cOrd, c4, c5, c6, hdr, c8, c9, c10, ↓reduceIte, List.append_nil,
    beq_self_eq_true]

/-- Whenever the live receiver's mailbox is quiet, every send that has returned `Ok` has been handled
(no quiescence of the senders needed: a returned `Ok` means the enqueue is done). -/
theorem quiet_all_ok_handled {g : G} (R : Reach g) (hq : quiet g.sh = true) :
    ∀ r ∈ g.sh.rets, r.isOkSend = true → r.id ∈ g.sh.handled := by
  have Q := R.q
  simp only [quiet, Bool.and_eq_true, List.isEmpty_iff, Option.isNone_iff_eq_none, Bool.not_eq_true'] at hq
  obtain ⟨⟨⟨⟨hqueue, htaken⟩, hopen⟩, hrs⟩, hso⟩ := hq
  intro r hr hok
  simp only [Ret.isOkSend, Ret.isSend, Bool.and_eq_true] at hok
  have hpos : 0 < g.sh.rets.countP (Ret.okFor r.id) :=
    List.countP_pos_iff.mpr ⟨r, hr, by
      simp only [Ret.okFor, beq_self_eq_true, Bool.true_and, Bool.and_eq_true]; exact hok⟩
  have h2 := (R.ids r.id).oks
  have hc := congrArg (List.count (Item.msg r.id)) Q.conserve
  simp only [List.count_append] at hc
  rw [Q.flushed_closed hopen, hqueue] at hc
  simp only [List.count_nil, Nat.add_zero] at hc
  have hd : g.sh.dropped = [] := by
    cases hd : g.sh.dropped with
    | nil => rfl
    | cons x l => have := (Q.dropped_why (by simp [hd])).1; simp [hso] at this
  have hh := congrArg (List.count r.id) Q.handled_eq
  rw [hd, htaken] at hh
  simp only [List.count_append, count_msgIds, Option.toList, List.count_nil, Nat.add_zero] at hh
  exact List.count_pos_iff.mp (by omega)

/-- What an empty `Obs.violations` says, clause by clause. -/
theorem violations_nil_clauses (o : Obs) (h : o.violations = []) :
    nodupNat o.handled = true ∧
    o.handled.all (fun i => o.rets.any (fun r => r.isOkSend && r.id == i)) = true ∧
    (o.otherExit || o.rets.all (fun r => !r.isOkSend || o.handled.contains r.id)) = true ∧
    o.rets.all (fun r2 => !r2.isOkSend || r2.seenOk.all (fun m1 => orderedIn m1 r2.id o.handled)) = true ∧
    o.rets.all (fun r => !(r.isSend && r.late) || r.res.isSendErr) = true ∧
    (o.word.count == 0) = true ∧
    (!o.word.closed || o.word.marker) = true ∧
    o.drainedExits ≤ 1 ∧
    (!o.word.closed || o.otherExit || (o.drainedExits == 1 && !o.alive)) = true ∧
    (o.word.closed || o.drainedExits == 0) = true ∧
    o.rets.all (fun r => !r.backBad) = true := by
  simp only [Obs.violations, List.append_eq_nil_iff] at h
  obtain ⟨⟨⟨⟨⟨⟨⟨⟨⟨⟨h1, h2⟩, h3⟩, h4⟩, h5⟩, h6⟩, h7⟩, h8⟩, h9⟩, h10⟩, h11⟩ := h
  refine ⟨?_, ?_, ?_, ?_, ?_, ?_, ?_, ?_, ?_, ?_, ?_⟩
  · split at h1 <;> simp_all
  · split at h2 <;> simp_all
  · split at h3 <;> simp_all
  · split at h4 <;> simp_all
  · split at h5 <;> simp_all
  · split at h6 <;> simp_all
  · split at h7 <;> simp_all
  · split at h8 <;> simp_all
  · split at h9 <;> simp_all
  · split at h10 <;> simp_all
  · split at h11 <;> simp_all

end Admission
