import RactorModel.Model.Timers

/-! Helper lemmas for `Props/C12.lean`: the small-step invariant `Inv` of the `Timers` model,
its preservation by every `Op`, and `Inv s → ok s`. -/

namespace Timers

/-! ### the wheel rounds up -/

theorem le_ceilMs (x : Nat) : x ≤ ceilMs x := by unfold ceilMs; omega
theorem ceilMs_mono {x y : Nat} (h : x ≤ y) : ceilMs x ≤ ceilMs y := by unfold ceilMs; omega
theorem ceilMs_lt (x : Nat) : ceilMs x < x + 1000 := by unfold ceilMs; omega

/-- never early: when the wheel completes the sleep, the exact instant asked for has passed -/
theorem Timer.le_of_deadline_le {τ : Timer} {a now : Nat} (h : τ.deadline a ≤ now) :
    a + (τ.sentAt.length + 1) * τ.period ≤ now :=
  Nat.le_trans (le_ceilMs _) h


/-! ### list predicates -/

theorem earlyOk_append (base p : Nat) (l : List Nat) (t : Nat) :
    ∀ k, earlyOk base p k (l ++ [t]) = (earlyOk base p k l && decide (base + (k + l.length + 1) * p ≤ t)) := by
  induction l with
  | nil => intro k; simp [earlyOk]
  | cons x xs ih =>
    intro k
    simp only [List.cons_append, earlyOk, ih (k + 1), List.length_cons, Bool.and_assoc]
    have : k + 1 + xs.length + 1 = k + (xs.length + 1) + 1 := by omega
    rw [this]

theorem earlyOk_mono {base base' p : Nat} (h : base' ≤ base) :
    ∀ (l : List Nat) (k : Nat), earlyOk base p k l = true → earlyOk base' p k l = true := by
  intro l
  induction l with
  | nil => intro k _; rfl
  | cons x xs ih =>
    intro k hk
    simp only [earlyOk, Bool.and_eq_true, decide_eq_true_eq] at hk ⊢
    exact ⟨by omega, ih _ hk.2⟩

/-- the last action is no earlier than its own deadline -/
theorem earlyOk_getLast {base p : Nat} :
    ∀ (l : List Nat) (k : Nat), earlyOk base p k l = true → ∀ t ∈ l.getLast?, base + (k + l.length) * p ≤ t := by
  intro l
  induction l with
  | nil => intro k _ t ht; simp at ht
  | cons x xs ih =>
    intro k hk t ht
    simp only [earlyOk, Bool.and_eq_true, decide_eq_true_eq] at hk
    cases xs with
    | nil =>
      simp at ht; subst ht
      simpa using hk.1
    | cons y ys =>
      have := ih (k + 1) hk.2 t (by simpa [List.getLast?_cons_cons] using ht)
      simp only [List.length_cons] at this ⊢
      have e : k + 1 + (ys.length + 1) = k + (ys.length + 1 + 1) := by omega
      rw [e] at this; exact this

theorem promptOk_append (base p : Nat) (vs : List Nat) (l : List Nat) (t : Nat) :
    ∀ k, promptOk base p vs k (l ++ [t]) =
      (promptOk base p vs k l &&
        vs.all (fun c => !decide (c < t) || decide (c < ceilMs (base + (k + l.length + 1) * p)))) := by
  induction l with
  | nil => intro k; simp [promptOk]
  | cons x xs ih =>
    intro k
    simp only [List.cons_append, promptOk, ih (k + 1), List.length_cons, Bool.and_assoc]
    have : k + 1 + xs.length + 1 = k + (xs.length + 1) + 1 := by omega
    rw [this]

/-- adding a quiescent point that is not before any recorded action changes nothing -/
theorem promptOk_visit (base p : Nat) (vs : List Nat) (c : Nat) :
    ∀ (l : List Nat) (k : Nat), (∀ t ∈ l, t ≤ c) → promptOk base p vs k l = true →
      promptOk base p (vs ++ [c]) k l = true := by
  intro l
  induction l with
  | nil => intro k _ _; rfl
  | cons x xs ih =>
    intro k hle h
    simp only [promptOk, Bool.and_eq_true] at h ⊢
    refine ⟨?_, ih _ (fun t ht => hle t (List.mem_cons_of_mem _ ht)) h.2⟩
    rw [List.all_append, Bool.and_eq_true]
    refine ⟨h.1, ?_⟩
    have : ¬ c < x := by have := hle x (List.mem_cons_self ..); omega
    simp [this]

end Timers

namespace Timers

/-! ### projections of the record updates -/
section proj
variable (τ : Timer) (T : Target) (now : Nat) (r : Res) (m : Nat × Nat)
@[simp] theorem arm_kind : (τ.arm now).kind = τ.kind := rfl
@[simp] theorem arm_period : (τ.arm now).period = τ.period := rfl
@[simp] theorem arm_created : (τ.arm now).created = τ.created := rfl
@[simp] theorem arm_armed : (τ.arm now).armed = some (τ.armed.getD now) := rfl
@[simp] theorem arm_sentAt : (τ.arm now).sentAt = τ.sentAt := rfl
@[simp] theorem arm_res : (τ.arm now).res = τ.res := rfl
@[simp] theorem arm_finAt : (τ.arm now).finAt = τ.finAt := rfl
@[simp] theorem arm_primed : (τ.arm now).primed = (τ.armed.isSome && τ.primed) := rfl
@[simp] theorem arm_typed : (τ.arm now).typed = τ.typed := rfl
@[simp] theorem prime_typed : τ.prime.typed = τ.typed := rfl
@[simp] theorem attempt_typed : (τ.attempt now).typed = τ.typed := rfl
@[simp] theorem finish_typed : (τ.finish r now).typed = τ.typed := rfl
@[simp] theorem prime_kind : τ.prime.kind = τ.kind := rfl
@[simp] theorem prime_period : τ.prime.period = τ.period := rfl
@[simp] theorem prime_created : τ.prime.created = τ.created := rfl
@[simp] theorem prime_armed : τ.prime.armed = τ.armed := rfl
@[simp] theorem prime_sentAt : τ.prime.sentAt = τ.sentAt := rfl
@[simp] theorem prime_res : τ.prime.res = τ.res := rfl
@[simp] theorem prime_finAt : τ.prime.finAt = τ.finAt := rfl
@[simp] theorem prime_primed : τ.prime.primed = true := rfl
@[simp] theorem attempt_kind : (τ.attempt now).kind = τ.kind := rfl
@[simp] theorem attempt_period : (τ.attempt now).period = τ.period := rfl
@[simp] theorem attempt_created : (τ.attempt now).created = τ.created := rfl
@[simp] theorem attempt_armed : (τ.attempt now).armed = τ.armed := rfl
@[simp] theorem attempt_sentAt : (τ.attempt now).sentAt = τ.sentAt ++ [now] := rfl
@[simp] theorem attempt_res : (τ.attempt now).res = τ.res := rfl
@[simp] theorem attempt_finAt : (τ.attempt now).finAt = τ.finAt := rfl
@[simp] theorem finish_kind : (τ.finish r now).kind = τ.kind := rfl
@[simp] theorem finish_period : (τ.finish r now).period = τ.period := rfl
@[simp] theorem finish_created : (τ.finish r now).created = τ.created := rfl
@[simp] theorem finish_armed : (τ.finish r now).armed = τ.armed := rfl
@[simp] theorem finish_sentAt : (τ.finish r now).sentAt = τ.sentAt := rfl
@[simp] theorem finish_res : (τ.finish r now).res = r := rfl
@[simp] theorem finish_finAt : (τ.finish r now).finAt = some now := rfl
@[simp] theorem push_closedAt : (T.push m).closedAt = T.closedAt := rfl
@[simp] theorem push_exit : (T.push m).exit = T.exit := rfl
@[simp] theorem push_handled : (T.push m).handled = T.handled := rfl
@[simp] theorem push_mbox : (T.push m).mbox = T.mbox ++ [m] := rfl
@[simp] theorem push_stopReq : (T.push m).stopReq = T.stopReq := rfl
@[simp] theorem push_killReq : (T.push m).killReq = T.killReq := rfl
@[simp] theorem push_manualStop : (T.push m).manualStop = T.manualStop := rfl
@[simp] theorem push_manualKill : (T.push m).manualKill = T.manualKill := rfl
@[simp] theorem push_draining : (T.push m).draining = T.draining := rfl
@[simp] theorem push_stopping : (T.push m).stopping = T.stopping := rfl
@[simp] theorem push_psGate : (T.push m).psGate = T.psGate := rfl
@[simp] theorem stop_closedAt (rr : Reason) : (T.stop rr).closedAt = T.closedAt := by unfold Target.stop; split <;> rfl
@[simp] theorem stop_exit (rr : Reason) : (T.stop rr).exit = T.exit := by unfold Target.stop; split <;> rfl
@[simp] theorem stop_handled (rr : Reason) : (T.stop rr).handled = T.handled := by unfold Target.stop; split <;> rfl
@[simp] theorem stop_mbox (rr : Reason) : (T.stop rr).mbox = T.mbox := by unfold Target.stop; split <;> rfl
@[simp] theorem stop_killReq (rr : Reason) : (T.stop rr).killReq = T.killReq := by unfold Target.stop; split <;> rfl
@[simp] theorem stop_manualStop (rr : Reason) : (T.stop rr).manualStop = T.manualStop := by unfold Target.stop; split <;> rfl
@[simp] theorem stop_manualKill (rr : Reason) : (T.stop rr).manualKill = T.manualKill := by unfold Target.stop; split <;> rfl
@[simp] theorem stop_draining (rr : Reason) : (T.stop rr).draining = T.draining := by unfold Target.stop; split <;> rfl
@[simp] theorem stop_stopping (rr : Reason) : (T.stop rr).stopping = T.stopping := by unfold Target.stop; split <;> rfl
@[simp] theorem stop_psGate (rr : Reason) : (T.stop rr).psGate = T.psGate := by unfold Target.stop; split <;> rfl
@[simp] theorem kill_closedAt : T.kill.closedAt = T.closedAt := by unfold Target.kill; split <;> rfl
@[simp] theorem kill_exit : T.kill.exit = T.exit := by unfold Target.kill; split <;> rfl
@[simp] theorem kill_handled : T.kill.handled = T.handled := by unfold Target.kill; split <;> rfl
@[simp] theorem kill_mbox : T.kill.mbox = T.mbox := by unfold Target.kill; split <;> rfl
@[simp] theorem kill_stopReq : T.kill.stopReq = T.stopReq := by unfold Target.kill; split <;> rfl
@[simp] theorem kill_manualStop : T.kill.manualStop = T.manualStop := by unfold Target.kill; split <;> rfl
@[simp] theorem kill_manualKill : T.kill.manualKill = T.manualKill := by unfold Target.kill; split <;> rfl
@[simp] theorem kill_draining : T.kill.draining = T.draining := by unfold Target.kill; split <;> rfl
@[simp] theorem kill_stopping : T.kill.stopping = T.stopping := by unfold Target.kill; split <;> rfl
@[simp] theorem kill_psGate : T.kill.psGate = T.psGate := by unfold Target.kill; split <;> rfl
end proj

theorem canSend_accepts {τ : Timer} {T : Target} (h : τ.canSend T = true) : T.accepts = true := by
  simp only [Timer.canSend, Bool.and_eq_true] at h; exact h.1
theorem canSend_typed {τ : Timer} {T : Target} (h : τ.canSend T = true) : τ.typed = true := by
  simp only [Timer.canSend, Bool.and_eq_true] at h; exact h.2
theorem canSend_false {τ : Timer} {T : Target} (h : τ.canSend T = false) (hty : τ.typed = true) :
    T.accepts = false := by
  simp only [Timer.canSend, hty, Bool.and_true] at h; exact h

/-! ### induction principle for the interval loop -/

theorem ivAwait_ind (now id a : Nat) (Q R : Timer → Target → Prop)
    (hQR : ∀ τ T, Q τ T → R τ T)
    (hsend : ∀ τ T, Q τ T → τ.deadline a ≤ now → τ.canSend T = true →
      Q (τ.attempt now) (T.push (id, τ.sentAt.length + 1)))
    (hfail : ∀ τ T, Q τ T → τ.deadline a ≤ now → τ.canSend T = false → R ((τ.attempt now).finish .ok now) T)
    (hhead : ∀ τ T, Q τ T → T.active = false → R (τ.finish .ok now) T) :
    ∀ fuel τ T, Q τ T → R (ivAwait now id a fuel τ T).1 (ivAwait now id a fuel τ T).2 := by
  intro fuel
  induction fuel with
  | zero =>
    intro τ T h
    unfold ivAwait
    by_cases hd : τ.deadline a ≤ now
    · by_cases hacc : τ.canSend T = true
      · by_cases hact : (T.push (id, τ.sentAt.length + 1)).active = true
        · simpa [hd, hacc, hact] using hQR _ _ (hsend τ T h hd hacc)
        · have hact' : (T.push (id, τ.sentAt.length + 1)).active = false := by simpa using hact
          simpa [hd, hacc, hact'] using hhead _ _ (hsend τ T h hd hacc) hact'
      · have hacc' : τ.canSend T = false := by simpa using hacc
        simpa [hd, hacc'] using hfail τ T h hd hacc'
    · simpa [hd] using hQR _ _ h
  | succ f ih =>
    intro τ T h
    unfold ivAwait
    by_cases hd : τ.deadline a ≤ now
    · by_cases hacc : τ.canSend T = true
      · by_cases hact : (T.push (id, τ.sentAt.length + 1)).active = true
        · simpa [hd, hacc, hact] using ih _ _ (hsend τ T h hd hacc)
        · have hact' : (T.push (id, τ.sentAt.length + 1)).active = false := by simpa using hact
          simpa [hd, hacc, hact'] using hhead _ _ (hsend τ T h hd hacc) hact'
      · have hacc' : τ.canSend T = false := by simpa using hacc
        simpa [hd, hacc'] using hfail τ T h hd hacc'
    · simpa [hd] using hQR _ _ h

/-! ### micro-transitions of one poll of a timer task -/

inductive Micro (now id : Nat) : Timer × Target → Timer × Target → Prop
  | arm (τ T) : τ.res = .pending → τ.armed = none → (τ.kind = .interval → 0 < τ.period) →
      Micro now id (τ, T) (τ.arm now, T)
  /-- `interval(Duration::ZERO)` panics at the first poll -/
  | panic (τ T) : τ.res = .pending → τ.kind = .interval → τ.period = 0 →
      Micro now id (τ, T) (τ.finish .panicked now, T)
  | prime (τ T a) : τ.res = .pending → τ.kind = .interval → τ.armed = some a → wheelDeadline a 0 ≤ now →
      T.active = true → Micro now id (τ, T) (τ.prime, T)
  | primeHead (τ T a) : τ.res = .pending → τ.kind = .interval → τ.armed = some a → wheelDeadline a 0 ≤ now →
      T.active = false → Micro now id (τ, T) (τ.prime.finish .ok now, T)
  | ivSend (τ T a) : τ.res = .pending → τ.kind = .interval → τ.armed = some a → τ.deadline a ≤ now →
      τ.canSend T = true → Micro now id (τ, T) (τ.attempt now, T.push (id, τ.sentAt.length + 1))
  | ivFail (τ T a) : τ.res = .pending → τ.kind = .interval → τ.armed = some a → τ.deadline a ≤ now →
      τ.canSend T = false → Micro now id (τ, T) ((τ.attempt now).finish .ok now, T)
  | ivHead (τ T) : τ.res = .pending → τ.kind = .interval → τ.armed.isSome = true → T.active = false →
      Micro now id (τ, T) (τ.finish .ok now, T)
  | saOk (τ T a) : τ.res = .pending → τ.kind = .sendAfter → τ.armed = some a → τ.deadline a ≤ now →
      τ.canSend T = true → Micro now id (τ, T) ((τ.attempt now).finish .ok now, T.push (id, τ.sentAt.length + 1))
  | saErr (τ T a) : τ.res = .pending → τ.kind = .sendAfter → τ.armed = some a → τ.deadline a ≤ now →
      τ.canSend T = false → Micro now id (τ, T) ((τ.attempt now).finish .err now, T)
  | exit (τ T a) : τ.res = .pending → τ.kind = .exitAfter → τ.armed = some a → τ.deadline a ≤ now →
      Micro now id (τ, T) ((τ.attempt now).finish .ok now, T.stop (.exitAfter (asMillis τ.period)))
  | kill (τ T a) : τ.res = .pending → τ.kind = .killAfter → τ.armed = some a → τ.deadline a ≤ now →
      Micro now id (τ, T) ((τ.attempt now).finish .ok now, T.kill)

theorem fireArmed_ind (now id a : Nat) (Q : Timer × Target → Prop)
    (hQ : ∀ x y, Micro now id x y → Q x → Q y) (τ : Timer) (T : Target)
    (hp : τ.res = .pending) (ha : τ.armed = some a) (h : Q (τ, T)) :
    Q (fireArmed now id a τ T) := by
  unfold fireArmed
  cases hk : τ.kind with
  | interval =>
    simp only
    have hiv : ∀ (σ : Timer), Q (σ, T) → σ.res = .pending → σ.kind = .interval → σ.armed = some a →
        ∀ fuel, Q (ivAwait now id a fuel σ T) := by
      intro σ hσ hp' hk' ha' fuel
      refine ivAwait_ind now id a
        (fun τ T => Q (τ, T) ∧ τ.res = .pending ∧ τ.kind = .interval ∧ τ.armed = some a)
        (fun τ T => Q (τ, T)) (fun _ _ h => h.1) ?_ ?_ ?_ fuel σ T ⟨hσ, hp', hk', ha'⟩
      · intro τ T ⟨hq, h1, h2, h3⟩ hd hacc
        exact ⟨hQ _ _ (.ivSend τ T a h1 h2 h3 hd hacc) hq, h1, h2, h3⟩
      · intro τ T ⟨hq, h1, h2, h3⟩ hd hacc
        exact hQ _ _ (.ivFail τ T a h1 h2 h3 hd hacc) hq
      · intro τ T ⟨hq, h1, h2, h3⟩ hact
        exact hQ _ _ (.ivHead τ T h1 h2 (by simp [h3]) hact) hq
    by_cases hpr : τ.primed = true
    · simp only [hpr, ↓reduceIte]
      exact hiv τ h hp hk ha _
    · simp only [hpr, Bool.false_eq_true, ↓reduceIte]
      by_cases hw : wheelDeadline a 0 ≤ now
      · simp only [hw, ↓reduceIte]
        by_cases hact : T.active = true
        · simp only [hact, Bool.not_true, Bool.false_eq_true, ↓reduceIte]
          exact hiv τ.prime (hQ _ _ (.prime τ T a hp hk ha hw hact) h) hp hk ha _
        · have hact' : T.active = false := by simpa using hact
          simp only [hact', Bool.not_false, ↓reduceIte]
          exact hQ _ _ (.primeHead τ T a hp hk ha hw hact') h
      · simp only [hw, ↓reduceIte]; exact h
  | sendAfter =>
    simp only
    by_cases hd : τ.deadline a ≤ now
    · by_cases hacc : τ.canSend T = true
      · simpa [hd, hacc] using hQ _ _ (.saOk τ T a hp hk ha hd hacc) h
      · have hacc' : τ.canSend T = false := by simpa using hacc
        simpa [hd, hacc'] using hQ _ _ (.saErr τ T a hp hk ha hd hacc') h
    · simpa [hd] using h
  | exitAfter =>
    simp only
    by_cases hd : τ.deadline a ≤ now
    · simpa [hd] using hQ _ _ (.exit τ T a hp hk ha hd) h
    · simpa [hd] using h
  | killAfter =>
    simp only
    by_cases hd : τ.deadline a ≤ now
    · simpa [hd] using hQ _ _ (.kill τ T a hp hk ha hd) h
    · simpa [hd] using h

/-- Anything preserved by the micro-transitions is preserved by one poll. -/
theorem fireOne_ind (now id : Nat) (Q : Timer × Target → Prop)
    (hQ : ∀ x y, Micro now id x y → Q x → Q y) (τ : Timer) (T : Target) (h : Q (τ, T)) :
    Q (fireOne now id τ T) := by
  unfold fireOne
  by_cases hp : τ.res = .pending
  · simp only [hp, ne_eq, not_true_eq_false, ↓reduceIte]
    by_cases hz : τ.kind = .interval ∧ τ.period = 0
    · simp only [hz, and_self, ↓reduceIte]
      exact hQ _ _ (.panic τ T hp hz.1 hz.2) h
    · simp only [hz, ↓reduceIte]
      have hpos : τ.kind = .interval → 0 < τ.period := fun hk =>
        Nat.pos_of_ne_zero (fun h0 => hz ⟨hk, h0⟩)
      cases ha : τ.armed with
      | none =>
        have hQa := hQ _ _ (.arm τ T hp ha hpos) h
        exact fireArmed_ind now id _ Q hQ _ T hp (by simp [Timer.arm, ha]) hQa
      | some a =>
        have : τ.arm now = τ := by cases τ; simp_all [Timer.arm]
        rw [this]
        exact fireArmed_ind now id _ Q hQ _ T hp (by simp [ha]) h
  · simpa [hp] using h

end Timers

namespace Timers

/-! ### the per-timer invariant -/

/-- What the history of one timer can look like at clock `now` when the target stopped
accepting at `cl`. -/
structure TInv (now : Nat) (cl : Option Nat) (τ : Timer) : Prop where
  created_le : τ.created ≤ now
  armed_ok : ∀ a, τ.armed = some a → τ.created ≤ a ∧ a ≤ now ∧ earlyOk a τ.period 0 τ.sentAt = true
  unarmed : τ.armed = none → τ.sentAt = []
  sent_le : ∀ t ∈ τ.sentAt, t ≤ now
  /-- an interval that got past `interval(period)` has a positive period -/
  pos : τ.kind = .interval → τ.armed ≠ none → 0 < τ.period
  /-- only `interval(Duration::ZERO)` panics -/
  panic : τ.res = .panicked → τ.kind = .interval ∧ τ.period = 0
  shot : τ.kind.oneShot = true →
    (τ.res = .pending → τ.sentAt = []) ∧ (τ.res = .cancelled → τ.sentAt = []) ∧
    (τ.res = .ok → τ.sentAt.length = 1) ∧ (τ.res = .err → τ.sentAt.length = 1 ∧ τ.kind = .sendAfter)
  noerr : τ.kind.oneShot = false → τ.res ≠ .err
  fin_none : τ.finAt = none → τ.res = .pending
  fin_some : ∀ tf, τ.finAt = some tf → τ.res ≠ .pending ∧ tf ≤ now ∧ ∀ t ∈ τ.sentAt, t ≤ tf
  closed : ∀ tc, cl = some tc → τ.kind.sends = true →
    (τ.res = .pending → (∀ t ∈ τ.sentAt, t ≤ tc) ∧
      (τ.kind = .interval → τ.primed = true → ∀ a, τ.armed = some a → a ≤ tc)) ∧
    (τ.sentAt.filter (fun t => decide (tc < t))).length ≤ 1
  /-- `send_after`: `Ok` ⇒ sent no later than the close, `Err` ⇒ the target had closed -/
  accept : τ.kind = .sendAfter → τ.typed = true →
    (τ.res = .ok → ∀ tc, cl = some tc → ∀ t ∈ τ.sentAt, t ≤ tc) ∧
    (τ.res = .err → ∃ tc, cl = some tc ∧ ∀ t ∈ τ.sentAt, tc ≤ t)
  /-- a timer with the wrong message type: one failing attempt, then it is done; never `Ok` for `send_after` -/
  untyped : τ.typed = false → τ.kind.sends = true →
    (τ.res = .pending → τ.sentAt = []) ∧ τ.sentAt.length ≤ 1 ∧ (τ.kind = .sendAfter → τ.res ≠ .ok)

theorem filter_gt_nil (l : List Nat) (tc : Nat) (hl : ∀ t ∈ l, t ≤ tc) :
    (l.filter (fun t => decide (tc < t))).length = 0 := by
  rw [List.length_eq_zero_iff, List.filter_eq_nil_iff]
  intro t ht; have := hl t ht; simp; omega

theorem filter_single_le (p : Nat → Bool) (x : Nat) : (List.filter p [x]).length ≤ 1 :=
  List.length_filter_le p [x]

theorem TInv.finAt_none {now cl τ} (h : TInv now cl τ) (hp : τ.res = .pending) : τ.finAt = none := by
  cases hf : τ.finAt with
  | none => rfl
  | some tf => exact absurd hp (h.fin_some tf hf).1

/-- the effect of the micro-transitions on the timer's own invariant -/
theorem Micro.tinv {now id : Nat} {x y : Timer × Target} (m : Micro now id x y)
    (hcl : ∀ tc, x.2.closedAt = some tc → tc ≤ now)
    (h : TInv now x.2.closedAt x.1) : TInv now y.2.closedAt y.1 ∧ y.2.closedAt = x.2.closedAt := by
  cases m with
  | panic τ T hp hk hz =>
    refine ⟨?_, rfl⟩
    exact {
      created_le := h.created_le
      armed_ok := h.armed_ok
      unarmed := h.unarmed
      sent_le := h.sent_le
      pos := h.pos
      panic := fun _ => ⟨hk, hz⟩
      shot := by simp [hk, Kind.oneShot]
      noerr := by simp
      fin_none := by simp
      fin_some := by
        intro tf e; simp only [finish_finAt, Option.some.injEq] at e; subst e
        exact ⟨by simp, Nat.le_refl _, h.sent_le⟩
      closed := by
        intro tc htc hs
        exact ⟨by simp, (h.closed tc htc (by simp [hk, Kind.sends])).2⟩
      accept := by intro hk'; simp [hk] at hk'
      untyped := fun hty hs => ⟨by simp, (h.untyped hty hs).2.1, by simp [hk]⟩ }
  | arm τ T hp ha hz =>
    refine ⟨?_, rfl⟩
    have hs : τ.sentAt = [] := h.unarmed ha
    exact {
      created_le := h.created_le
      armed_ok := by
        intro a e; simp only [arm_armed, ha, Option.getD_none, Option.some.injEq] at e; subst e
        exact ⟨h.created_le, Nat.le_refl _, by simp [hs, earlyOk]⟩
      unarmed := by simp
      sent_le := h.sent_le
      pos := fun hk _ => hz hk
      panic := h.panic
      shot := h.shot
      noerr := h.noerr
      fin_none := h.fin_none
      fin_some := h.fin_some
      closed := by
        intro tc htc hsends
        obtain ⟨c1, c2⟩ := h.closed tc htc hsends
        refine ⟨fun hp' => ⟨(c1 hp').1, ?_⟩, c2⟩
        intro _ hpr
        -- a freshly armed interval has not passed its first tick
        simp [ha] at hpr
      accept := by
        intro _ _
        exact ⟨fun hr => by simp [hp] at hr, fun hr => by simp [hp] at hr⟩
      untyped := h.untyped }
  | prime τ T a hp hk ha hw hact =>
    refine ⟨?_, rfl⟩
    have hcln : T.closedAt = none := by simpa [Target.active] using hact
    exact {
      created_le := h.created_le
      armed_ok := h.armed_ok
      unarmed := h.unarmed
      sent_le := h.sent_le
      pos := h.pos
      panic := h.panic
      shot := h.shot
      noerr := h.noerr
      fin_none := h.fin_none
      fin_some := h.fin_some
      closed := by intro tc htc; simp [hcln] at htc
      accept := by intro hk'; simp [hk] at hk'
      untyped := h.untyped }
  | primeHead τ T a hp hk ha hw hact =>
    refine ⟨?_, rfl⟩
    obtain ⟨h1, h2, h3⟩ := h.armed_ok a ha
    exact {
      created_le := h.created_le
      armed_ok := h.armed_ok
      unarmed := h.unarmed
      sent_le := h.sent_le
      pos := h.pos
      panic := by simp
      shot := by simp [hk, Kind.oneShot]
      noerr := by simp
      fin_none := by simp
      fin_some := by
        intro tf e; simp only [finish_finAt, Option.some.injEq] at e; subst e
        exact ⟨by simp, Nat.le_refl _, h.sent_le⟩
      closed := by
        intro tc htc hsends
        obtain ⟨_, c2⟩ := h.closed tc htc hsends
        exact ⟨fun hp' => by simp at hp', c2⟩
      accept := by intro hk'; simp [hk] at hk'
      untyped := fun hty hs => ⟨by simp, (h.untyped hty hs).2.1, by simp [hk]⟩ }
  | ivSend τ T a hp hk ha hd hacc =>
    refine ⟨?_, rfl⟩
    have hcln : T.closedAt = none := by simpa [Target.accepts] using canSend_accepts hacc
    obtain ⟨h1, h2, h3⟩ := h.armed_ok a ha
    exact {
      created_le := h.created_le
      armed_ok := by
        intro a' e; simp only [attempt_armed, ha, Option.some.injEq] at e; subst e
        refine ⟨h1, h2, ?_⟩
        simp only [attempt_sentAt, attempt_period, earlyOk_append, h3, Bool.true_and, decide_eq_true_eq]
        simpa using Timer.le_of_deadline_le hd
      unarmed := by simp [ha]
      sent_le := by
        intro t ht; simp only [attempt_sentAt, List.mem_append, List.mem_singleton] at ht
        rcases ht with ht | rfl
        · exact h.sent_le t ht
        · exact Nat.le_refl _
      pos := h.pos
      panic := h.panic
      shot := by simp [hk, Kind.oneShot]
      noerr := fun _ => by simp [hp]
      fin_none := fun _ => hp
      fin_some := by
        intro tf e
        have : τ.finAt = none := h.finAt_none hp
        simp only [attempt_finAt, this] at e
        cases e
      closed := by intro tc htc; simp [hcln] at htc
      accept := by intro hk'; simp [hk] at hk'
      untyped := by intro hty; simp [canSend_typed hacc] at hty }
  | ivFail τ T a hp hk ha hd hacc =>
    refine ⟨?_, rfl⟩
    obtain ⟨h1, h2, h3⟩ := h.armed_ok a ha
    exact {
      created_le := h.created_le
      armed_ok := by
        intro a' e; simp only [finish_armed, attempt_armed, ha, Option.some.injEq] at e; subst e
        refine ⟨h1, h2, ?_⟩
        simp only [finish_sentAt, finish_period, attempt_sentAt, attempt_period, earlyOk_append, h3,
          Bool.true_and, decide_eq_true_eq]
        simpa using Timer.le_of_deadline_le hd
      unarmed := by simp [ha]
      sent_le := by
        intro t ht; simp only [finish_sentAt, attempt_sentAt, List.mem_append, List.mem_singleton] at ht
        rcases ht with ht | rfl
        · exact h.sent_le t ht
        · exact Nat.le_refl _
      pos := h.pos
      panic := by simp
      shot := by simp [hk, Kind.oneShot]
      noerr := by simp
      fin_none := by simp
      fin_some := by
        intro tf e; simp only [finish_finAt, Option.some.injEq] at e; subst e
        refine ⟨by simp, Nat.le_refl _, ?_⟩
        intro t ht; simp only [finish_sentAt, attempt_sentAt, List.mem_append, List.mem_singleton] at ht
        rcases ht with ht | rfl
        · exact h.sent_le t ht
        · exact Nat.le_refl _
      closed := by
        intro tc htc hs
        refine ⟨by simp, ?_⟩
        obtain ⟨c1, _⟩ := h.closed tc htc (by simp [hk, Kind.sends])
        simp only [finish_sentAt, attempt_sentAt, List.filter_append, List.length_append,
          filter_gt_nil _ _ (c1 hp).1, Nat.zero_add]
        exact filter_single_le _ _
      accept := by intro hk'; simp [hk] at hk'
      untyped := by
        intro hty hs
        have hs0 : τ.sentAt = [] := (h.untyped hty hs).1 hp
        exact ⟨by simp, by simp [hs0], by simp [hk]⟩ }
  | ivHead τ T hp hk ha hact =>
    refine ⟨?_, rfl⟩
    exact {
      created_le := h.created_le
      armed_ok := h.armed_ok
      unarmed := h.unarmed
      sent_le := h.sent_le
      pos := h.pos
      panic := by simp
      shot := by simp [hk, Kind.oneShot]
      noerr := by simp
      fin_none := by simp
      fin_some := by
        intro tf e; simp only [finish_finAt, Option.some.injEq] at e; subst e
        exact ⟨by simp, Nat.le_refl _, h.sent_le⟩
      closed := by
        intro tc htc hs
        exact ⟨by simp, (h.closed tc htc (by simp [hk, Kind.sends])).2⟩
      accept := by intro hk'; simp [hk] at hk'
      untyped := fun hty hs => ⟨by simp, (h.untyped hty hs).2.1, by simp [hk]⟩ }
  | saOk τ T a hp hk ha hd hacc =>
    refine ⟨?_, rfl⟩
    have hcln : T.closedAt = none := by simpa [Target.accepts] using canSend_accepts hacc
    obtain ⟨h1, h2, h3⟩ := h.armed_ok a ha
    have hs : τ.sentAt = [] := (h.shot (by simp [hk, Kind.oneShot])).1 hp
    exact {
      created_le := h.created_le
      armed_ok := by
        intro a' e; simp only [finish_armed, attempt_armed, ha, Option.some.injEq] at e; subst e
        refine ⟨h1, h2, ?_⟩
        simp only [finish_sentAt, finish_period, attempt_sentAt, attempt_period, hs, List.nil_append, earlyOk,
          Bool.and_true, decide_eq_true_eq]
        simpa [hs] using Timer.le_of_deadline_le hd
      unarmed := by simp [ha]
      sent_le := by simp [hs]
      pos := h.pos
      panic := by simp
      shot := by simp [hs]
      noerr := by simp
      fin_none := by simp
      fin_some := by
        intro tf e; simp only [finish_finAt, Option.some.injEq] at e; subst e
        simp [hs]
      closed := by intro tc htc; simp [hcln] at htc
      accept := by
        intro _ _
        exact ⟨fun _ tc htc => by simp [hcln] at htc, fun hr => by simp at hr⟩
      untyped := by intro hty; simp [canSend_typed hacc] at hty }
  | saErr τ T a hp hk ha hd hacc =>
    refine ⟨?_, rfl⟩
    obtain ⟨h1, h2, h3⟩ := h.armed_ok a ha
    have hs : τ.sentAt = [] := (h.shot (by simp [hk, Kind.oneShot])).1 hp
    exact {
      created_le := h.created_le
      armed_ok := by
        intro a' e; simp only [finish_armed, attempt_armed, ha, Option.some.injEq] at e; subst e
        refine ⟨h1, h2, ?_⟩
        simp only [finish_sentAt, finish_period, attempt_sentAt, attempt_period, hs, List.nil_append, earlyOk,
          Bool.and_true, decide_eq_true_eq]
        simpa [hs] using Timer.le_of_deadline_le hd
      unarmed := by simp [ha]
      sent_le := by simp [hs]
      pos := h.pos
      panic := by simp
      shot := by simp [hs, hk]
      noerr := by simp [hk, Kind.oneShot]
      fin_none := by simp
      fin_some := by
        intro tf e; simp only [finish_finAt, Option.some.injEq] at e; subst e
        simp [hs]
      closed := by
        intro tc htc _
        refine ⟨by simp, ?_⟩
        simp only [finish_sentAt, attempt_sentAt, hs, List.nil_append]
        exact filter_single_le _ _
      untyped := fun _ _ => ⟨by simp, by simp [hs], by simp⟩
      accept := by
        intro _ hty
        have hacc := canSend_false hacc (by simpa using hty)
        refine ⟨fun hr => by simp at hr, fun _ => ?_⟩
        cases hc : T.closedAt with
        | none => simp [Target.accepts, hc] at hacc
        | some tc =>
          refine ⟨tc, rfl, ?_⟩
          intro t ht
          simp only [finish_sentAt, attempt_sentAt, hs, List.nil_append, List.mem_singleton] at ht
          subst ht
          exact hcl tc hc }
  | exit τ T a hp hk ha hd =>
    refine ⟨?_, by simp⟩
    obtain ⟨h1, h2, h3⟩ := h.armed_ok a ha
    have hs : τ.sentAt = [] := (h.shot (by simp [hk, Kind.oneShot])).1 hp
    exact {
      created_le := h.created_le
      armed_ok := by
        intro a' e; simp only [finish_armed, attempt_armed, ha, Option.some.injEq] at e; subst e
        refine ⟨h1, h2, ?_⟩
        simp only [finish_sentAt, finish_period, attempt_sentAt, attempt_period, hs, List.nil_append, earlyOk,
          Bool.and_true, decide_eq_true_eq]
        simpa [hs] using Timer.le_of_deadline_le hd
      unarmed := by simp [ha]
      sent_le := by simp [hs]
      pos := h.pos
      panic := by simp
      shot := by simp [hs]
      noerr := by simp
      fin_none := by simp
      fin_some := by
        intro tf e; simp only [finish_finAt, Option.some.injEq] at e; subst e
        simp [hs]
      closed := by intro tc _ hsd; simp [hk, Kind.sends] at hsd
      accept := by intro hk'; simp [hk] at hk'
      untyped := by intro _ hsd; simp [hk, Kind.sends] at hsd }
  | kill τ T a hp hk ha hd =>
    refine ⟨?_, by simp⟩
    obtain ⟨h1, h2, h3⟩ := h.armed_ok a ha
    have hs : τ.sentAt = [] := (h.shot (by simp [hk, Kind.oneShot])).1 hp
    exact {
      created_le := h.created_le
      armed_ok := by
        intro a' e; simp only [finish_armed, attempt_armed, ha, Option.some.injEq] at e; subst e
        refine ⟨h1, h2, ?_⟩
        simp only [finish_sentAt, finish_period, attempt_sentAt, attempt_period, hs, List.nil_append, earlyOk,
          Bool.and_true, decide_eq_true_eq]
        simpa [hs] using Timer.le_of_deadline_le hd
      unarmed := by simp [ha]
      sent_le := by simp [hs]
      pos := h.pos
      panic := by simp
      shot := by simp [hs]
      noerr := by simp
      fin_none := by simp
      fin_some := by
        intro tf e; simp only [finish_finAt, Option.some.injEq] at e; subst e
        simp [hs]
      closed := by intro tc _ hsd; simp [hk, Kind.sends] at hsd
      accept := by intro hk'; simp [hk] at hk'
      untyped := by intro _ hsd; simp [hk, Kind.sends] at hsd }

end Timers

namespace Timers

/-! ### what a poll can do to the timer's identity and to the target -/

/-- a timer only ever grows its action history -/
structure TimerLe (τ τ' : Timer) : Prop where
  kind : τ'.kind = τ.kind
  period : τ'.period = τ.period
  created : τ'.created = τ.created
  sent : ∃ l, τ'.sentAt = τ.sentAt ++ l

theorem TimerLe.refl (τ : Timer) : TimerLe τ τ := ⟨rfl, rfl, rfl, [], by simp⟩

theorem TimerLe.trans {a b c : Timer} (h1 : TimerLe a b) (h2 : TimerLe b c) : TimerLe a c := by
  obtain ⟨l1, e1⟩ := h1.sent
  obtain ⟨l2, e2⟩ := h2.sent
  exact ⟨h2.kind.trans h1.kind, h2.period.trans h1.period, h2.created.trans h1.created,
    l1 ++ l2, by rw [e2, e1, List.append_assoc]⟩

theorem TimerLe.length_le {a b : Timer} (h : TimerLe a b) : a.sentAt.length ≤ b.sentAt.length := by
  obtain ⟨l, e⟩ := h.sent; rw [e, List.length_append]; omega

theorem TimerLe.ne_nil {a b : Timer} (h : TimerLe a b) (hn : a.sentAt ≠ []) : b.sentAt ≠ [] := by
  obtain ⟨l, e⟩ := h.sent; rw [e]; simp [hn]

theorem Micro.le {now id : Nat} {x y : Timer × Target} (m : Micro now id x y) : TimerLe x.1 y.1 := by
  cases m <;> refine ⟨rfl, rfl, rfl, ?_⟩ <;> first | exact ⟨[], (List.append_nil _).symm⟩ | exact ⟨[now], rfl⟩

/-- the footprint of a poll of timer `id` (now `τ'`) on the target -/
structure Frame (id : Nat) (T : Target) (τ' : Timer) (T' : Target) : Prop where
  closedAt : T'.closedAt = T.closedAt
  exit : T'.exit = T.exit
  handled : T'.handled = T.handled
  draining : T'.draining = T.draining
  manualStop : T'.manualStop = T.manualStop
  manualKill : T'.manualKill = T.manualKill
  stopping : T'.stopping = T.stopping
  mbox : ∀ m ∈ T'.mbox, m ∈ T.mbox ∨ (m.1 = id ∧ τ'.kind.sends = true ∧ 1 ≤ m.2 ∧ m.2 ≤ τ'.sentAt.length)
  stopReq : ∀ r, T'.stopReq = some r →
    T.stopReq = some r ∨ (r = .exitAfter (asMillis τ'.period) ∧ τ'.kind = .exitAfter ∧ τ'.sentAt ≠ [])
  killReq : T'.killReq = true → T.killReq = true ∨ (τ'.kind = .killAfter ∧ τ'.sentAt ≠ [])

theorem Frame.refl (id : Nat) (T : Target) (τ : Timer) : Frame id T τ T :=
  ⟨rfl, rfl, rfl, rfl, rfl, rfl, rfl, fun _ h => .inl h, fun _ h => .inl h, fun h => .inl h⟩

theorem Frame.mono {id T τ τ' T'} (h : Frame id T τ T') (hle : TimerLe τ τ') : Frame id T τ' T' :=
  { h with
    mbox := fun m hm => (h.mbox m hm).imp (fun x => x) fun ⟨a, b, c, d⟩ =>
      ⟨a, by rw [hle.kind]; exact b, c, Nat.le_trans d hle.length_le⟩
    stopReq := fun r hr => (h.stopReq r hr).imp (fun x => x) fun ⟨a, b, c⟩ =>
      ⟨by rw [hle.period]; exact a, by rw [hle.kind]; exact b, hle.ne_nil c⟩
    killReq := fun hk => (h.killReq hk).imp (fun x => x) fun ⟨b, c⟩ => ⟨by rw [hle.kind]; exact b, hle.ne_nil c⟩ }

theorem Micro.frame {now id : Nat} {x y : Timer × Target} (m : Micro now id x y) {T0 : Target}
    (h : Frame id T0 x.1 x.2) : Frame id T0 y.1 y.2 := by
  have h' := h.mono m.le
  cases m with
  | arm τ T _ _ _ => exact h'
  | panic τ T _ _ _ => exact h'
  | prime τ T a _ _ _ _ _ => exact h'
  | primeHead τ T a _ _ _ _ _ => exact h'
  | ivFail τ T a _ _ _ _ _ => exact h'
  | ivHead τ T _ _ _ _ => exact h'
  | saErr τ T a _ _ _ _ _ => exact h'
  | ivSend τ T a hp hk ha hd hacc =>
    refine { h' with mbox := ?_ }
    intro m hm
    simp only [push_mbox, List.mem_append, List.mem_singleton] at hm
    rcases hm with hm | rfl
    · exact h'.mbox m hm
    · exact .inr ⟨rfl, by simp [hk, Kind.sends], by simp, by simp⟩
  | saOk τ T a hp hk ha hd hacc =>
    refine { h' with mbox := ?_ }
    intro m hm
    simp only [push_mbox, List.mem_append, List.mem_singleton] at hm
    rcases hm with hm | rfl
    · exact h'.mbox m hm
    · exact .inr ⟨rfl, by simp [hk, Kind.sends], by simp, by simp⟩
  | exit τ T a hp hk ha hd =>
    refine { closedAt := by simpa using h'.closedAt, exit := by simpa using h'.exit,
             handled := by simpa using h'.handled, draining := by simpa using h'.draining,
             manualStop := by simpa using h'.manualStop, manualKill := by simpa using h'.manualKill,
             stopping := by simpa using h'.stopping,
             mbox := by simpa using h'.mbox, killReq := by simpa using h'.killReq, stopReq := ?_ }
    intro r hr
    unfold Target.stop at hr
    split at hr
    · exact h'.stopReq r hr
    · simp only [Option.some.injEq] at hr
      exact .inr ⟨by simp [← hr], by simpa using hk, by simp⟩
  | kill τ T a hp hk ha hd =>
    refine { closedAt := by simpa using h'.closedAt, exit := by simpa using h'.exit,
             handled := by simpa using h'.handled, draining := by simpa using h'.draining,
             manualStop := by simpa using h'.manualStop, manualKill := by simpa using h'.manualKill,
             stopping := by simpa using h'.stopping,
             mbox := by simpa using h'.mbox, stopReq := by simpa using h'.stopReq, killReq := ?_ }
    intro hkr
    unfold Target.kill at hkr
    split at hkr
    · exact h'.killReq hkr
    · exact .inr ⟨by simpa using hk, by simp⟩

/-- Summary of one poll. -/
theorem fireOne_spec (now id : Nat) (τ : Timer) (T : Target)
    (hcl : ∀ tc, T.closedAt = some tc → tc ≤ now) (h : TInv now T.closedAt τ) :
    TInv now T.closedAt (fireOne now id τ T).1 ∧ TimerLe τ (fireOne now id τ T).1 ∧
      Frame id T (fireOne now id τ T).1 (fireOne now id τ T).2 := by
  have := fireOne_ind now id
    (fun x => TInv now x.2.closedAt x.1 ∧ x.2.closedAt = T.closedAt ∧ TimerLe τ x.1 ∧ Frame id T x.1 x.2)
    (fun x y m ⟨h1, h2, h3, h4⟩ => by
      obtain ⟨a, b⟩ := m.tinv (by rw [h2]; exact hcl) h1
      exact ⟨a, b.trans h2, h3.trans m.le, m.frame h4⟩)
    τ T ⟨h, rfl, TimerLe.refl τ, Frame.refl id T τ⟩
  obtain ⟨h1, h2, h3, h4⟩ := this
  exact ⟨h2 ▸ h1, h3, h4⟩

end Timers

namespace Timers

/-! ### the global invariant -/

/-- every timer is still there, with a longer history -/
def Ext (l l' : List Timer) : Prop :=
  ∀ (i : Nat) (τ : Timer), l[i]? = some τ → ∃ τ' : Timer, l'[i]? = some τ' ∧ TimerLe τ τ'

theorem Ext.refl (l : List Timer) : Ext l l := fun _ τ h => ⟨τ, h, TimerLe.refl τ⟩

theorem Ext.append (l : List Timer) (x : Timer) : Ext l (l ++ [x]) := by
  intro i τ h
  refine ⟨τ, ?_, TimerLe.refl τ⟩
  have hi : i < l.length := by
    rcases Nat.lt_or_ge i l.length with hi | hi
    · exact hi
    · rw [List.getElem?_eq_none hi] at h; cases h
  rw [List.getElem?_append_left hi]; exact h

theorem Ext.set {l : List Timer} {i : Nat} {τ τ' : Timer} (h : l[i]? = some τ) (hle : TimerLe τ τ') :
    Ext l (l.set i τ') := by
  intro j σ hj
  by_cases e : i = j
  · subst e
    rw [h] at hj; cases hj
    have hi : i < l.length := by
      rcases Nat.lt_or_ge i l.length with hi | hi
      · exact hi
      · rw [List.getElem?_eq_none hi] at h; cases h
    exact ⟨τ', by simp [hi], hle⟩
  · exact ⟨σ, by rw [List.getElem?_set_ne e]; exact hj, TimerLe.refl σ⟩

theorem Ext.mem {l l' : List Timer} (h : Ext l l') {τ : Timer} (hm : τ ∈ l) : ∃ τ' ∈ l', TimerLe τ τ' := by
  obtain ⟨i, hi⟩ := List.mem_iff_getElem?.mp hm
  obtain ⟨τ', h1, h2⟩ := h i τ hi
  exact ⟨τ', List.mem_iff_getElem?.mpr ⟨i, h1⟩, h2⟩

/-- where a pending stop / kill request comes from -/
def Src (timers : List Timer) (T : Target) : Reason → Prop
  | .manual => T.manualStop = true
  | .drained => True
  | .failed => True
  | .killed => T.manualKill = true ∨ ∃ τ ∈ timers, τ.kind = .killAfter ∧ τ.sentAt ≠ []
  | .exitAfter ms => ∃ τ ∈ timers, τ.kind = .exitAfter ∧ asMillis τ.period = ms ∧ τ.sentAt ≠ []

def MboxOk (timers : List Timer) (m : Nat × Nat) : Prop :=
  ∃ τ, timers[m.1]? = some τ ∧ τ.kind.sends = true ∧ 1 ≤ m.2 ∧ m.2 ≤ τ.sentAt.length

theorem Src.mono {l l' : List Timer} {T T' : Target} (he : Ext l l')
    (hs : T.manualStop = true → T'.manualStop = true) (hk : T.manualKill = true → T'.manualKill = true)
    {r : Reason} (h : Src l T r) : Src l' T' r := by
  cases r with
  | manual => exact hs h
  | drained => trivial
  | failed => trivial
  | killed =>
    rcases h with h | ⟨τ, hm, h1, h2⟩
    · exact .inl (hk h)
    · obtain ⟨τ', hm', hle⟩ := he.mem hm
      exact .inr ⟨τ', hm', by rw [hle.kind]; exact h1, hle.ne_nil h2⟩
  | exitAfter ms =>
    obtain ⟨τ, hm, h1, h2, h3⟩ := h
    obtain ⟨τ', hm', hle⟩ := he.mem hm
    exact ⟨τ', hm', by rw [hle.kind]; exact h1, by rw [hle.period]; exact h2, hle.ne_nil h3⟩

theorem MboxOk.mono {l l' : List Timer} (he : Ext l l') {m : Nat × Nat} (h : MboxOk l m) : MboxOk l' m := by
  obtain ⟨τ, h1, h2, h3, h4⟩ := h
  obtain ⟨τ', h1', hle⟩ := he m.1 τ h1
  exact ⟨τ', h1', by rw [hle.kind]; exact h2, h3, Nat.le_trans h4 hle.length_le⟩

theorem any_le_of_src {l : List Nat} {te : Nat} (hn : l ≠ []) (hle : ∀ t ∈ l, t ≤ te) :
    l.any (fun t => decide (t ≤ te)) = true := by
  cases l with
  | nil => exact absurd rfl hn
  | cons x xs => simp [hle x (List.mem_cons_self ..)]

/-- a request with a source, acted on at `te` when no action lies in the future, is a legal reason -/
theorem reasonOk_of_src {s : State} {r : Reason} {te : Nat} (h : Src s.timers s.target r)
    (hle : ∀ τ ∈ s.timers, ∀ t ∈ τ.sentAt, t ≤ te) : reasonOk s r te = true := by
  cases r with
  | manual => exact h
  | drained => rfl
  | failed => rfl
  | killed =>
    rcases h with h | ⟨τ, hm, h1, h2⟩
    · simp [reasonOk, h]
    · simp only [reasonOk, Bool.or_eq_true, List.any_eq_true]
      exact .inr ⟨τ, hm, by simp [h1, any_le_of_src h2 (hle τ hm)]⟩
  | exitAfter ms =>
    obtain ⟨τ, hm, h1, h2, h3⟩ := h
    simp only [reasonOk, List.any_eq_true]
    exact ⟨τ, hm, by simp [h1, h2, any_le_of_src h3 (hle τ hm)]⟩

theorem any_append_of_any {l : List Nat} (l2 : List Nat) {p : Nat → Bool} (h : ∃ x, x ∈ l ∧ p x = true) :
    ∃ x, x ∈ l ++ l2 ∧ p x = true := by
  obtain ⟨x, hx, hp⟩ := h
  exact ⟨x, List.mem_append_left _ hx, hp⟩

theorem reasonOk_mono {s s' : State} (he : Ext s.timers s'.timers)
    (hs : s.target.manualStop = true → s'.target.manualStop = true)
    (hk : s.target.manualKill = true → s'.target.manualKill = true)
    {r : Reason} {te : Nat} (h : reasonOk s r te = true) : reasonOk s' r te = true := by
  cases r with
  | manual => exact hs h
  | drained => rfl
  | failed => rfl
  | killed =>
    simp only [reasonOk, Bool.or_eq_true, List.any_eq_true, Bool.and_eq_true, beq_iff_eq] at h ⊢
    rcases h with h | ⟨τ, hm, h1, h2⟩
    · exact .inl (hk h)
    · obtain ⟨τ', hm', hle⟩ := he.mem hm
      obtain ⟨l, el⟩ := hle.sent
      exact .inr ⟨τ', hm', by rw [hle.kind]; exact h1, by rw [el]; exact any_append_of_any l h2⟩
  | exitAfter ms =>
    simp only [reasonOk, List.any_eq_true, Bool.and_eq_true, beq_iff_eq] at h ⊢
    obtain ⟨τ, hm, ⟨h1, h2⟩, h3⟩ := h
    obtain ⟨τ', hm', hle⟩ := he.mem hm
    obtain ⟨l, el⟩ := hle.sent
    exact ⟨τ', hm', ⟨by rw [hle.kind]; exact h1, by rw [hle.period]; exact h2⟩,
      by rw [el]; exact any_append_of_any l h3⟩

theorem handledOk_mono {s s' : State} (he : Ext s.timers s'.timers) {h : Nat × Nat × Nat}
    (hh : handledOk s h = true) : handledOk s' h = true := by
  unfold handledOk at hh ⊢
  cases hτ : s.timers[h.1]? with
  | none => simp [hτ] at hh
  | some τ =>
    obtain ⟨τ', h1, hle⟩ := he h.1 τ hτ
    simp only [hτ, Bool.and_eq_true, decide_eq_true_eq] at hh
    obtain ⟨⟨hs, hk⟩, ht⟩ := hh
    simp only [h1, hle.kind, hs, hk, decide_true, Bool.and_self, Bool.true_and]
    obtain ⟨l, el⟩ := hle.sent
    cases hg : τ.sentAt[h.2.1 - 1]? with
    | none => simp [hg] at ht
    | some t =>
      have hlt : h.2.1 - 1 < τ.sentAt.length := by
        rcases Nat.lt_or_ge (h.2.1 - 1) τ.sentAt.length with x | x
        · exact x
        · rw [List.getElem?_eq_none x] at hg; cases hg
      rw [el, List.getElem?_append_left hlt, hg]
      simpa [hg] using ht

structure Inv (s : State) : Prop where
  tinv : ∀ τ ∈ s.timers, TInv s.now s.target.closedAt τ
  closed_le : ∀ tc, s.target.closedAt = some tc → tc ≤ s.now
  exit_ok : ∀ r te, s.target.exit = some (r, te) →
    te ≤ s.now ∧ (∃ tc, s.target.closedAt = some tc ∧ tc ≤ te) ∧ reasonOk s r te = true
  stop_src : ∀ r, s.target.stopReq = some r → Src s.timers s.target r
  /-- in `post_stop`: the reason the actor will exit with has a source -/
  stopping_src : ∀ r ts, s.target.stopping = some (r, ts) → Src s.timers s.target r
  kill_src : s.target.killReq = true → Src s.timers s.target .killed
  mbox_ok : ∀ m ∈ s.target.mbox, MboxOk s.timers m
  handled_ok : ∀ h ∈ s.target.handled, handledOk s h = true

theorem TInv.mono_now {now now' : Nat} {cl : Option Nat} {τ : Timer} (h : TInv now cl τ) (hle : now ≤ now') :
    TInv now' cl τ :=
  { h with
    created_le := Nat.le_trans h.created_le hle
    armed_ok := fun a e => let ⟨x, y, z⟩ := h.armed_ok a e; ⟨x, Nat.le_trans y hle, z⟩
    sent_le := fun t ht => Nat.le_trans (h.sent_le t ht) hle
    fin_some := fun tf e => let ⟨x, y, z⟩ := h.fin_some tf e; ⟨x, Nat.le_trans y hle, z⟩ }

/-- the target stops accepting at `now` -/
theorem TInv.close {now : Nat} {cl : Option Nat} {τ : Timer} (h : TInv now cl τ) :
    TInv now (some (cl.getD now)) τ := by
  cases cl with
  | some tc => exact h
  | none =>
    refine { h with closed := ?_, accept := ?_ }
    · intro tc e hs
      simp only [Option.getD_none, Option.some.injEq] at e; subst e
      refine ⟨fun _ => ⟨h.sent_le, fun _ _ a ha => (h.armed_ok a ha).2.1⟩, ?_⟩
      rw [filter_gt_nil _ _ h.sent_le]; omega
    · intro hk hty
      obtain ⟨_, a2⟩ := h.accept hk hty
      refine ⟨fun _ tc e t ht => ?_, fun hr => ?_⟩
      · simp only [Option.getD_none, Option.some.injEq] at e; subst e
        exact h.sent_le t ht
      · obtain ⟨tc, e, _⟩ := a2 hr
        cases e

theorem Inv.init : Inv init :=
  { tinv := by intro τ h; cases h
    closed_le := by intro tc h; cases h
    exit_ok := by intro r te h; cases h
    stop_src := by intro r h; cases h
    stopping_src := by intro r ts h; cases h
    kill_src := by intro h; cases h
    mbox_ok := by intro m h; cases h
    handled_ok := by intro m h; cases h }

end Timers

namespace Timers

/-! ### every small step preserves the invariant -/

theorem getElem?_lt {α} {l : List α} {i : Nat} {x : α} (h : l[i]? = some x) : i < l.length := by
  rcases Nat.lt_or_ge i l.length with hi | hi
  · exact hi
  · rw [List.getElem?_eq_none hi] at h; cases h

theorem mem_set_cases {l : List Timer} {i : Nat} {τ' σ : Timer} (h : σ ∈ l.set i τ') : σ = τ' ∨ σ ∈ l := by
  rcases List.mem_or_eq_of_mem_set h with h | h
  · exact .inr h
  · exact .inl h

theorem step_fire_none {s : State} {i : Nat} (h : s.timers[i]? = none) : step s (.fire i) = s := by
  simp [step, h]

theorem step_fire_some {s : State} {i : Nat} {τ : Timer} (h : s.timers[i]? = some τ) :
    step s (.fire i) = { s with timers := s.timers.set i (fireOne s.now i τ s.target).1,
                                target := (fireOne s.now i τ s.target).2 } := by
  simp [step, h]

theorem step_abort_none {s : State} {i : Nat} (h : s.timers[i]? = none) : step s (.abort i) = s := by
  simp [step, h]

theorem step_abort_some {s : State} {i : Nat} {τ : Timer} (h : s.timers[i]? = some τ) :
    step s (.abort i) =
      if τ.res = .pending then { s with timers := s.timers.set i (τ.finish .cancelled s.now) } else s := by
  simp [step, h]

theorem Inv.fire {s : State} (h : Inv s) (i : Nat) : Inv (step s (.fire i)) := by
  cases hτ : s.timers[i]? with
  | none => rw [step_fire_none hτ]; exact h
  | some τ =>
    rw [step_fire_some hτ]
    have hm : τ ∈ s.timers := List.mem_iff_getElem?.mpr ⟨i, hτ⟩
    obtain ⟨h1, h2, h3⟩ := fireOne_spec s.now i τ s.target h.closed_le (h.tinv τ hm)
    generalize fireOne s.now i τ s.target = r at h1 h2 h3
    have he : Ext s.timers (s.timers.set i r.1) := Ext.set hτ h2
    have hget : (s.timers.set i r.1)[i]? = some r.1 := by simp [getElem?_lt hτ]
    exact {
      tinv := by
        intro σ hσ
        simp only at hσ ⊢
        rw [h3.closedAt]
        rcases mem_set_cases hσ with rfl | hσ
        · exact h1
        · exact h.tinv σ hσ
      closed_le := by simp only [h3.closedAt]; exact h.closed_le
      exit_ok := by
        intro rr te e
        simp only [h3.exit] at e
        obtain ⟨a, b, c⟩ := h.exit_ok rr te e
        refine ⟨a, by simpa only [h3.closedAt] using b, ?_⟩
        exact reasonOk_mono (s := s) he (by simp [h3.manualStop]) (by simp [h3.manualKill]) c
      stop_src := by
        intro rr e
        rcases h3.stopReq rr e with e' | ⟨e1, e2, e3⟩
        · exact (h.stop_src rr e').mono he (by simp [h3.manualStop]) (by simp [h3.manualKill])
        · subst e1
          exact ⟨r.1, List.mem_iff_getElem?.mpr ⟨i, hget⟩, e2, rfl, e3⟩
      stopping_src := by
        intro rr ts e
        rw [h3.stopping] at e
        exact (h.stopping_src rr ts e).mono he (by simp [h3.manualStop]) (by simp [h3.manualKill])
      kill_src := by
        intro e
        rcases h3.killReq e with e' | ⟨e2, e3⟩
        · exact (h.kill_src e').mono he (by simp [h3.manualStop]) (by simp [h3.manualKill])
        · exact .inr ⟨r.1, List.mem_iff_getElem?.mpr ⟨i, hget⟩, e2, e3⟩
      mbox_ok := by
        intro m hmm
        rcases h3.mbox m hmm with hmm | ⟨e1, e2, e3, e4⟩
        · exact (h.mbox_ok m hmm).mono he
        · exact ⟨r.1, by rw [e1]; exact hget, e2, e3, e4⟩
      handled_ok := by
        intro hd hh
        simp only [h3.handled] at hh
        exact handledOk_mono (s := s) he (h.handled_ok hd hh) }

theorem Inv.abort {s : State} (h : Inv s) (i : Nat) : Inv (step s (.abort i)) := by
  cases hτ : s.timers[i]? with
  | none => rw [step_abort_none hτ]; exact h
  | some τ =>
    rw [step_abort_some hτ]
    by_cases hp : τ.res = .pending
    · simp only [hp, ↓reduceIte]
      have hm : τ ∈ s.timers := List.mem_iff_getElem?.mpr ⟨i, hτ⟩
      have ht := h.tinv τ hm
      have he : Ext s.timers (s.timers.set i (τ.finish .cancelled s.now)) :=
        Ext.set hτ ⟨rfl, rfl, rfl, [], by simp⟩
      exact {
        tinv := by
          intro σ hσ
          rcases mem_set_cases hσ with rfl | hσ
          · exact {
              created_le := ht.created_le
              armed_ok := ht.armed_ok
              unarmed := ht.unarmed
              sent_le := ht.sent_le
              pos := ht.pos
              panic := by simp
              shot := by
                intro ho
                have := (ht.shot ho).1 hp
                simp [this]
              noerr := by simp
              fin_none := by simp
              fin_some := by
                intro tf e; simp only [finish_finAt, Option.some.injEq] at e; subst e
                exact ⟨by simp, Nat.le_refl _, ht.sent_le⟩
              closed := by
                intro tc e hs
                exact ⟨by simp, (ht.closed tc e hs).2⟩
              accept := by intro _ _; exact ⟨by simp, by simp⟩
              untyped := fun hty hs => ⟨by simp, (ht.untyped hty hs).2.1, by simp⟩ }
          · exact h.tinv σ hσ
        closed_le := h.closed_le
        exit_ok := by
          intro rr te e
          obtain ⟨a, b, c⟩ := h.exit_ok rr te e
          refine ⟨a, b, ?_⟩
          exact reasonOk_mono (s := s)
            (s' := { s with timers := s.timers.set i (τ.finish .cancelled s.now) }) he id id c
        stop_src := fun rr e => (h.stop_src rr e).mono he id id
        stopping_src := fun rr ts e => (h.stopping_src rr ts e).mono he id id
        kill_src := fun e => (h.kill_src e).mono he id id
        mbox_ok := fun m hm => (h.mbox_ok m hm).mono he
        handled_ok := fun hd hh => handledOk_mono (s := s) he (h.handled_ok hd hh) }
    · simpa [hp] using h

theorem Inv.add {s : State} (h : Inv s) (k : Kind) (p : Nat) (ty : Bool) :
    Inv { s with timers := s.timers ++ [{ kind := k, period := p, created := s.now, typed := ty }] } := by
  · have he : Ext s.timers (s.timers ++ [{ kind := k, period := p, created := s.now, typed := ty }]) := Ext.append _ _
    exact {
      tinv := by
        intro σ hσ
        simp only [List.mem_append, List.mem_singleton] at hσ
        rcases hσ with hσ | rfl
        · exact h.tinv σ hσ
        · exact {
            created_le := Nat.le_refl _
            armed_ok := by intro a e; cases e
            unarmed := fun _ => rfl
            sent_le := by intro t ht; cases ht
            pos := by intro _ e; simp at e
            panic := by simp
            shot := by intro _; simp
            noerr := by intro _; simp
            fin_none := fun _ => rfl
            fin_some := by intro tf e; cases e
            closed := by intro tc _ _; simp
            accept := by intro _ _; exact ⟨by simp, by simp⟩
            untyped := fun _ _ => ⟨fun _ => rfl, by simp, by simp⟩ }
      closed_le := h.closed_le
      exit_ok := by
        intro rr te e
        obtain ⟨a, b, c⟩ := h.exit_ok rr te e
        refine ⟨a, b, ?_⟩
        exact reasonOk_mono (s := s)
          (s' := { s with timers := s.timers ++ [{ kind := k, period := p, created := s.now, typed := ty }] }) he id id c
      stop_src := fun rr e => (h.stop_src rr e).mono he id id
      stopping_src := fun rr ts e => (h.stopping_src rr ts e).mono he id id
      kill_src := fun e => (h.kill_src e).mono he id id
      mbox_ok := fun m hm => (h.mbox_ok m hm).mono he
      handled_ok := fun hd hh => handledOk_mono (s := s) he (h.handled_ok hd hh) }

theorem Inv.create {s : State} (h : Inv s) (k : Kind) (p : Nat) : Inv (step s (.create k p)) := h.add k p true
theorem Inv.createX {s : State} (h : Inv s) (k : Kind) (p : Nat) : Inv (step s (.createX k p)) := h.add k p false

theorem Inv.tick {s : State} (h : Inv s) (d : Nat) : Inv (step s (.tick d)) :=
  { tinv := fun τ hτ => (h.tinv τ hτ).mono_now (Nat.le_add_right _ _)
    closed_le := fun tc e => Nat.le_trans (h.closed_le tc e) (Nat.le_add_right _ _)
    exit_ok := by
      intro rr te e
      obtain ⟨a, b, c⟩ := h.exit_ok rr te e
      exact ⟨Nat.le_trans a (Nat.le_add_right _ _), b, reasonOk_mono (s := s) (Ext.refl _) id id c⟩
    stop_src := h.stop_src
    stopping_src := h.stopping_src
    kill_src := h.kill_src
    mbox_ok := h.mbox_ok
    handled_ok := fun hd hh => handledOk_mono (s := s) (Ext.refl _) (h.handled_ok hd hh) }

theorem Inv.mark {s : State} (h : Inv s) : Inv (step s .mark) :=
  { tinv := h.tinv
    closed_le := h.closed_le
    exit_ok := by
      intro rr te e
      obtain ⟨a, b, c⟩ := h.exit_ok rr te e
      exact ⟨a, b, reasonOk_mono (s := s) (Ext.refl _) id id c⟩
    stop_src := h.stop_src
    stopping_src := h.stopping_src
    kill_src := h.kill_src
    mbox_ok := h.mbox_ok
    handled_ok := fun hd hh => handledOk_mono (s := s) (Ext.refl _) (h.handled_ok hd hh) }

end Timers

namespace Timers

theorem Inv.stop {s : State} (h : Inv s) : Inv (step s .stop) := by
  have hst : ∀ r, (s.target.stop .manual).stopReq = some r → s.target.stopReq = some r ∨ r = .manual := by
    intro r e; unfold Target.stop at e; split at e
    · exact .inl e
    · simp only [Option.some.injEq] at e; exact .inr e.symm
  exact {
    tinv := by intro τ hτ; simpa [step] using h.tinv τ hτ
    closed_le := by simpa [step] using h.closed_le
    exit_ok := by
      intro rr te e
      simp only [step, stop_exit] at e
      obtain ⟨a, b, c⟩ := h.exit_ok rr te e
      refine ⟨a, by simpa [step] using b, ?_⟩
      exact reasonOk_mono (s := s) (s' := step s .stop) (Ext.refl _) (fun _ => rfl) (by simp [step]) c
    stop_src := by
      intro rr e
      rcases hst rr e with e' | rfl
      · exact (h.stop_src rr e').mono (Ext.refl _) (fun _ => rfl) (by simp [step])
      · rfl
    stopping_src := by
      intro rr ts e
      simp only [step, stop_stopping] at e
      exact (h.stopping_src rr ts e).mono (Ext.refl _) (fun _ => rfl) (by simp [step])
    kill_src := by
      intro e
      simp only [step, stop_killReq] at e
      exact (h.kill_src e).mono (Ext.refl _) (fun _ => rfl) (by simp [step])
    mbox_ok := by intro m hm; simp only [step, stop_mbox] at hm; exact h.mbox_ok m hm
    handled_ok := by
      intro hd hh; simp only [step, stop_handled] at hh
      exact handledOk_mono (s := s) (s' := step s .stop) (Ext.refl _) (h.handled_ok hd hh) }

theorem Inv.kill {s : State} (h : Inv s) : Inv (step s .kill) :=
  { tinv := by intro τ hτ; simpa [step] using h.tinv τ hτ
    closed_le := by simpa [step] using h.closed_le
    exit_ok := by
      intro rr te e
      simp only [step, kill_exit] at e
      obtain ⟨a, b, c⟩ := h.exit_ok rr te e
      refine ⟨a, by simpa [step] using b, ?_⟩
      exact reasonOk_mono (s := s) (s' := step s .kill) (Ext.refl _) (by simp [step]) (fun _ => rfl) c
    stop_src := by
      intro rr e
      simp only [step, kill_stopReq] at e
      exact (h.stop_src rr e).mono (Ext.refl _) (by simp [step]) (fun _ => rfl)
    stopping_src := by
      intro rr ts e
      simp only [step, kill_stopping] at e
      exact (h.stopping_src rr ts e).mono (Ext.refl _) (by simp [step]) (fun _ => rfl)
    kill_src := fun _ => .inl rfl
    mbox_ok := by intro m hm; simp only [step, kill_mbox] at hm; exact h.mbox_ok m hm
    handled_ok := by
      intro hd hh; simp only [step, kill_handled] at hh
      exact handledOk_mono (s := s) (s' := step s .kill) (Ext.refl _) (h.handled_ok hd hh) }

/-- closing admission at the current instant keeps every timer's invariant -/
theorem Inv.tinv_close {s : State} (h : Inv s) : ∀ τ ∈ s.timers, TInv s.now (some (s.target.closedAt.getD s.now)) τ :=
  fun τ hτ => (h.tinv τ hτ).close

theorem Inv.drain {s : State} (h : Inv s) : Inv (step s .drain) := by
  by_cases hx : s.target.exit.isSome = true
  · have : step s .drain = s := by simp [step, Target.drain, hx]
    rw [this]; exact h
  · have e : (step s .drain).target =
        { s.target with draining := true, closedAt := some (s.target.closedAt.getD s.now) } := by
      simp [step, Target.drain, hx]
    have et : (step s .drain).timers = s.timers := rfl
    have en : (step s .drain).now = s.now := rfl
    exact {
      tinv := by rw [e, et, en]; exact h.tinv_close
      closed_le := by
        rw [e, en]; intro tc etc
        simp only [Option.some.injEq] at etc; subst etc
        cases hc : s.target.closedAt with
        | none => simp
        | some tc => simpa using h.closed_le tc hc
      exit_ok := by
        intro rr te ee; rw [e] at ee
        simp only at ee
        rw [ee] at hx; simp at hx
      stop_src := by
        intro rr ee; rw [e] at ee
        exact (h.stop_src rr ee).mono (Ext.refl _) (by rw [e]; exact id) (by rw [e]; exact id)
      stopping_src := by
        intro rr ts ee; rw [e] at ee
        exact (h.stopping_src rr ts ee).mono (Ext.refl _) (by rw [e]; exact id) (by rw [e]; exact id)
      kill_src := by
        intro ee; rw [e] at ee
        exact (h.kill_src ee).mono (Ext.refl _) (by rw [e]; exact id) (by rw [e]; exact id)
      mbox_ok := by intro m hm; rw [e] at hm; exact h.mbox_ok m hm
      handled_ok := by
        intro hd hh; rw [e] at hh
        exact handledOk_mono (s := s) (s' := step s .drain) (Ext.refl _) (h.handled_ok hd hh) }

/-- the target exits now with a reason that has a source -/
theorem Inv.exitWith {s : State} (h : Inv s) (r : Reason) (hsrc : Src s.timers s.target r)
    (T' : Target)
    (hT : T' = s.target.exitWith r s.now ∨
          ∃ T0 : Target, T' = T0.exitWith r s.now ∧ T0.closedAt = s.target.closedAt ∧
            T0.stopReq = s.target.stopReq ∧ T0.killReq = s.target.killReq ∧
            T0.manualStop = s.target.manualStop ∧ T0.manualKill = s.target.manualKill ∧
            (∀ hd ∈ T0.handled, handledOk s hd = true)) :
    Inv { s with target := T' } := by
  -- normalise to the second form
  have hT' : ∃ T0 : Target, T' = T0.exitWith r s.now ∧ T0.closedAt = s.target.closedAt ∧
      T0.stopReq = s.target.stopReq ∧ T0.killReq = s.target.killReq ∧
      T0.manualStop = s.target.manualStop ∧ T0.manualKill = s.target.manualKill ∧
      (∀ hd ∈ T0.handled, handledOk s hd = true) := by
    rcases hT with rfl | hT
    · exact ⟨s.target, rfl, rfl, rfl, rfl, rfl, rfl, h.handled_ok⟩
    · exact hT
  obtain ⟨T0, rfl, c1, c2, c3, c4, c5, c6⟩ := hT'
  have hsl : ∀ τ ∈ s.timers, ∀ t ∈ τ.sentAt, t ≤ s.now := fun τ hτ => (h.tinv τ hτ).sent_le
  exact {
    tinv := by
      intro τ hτ
      simp only [Target.exitWith, c1]
      exact h.tinv_close τ hτ
    closed_le := by
      intro tc e
      simp only [Target.exitWith, c1, Option.some.injEq] at e; subst e
      cases hc : s.target.closedAt with
      | none => simp
      | some tc => simpa using h.closed_le tc hc
    exit_ok := by
      intro rr te e
      simp only [Target.exitWith, Option.some.injEq, Prod.mk.injEq] at e
      obtain ⟨rfl, rfl⟩ := e
      refine ⟨Nat.le_refl _, ⟨_, rfl, ?_⟩, ?_⟩
      · simp only [c1]
        cases hc : s.target.closedAt with
        | none => simp
        | some tc => simpa using h.closed_le tc hc
      · apply reasonOk_of_src
        · exact hsrc.mono (Ext.refl _) (by simp [Target.exitWith, c4]) (by simp [Target.exitWith, c5])
        · exact hsl
    stop_src := by
      intro rr e
      simp only [Target.exitWith, c2] at e
      exact (h.stop_src rr e).mono (Ext.refl _) (by simp [Target.exitWith, c4]) (by simp [Target.exitWith, c5])
    stopping_src := by intro rr ts e; simp [Target.exitWith] at e
    kill_src := by
      intro e
      simp only [Target.exitWith, c3] at e
      exact (h.kill_src e).mono (Ext.refl _) (by simp [Target.exitWith, c4]) (by simp [Target.exitWith, c5])
    mbox_ok := by intro m hm; simp [Target.exitWith] at hm
    handled_ok := by
      intro hd hh
      simp only [Target.exitWith] at hh
      exact handledOk_mono (s := s) (s' := { s with target := T0.exitWith r s.now }) (Ext.refl _) (c6 hd hh) }

/-- the message loop ends now and the (gated) `post_stop` starts -/
theorem Inv.enterPs {s : State} (h : Inv s) (r : Reason) (hsrc : Src s.timers s.target r) (T0 : Target)
    (c0 : T0.exit = s.target.exit) (c1 : T0.closedAt = s.target.closedAt)
    (c2 : T0.stopReq = s.target.stopReq) (c3 : T0.killReq = s.target.killReq)
    (c4 : T0.manualStop = s.target.manualStop) (c5 : T0.manualKill = s.target.manualKill)
    (c6 : ∀ hd ∈ T0.handled, handledOk s hd = true) :
    Inv { s with target := { T0 with stopping := some (r, s.now),
                                     closedAt := some (T0.closedAt.getD s.now), mbox := [], poison := none } } :=
  { tinv := by
      intro τ hτ
      simp only [c1]
      exact h.tinv_close τ hτ
    closed_le := by
      intro tc e
      simp only [c1, Option.some.injEq] at e; subst e
      cases hc : s.target.closedAt with
      | none => simp
      | some tc => simpa using h.closed_le tc hc
    exit_ok := by
      intro rr te e
      simp only [c0] at e
      obtain ⟨a, ⟨tc, b1, b2⟩, c⟩ := h.exit_ok rr te e
      refine ⟨a, ⟨tc, by simp [c1, b1], b2⟩, ?_⟩
      exact reasonOk_mono (s := s)
        (s' := { s with target := { T0 with stopping := some (r, s.now),
                                            closedAt := some (T0.closedAt.getD s.now), mbox := [] } })
        (Ext.refl _) (by simp [c4]) (by simp [c5]) c
    stop_src := by
      intro rr e
      simp only [c2] at e
      exact (h.stop_src rr e).mono (Ext.refl _) (by simp [c4]) (by simp [c5])
    stopping_src := by
      intro rr ts e
      simp only [Option.some.injEq, Prod.mk.injEq] at e
      obtain ⟨rfl, _⟩ := e
      exact hsrc.mono (Ext.refl _) (by simp [c4]) (by simp [c5])
    kill_src := by
      intro e
      simp only [c3] at e
      exact (h.kill_src e).mono (Ext.refl _) (by simp [c4]) (by simp [c5])
    mbox_ok := by intro m hm; simp at hm
    handled_ok := by
      intro hd hh
      exact handledOk_mono (s := s) (Ext.refl _) (c6 hd hh) }

theorem Inv.endLoop {s : State} (h : Inv s) (r : Reason) (hsrc : Src s.timers s.target r) (T0 : Target)
    (c0 : T0.exit = s.target.exit) (c1 : T0.closedAt = s.target.closedAt)
    (c2 : T0.stopReq = s.target.stopReq) (c3 : T0.killReq = s.target.killReq)
    (c4 : T0.manualStop = s.target.manualStop) (c5 : T0.manualKill = s.target.manualKill)
    (c6 : ∀ hd ∈ T0.handled, handledOk s hd = true) :
    Inv { s with target := T0.endLoop r s.now } := by
  unfold Target.endLoop
  split
  · exact h.enterPs r hsrc T0 c0 c1 c2 c3 c4 c5 c6
  · exact h.exitWith r hsrc _ (.inr ⟨T0, rfl, c1, c2, c3, c4, c5, c6⟩)

end Timers

namespace Timers

theorem Inv.handled_of_mbox {s : State} (h : Inv s) {m : Nat × Nat} (hm : m ∈ s.target.mbox) :
    handledOk s (m.1, m.2, s.now) = true := by
  obtain ⟨τ, h1, h2, h3, h4⟩ := h.mbox_ok m hm
  have hmem : τ ∈ s.timers := List.mem_iff_getElem?.mpr ⟨_, h1⟩
  have hlt : m.2 - 1 < τ.sentAt.length := by omega
  unfold handledOk
  simp only [h1, h2, h3, decide_true, Bool.and_self, Bool.true_and]
  rw [List.getElem?_eq_getElem hlt]
  simpa using (h.tinv τ hmem).sent_le _ (List.getElem_mem hlt)

theorem Inv.target {s : State} (h : Inv s) : Inv (step s .target) := by
  have e : step s .target = { s with target := s.target.run s.now } := rfl
  rw [e]
  unfold Target.run
  by_cases hx : s.target.exit.isSome = true
  · simp only [hx, ↓reduceIte]; exact h
  · simp only [hx, Bool.false_eq_true, ↓reduceIte]
    by_cases hk : s.target.killReq = true
    · simp only [hk, ↓reduceIte]
      exact h.exitWith .killed (h.kill_src hk) _ (.inl rfl)
    · simp only [hk, Bool.false_eq_true, ↓reduceIte]
      by_cases hstt : s.target.starting = true
      · simp only [hstt, ↓reduceIte]; exact h
      simp only [hstt, Bool.false_eq_true, ↓reduceIte]
      by_cases hps : s.target.stopping.isSome = true
      · simp only [hps, ↓reduceIte]; exact h
      · simp only [hps, Bool.false_eq_true, ↓reduceIte]
        cases hs : s.target.stopReq with
        | some r =>
          simp only
          exact h.endLoop r (h.stop_src r hs) _ rfl rfl rfl rfl rfl rfl h.handled_ok
        | none =>
          simp only
          have hnew : ∀ hd ∈ s.target.handled ++ s.target.mbox.map (fun m => (m.1, m.2, s.now)),
              handledOk s hd = true := by
            intro hd hh
            simp only [List.mem_append, List.mem_map] at hh
            rcases hh with hh | ⟨m, hm, rfl⟩
            · exact h.handled_ok hd hh
            · exact h.handled_of_mbox hm
          cases hpo : s.target.poison with
          | some n =>
            simp only
            refine h.exitWith .failed trivial _ (.inr ⟨_, rfl, rfl, hs.symm, by simpa using hk, rfl, rfl, ?_⟩)
            intro hd hh
            simp only [List.mem_append, List.mem_map] at hh
            rcases hh with hh | ⟨m, hm, rfl⟩
            · exact h.handled_ok hd hh
            · exact h.handled_of_mbox (List.mem_of_mem_take hm)
          | none =>
          simp only
          by_cases hdr : s.target.draining = true
          · simp only [hdr, ↓reduceIte]
            refine h.endLoop .drained trivial _ rfl rfl ?_ ?_ rfl rfl ?_
            · exact hs.symm
            · simpa using hk
            · exact hnew
          · simp only [hdr, Bool.false_eq_true, ↓reduceIte]
            exact {
              tinv := h.tinv
              closed_le := h.closed_le
              exit_ok := by
                intro rr te ee
                obtain ⟨a, b, c⟩ := h.exit_ok rr te ee
                exact ⟨a, b, reasonOk_mono (s := s) (Ext.refl _) id id c⟩
              stop_src := by intro rr ee; simp at ee
              stopping_src := fun rr ts ee => (h.stopping_src rr ts ee).mono (Ext.refl _) id id
              kill_src := by intro ee; simp at ee
              mbox_ok := by intro m hm; cases hm
              handled_ok := fun hd hh => handledOk_mono (s := s) (Ext.refl _) (hnew hd hh) }

theorem Inv.hold {s : State} (h : Inv s) : Inv (step s .hold) :=
  { tinv := h.tinv
    closed_le := h.closed_le
    exit_ok := by
      intro rr te e
      obtain ⟨a, b, c⟩ := h.exit_ok rr te e
      exact ⟨a, b, reasonOk_mono (s := s) (Ext.refl _) id id c⟩
    stop_src := fun rr e => (h.stop_src rr e).mono (Ext.refl _) id id
    stopping_src := fun rr ts e => (h.stopping_src rr ts e).mono (Ext.refl _) id id
    kill_src := fun e => (h.kill_src e).mono (Ext.refl _) id id
    mbox_ok := h.mbox_ok
    handled_ok := fun hd hh => handledOk_mono (s := s) (Ext.refl _) (h.handled_ok hd hh) }

/-- `post_stop` returns: the actor is gone, with the reason its message loop ended with -/
theorem Inv.psrelease {s : State} (h : Inv s) : Inv (step s .psrelease) := by
  have e : step s .psrelease = { s with target := s.target.release s.now } := rfl
  rw [e]
  unfold Target.release
  cases hst : s.target.stopping with
  | some rt =>
    obtain ⟨r, ts⟩ := rt
    simp only
    exact h.exitWith r (h.stopping_src r ts hst) _
      (.inr ⟨{ s.target with psGate := false }, rfl, rfl, rfl, rfl, rfl, rfl, h.handled_ok⟩)
  | none =>
    simp only
    exact {
      tinv := h.tinv
      closed_le := h.closed_le
      exit_ok := by
        intro rr te e
        obtain ⟨a, b, c⟩ := h.exit_ok rr te e
        exact ⟨a, b, reasonOk_mono (s := s) (Ext.refl _) id id c⟩
      stop_src := fun rr e => (h.stop_src rr e).mono (Ext.refl _) id id
      stopping_src := by intro rr ts e; simp at e
      kill_src := fun e => (h.kill_src e).mono (Ext.refl _) id id
      mbox_ok := h.mbox_ok
      handled_ok := fun hd hh => handledOk_mono (s := s) (Ext.refl _) (h.handled_ok hd hh) }

theorem Inv.dropHandle {s : State} (h : Inv s) (i : Nat) : Inv (step s (.dropHandle i)) :=
  { tinv := h.tinv
    closed_le := h.closed_le
    exit_ok := by
      intro rr te e
      obtain ⟨a, b, c⟩ := h.exit_ok rr te e
      exact ⟨a, b, reasonOk_mono (s := s) (Ext.refl _) id id c⟩
    stop_src := h.stop_src
    stopping_src := h.stopping_src
    kill_src := h.kill_src
    mbox_ok := h.mbox_ok
    handled_ok := fun hd hh => handledOk_mono (s := s) (Ext.refl _) (h.handled_ok hd hh) }

theorem Inv.startHold {s : State} (h : Inv s) : Inv (step s .startHold) :=
  { tinv := h.tinv
    closed_le := h.closed_le
    exit_ok := by
      intro rr te e
      obtain ⟨a, b, c⟩ := h.exit_ok rr te e
      exact ⟨a, b, reasonOk_mono (s := s) (Ext.refl _) id id c⟩
    stop_src := fun rr e => (h.stop_src rr e).mono (Ext.refl _) id id
    stopping_src := fun rr ts e => (h.stopping_src rr ts e).mono (Ext.refl _) id id
    kill_src := fun e => (h.kill_src e).mono (Ext.refl _) id id
    mbox_ok := h.mbox_ok
    handled_ok := fun hd hh => handledOk_mono (s := s) (Ext.refl _) (h.handled_ok hd hh) }

theorem Inv.started {s : State} (h : Inv s) : Inv (step s .started) :=
  { tinv := h.tinv
    closed_le := h.closed_le
    exit_ok := by
      intro rr te e
      obtain ⟨a, b, c⟩ := h.exit_ok rr te e
      exact ⟨a, b, reasonOk_mono (s := s) (Ext.refl _) id id c⟩
    stop_src := fun rr e => (h.stop_src rr e).mono (Ext.refl _) id id
    stopping_src := fun rr ts e => (h.stopping_src rr ts e).mono (Ext.refl _) id id
    kill_src := fun e => (h.kill_src e).mono (Ext.refl _) id id
    mbox_ok := h.mbox_ok
    handled_ok := fun hd hh => handledOk_mono (s := s) (Ext.refl _) (h.handled_ok hd hh) }

theorem Inv.fail {s : State} (h : Inv s) : Inv (step s .fail) := by
  have e : step s .fail = { s with target := s.target.poisonMsg } := rfl
  rw [e]
  unfold Target.poisonMsg
  split
  · exact
      { tinv := h.tinv
        closed_le := h.closed_le
        exit_ok := by
          intro rr te e
          obtain ⟨a, b, c⟩ := h.exit_ok rr te e
          exact ⟨a, b, reasonOk_mono (s := s) (Ext.refl _) id id c⟩
        stop_src := fun rr e => (h.stop_src rr e).mono (Ext.refl _) id id
        stopping_src := fun rr ts e => (h.stopping_src rr ts e).mono (Ext.refl _) id id
        kill_src := fun e => (h.kill_src e).mono (Ext.refl _) id id
        mbox_ok := h.mbox_ok
        handled_ok := fun hd hh => handledOk_mono (s := s) (Ext.refl _) (h.handled_ok hd hh) }
  · exact h

theorem Inv.step {s : State} (h : Inv s) (op : Op) : Inv (step s op) := by
  cases op with
  | create k p => exact h.create k p
  | createX k p => exact h.createX k p
  | tick d => exact h.tick d
  | fire i => exact h.fire i
  | abort i => exact h.abort i
  | stop => exact h.stop
  | kill => exact h.kill
  | drain => exact h.drain
  | target => exact h.target
  | mark => exact h.mark
  | hold => exact h.hold
  | psrelease => exact h.psrelease
  | dropHandle i => exact h.dropHandle i
  | fail => exact h.fail
  | startHold => exact h.startHold
  | started => exact h.started

theorem Inv.steps {s : State} (h : Inv s) (ops : List Op) : Inv (steps s ops) := by
  induction ops generalizing s with
  | nil => exact h
  | cons op ops ih => exact ih (h.step op)

/-! ### the invariant implies the property predicate -/

theorem TInv.timerOk {s : State} {τ : Timer} (h : TInv s.now s.target.closedAt τ) : timerOk s τ = true := by
  have hearly : earlyOk τ.created τ.period 0 τ.sentAt = true := by
    cases ha : τ.armed with
    | none => simp [h.unarmed ha, earlyOk]
    | some a =>
      obtain ⟨h1, _, h3⟩ := h.armed_ok a ha
      exact earlyOk_mono h1 _ _ h3
  have hsent : τ.sentAt.all (fun t => decide (t ≤ s.now)) = true := by
    simpa using h.sent_le
  have hshot : shotOk τ = true := by
    unfold shotOk
    cases ho : τ.kind.oneShot with
    | false => rfl
    | true =>
      obtain ⟨a, b, c, d⟩ := h.shot ho
      cases hr : τ.res with
      | pending => simp [a hr]
      | cancelled => simp [b hr]
      | ok => simp [c hr]
      | err => simp [(d hr).1, (d hr).2]
      | panicked =>
        have := (h.panic hr).1
        rw [this] at ho; simp [Kind.oneShot] at ho
  have hnoerr : (τ.kind.oneShot || τ.res != .err) = true := by
    cases ho : τ.kind.oneShot with
    | true => rfl
    | false => simpa using h.noerr ho
  have hfin : finOk s.now τ = true := by
    unfold finOk
    cases hf : τ.finAt with
    | none => simpa using h.fin_none hf
    | some tf =>
      obtain ⟨a, b, c⟩ := h.fin_some tf hf
      simp only [Bool.and_eq_true, bne_iff_ne, ne_eq, decide_eq_true_eq, List.all_eq_true]
      exact ⟨⟨a, b⟩, c⟩
  have hcl : closedOk s.target.closedAt τ = true := by
    unfold closedOk
    cases hc : s.target.closedAt with
    | none => rfl
    | some tc =>
      cases hs : τ.kind.sends with
      | false => rfl
      | true => simpa using (h.closed tc hc hs).2
  have hacc : acceptOk s.target.closedAt τ = true := by
    unfold acceptOk
    by_cases hty : τ.typed = true
    case neg => simp [hty]
    by_cases hk : τ.kind = .sendAfter
    · obtain ⟨a1, a2⟩ := h.accept hk hty
      simp only [hk, bne_self_eq_false, Bool.false_or, hty, Bool.not_true]
      cases hr : τ.res with
      | pending => rfl
      | cancelled => rfl
      | panicked => rfl
      | ok =>
        cases hc : s.target.closedAt with
        | none => rfl
        | some tc => simpa using a1 hr tc hc
      | err =>
        obtain ⟨tc, e, a3⟩ := a2 hr
        simp only [e]
        simpa using a3
    · have : (τ.kind != Kind.sendAfter) = true := by simpa using hk
      simp [this]
  have hpan : panicOk τ = true := by
    unfold panicOk
    have h1 : (τ.res != .panicked || (τ.kind == .interval && τ.period == 0)) = true := by
      by_cases hr : τ.res = .panicked
      · obtain ⟨a, b⟩ := h.panic hr
        simp [a, b]
      · simp [hr]
    have h2 : (!(τ.kind == .interval && τ.period == 0) || τ.sentAt.isEmpty) = true := by
      by_cases hz : τ.kind = .interval ∧ τ.period = 0
      · have hn : τ.armed = none := by
          cases ha : τ.armed with
          | none => rfl
          | some a =>
            have := h.pos hz.1 (by simp [ha])
            omega
        simp [h.unarmed hn]
      · have : (τ.kind == .interval && τ.period == 0) = false := by
          simp only [Bool.and_eq_false_iff, beq_eq_false_iff_ne, ne_eq]
          by_cases hk1 : τ.kind = .interval
          · exact .inr (fun hp => hz ⟨hk1, hp⟩)
          · exact .inl hk1
        simp [this]
    rw [h1, h2]; rfl
  have hmis : mistypedOk τ = true := by
    unfold mistypedOk
    by_cases hty : τ.typed = true
    · simp [hty]
    · by_cases hs : τ.kind.sends = true
      · obtain ⟨u1, u2, u3⟩ := h.untyped (by simpa using hty) hs
        have hty' : τ.typed = false := by simpa using hty
        have e1 : (τ.res != .pending || τ.sentAt.isEmpty) = true := by
          by_cases hp : τ.res = .pending
          · simp [u1 hp]
          · simp [hp]
        have e2 : (!(τ.kind == .sendAfter && τ.res == .ok)) = true := by
          by_cases hk : τ.kind = .sendAfter
          · have := u3 hk
            simp [this]
          · have : (τ.kind == Kind.sendAfter) = false := by simpa using hk
            simp [this]
        simp only [hty', hs, Bool.not_true, Bool.false_or, e1, e2, Bool.and_true, decide_eq_true_eq]
        exact u2
      · have : τ.kind.sends = false := by simpa using hs
        simp [this]
  unfold Timers.timerOk
  rw [hearly, hsent, hshot, hnoerr, hfin, hcl, hacc, hpan, hmis]; rfl

theorem Inv.ok1 {s : State} (h : Inv s) : ok1 s = true := by
  unfold Timers.ok1
  rw [Bool.and_eq_true, List.all_eq_true]
  refine ⟨fun τ hτ => (h.tinv τ hτ).timerOk, ?_⟩
  unfold targetOk
  have h1 : exitOk s = true := by
    unfold exitOk
    cases he : s.target.exit with
    | none => rfl
    | some x =>
      obtain ⟨r, te⟩ := x
      obtain ⟨a, ⟨tc, b1, b2⟩, c⟩ := h.exit_ok r te he
      simp [c, a, b1, b2]
  have h2 : closedLeOk s = true := by
    unfold closedLeOk
    cases hc : s.target.closedAt with
    | none => rfl
    | some tc => simpa using h.closed_le tc hc
  have h3 : s.target.handled.all (handledOk s) = true := by
    rw [List.all_eq_true]; exact h.handled_ok
  rw [h1, h2, h3]; rfl

end Timers

namespace Timers

/-! ### quiescent runs: every pending timer is strictly before its deadline -/

/-- the task is parked: armed and strictly before its next deadline (or gone) -/
def Quiet (now : Nat) (τ : Timer) : Prop := τ.res = .pending →
  ∃ a, τ.armed = some a ∧ now < τ.deadline a ∧
    (τ.kind = .interval → τ.primed = false → now < wheelDeadline a 0)

@[simp] theorem attempt_primed (τ : Timer) (now : Nat) : (τ.attempt now).primed = τ.primed := rfl

theorem ivAwait_quiet (now id a : Nat) : ∀ (fuel : Nat) (τ : Timer) (T : Target),
    τ.armed = some a → τ.primed = true → 0 < τ.period → now < τ.exact a + fuel →
    Quiet now (ivAwait now id a fuel τ T).1 := by
  intro fuel
  induction fuel with
  | zero =>
    intro τ T ha hpr hp hf
    unfold ivAwait
    have hex : τ.exact a ≤ τ.deadline a := le_ceilMs _
    have hd : ¬ τ.deadline a ≤ now := by omega
    simp only [hd, ↓reduceIte]
    exact fun _ => ⟨a, ha, by omega, fun _ h => by rw [hpr] at h; cases h⟩
  | succ f ih =>
    intro τ T ha hpr hp hf
    unfold ivAwait
    by_cases hd : τ.deadline a ≤ now
    · simp only [hd, ↓reduceIte]
      by_cases hacc : τ.canSend T = true
      · simp only [hacc, ↓reduceIte]
        by_cases hact : (T.push (id, τ.sentAt.length + 1)).active = true
        · simp only [hact, Bool.not_true, Bool.false_eq_true, ↓reduceIte]
          apply ih (τ.attempt now) _ ha (by simpa using hpr) hp
          have : (τ.attempt now).exact a = τ.exact a + τ.period := by
            simp only [Timer.exact, attempt_sentAt, attempt_period, List.length_append, List.length_singleton,
              Nat.add_mul, Nat.one_mul]
            omega
          rw [this]; omega
        · simp only [hact, Bool.not_false, ↓reduceIte]
          intro h; simp at h
      · simp only [hacc, Bool.false_eq_true, ↓reduceIte]
        intro h; simp at h
    · simp only [hd, ↓reduceIte]
      exact fun _ => ⟨a, ha, by omega, fun _ h => by rw [hpr] at h; cases h⟩

theorem fireOne_quiet (now id : Nat) (τ : Timer) (T : Target) :
    Quiet now (fireOne now id τ T).1 := by
  unfold fireOne
  by_cases hp : τ.res = .pending
  · simp only [hp, ne_eq, not_true_eq_false, ↓reduceIte]
    by_cases hz : τ.kind = .interval ∧ τ.period = 0
    · simp only [hz, and_self, ↓reduceIte]
      intro h; simp at h
    simp only [hz, ↓reduceIte]
    have hpos : τ.kind = .interval → 0 < τ.period := fun hk =>
      Nat.pos_of_ne_zero (fun h0 => hz ⟨hk, h0⟩)
    generalize ha : τ.armed.getD now = a
    have harm : (τ.arm now).armed = some a := by simp [ha]
    have hk : (τ.arm now).kind = τ.kind := rfl
    have hper : (τ.arm now).period = τ.period := rfl
    generalize τ.arm now = σ at harm hk hper
    unfold fireArmed
    cases hkind : σ.kind with
    | interval =>
      have hpp : 0 < σ.period := by rw [hper]; exact hpos (hk ▸ hkind)
      simp only
      by_cases hpr : σ.primed = true
      · simp only [hpr, ↓reduceIte]
        exact ivAwait_quiet now id a _ σ T harm hpr hpp (by omega)
      · simp only [hpr, Bool.false_eq_true, ↓reduceIte]
        by_cases hw : wheelDeadline a 0 ≤ now
        · simp only [hw, ↓reduceIte]
          split
          · intro h; simp at h
          · exact ivAwait_quiet now id a _ σ.prime T (by simpa using harm) rfl (by simpa using hpp) (by omega)
        · simp only [hw, ↓reduceIte]
          refine fun _ => ⟨a, harm, ?_, fun _ _ => by omega⟩
          have : wheelDeadline a 0 ≤ σ.deadline a := by
            simp only [Timer.deadline, wheelDeadline]; exact ceilMs_mono (by omega)
          omega
    | sendAfter =>
      simp only
      by_cases hd : σ.deadline a ≤ now
      · simp only [hd, ↓reduceIte]; split <;> (intro h; simp at h)
      · simp only [hd, ↓reduceIte]; exact fun _ => ⟨a, harm, by omega, fun h => by rw [hkind] at h; cases h⟩
    | exitAfter =>
      simp only
      by_cases hd : σ.deadline a ≤ now
      · simp only [hd, ↓reduceIte]; intro h; simp at h
      · simp only [hd, ↓reduceIte]; exact fun _ => ⟨a, harm, by omega, fun h => by rw [hkind] at h; cases h⟩
    | killAfter =>
      simp only
      by_cases hd : σ.deadline a ≤ now
      · simp only [hd, ↓reduceIte]; intro h; simp at h
      · simp only [hd, ↓reduceIte]; exact fun _ => ⟨a, harm, by omega, fun h => by rw [hkind] at h; cases h⟩
  · simp only [hp, ne_eq, not_false_eq_true, ↓reduceIte]
    exact fun h => absurd h hp

def QuietAt (i : Nat) (s : State) : Prop := ∀ τ : Timer, s.timers[i]? = some τ → Quiet s.now τ

/-- ops that neither move the clock nor add a timer -/
def Op.calm : Op → Bool
  | .tick _ => false
  | .create _ _ => false
  | .createX _ _ => false
  | _ => true

theorem calm_now {s : State} {op : Op} (hc : op.calm = true) : (step s op).now = s.now := by
  cases op with
  | tick d => simp [Op.calm] at hc
  | create k p => simp [Op.calm] at hc
  | createX k p => simp [Op.calm] at hc
  | fire i =>
    cases hτ : s.timers[i]? with
    | none => rw [step_fire_none hτ]
    | some τ => rw [step_fire_some hτ]
  | abort i =>
    cases hτ : s.timers[i]? with
    | none => rw [step_abort_none hτ]
    | some τ => rw [step_abort_some hτ]; split <;> rfl
  | stop => rfl
  | kill => rfl
  | drain => rfl
  | target => rfl
  | mark => rfl
  | hold => rfl
  | psrelease => rfl
  | dropHandle j => rfl
  | fail => rfl
  | startHold => rfl
  | started => rfl

theorem calm_length {s : State} {op : Op} (hc : op.calm = true) :
    (step s op).timers.length = s.timers.length := by
  cases op with
  | tick d => simp [Op.calm] at hc
  | create k p => simp [Op.calm] at hc
  | createX k p => simp [Op.calm] at hc
  | fire i =>
    cases hτ : s.timers[i]? with
    | none => rw [step_fire_none hτ]
    | some τ => rw [step_fire_some hτ]; simp
  | abort i =>
    cases hτ : s.timers[i]? with
    | none => rw [step_abort_none hτ]
    | some τ => rw [step_abort_some hτ]; split <;> simp
  | stop => rfl
  | kill => rfl
  | drain => rfl
  | target => rfl
  | mark => rfl
  | hold => rfl
  | psrelease => rfl
  | dropHandle j => rfl
  | fail => rfl
  | startHold => rfl
  | started => rfl

theorem QuietAt.fire {s : State} (_h : Inv s) (i : Nat) : QuietAt i (step s (.fire i)) := by
  intro σ hσ
  cases hτ : s.timers[i]? with
  | none => rw [step_fire_none hτ] at hσ; rw [hτ] at hσ; cases hσ
  | some τ =>
    rw [step_fire_some hτ] at hσ ⊢
    simp only [List.getElem?_set, getElem?_lt hτ, ↓reduceIte, Option.some.injEq] at hσ
    subst hσ
    exact fireOne_quiet _ _ _ _

theorem QuietAt.calm {s : State} {i : Nat} (h : Inv s) (hq : QuietAt i s) {op : Op} (hc : op.calm = true) :
    QuietAt i (step s op) := by
  cases op with
  | tick d => simp [Op.calm] at hc
  | create k p => simp [Op.calm] at hc
  | createX k p => simp [Op.calm] at hc
  | fire j =>
    by_cases e : j = i
    · subst e; exact QuietAt.fire h j
    · intro σ hσ
      cases hτ : s.timers[j]? with
      | none => rw [step_fire_none hτ] at hσ ⊢; exact hq σ hσ
      | some τ =>
        rw [step_fire_some hτ] at hσ ⊢
        simp only [List.getElem?_set_ne e] at hσ
        exact hq σ hσ
  | abort j =>
    intro σ hσ
    cases hτ : s.timers[j]? with
    | none => rw [step_abort_none hτ] at hσ ⊢; exact hq σ hσ
    | some τ =>
      rw [step_abort_some hτ] at hσ ⊢
      by_cases hp : τ.res = .pending
      · simp only [hp, ↓reduceIte] at hσ ⊢
        by_cases e : j = i
        · subst e
          simp only [List.getElem?_set, getElem?_lt hτ, ↓reduceIte, Option.some.injEq] at hσ
          subst hσ
          intro hh; simp at hh
        · simp only [List.getElem?_set_ne e] at hσ
          exact hq σ hσ
      · simp only [hp, ↓reduceIte] at hσ ⊢; exact hq σ hσ
  | stop => exact hq
  | kill => exact hq
  | drain => exact hq
  | target => exact hq
  | mark => exact hq
  | hold => exact hq
  | psrelease => exact hq
  | dropHandle j => exact hq
  | fail => exact hq
  | startHold => exact hq
  | started => exact hq

theorem QuietAt.create {s : State} {i : Nat} (hq : QuietAt i s) (hi : i < s.timers.length) (k : Kind) (p : Nat) :
    QuietAt i (step s (.create k p)) := by
  have e : step s (.create k p) =
      { s with timers := s.timers ++ [{ kind := k, period := p, created := s.now }] } := rfl
  rw [e]
  intro σ hσ
  simp only [List.getElem?_append_left hi] at hσ
  exact hq σ hσ

theorem QuietAt.createX {s : State} {i : Nat} (hq : QuietAt i s) (hi : i < s.timers.length) (k : Kind) (p : Nat) :
    QuietAt i (step s (.createX k p)) := by
  have e : step s (.createX k p) =
      { s with timers := s.timers ++ [{ kind := k, period := p, created := s.now, typed := false }] } := rfl
  rw [e]
  intro σ hσ
  simp only [List.getElem?_append_left hi] at hσ
  exact hq σ hσ

theorem steps_cons (s : State) (op : Op) (l : List Op) : steps s (op :: l) = steps (step s op) l := rfl
theorem steps_append (s : State) (l1 l2 : List Op) : steps s (l1 ++ l2) = steps (steps s l1) l2 := by
  simp [steps, List.foldl_append]
theorem steps_nil (s : State) : steps s [] = s := rfl

theorem calm_steps_now {l : List Op} : ∀ {s : State}, (∀ op ∈ l, op.calm = true) → (steps s l).now = s.now := by
  induction l with
  | nil => intro s _; rfl
  | cons op l ih =>
    intro s hc
    rw [steps_cons, ih (fun o ho => hc o (List.mem_cons_of_mem _ ho)), calm_now (hc op (List.mem_cons_self ..))]

theorem calm_steps_length {l : List Op} : ∀ {s : State}, (∀ op ∈ l, op.calm = true) →
    (steps s l).timers.length = s.timers.length := by
  induction l with
  | nil => intro s _; rfl
  | cons op l ih =>
    intro s hc
    rw [steps_cons, ih (fun o ho => hc o (List.mem_cons_of_mem _ ho)), calm_length (hc op (List.mem_cons_self ..))]

theorem QuietAt.calm_steps {l : List Op} {i : Nat} : ∀ {s : State}, Inv s → QuietAt i s →
    (∀ op ∈ l, op.calm = true) → QuietAt i (steps s l) := by
  induction l with
  | nil => intro s _ hq _; exact hq
  | cons op l ih =>
    intro s hi hq hc
    rw [steps_cons]
    exact ih (hi.step op) (hq.calm hi (hc op (List.mem_cons_self ..))) (fun o ho => hc o (List.mem_cons_of_mem _ ho))

theorem QuietAt.of_fire_mem {l : List Op} {i : Nat} : ∀ {s : State}, Inv s →
    (∀ op ∈ l, op.calm = true) → Op.fire i ∈ l → QuietAt i (steps s l) := by
  induction l with
  | nil => intro s _ _ hm; cases hm
  | cons op l ih =>
    intro s hi hc hm
    rw [steps_cons]
    have hc' : ∀ o ∈ l, o.calm = true := fun o ho => hc o (List.mem_cons_of_mem _ ho)
    rcases List.mem_cons.mp hm with e | hm
    · subst e
      exact (QuietAt.fire hi i).calm_steps (hi.step _) hc'
    · exact ih (hi.step op) hc' hm

end Timers

namespace Timers

/-! ### the closed form at quiescent points -/

/-- per-timer facts that hold inside a macro op (timers are first polled at the instant of their
creation; `vs` are the quiescent points recorded so far) -/
structure MT (now : Nat) (vs : List Nat) (τ : Timer) : Prop where
  ac : ∀ a, τ.armed = some a → a = τ.created
  fresh : τ.armed = none → τ.res = .pending → τ.created = now
  prompt : promptOk τ.created τ.period vs 0 τ.sentAt = true
  next : τ.res = .pending → ∀ c ∈ vs, c < now → c < ceilMs (τ.created + (τ.sentAt.length + 1) * τ.period)

theorem MT.attempt {now : Nat} {vs : List Nat} {τ : Timer} (h : MT now vs τ) (hp : τ.res = .pending) :
    promptOk τ.created τ.period vs 0 (τ.sentAt ++ [now]) = true := by
  rw [promptOk_append, h.prompt, Bool.true_and, List.all_eq_true]
  intro c hc
  by_cases hlt : c < now
  · have := h.next hp c hc hlt
    simp only [Nat.zero_add]
    simp [hlt, this]
  · simp [hlt]

theorem Micro.mt {now id : Nat} {vs : List Nat} {x y : Timer × Target} (m : Micro now id x y)
    (h : MT now vs x.1) : MT now vs y.1 := by
  cases m with
  | panic τ T hp hk hz =>
    exact { ac := h.ac, fresh := by intro _ e; simp at e, prompt := h.prompt, next := by simp }
  | arm τ T hp ha _ =>
    exact { ac := by intro a e; simp only [arm_armed, ha, Option.getD_none, Option.some.injEq] at e
                     rw [← e]; exact (h.fresh ha hp).symm
            fresh := by simp
            prompt := h.prompt
            next := h.next }
  | prime τ T a hp hk ha hw hact =>
    exact { ac := h.ac, fresh := h.fresh, prompt := h.prompt, next := h.next }
  | primeHead τ T a hp hk ha hw hact =>
    exact { ac := h.ac, fresh := by simp [ha], prompt := h.prompt, next := by simp }
  | ivSend τ T a hp hk ha hd hacc =>
    exact { ac := h.ac
            fresh := by simp [ha]
            prompt := h.attempt hp
            next := by
              intro _ c hc hlt
              have := h.next hp c hc hlt
              simp only [attempt_sentAt, attempt_created, attempt_period, List.length_append,
                List.length_singleton] at this ⊢
              refine Nat.lt_of_lt_of_le this (ceilMs_mono ?_)
              simp only [Nat.add_mul]; omega }
  | ivFail τ T a hp hk ha hd hacc =>
    exact { ac := h.ac, fresh := by simp [ha], prompt := h.attempt hp, next := by simp }
  | ivHead τ T hp hk ha hact =>
    exact { ac := h.ac
            fresh := by
              intro e; simp only [finish_armed] at e
              rw [e] at ha; simp at ha
            prompt := h.prompt, next := by simp }
  | saOk τ T a hp hk ha hd hacc =>
    exact { ac := h.ac, fresh := by simp [ha], prompt := h.attempt hp, next := by simp }
  | saErr τ T a hp hk ha hd hacc =>
    exact { ac := h.ac, fresh := by simp [ha], prompt := h.attempt hp, next := by simp }
  | exit τ T a hp hk ha hd =>
    exact { ac := h.ac, fresh := by simp [ha], prompt := h.attempt hp, next := by simp }
  | kill τ T a hp hk ha hd =>
    exact { ac := h.ac, fresh := by simp [ha], prompt := h.attempt hp, next := by simp }

theorem fireOne_mt (now id : Nat) (vs : List Nat) (τ : Timer) (T : Target) (h : MT now vs τ) :
    MT now vs (fireOne now id τ T).1 :=
  fireOne_ind now id (fun x => MT now vs x.1) (fun _ _ m hx => m.mt hx) τ T h

structure MInv (s : State) : Prop where
  visits_le : ∀ c ∈ s.visits, c ≤ s.now
  mt : ∀ τ ∈ s.timers, MT s.now s.visits τ

theorem MInv.init : MInv init :=
  { visits_le := by intro c h; simp [Timers.init] at h
    mt := by intro τ h; simp [Timers.init] at h }

/-- every op that does not move the clock keeps the macro facts -/
theorem MInv.step {s : State} (hm : MInv s) (hi : Inv s) {op : Op} (hnt : ∀ d, op ≠ .tick d) :
    MInv (step s op) := by
  cases op with
  | tick d => exact absurd rfl (hnt d)
  | create k p =>
    have e : Timers.step s (.create k p) =
        { s with timers := s.timers ++ [{ kind := k, period := p, created := s.now }] } := rfl
    rw [e]
    · refine ⟨hm.visits_le, ?_⟩
      intro τ hτ
      simp only [List.mem_append, List.mem_singleton] at hτ
      rcases hτ with hτ | rfl
      · exact hm.mt τ hτ
      · exact { ac := by intro a e; cases e
                fresh := fun _ _ => rfl
                prompt := rfl
                next := by
                  intro _ c _ hlt
                  have : c < s.now := hlt
                  refine Nat.lt_of_lt_of_le this (Nat.le_trans ?_ (le_ceilMs _))
                  exact Nat.le_add_right _ _ }
  | createX k p =>
    have e : Timers.step s (.createX k p) =
        { s with timers := s.timers ++ [{ kind := k, period := p, created := s.now, typed := false }] } := rfl
    rw [e]
    · refine ⟨hm.visits_le, ?_⟩
      intro τ hτ
      simp only [List.mem_append, List.mem_singleton] at hτ
      rcases hτ with hτ | rfl
      · exact hm.mt τ hτ
      · exact { ac := by intro a e; cases e
                fresh := fun _ _ => rfl
                prompt := rfl
                next := by
                  intro _ c _ hlt
                  have : c < s.now := hlt
                  refine Nat.lt_of_lt_of_le this (Nat.le_trans ?_ (le_ceilMs _))
                  exact Nat.le_add_right _ _ }
  | fire i =>
    cases hτ : s.timers[i]? with
    | none => rw [step_fire_none hτ]; exact hm
    | some τ =>
      rw [step_fire_some hτ]
      refine ⟨hm.visits_le, ?_⟩
      intro σ hσ
      rcases mem_set_cases hσ with rfl | hσ
      · exact fireOne_mt _ _ _ _ _ (hm.mt τ (List.mem_iff_getElem?.mpr ⟨i, hτ⟩))
      · exact hm.mt σ hσ
  | abort i =>
    cases hτ : s.timers[i]? with
    | none => rw [step_abort_none hτ]; exact hm
    | some τ =>
      rw [step_abort_some hτ]
      split
      · refine ⟨hm.visits_le, ?_⟩
        intro σ hσ
        rcases mem_set_cases hσ with rfl | hσ
        · have := hm.mt τ (List.mem_iff_getElem?.mpr ⟨i, hτ⟩)
          exact { ac := this.ac, fresh := by simp, prompt := this.prompt, next := by simp }
        · exact hm.mt σ hσ
      · exact hm
  | stop => exact ⟨hm.visits_le, hm.mt⟩
  | kill => exact ⟨hm.visits_le, hm.mt⟩
  | drain => exact ⟨hm.visits_le, hm.mt⟩
  | target => exact ⟨hm.visits_le, hm.mt⟩
  | hold => exact ⟨hm.visits_le, hm.mt⟩
  | psrelease => exact ⟨hm.visits_le, hm.mt⟩
  | dropHandle j => exact ⟨hm.visits_le, hm.mt⟩
  | fail => exact ⟨hm.visits_le, hm.mt⟩
  | startHold => exact ⟨hm.visits_le, hm.mt⟩
  | started => exact ⟨hm.visits_le, hm.mt⟩
  | mark =>
    refine ⟨?_, ?_⟩
    · intro c hc
      simp only [Timers.step, List.mem_append, List.mem_singleton] at hc
      rcases hc with hc | rfl
      · exact hm.visits_le c hc
      · exact Nat.le_refl _
    · intro τ hτ
      have := hm.mt τ hτ
      exact { ac := this.ac
              fresh := this.fresh
              prompt := promptOk_visit _ _ _ _ _ _ (hi.tinv τ hτ).sent_le this.prompt
              next := by
                intro hp c hc hlt
                simp only [Timers.step, List.mem_append, List.mem_singleton] at hc
                rcases hc with hc | rfl
                · exact this.next hp c hc hlt
                · exact absurd hlt (Nat.lt_irrefl _) }

/-- the clock may move when every pending timer is parked before its deadline -/
theorem MInv.tick {s : State} (hm : MInv s) (hq : ∀ i, QuietAt i s) (d : Nat) : MInv (Timers.step s (.tick d)) := by
  refine ⟨fun c hc => Nat.le_trans (hm.visits_le c hc) (Nat.le_add_right _ _), ?_⟩
  intro τ hτ
  have := hm.mt τ hτ
  obtain ⟨i, hi⟩ := List.mem_iff_getElem?.mp hτ
  have hqi := hq i τ hi
  exact { ac := this.ac
          fresh := by
            intro ha hp
            obtain ⟨a, ha', _⟩ := hqi hp
            rw [ha] at ha'; cases ha'
          prompt := this.prompt
          next := by
            intro hp c hc _
            obtain ⟨a, ha, hlt⟩ := hqi hp
            have := this.ac a ha
            subst this
            have := hm.visits_le c hc
            simp only [Timer.deadline, wheelDeadline] at hlt
            omega }

theorem MInv.calm_steps {l : List Op} : ∀ {s : State}, MInv s → Inv s → (∀ op ∈ l, op.calm = true) →
    MInv (steps s l) := by
  induction l with
  | nil => intro s hm _ _; exact hm
  | cons op l ih =>
    intro s hm hi hc
    rw [steps_cons]
    refine ih (hm.step hi ?_) (hi.step op) (fun o ho => hc o (List.mem_cons_of_mem _ ho))
    intro d e
    have := hc op (List.mem_cons_self ..)
    rw [e] at this; simp [Op.calm] at this

/-- what holds at the quiescent points of a macro run -/
structure BInv (s : State) : Prop where
  inv : Inv s
  minv : MInv s
  quiet : ∀ i, QuietAt i s

theorem BInv.init : BInv init := ⟨Inv.init, MInv.init, by intro i τ h; simp [Timers.init] at h⟩

/-- a calm schedule that polls every timer that is not already parked, then a mark -/
theorem BInv.of_calm {s : State} (hi : Inv s) (hm : MInv s) (l : List Op) (hc : ∀ op ∈ l, op.calm = true)
    (hcover : ∀ i, i < s.timers.length → QuietAt i s ∨ Op.fire i ∈ l) :
    BInv (Timers.step (steps s l) .mark) := by
  have hi2 : Inv (steps s l) := hi.steps l
  have hm2 : MInv (steps s l) := hm.calm_steps hi hc
  refine ⟨hi2.step .mark, hm2.step hi2 (by intro d e; cases e), ?_⟩
  intro i
  apply QuietAt.calm hi2 _ (op := .mark) rfl
  by_cases hlt : i < s.timers.length
  · rcases hcover i hlt with hq | hf
    · exact hq.calm_steps hi hc
    · exact QuietAt.of_fire_mem hi hc hf
  · intro τ hτ
    have := getElem?_lt hτ
    rw [calm_steps_length hc] at this
    exact absurd this hlt

end Timers

namespace Timers

theorem fireAll_calm (n : Nat) : ∀ op ∈ fireAll n, op.calm = true := by
  intro op h
  simp only [fireAll, List.mem_map] at h
  obtain ⟨i, _, rfl⟩ := h; rfl

theorem fire_mem_fireAll {i n : Nat} (h : i < n) : Op.fire i ∈ fireAll n := by
  simp only [fireAll, List.mem_map, List.mem_range]
  exact ⟨i, h, rfl⟩

theorem steps_snoc (s : State) (l : List Op) (op : Op) : steps s (l ++ [op]) = Timers.step (steps s l) op := by
  rw [steps_append]; rfl

theorem steps_single (s : State) (op : Op) : steps s [op] = Timers.step s op := rfl

theorem tick_length (s : State) (d : Nat) : (Timers.step s (.tick d)).timers.length = s.timers.length := rfl

/-- every macro op leads from a quiescent point to a quiescent point -/
theorem BInv.mstep {s : State} (h : BInv s) (m : MOp) : BInv (mstep s m) := by
  unfold Timers.mstep
  have calm_mem : ∀ (l : List Op) (extra : List Op), (∀ op ∈ extra, op.calm = true) →
      ∀ op ∈ extra ++ fireAll s.timers.length ++ l, (∀ o ∈ l, o.calm = true) → op.calm = true := by
    intro l extra he op hop hl
    simp only [List.mem_append] at hop
    rcases hop with (hop | hop) | hop
    · exact he op hop
    · exact fireAll_calm _ op hop
    · exact hl op hop
  cases m with
  | create k p =>
    have e : expand s (.create k p) = [.create k p] ++ ([.fire s.timers.length, .target] ++ [.mark]) := rfl
    rw [e, steps_append, steps_snoc, steps_single]
    have hi1 : Inv (Timers.step s (.create k p)) := h.inv.step _
    have hm1 : MInv (Timers.step s (.create k p)) := h.minv.step h.inv (by intro d e; cases e)
    apply BInv.of_calm hi1 hm1
    · intro op hop
      simp only [List.mem_cons, List.mem_nil_iff, or_false] at hop
      rcases hop with rfl | rfl <;> rfl
    · intro i hi
      by_cases hlt : i < s.timers.length
      · exact .inl ((h.quiet i).create hlt k p)
      · right
        have e2 : Timers.step s (.create k p) =
            { s with timers := s.timers ++ [{ kind := k, period := p, created := s.now }] } := rfl
        rw [e2] at hi
        simp only [List.length_append, List.length_singleton] at hi
        have : i = s.timers.length := by omega
        subst this; simp
  | createX k p =>
    have e : expand s (.createX k p) = [.createX k p] ++ ([.fire s.timers.length, .target] ++ [.mark]) := rfl
    rw [e, steps_append, steps_snoc, steps_single]
    have hi1 : Inv (Timers.step s (.createX k p)) := h.inv.step _
    have hm1 : MInv (Timers.step s (.createX k p)) := h.minv.step h.inv (by intro d e; cases e)
    apply BInv.of_calm hi1 hm1
    · intro op hop
      simp only [List.mem_cons, List.mem_nil_iff, or_false] at hop
      rcases hop with rfl | rfl <;> rfl
    · intro i hi
      by_cases hlt : i < s.timers.length
      · exact .inl ((h.quiet i).createX hlt k p)
      · right
        have e2 : Timers.step s (.createX k p) =
            { s with timers := s.timers ++ [{ kind := k, period := p, created := s.now, typed := false }] } := rfl
        rw [e2] at hi
        simp only [List.length_append, List.length_singleton] at hi
        have : i = s.timers.length := by omega
        subst this; simp
  | adv d =>
    have e : expand s (.adv d) = [.tick d] ++ ((fireAll s.timers.length ++ [.target]) ++ [.mark]) := by
      simp [expand]
    rw [e, steps_append, steps_snoc, steps_single]
    apply BInv.of_calm (h.inv.step _) (h.minv.tick h.quiet d)
    · intro op hop
      have := calm_mem [.target] [] (by simp) op (by simpa using hop)
      exact this (by intro o ho; simp at ho; subst ho; rfl)
    · intro i hi
      exact .inr (List.mem_append_left _ (fire_mem_fireAll hi))
  | advAbort d j =>
    have e : expand s (.advAbort d j) =
        [.tick d] ++ (([.abort j] ++ fireAll s.timers.length ++ [.target]) ++ [.mark]) := by
      simp [expand]
    rw [e, steps_append, steps_snoc, steps_single]
    apply BInv.of_calm (h.inv.step _) (h.minv.tick h.quiet d)
    · intro op hop
      exact calm_mem [.target] [.abort j] (by intro o ho; simp at ho; subst ho; rfl) op hop
        (by intro o ho; simp at ho; subst ho; rfl)
    · intro i hi
      exact .inr (List.mem_append_left _ (List.mem_append_right _ (fire_mem_fireAll hi)))
  | advStop d =>
    have e : expand s (.advStop d) =
        [.tick d] ++ (([.stop, .target] ++ fireAll s.timers.length ++ [.target]) ++ [.mark]) := by
      simp [expand]
    rw [e, steps_append, steps_snoc, steps_single]
    apply BInv.of_calm (h.inv.step _) (h.minv.tick h.quiet d)
    · intro op hop
      exact calm_mem [.target] [.stop, .target] (by intro o ho; simp at ho; rcases ho with rfl | rfl <;> rfl) op hop
        (by intro o ho; simp at ho; subst ho; rfl)
    · intro i hi
      exact .inr (List.mem_append_left _ (List.mem_append_right _ (fire_mem_fireAll hi)))
  | advKill d =>
    have e : expand s (.advKill d) =
        [.tick d] ++ (([.kill, .target] ++ fireAll s.timers.length ++ [.target]) ++ [.mark]) := by
      simp [expand]
    rw [e, steps_append, steps_snoc, steps_single]
    apply BInv.of_calm (h.inv.step _) (h.minv.tick h.quiet d)
    · intro op hop
      exact calm_mem [.target] [.kill, .target] (by intro o ho; simp at ho; rcases ho with rfl | rfl <;> rfl) op hop
        (by intro o ho; simp at ho; subst ho; rfl)
    · intro i hi
      exact .inr (List.mem_append_left _ (List.mem_append_right _ (fire_mem_fireAll hi)))
  | advDrain d =>
    have e : expand s (.advDrain d) =
        [.tick d] ++ (([.drain, .target] ++ fireAll s.timers.length ++ [.target]) ++ [.mark]) := by
      simp [expand]
    rw [e, steps_append, steps_snoc, steps_single]
    apply BInv.of_calm (h.inv.step _) (h.minv.tick h.quiet d)
    · intro op hop
      exact calm_mem [.target] [.drain, .target] (by intro o ho; simp at ho; rcases ho with rfl | rfl <;> rfl) op hop
        (by intro o ho; simp at ho; subst ho; rfl)
    · intro i hi
      exact .inr (List.mem_append_left _ (List.mem_append_right _ (fire_mem_fireAll hi)))
  | abort j =>
    have e : expand s (.abort j) = [.abort j] ++ [.mark] := rfl
    rw [e, steps_snoc]
    apply BInv.of_calm h.inv h.minv
    · intro op hop; simp at hop; subst hop; rfl
    · intro i _; exact .inl (h.quiet i)
  | stop =>
    have e : expand s .stop = [.stop, .target] ++ [.mark] := rfl
    rw [e, steps_snoc]
    apply BInv.of_calm h.inv h.minv
    · intro op hop; simp at hop; rcases hop with rfl | rfl <;> rfl
    · intro i _; exact .inl (h.quiet i)
  | kill =>
    have e : expand s .kill = [.kill, .target] ++ [.mark] := rfl
    rw [e, steps_snoc]
    apply BInv.of_calm h.inv h.minv
    · intro op hop; simp at hop; rcases hop with rfl | rfl <;> rfl
    · intro i _; exact .inl (h.quiet i)
  | drain =>
    have e : expand s .drain = [.drain, .target] ++ [.mark] := rfl
    rw [e, steps_snoc]
    apply BInv.of_calm h.inv h.minv
    · intro op hop; simp at hop; rcases hop with rfl | rfl <;> rfl
    · intro i _; exact .inl (h.quiet i)
  | hold =>
    have e : expand s .hold = [.hold] ++ [.mark] := rfl
    rw [e, steps_snoc]
    apply BInv.of_calm h.inv h.minv
    · intro op hop; simp at hop; subst hop; rfl
    · intro i _; exact .inl (h.quiet i)
  | psrelease =>
    have e : expand s .psrelease = [.psrelease, .target] ++ [.mark] := rfl
    rw [e, steps_snoc]
    apply BInv.of_calm h.inv h.minv
    · intro op hop; simp at hop; rcases hop with rfl | rfl <;> rfl
    · intro i _; exact .inl (h.quiet i)
  | startHold =>
    have e : expand s .startHold = [.startHold] ++ [.mark] := rfl
    rw [e, steps_snoc]
    apply BInv.of_calm h.inv h.minv
    · intro op hop; simp at hop; subst hop; rfl
    · intro i _; exact .inl (h.quiet i)
  | started =>
    have e : expand s .started = [.started, .target] ++ [.mark] := rfl
    rw [e, steps_snoc]
    apply BInv.of_calm h.inv h.minv
    · intro op hop; simp at hop; rcases hop with rfl | rfl <;> rfl
    · intro i _; exact .inl (h.quiet i)
  | fail =>
    have e : expand s .fail = [.fail, .target] ++ [.mark] := rfl
    rw [e, steps_snoc]
    apply BInv.of_calm h.inv h.minv
    · intro op hop; simp at hop; rcases hop with rfl | rfl <;> rfl
    · intro i _; exact .inl (h.quiet i)
  | advFail d =>
    have e : expand s (.advFail d) =
        [.tick d] ++ (([.fail, .target] ++ fireAll s.timers.length ++ [.target]) ++ [.mark]) := by
      simp [expand]
    rw [e, steps_append, steps_snoc, steps_single]
    apply BInv.of_calm (h.inv.step _) (h.minv.tick h.quiet d)
    · intro op hop
      exact calm_mem [.target] [.fail, .target] (by intro o ho; simp at ho; rcases ho with rfl | rfl <;> rfl) op hop
        (by intro o ho; simp at ho; subst ho; rfl)
    · intro i hi
      exact .inr (List.mem_append_left _ (List.mem_append_right _ (fire_mem_fireAll hi)))
  | dropHandle j =>
    have e : expand s (.dropHandle j) = [.dropHandle j] ++ [.mark] := rfl
    rw [e, steps_snoc]
    apply BInv.of_calm h.inv h.minv
    · intro op hop; simp at hop; subst hop; rfl
    · intro i _; exact .inl (h.quiet i)
  | advDrop d j =>
    have e : expand s (.advDrop d j) =
        [.tick d] ++ (([.dropHandle j] ++ fireAll s.timers.length ++ [.target]) ++ [.mark]) := by
      simp [expand]
    rw [e, steps_append, steps_snoc, steps_single]
    apply BInv.of_calm (h.inv.step _) (h.minv.tick h.quiet d)
    · intro op hop
      exact calm_mem [.target] [.dropHandle j] (by intro o ho; simp at ho; subst ho; rfl) op hop
        (by intro o ho; simp at ho; subst ho; rfl)
    · intro i hi
      exact .inr (List.mem_append_left _ (List.mem_append_right _ (fire_mem_fireAll hi)))

theorem BInv.mrun {s : State} (h : BInv s) (ms : List MOp) : BInv (mrun s ms) := by
  induction ms generalizing s with
  | nil => exact h
  | cons m ms ih => exact ih (h.mstep m)

/-- a macro run is a particular small-step run -/
theorem mrun_eq_steps (s : State) (ms : List MOp) : ∃ ops, mrun s ms = steps s ops := by
  induction ms generalizing s with
  | nil => exact ⟨[], rfl⟩
  | cons m ms ih =>
    obtain ⟨ops, e⟩ := ih (mstep s m)
    exact ⟨expand s m ++ ops, by rw [steps_append]; exact e⟩

theorem BInv.okPrompt1 {s : State} (h : BInv s) : okPrompt1 s = true := by
  unfold Timers.okPrompt1
  rw [List.all_eq_true]
  intro τ hτ
  obtain ⟨i, hi⟩ := List.mem_iff_getElem?.mp hτ
  have hq := h.quiet i τ hi
  have ht := h.inv.tinv τ hτ
  have hm := h.minv.mt τ hτ
  have h2 : diesOk s τ = true := by
    unfold diesOk
    cases hc : s.target.closedAt with
    | none => rfl
    | some tc =>
      simp only
      by_cases hk : τ.kind = .interval ∧ τ.res = .pending
      · obtain ⟨hk, hp⟩ := hk
        obtain ⟨a, ha, hlt, hun⟩ := hq hp
        obtain ⟨c1, _⟩ := ht.closed tc hc (by simp [hk, Kind.sends])
        obtain ⟨cs, ca⟩ := c1 hp
        cases hpr : τ.primed with
        | false =>
          -- not yet past its first tick: created off the grid, gone at the next boundary
          have h0 := hun hk hpr
          have hac := hm.ac a ha
          subst hac
          simp only [wheelDeadline, Nat.add_zero] at h0
          simp [hk, hp, h0]
        | true =>
        have hatc := ca hk hpr a ha
        obtain ⟨_, _, hearly⟩ := ht.armed_ok a ha
        have hbase : a + τ.sentAt.length * τ.period ≤ tc := by
          cases hl : τ.sentAt.getLast? with
          | none =>
            have : τ.sentAt = [] := List.getLast?_eq_none_iff.mp hl
            simp [this]; exact hatc
          | some t =>
            have h1 := earlyOk_getLast _ _ hearly t (by simp [hl])
            have h2 := cs t (List.mem_of_getLast? hl)
            simp only [Nat.zero_add] at h1
            omega
        have hmono : τ.deadline a ≤ ceilMs (tc + τ.period) := by
          simp only [Timer.deadline, wheelDeadline]
          apply ceilMs_mono
          simp only [Nat.add_mul, Nat.one_mul]; omega
        have : s.now < ceilMs (tc + τ.period) := by omega
        simp [hk, hp, this]
      · have : (τ.kind == Kind.interval && τ.res == Res.pending) = false := by
          simp only [Bool.and_eq_false_iff, beq_eq_false_iff_ne, ne_eq]
          by_cases hk1 : τ.kind = .interval
          · exact .inr (fun hp => hk ⟨hk1, hp⟩)
          · exact .inl hk1
        simp [this]
  have h3 : (!(τ.kind.oneShot && τ.res == .pending) || decide (s.now < ceilMs (τ.created + τ.period))) = true := by
    by_cases hk : τ.kind.oneShot = true ∧ τ.res = .pending
    · obtain ⟨hk, hp⟩ := hk
      obtain ⟨a, ha, hlt⟩ := hq hp
      have hs : τ.sentAt = [] := (ht.shot hk).1 hp
      have := hm.ac a ha
      subst this
      simp only [Timer.deadline, wheelDeadline, hs, List.length_nil, Nat.zero_add, Nat.one_mul] at hlt
      simp [hlt]
    · have : (τ.kind.oneShot && τ.res == Res.pending) = false := by
        simp only [Bool.and_eq_false_iff, beq_eq_false_iff_ne, ne_eq]
        by_cases hk1 : τ.kind.oneShot = true
        · exact .inr (fun hp => hk ⟨hk1, hp⟩)
        · exact .inl (by simpa using hk1)
      simp [this]
  have h4 : (!(τ.kind == .interval && τ.period == 0 && τ.res == .pending)) = true := by
    by_cases hk : (τ.kind = .interval ∧ τ.period = 0) ∧ τ.res = .pending
    · obtain ⟨⟨hk, hz⟩, hp⟩ := hk
      obtain ⟨a, ha, _⟩ := hq hp
      have := ht.pos hk (by simp [ha])
      omega
    · have : (τ.kind == .interval && τ.period == 0 && τ.res == .pending) = false := by
        simp only [Bool.and_eq_false_iff, beq_eq_false_iff_ne, ne_eq]
        by_cases hk1 : τ.kind = .interval
        · by_cases hz : τ.period = 0
          · exact .inr (fun hp => hk ⟨⟨hk1, hz⟩, hp⟩)
          · exact .inl (.inr hz)
        · exact .inl (.inl hk1)
      simp [this]
  unfold timerPromptOk
  rw [hm.prompt, h2, h3, h4]; rfl

end Timers
