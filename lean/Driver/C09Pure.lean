import RactorModel.Model.CallResult
import Driver.Common

/-! Driver for the pure `CallResult` differential (`harness/hcore/src/bin/rpc_pure.rs`, model `c09pure`).

op   `cr <S<v>|T|E> <d> <add:k|mul:k|const:k> <e> <msg>`
impl `is=<s><t><e>; unwrap=<ok:v|panic:text>; expect=…; unwrap_or=v; unwrap_or_else=v/calls;
      success_or=<ok:v|err:e>; success_or_else=<ok:v|err:e>/calls; map=<S:v|T|E>; map_calls=n;
      map_or=v; map_or_else=v/dcalls/mcalls; to_err=<ok:Timeout|ok:ChannelClosed|panic:text>`

The model line is rendered from `CallRes.observe`; the oracle `CallRes.check` (first principles, no
comparison with the model) is evaluated on the implementation's line parsed back into an `Obs`. -/

namespace Driver.C09Pure
open Driver CallRes

def parseVariant? (s : String) : Option (CR Nat) :=
  if s == "T" then some .timeout
  else if s == "E" then some .senderError
  else if s.startsWith "S" then (s.drop 1).toString.toNat?.map CR.success
  else none

def parseFn? (s : String) : Option (Nat → Nat) :=
  match splitOnChar s ':' with
  | ["add", k] => k.toNat?.map fun k v => v + k
  | ["mul", k] => k.toNat?.map fun k v => v * k
  | ["const", k] => k.toNat?.map fun k _ => k
  | _ => none

def showExc (x : Except String Nat) : String :=
  match x with | .ok v => s!"ok:{v}" | .error m => s!"panic:{m}"
def showRes (x : Except Nat Nat) : String :=
  match x with | .ok v => s!"ok:{v}" | .error e => s!"err:{e}"
def showCR (x : CR Nat) : String :=
  match x with | .success v => s!"S:{v}" | .timeout => "T" | .senderError => "E"
def showErr (x : Except String RErr) : String :=
  match x with
  | .ok .timeout => "ok:Timeout"
  | .ok .channelClosed => "ok:ChannelClosed"
  | .error m => s!"panic:{m}"
def b01 (b : Bool) : String := if b then "1" else "0"

def render (o : Obs) : String :=
  "; ".intercalate
    [s!"is={b01 o.isS}{b01 o.isT}{b01 o.isE}", s!"unwrap={showExc o.unwrap}", s!"expect={showExc o.expect}",
     s!"unwrap_or={o.unwrapOr}", s!"unwrap_or_else={o.unwrapOrElse.1}/{o.unwrapOrElse.2}",
     s!"success_or={showRes o.successOr}", s!"success_or_else={showRes o.successOrElse.1}/{o.successOrElse.2}",
     s!"map={showCR o.map}", s!"map_calls={o.mapCalls}", s!"map_or={o.mapOr}",
     s!"map_or_else={o.mapOrElse.1}/{o.mapOrElse.2.1}/{o.mapOrElse.2.2}", s!"to_err={showErr o.toErr}"]

def parseExc? (s : String) : Option (Except String Nat) :=
  if s.startsWith "ok:" then (s.drop 3).toString.toNat?.map Except.ok
  else if s.startsWith "panic:" then some (.error (s.drop 6).toString)
  else none
def parseRes? (s : String) : Option (Except Nat Nat) :=
  if s.startsWith "ok:" then (s.drop 3).toString.toNat?.map Except.ok
  else if s.startsWith "err:" then (s.drop 4).toString.toNat?.map Except.error
  else none
def parseCR? (s : String) : Option (CR Nat) :=
  if s == "T" then some .timeout else if s == "E" then some .senderError
  else if s.startsWith "S:" then (s.drop 2).toString.toNat?.map CR.success else none
def parseErr? (s : String) : Option (Except String RErr) :=
  if s == "ok:Timeout" then some (.ok .timeout)
  else if s == "ok:ChannelClosed" then some (.ok .channelClosed)
  else if s.startsWith "panic:" then some (.error (s.drop 6).toString)
  else none
def nats? (s : String) : Option (List Nat) := (splitOnChar s '/').mapM (·.toNat?)

/-- the implementation's line, back into an `Obs` -/
def parseObs? (line : String) : Option Obs := do
  let fields := (line.splitOn "; ").map fun f =>
    match f.splitOn "=" with
    | k :: rest => (k, "=".intercalate rest)
    | [] => ("", "")
  let get := fun (k : String) => (fields.find? (·.1 == k)).map (·.2)
  let flags ← get "is"
  let fl := flags.toList
  guard (fl.length == 3 && fl.all fun c => c == '0' || c == '1')
  let bit := fun (i : Nat) => fl[i]? == some '1'
  let uoe ← (← get "unwrap_or_else") |> nats?
  let sor := (← get "success_or_else").splitOn "/"
  let moe ← (← get "map_or_else") |> nats?
  match uoe, sor, moe with
  | [u1, u2], [s1, s2], [m1, m2, m3] =>
    pure { isS := bit 0, isT := bit 1, isE := bit 2,
           unwrap := ← parseExc? (← get "unwrap"), expect := ← parseExc? (← get "expect"),
           unwrapOr := ← (← get "unwrap_or").toNat?, unwrapOrElse := (u1, u2),
           successOr := ← parseRes? (← get "success_or"),
           successOrElse := (← parseRes? s1, ← s2.toNat?),
           map := ← parseCR? (← get "map"), mapCalls := ← (← get "map_calls").toNat?,
           mapOr := ← (← get "map_or").toNat?, mapOrElse := (m1, m2, m3),
           toErr := ← parseErr? (← get "to_err") }
  | _, _, _ => none

def step (st : Unit) (op impl : String) : Unit × StepOut :=
  match words op with
  | ["cr", v, d, f, e, msg] =>
    match parseVariant? v, d.toNat?, parseFn? f, e.toNat? with
    | some r, some d, some f, some e =>
      let o := observe r d f e msg
      let bad := match parseObs? impl with
        | some io => check r d f e io
        | none => ["c09.callresult-unparsable"]
      (st, { model := render o, oracle := bad, nontrivial := true })
    | _, _, _, _ => (st, { model := "bad-op" })
  | _ => (st, { model := "bad-op" })

def run (ops impl : Array String) : IO Tally := replay () step ops impl

end Driver.C09Pure
