#check @Nat.and_two_pow
#check @Nat.and_two_pow_sub_one_eq_mod
#check @Nat.testBit_eq_decide_div_mod_eq
#check @Nat.or_two_pow
#check @Nat.two_pow_add_eq_or_of_lt
#check @Nat.testBit_two_pow_add_eq
#check @Nat.testBit_two_pow_add_gt
#check @Nat.eq_of_testBit_eq
#check @Nat.testBit_or
#check @Nat.testBit_two_pow
#check @Nat.testBit_lt_two_pow
example : Rust.shl 64 1 (Rust.wSub 32 64 1) = 2^63 := by decide
