import RactorModel.Model.Spawn

/-! Invariant for the spawn-failure model (C08). -/

namespace Spawn

/-- an actor that lifecycle events may refer to: it got past its start and did not fail it -/
def Ref (A : List Actor) (c : Nat) : Prop :=
  ∃ x, A[c]? = some x ∧ x.phase ≠ .starting ∧ x.failedStart = false

def Clean (x : Actor) : Prop :=
  x.phase = .stopped ∧ x.groups = [] ∧ x.monitors = [] ∧ x.linked = false ∧ x.mailbox = [] ∧
  x.casts = 0 ∧ x.handled = 0 ∧ x.pending = []

structure Good (s : S) : Prop where
  clean : ∀ (a : Nat) (x : Actor), s.actors[a]? = some x → x.failedStart = true → Clean x
  names : ∀ nv ∈ s.names, ∃ x, s.actors[nv.2]? = some x ∧ x.phase ≠ .stopped
  evs : ∀ e ∈ s.events, Ref s.actors e.2.1
  pend : ∀ (b : Nat) (y : Actor), s.actors[b]? = some y → ∀ ce ∈ y.pending, Ref s.actors ce.1
  fresh : ∀ (a : Nat) (x : Actor), s.actors[a]? = some x → x.phase = .starting →
            x.handled = 0 ∧ x.failedStart = false

theorem good_init : Good init := by
  refine ⟨?_, ?_, ?_, ?_, ?_⟩ <;> intros <;> simp_all [init]

theorem getElem?_setActor (s : S) (a : Nat) (f : Actor → Actor) (b : Nat) :
    (setActor s a f).actors[b]? = (s.actors[b]?).map (fun x => if a = b then f x else x) := by
  simp [setActor, List.getElem?_modify, Functor.map]

theorem ref_modify {A : List Actor} {c : Nat} (h : Ref A c) (a : Nat) (f : Actor → Actor)
    (hph : ∀ x, (f x).phase = .starting → x.phase = .starting)
    (hfl : ∀ x, (f x).failedStart = true → x.failedStart = true) : Ref (A.modify a f) c := by
  obtain ⟨x, hx, h1, h2⟩ := h
  by_cases hac : a = c
  · subst hac
    refine ⟨f x, by simp [List.getElem?_modify_eq, hx, Functor.map], fun hs => h1 (hph x hs), ?_⟩
    cases hf : (f x).failedStart with
    | false => rfl
    | true => rw [hfl x hf] at h2; cases h2
  · exact ⟨x, by rw [List.getElem?_modify_ne _ _ hac]; exact hx, h1, h2⟩

theorem ref_append {A : List Actor} {c : Nat} (h : Ref A c) (l : List Actor) : Ref (A ++ l) c := by
  obtain ⟨x, hx, h1, h2⟩ := h
  exact ⟨x, by rw [List.getElem?_append_left (List.getElem?_eq_some_iff.mp hx).1]; exact hx, h1, h2⟩

/-- Updating one actor with a function that keeps `failedStart`, never moves the phase to
`starting`, keeps (or leaves) `stopped` only where no name points, and re-establishes the local
clauses, keeps `Good`. -/
theorem good_setActor {s : S} (h : Good s) (a : Nat) (f : Actor → Actor)
    (hfl : ∀ x, (f x).failedStart = x.failedStart)
    (hph : ∀ x, (f x).phase = .starting → x.phase = .starting)
    (hstop : ∀ x, s.actors[a]? = some x → (f x).phase = .stopped → x.phase = .stopped ∨ ∀ nv ∈ s.names, nv.2 ≠ a)
    (hclean : ∀ x, s.actors[a]? = some x → x.failedStart = true → Clean (f x))
    (hpend : ∀ x, s.actors[a]? = some x → ∀ ce ∈ (f x).pending, ce ∈ x.pending ∨ Ref s.actors ce.1)
    (hfresh : ∀ x, s.actors[a]? = some x → (f x).phase = .starting → (f x).handled = 0) :
    Good (setActor s a f) := by
  have hrefm : ∀ c, Ref s.actors c → Ref (setActor s a f).actors c := fun c hc =>
    ref_modify hc a f hph (fun x hx => by rw [hfl] at hx; exact hx)
  refine ⟨?_, ?_, ?_, ?_, ?_⟩
  · intro b y hy hf
    rw [getElem?_setActor] at hy
    cases hb : s.actors[b]? with
    | none => rw [hb] at hy; cases hy
    | some x =>
      rw [hb] at hy; simp only [Option.map_some, Option.some.injEq] at hy; subst hy
      by_cases hab : a = b
      · subst hab; simp only [if_true] at hf ⊢
        rw [hfl] at hf; exact hclean x hb hf
      · simp only [hab, if_false] at hf ⊢; exact h.clean b x hb hf
  · intro nv hnv
    obtain ⟨x, hx, hne⟩ := h.names nv hnv
    rw [getElem?_setActor, hx]
    by_cases hab : a = nv.2
    · refine ⟨f x, by simp [hab], ?_⟩
      intro hs
      rcases hstop x (hab ▸ hx) hs with h1 | h1
      · exact hne h1
      · exact h1 nv hnv hab.symm
    · exact ⟨x, by simp [hab], hne⟩
  · intro e he; exact hrefm _ (h.evs e he)
  · intro b y hy ce hce
    rw [getElem?_setActor] at hy
    cases hb : s.actors[b]? with
    | none => rw [hb] at hy; cases hy
    | some x =>
      rw [hb] at hy; simp only [Option.map_some, Option.some.injEq] at hy; subst hy
      by_cases hab : a = b
      · subst hab; simp only [if_true] at hce
        rcases hpend x hb ce hce with h1 | h1
        · exact hrefm _ (h.pend a x hb ce h1)
        · exact hrefm _ h1
      · simp only [hab, if_false] at hce
        exact hrefm _ (h.pend b x hb ce hce)
  · intro b y hy hs
    rw [getElem?_setActor] at hy
    cases hb : s.actors[b]? with
    | none => rw [hb] at hy; cases hy
    | some x =>
      rw [hb] at hy; simp only [Option.map_some, Option.some.injEq] at hy; subst hy
      by_cases hab : a = b
      · subst hab; simp only [if_true] at hs ⊢
        have hxs := hph x hs
        exact ⟨hfresh x hb hs, by rw [hfl]; exact (h.fresh a x hb hxs).2⟩
      · simp only [hab, if_false] at hs ⊢; exact h.fresh b x hb hs

end Spawn

namespace Spawn

/-- `Good` does not depend on ports; names may shrink. -/
theorem good_of_same_actors {s s' : S} (h : Good s) (ha : s'.actors = s.actors) (he : s'.events = s.events)
    (hn : ∀ nv ∈ s'.names, nv ∈ s.names) : Good s' := by
  refine ⟨?_, ?_, ?_, ?_, ?_⟩
  · intro a x hx; rw [ha] at hx; exact h.clean a x hx
  · intro nv hnv; rw [ha]; exact h.names nv (hn nv hnv)
  · intro e he'; rw [ha]; rw [he] at he'; exact h.evs e he'
  · intro b y hy; rw [ha] at hy ⊢; exact h.pend b y hy
  · intro a x hx; rw [ha] at hx; exact h.fresh a x hx

theorem good_release {s : S} (h : Good s) (c : Nat) : Good (release s c) := by
  unfold release
  cases hc : s.actors[c]? with
  | none => exact h
  | some x =>
    simp only
    have h1 : Good ({ s with
        names := s.names.filter (fun nv => nv.2 != c),
        ports := (List.zip (List.range s.ports.length) s.ports).map (fun ip =>
          if x.mailbox.contains ip.1 && ip.2 == .waiting then PortSt.senderError else ip.2) } : S) :=
      good_of_same_actors h rfl rfl (fun nv hnv => (List.mem_filter.mp hnv).1)
    refine good_setActor h1 c _ (fun _ => rfl) (fun _ hs => by cases hs) ?_ ?_ ?_ ?_
    · intro y _ _
      right
      intro nv hnv
      have := (List.mem_filter.mp hnv).2
      simpa using this
    · intro y hy hf
      have hcl := h.clean c y hy hf
      exact ⟨rfl, rfl, rfl, rfl, rfl, rfl, hcl.2.2.2.2.2.2.1, rfl⟩
    · intro y _ ce hce; simp at hce
    · intro y _ hs; cases hs

/-- what `release`/`killSubtree` never do: add events, touch `handled`/`failedStart`, add pending -/
structure Frame (s s' : S) : Prop where
  events : s'.events = s.events
  len : s'.actors.length = s.actors.length
  actors : ∀ (b : Nat) (y' : Actor), s'.actors[b]? = some y' →
      ∃ y, s.actors[b]? = some y ∧ y'.handled = y.handled ∧
        (y.phase ≠ .starting → y'.failedStart = y.failedStart) ∧
        (∀ ce ∈ y'.pending, ce ∈ y.pending) ∧ (y'.phase = .starting → y.phase = .starting)

theorem Frame.refl (s : S) : Frame s s := ⟨rfl, rfl, fun b y h => ⟨y, h, rfl, fun _ => rfl, fun _ h => h, fun h => h⟩⟩

theorem Frame.trans {s s' s'' : S} (h1 : Frame s s') (h2 : Frame s' s'') : Frame s s'' := by
  refine ⟨h2.events.trans h1.events, h2.len.trans h1.len, ?_⟩
  intro b y'' hy''
  obtain ⟨y', hy', a1, a2, a3, a4⟩ := h2.actors b y'' hy''
  obtain ⟨y, hy, b1, b2, b3, b4⟩ := h1.actors b y' hy'
  exact ⟨y, hy, a1.trans b1, fun hns => (a2 (fun h => hns (b4 h))).trans (b2 hns),
    fun ce hce => b3 ce (a3 ce hce), fun h => b4 (a4 h)⟩

theorem frame_release (s : S) (c : Nat) : Frame s (release s c) := by
  unfold release
  cases hc : s.actors[c]? with
  | none => exact Frame.refl s
  | some x =>
    simp only
    refine ⟨rfl, by simp [setActor], ?_⟩
    intro b y' hy'
    rw [getElem?_setActor] at hy'
    simp only at hy'
    cases hb : s.actors[b]? with
    | none => rw [hb] at hy'; cases hy'
    | some y =>
      rw [hb] at hy'; simp only [Option.map_some, Option.some.injEq] at hy'; subst hy'
      refine ⟨y, rfl, ?_, ?_, ?_, ?_⟩ <;> by_cases hcb : c = b <;> simp [hcb]

/-- marking a clean, unreferenced actor as a failed start keeps `Good` -/
theorem good_markFailed {s : S} (h : Good s) (a : Nat) (x : Actor) (hx : s.actors[a]? = some x)
    (hcl : Clean x) (hev : ∀ e ∈ s.events, e.2.1 ≠ a)
    (hpe : ∀ (b : Nat) (y : Actor), s.actors[b]? = some y → ∀ ce ∈ y.pending, ce.1 ≠ a) :
    Good (setActor s a (fun x => { x with failedStart := true })) := by
  have href : ∀ c, c ≠ a → Ref s.actors c → Ref (setActor s a (fun x => { x with failedStart := true })).actors c := by
    intro c hca ⟨y, hy, h1, h2⟩
    exact ⟨y, by rw [getElem?_setActor, hy]; simp [Ne.symm hca], h1, h2⟩
  refine ⟨?_, ?_, ?_, ?_, ?_⟩
  · intro b y hy hf
    rw [getElem?_setActor] at hy
    cases hb : s.actors[b]? with
    | none => rw [hb] at hy; cases hy
    | some y0 =>
      rw [hb] at hy; simp only [Option.map_some, Option.some.injEq] at hy; subst hy
      by_cases hab : a = b
      · subst hab; rw [hx] at hb; cases hb; simpa [Clean] using hcl
      · simp only [hab, if_false] at hf ⊢; exact h.clean b y0 hb hf
  · intro nv hnv
    obtain ⟨y, hy, hne⟩ := h.names nv hnv
    rw [getElem?_setActor, hy]
    by_cases hab : a = nv.2 <;> simp [hab, hne]
  · intro e he; exact href _ (hev e he) (h.evs e he)
  · intro b y hy ce hce
    rw [getElem?_setActor] at hy
    cases hb : s.actors[b]? with
    | none => rw [hb] at hy; cases hy
    | some y0 =>
      rw [hb] at hy; simp only [Option.map_some, Option.some.injEq] at hy; subst hy
      have hce' : ce ∈ y0.pending := by by_cases hab : a = b <;> simpa [hab] using hce
      exact href _ (hpe b y0 hb ce hce') (h.pend b y0 hb ce hce')
  · intro b y hy hs
    rw [getElem?_setActor] at hy
    cases hb : s.actors[b]? with
    | none => rw [hb] at hy; cases hy
    | some y0 =>
      rw [hb] at hy; simp only [Option.map_some, Option.some.injEq] at hy; subst hy
      by_cases hab : a = b
      · subst hab; rw [hx] at hb; cases hb
        simp only [if_true] at hs
        rw [hcl.1] at hs; cases hs
      · simp only [hab, if_false] at hs ⊢; exact h.fresh b y0 hb hs

end Spawn

namespace Spawn

theorem isStarting_iff {s : S} {a : Nat} : isStarting s a = true ↔ ∃ x, s.actors[a]? = some x ∧ x.phase = .starting := by
  unfold isStarting
  cases s.actors[a]? with
  | none => simp
  | some x => simp

theorem not_ref_of_starting {A : List Actor} {a : Nat} {x : Actor} (hx : A[a]? = some x)
    (hs : x.phase = .starting) : ¬ Ref A a := by
  rintro ⟨y, hy, h1, _⟩
  rw [hx] at hy; cases hy; exact h1 hs

/-- the guard cleanup of an actor that was still starting in `s`, performed in a later state
`s1` reached by steps that only release other actors -/
theorem good_fail_after {s : S} (h : Good s) (a : Nat) (hst : isStarting s a = true) (s1 : S)
    (hg1 : Good s1) (hf1 : Frame s s1) :
    Good (setActor (release s1 a) a (fun x => { x with failedStart := true })) := by
  obtain ⟨x, hx, hxs⟩ := isStarting_iff.mp hst
  have hg2 : Good (release s1 a) := good_release hg1 a
  have hf2 : Frame s (release s1 a) := hf1.trans (frame_release s1 a)
  -- nobody refers to `a`: it was still starting in `s`
  have hnoref := not_ref_of_starting hx hxs
  -- the record of `a` after release
  cases hx2 : (release s1 a).actors[a]? with
  | none =>
    -- impossible: frames keep the length of the actor list
    exfalso
    have hlt : a < s.actors.length := (List.getElem?_eq_some_iff.mp hx).1
    have : a < (release s1 a).actors.length := by rw [hf2.len]; exact hlt
    rw [List.getElem?_eq_none_iff] at hx2
    omega
  | some x2 =>
    obtain ⟨y, hy, hh, _, hpe, _⟩ := hf2.actors a x2 hx2
    rw [hx] at hy; cases hy
    have hfresh := h.fresh a x hx hxs
    -- x2 is clean: release set every field, `handled` is untouched and was 0
    have hcl : Clean x2 := by
      unfold release at hx2
      cases hc : s1.actors[a]? with
      | none =>
        simp only [hc] at hx2
        cases hx2
      | some z =>
        simp only [hc] at hx2
        rw [getElem?_setActor] at hx2
        simp only [hc, Option.map_some, if_true, Option.some.injEq] at hx2
        subst hx2
        exact ⟨rfl, rfl, rfl, rfl, rfl, rfl, by simpa using hh.trans hfresh.1, rfl⟩
    refine good_markFailed hg2 a x2 hx2 hcl ?_ ?_
    · intro e he heq
      rw [hf2.events] at he
      exact hnoref (heq ▸ h.evs e he)
    · intro b y' hy' ce hce heq
      obtain ⟨y0, hy0, _, _, hsub, _⟩ := hf2.actors b y' hy'
      exact hnoref (heq ▸ h.pend b y0 hy0 ce (hsub ce hce))

theorem frame_killChild (s : S) (c : Nat) : Frame s (killChild s c) := by
  unfold killChild
  split
  · rename_i hst
    obtain ⟨x, hx, hxs⟩ := isStarting_iff.mp hst
    have hf := frame_release s c
    refine ⟨hf.events, by simpa [setActor] using hf.len, ?_⟩
    intro b y' hy'
    rw [getElem?_setActor] at hy'
    cases hb : (release s c).actors[b]? with
    | none => rw [hb] at hy'; cases hy'
    | some z =>
      rw [hb] at hy'; simp only [Option.map_some, Option.some.injEq] at hy'; subst hy'
      obtain ⟨y, hy, h1, h2, h3, h4⟩ := hf.actors b z hb
      by_cases hcb : c = b
      · subst hcb
        rw [hx] at hy; cases hy
        exact ⟨x, hx, by simpa using h1, fun hns => absurd hxs hns, by simpa using h3, by simpa using h4⟩
      · exact ⟨y, hy, by simpa [hcb] using h1, fun hns => by simpa [hcb] using h2 hns,
          by simpa [hcb] using h3, by simpa [hcb] using h4⟩
  · exact frame_release s c

theorem good_killChild {s : S} (h : Good s) (c : Nat) : Good (killChild s c) := by
  unfold killChild
  split
  · rename_i hst; exact good_fail_after h c hst s h (Frame.refl s)
  · exact good_release h c

theorem good_killChildren {s : S} (h : Good s) (kids : List Nat) : Good (killChildren s kids) := by
  unfold killChildren
  induction kids generalizing s with
  | nil => exact h
  | cons k rest ih => exact ih (good_killChild h k)

theorem frame_killChildren (s : S) (kids : List Nat) : Frame s (killChildren s kids) := by
  unfold killChildren
  induction kids generalizing s with
  | nil => exact Frame.refl s
  | cons k rest ih => exact (frame_killChild s k).trans (ih _)

theorem good_killSubtree {s : S} (h : Good s) (fuel : Nat) (l : List Nat) : Good (killSubtree fuel s l) := by
  induction fuel generalizing s l with
  | zero => simpa [killSubtree] using h
  | succ n ih =>
    cases l with
    | nil => simpa [killSubtree] using h
    | cons c rest => simp only [killSubtree]; exact ih (good_killChildren h _) _

theorem frame_killSubtree (s : S) (fuel : Nat) (l : List Nat) : Frame s (killSubtree fuel s l) := by
  induction fuel generalizing s l with
  | zero => simpa [killSubtree] using Frame.refl s
  | succ n ih =>
    cases l with
    | nil => simpa [killSubtree] using Frame.refl s
    | cons c rest => simp only [killSubtree]; exact (frame_killChildren s _).trans (ih _ _)

/-! ### fuel of `killSubtree` -/

/-- number of cells that are linked under some supervisor -/
def linkedCount (s : S) : Nat := s.actors.countP (·.linked)

theorem countP_modify_unlink (l : List Actor) (k : Nat) (g : Actor → Actor) (hg : ∀ x, (g x).linked = false)
    (x : Actor) (hx : l[k]? = some x) (hl : x.linked = true) :
    (l.modify k g).countP (·.linked) + 1 = l.countP (·.linked) := by
  induction l generalizing k with
  | nil => simp at hx
  | cons a t ih =>
    cases k with
    | zero =>
      simp only [List.getElem?_cons_zero, Option.some.injEq] at hx
      subst hx
      simp [List.modify_zero_cons, List.countP_cons, hg, hl]
    | succ k =>
      simp only [List.getElem?_cons_succ] at hx
      have := ih k hx
      simp only [List.modify_succ_cons, List.countP_cons]
      omega

/-- what `release` does to the record of the released cell / the failed-start flag -/
def relF (x : Actor) : Actor :=
  { x with phase := .stopped, groups := [], monitors := [], mailbox := [], casts := 0, linked := false, pending := [] }
def flagF (x : Actor) : Actor := { x with failedStart := true }

/-- a killed cell: only its own record changes, and it is linked nowhere afterwards -/
theorem killChild_actors (s : S) (c : Nat) :
    ∃ g : Actor → Actor, (∀ x, (g x).linked = false) ∧ (killChild s c).actors = s.actors.modify c g := by
  unfold killChild release
  cases hc : s.actors[c]? with
  | none =>
    refine ⟨fun x => { x with linked := false }, fun _ => rfl, ?_⟩
    have hlen : s.actors.length ≤ c := by
      rcases Nat.lt_or_ge c s.actors.length with h | h
      · rw [List.getElem?_eq_getElem h] at hc; cases hc
      · exact h
    have hnm : s.actors.modify c (fun x => { x with linked := false }) = s.actors := by
      apply List.ext_getElem?
      intro i
      rw [List.getElem?_modify]
      by_cases hi : c = i
      · subst hi; simp [hc]
      · simp [hi]
    simp only [isStarting, hc, hnm]
    simp
  | some x =>
    simp only
    split
    · refine ⟨fun y => flagF (relF y), fun _ => rfl, ?_⟩
      simp [setActor, List.modify_modify_eq, Function.comp_def, flagF, relF]
    · refine ⟨relF, fun _ => rfl, ?_⟩
      simp only [setActor]
      rfl

theorem killChild_other (s : S) (c k : Nat) (h : c ≠ k) : (killChild s c).actors[k]? = s.actors[k]? := by
  obtain ⟨g, _, hg⟩ := killChild_actors s c
  rw [hg, List.getElem?_modify_ne _ _ h]

theorem linkedCount_killChild (s : S) (c : Nat) (x : Actor) (hx : s.actors[c]? = some x) (hl : x.linked = true) :
    linkedCount (killChild s c) + 1 = linkedCount s := by
  obtain ⟨g, hg1, hg2⟩ := killChild_actors s c
  unfold linkedCount
  rw [hg2]
  exact countP_modify_unlink _ c g hg1 x hx hl

/-- killing `kids` (distinct, all linked) lowers the number of linked cells by exactly `|kids|` -/
theorem linkedCount_killChildren (kids : List Nat) : ∀ s : S, kids.Nodup →
    (∀ k ∈ kids, ∃ x, s.actors[k]? = some x ∧ x.linked = true) →
    linkedCount (killChildren s kids) + kids.length = linkedCount s := by
  induction kids with
  | nil => intro s _ _; simp [killChildren]
  | cons k rest ih =>
    intro s hnd hall
    obtain ⟨x, hx, hl⟩ := hall k (by simp)
    have h1 := linkedCount_killChild s k x hx hl
    have hnd' := (List.nodup_cons.mp hnd)
    have h2 := ih (killChild s k) hnd'.2 (fun k' hk' => by
      obtain ⟨y, hy, hyl⟩ := hall k' (by simp [hk'])
      refine ⟨y, ?_, hyl⟩
      rw [killChild_other s k k' (fun h => hnd'.1 (h ▸ hk'))]; exact hy)
    simp only [killChildren, List.foldl_cons, List.length_cons] at h2 ⊢
    omega

theorem childrenOf_nodup (s : S) (c : Nat) : (childrenOf s c).Nodup := by
  unfold childrenOf
  exact List.Pairwise.filter _ List.nodup_range

theorem childrenOf_linked (s : S) (c k : Nat) (hk : k ∈ childrenOf s c) :
    ∃ x, s.actors[k]? = some x ∧ x.linked = true := by
  unfold childrenOf at hk
  rw [List.mem_filter] at hk
  cases hx : s.actors[k]? with
  | none => rw [hx] at hk; simp at hk
  | some x =>
    rw [hx] at hk
    have h2 := hk.2
    simp only [Bool.and_eq_true] at h2
    exact ⟨x, rfl, h2.1⟩

/-- **Fuel sufficiency.** `#linked cells + |worklist|` steps are enough: more fuel changes nothing.
(Every pop takes children that are linked at that moment and kills = detaches them at once, so no
cell is pushed twice and the potential `linkedCount + |worklist|` drops by one per pop.) -/
theorem killSubtree_fuel (f : Nat) : ∀ (s : S) (l : List Nat), linkedCount s + l.length ≤ f →
    killSubtree (f + 1) s l = killSubtree f s l := by
  induction f with
  | zero =>
    intro s l h
    have : l = [] := by cases l with | nil => rfl | cons _ _ => simp at h
    subst this; simp [killSubtree]
  | succ n ih =>
    intro s l h
    cases l with
    | nil => simp [killSubtree]
    | cons c rest =>
      simp only [killSubtree]
      apply ih
      have := linkedCount_killChildren (childrenOf s c) s (childrenOf_nodup s c) (childrenOf_linked s c)
      simp only [List.length_append, List.length_cons] at h ⊢
      omega

theorem killSubtree_fuel_add (k : Nat) : ∀ (f : Nat) (s : S) (l : List Nat), linkedCount s + l.length ≤ f →
    killSubtree (f + k) s l = killSubtree f s l := by
  induction k with
  | zero => intro f s l _; rfl
  | succ k ih =>
    intro f s l h
    rw [show f + (k + 1) = (f + k) + 1 from by omega, killSubtree_fuel (f + k) s l (by omega)]
    exact ih f s l h

theorem linkedCount_le (s : S) : linkedCount s ≤ s.actors.length := List.countP_le_length

theorem good_failStart {s : S} (h : Good s) (a : Nat) (hst : isStarting s a = true) : Good (failStart s a) := by
  unfold failStart
  simp only
  exact good_fail_after h a hst _ (good_killSubtree h _ _) (frame_killSubtree s _ _)

end Spawn

namespace Spawn

theorem good_add_events {s : S} (h : Good s) (new : List (Nat × Nat × Ev)) (ports : List PortSt)
    (hnew : ∀ e ∈ new, Ref s.actors e.2.1) : Good { s with events := s.events ++ new, ports := ports } := by
  refine ⟨h.clean, h.names, ?_, h.pend, h.fresh⟩
  intro e he
  rcases List.mem_append.mp he with h1 | h1
  · exact h.evs e h1
  · exact hnew e h1

theorem good_pushEvent {s : S} (h : Good s) (p c : Nat) (e : Ev) (hc : Ref s.actors c) :
    Good (pushEvent s p c e) := by
  unfold pushEvent
  cases hp : s.actors[p]? with
  | none => exact h
  | some x =>
    simp only
    split
    · have := good_add_events h [(p, c, e)] s.ports (by intro e' he'; simp at he'; subst he'; exact hc)
      exact this
    · split
      · rename_i hst
        have hxs : x.phase = .starting := by simpa using hst
        have hfr := h.fresh p x hp hxs
        refine good_setActor h p _ (fun _ => rfl) (fun _ h => h) (fun _ _ h => Or.inl h) ?_ ?_ ?_
        · intro y hy hf; rw [hp] at hy; cases hy; rw [hfr.2] at hf; cases hf
        · intro y hy ce hce
          simp only [List.mem_append, List.mem_singleton] at hce
          rcases hce with h1 | h1
          · exact Or.inl h1
          · subst h1; exact Or.inr hc
        · intro y hy _; rw [hp] at hy; cases hy; exact hfr.1
      · exact h

theorem good_becomeRunning {s : S} (h : Good s) (a : Nat) (linked : Bool) (hst : isStarting s a = true) :
    Good (becomeRunning s a linked) ∧ Ref (becomeRunning s a linked).actors a := by
  obtain ⟨x, hx, hxs⟩ := isStarting_iff.mp hst
  have hfr := h.fresh a x hx hxs
  unfold becomeRunning Ref
  simp only [hx]
  have h1 := good_add_events h (x.pending.map (fun ce => (a, ce.1, ce.2)))
    ((List.zip (List.range s.ports.length) s.ports).map (fun ip =>
        if x.mailbox.contains ip.1 && ip.2 == .waiting then PortSt.replied else ip.2))
    (by
      intro e he
      obtain ⟨ce, hce, rfl⟩ := List.mem_map.mp he
      exact h.pend a x hx ce hce)
  constructor
  · refine good_setActor h1 a _ (fun _ => rfl) (fun _ h => by cases h) (fun _ _ h => by cases h) ?_ ?_ ?_
    · intro y hy hf
      have : y = x := by
        have : s.actors[a]? = some y := hy
        rw [hx] at this; exact (Option.some.inj this).symm
      subst this; rw [hfr.2] at hf; cases hf
    · intro y _ ce hce; simp at hce
    · intro y _ hs; cases hs
  · rw [getElem?_setActor]
    simp only [hx, Option.map_some, if_true]
    exact ⟨_, rfl, by simp, hfr.2⟩

theorem good_exitRunning {s : S} (h : Good s) (a : Nat) (e : Ev)
    (hrun : ∃ x, s.actors[a]? = some x ∧ x.phase = .running) : Good (exitRunning s a e) := by
  obtain ⟨x, hx, hxr⟩ := hrun
  unfold exitRunning
  simp only [hx]
  generalize hs1 : killSubtree (s.actors.length + 1) s [a] = s1
  have hg1 : Good s1 := hs1 ▸ good_killSubtree h _ _
  have hf1 : Frame s s1 := hs1 ▸ frame_killSubtree s _ _
  -- `a` is still referable in s1
  have hfail : x.failedStart = false := by
    cases hf : x.failedStart with
    | false => rfl
    | true => have := (h.clean a x hx hf).1; rw [hxr] at this; cases this
  have href : Ref s1.actors a := by
    have hlt : a < s1.actors.length := by rw [hf1.len]; exact (List.getElem?_eq_some_iff.mp hx).1
    obtain ⟨x1, hx1⟩ : ∃ x1, s1.actors[a]? = some x1 := ⟨s1.actors[a], List.getElem?_eq_getElem hlt⟩
    obtain ⟨y, hy, _, hfl, _, hph⟩ := hf1.actors a x1 hx1
    rw [hx] at hy; cases hy
    refine ⟨x1, hx1, fun hs => ?_, (hfl (by rw [hxr]; simp)).trans hfail⟩
    have := hph hs; rw [hxr] at this; cases this
  apply good_release
  split
  · exact good_pushEvent hg1 _ a e href
  · exact hg1

theorem good_append {s : S} (h : Good s) (y : Actor) (names' : List (Nat × Nat))
    (hy1 : y.failedStart = true → Clean y) (hy2 : y.pending = [])
    (hy3 : y.phase = .starting → y.handled = 0 ∧ y.failedStart = false)
    (hn : ∀ nv ∈ names', nv ∈ s.names ∨ (nv.2 = s.actors.length ∧ y.phase ≠ .stopped)) :
    Good { s with actors := s.actors ++ [y], names := names' } := by
  have hget : ∀ (b : Nat) (z : Actor), (s.actors ++ [y])[b]? = some z → s.actors[b]? = some z ∨ (b = s.actors.length ∧ z = y) := by
    intro b z hz
    rw [List.getElem?_append] at hz
    split at hz
    · exact Or.inl hz
    · right
      have hm := List.mem_of_getElem? hz
      simp only [List.mem_singleton] at hm
      have hb : b - s.actors.length < 1 := by
        have := (List.getElem?_eq_some_iff.mp hz).1; simpa using this
      exact ⟨by omega, hm⟩
  refine ⟨?_, ?_, ?_, ?_, ?_⟩
  · intro b z hz hf
    rcases hget b z hz with h1 | ⟨_, rfl⟩
    · exact h.clean b z h1 hf
    · exact hy1 hf
  · intro nv hnv
    rcases hn nv hnv with h1 | ⟨h1, h2⟩
    · obtain ⟨x, hx, hne⟩ := h.names nv h1
      exact ⟨x, by rw [List.getElem?_append_left (List.getElem?_eq_some_iff.mp hx).1]; exact hx, hne⟩
    · exact ⟨y, by rw [h1, List.getElem?_append_right (Nat.le_refl _)]; simp, h2⟩
  · intro e he; exact ref_append (h.evs e he) _
  · intro b z hz ce hce
    rcases hget b z hz with h1 | ⟨_, rfl⟩
    · exact ref_append (h.pend b z h1 ce hce) _
    · rw [hy2] at hce; simp at hce
  · intro b z hz hs
    rcases hget b z hz with h1 | ⟨_, rfl⟩
    · exact h.fresh b z h1 hs
    · exact hy3 hs

end Spawn

namespace Spawn

/-- a field update on an actor that is still starting (no phase / failedStart / pending / handled change) -/
theorem good_touch_starting {s : S} (h : Good s) (a : Nat) (hst : isStarting s a = true) (f : Actor → Actor)
    (h1 : ∀ x, (f x).failedStart = x.failedStart) (h2 : ∀ x, (f x).phase = x.phase)
    (h3 : ∀ x, (f x).pending = x.pending) (h4 : ∀ x, (f x).handled = x.handled) :
    Good (setActor s a f) := by
  obtain ⟨x, hx, hxs⟩ := isStarting_iff.mp hst
  have hfr := h.fresh a x hx hxs
  refine good_setActor h a f h1 (fun y hy => by rw [h2] at hy; exact hy)
    (fun y _ hy => by rw [h2] at hy; exact Or.inl hy) ?_ ?_ ?_
  · intro y hy hf; rw [hx] at hy; cases hy; rw [hfr.2] at hf; cases hf
  · intro y _ ce hce; rw [h3] at hce; exact Or.inl hce
  · intro y hy _; rw [hx] at hy; cases hy; rw [h4]; exact hfr.1

theorem good_ports {s : S} (h : Good s) (ports : List PortSt) : Good { s with ports := ports } :=
  good_of_same_actors h rfl rfl (fun _ h => h)

theorem good_step {s : S} (h : Good s) (op : Op) : Good (step s op) := by
  cases op with
  | «begin» name sup =>
    cases name with
    | none =>
      simp only [step, Bool.false_eq_true, if_false]
      exact good_append h _ _ (fun hf => by cases hf) rfl (fun _ => ⟨rfl, rfl⟩) (fun nv hnv => Or.inl hnv)
    | some n =>
      simp only [step]
      split
      · exact good_append h _ s.names (fun _ => ⟨rfl, rfl, rfl, rfl, rfl, rfl, rfl, rfl⟩) rfl
          (fun hs => by simp at hs) (fun nv hnv => Or.inl hnv)
      · refine good_append h _ _ (fun hf => by cases hf) rfl (fun _ => ⟨rfl, rfl⟩) ?_
        intro nv hnv
        simp only [List.mem_append, List.mem_singleton] at hnv
        rcases hnv with h1 | h1
        · exact Or.inl h1
        · subst h1; exact Or.inr ⟨rfl, by simp⟩
  | beginTL name sup =>
    simp only [step]
    generalize clashes s name = clash
    generalize refusedBy s sup = refused
    have htomb : ∀ (nm sp : Option Nat), Good { s with actors := s.actors ++
        [(⟨nm, sp, false, .stopped, true, [], [], [], 0, 0, false, [], none⟩ : Actor)] } := fun nm sp =>
      good_append h _ s.names (fun _ => ⟨rfl, rfl, rfl, rfl, rfl, rfl, rfl, rfl⟩) rfl
        (fun hs => by simp at hs) (fun nv hnv => Or.inl hnv)
    cases clash with
    | true => simpa using htomb none none
    | false =>
      cases refused with
      | true => simpa using htomb name sup
      | false =>
        simp only [Bool.false_eq_true, if_false]
        refine good_append h _ _ (fun hf => by cases hf) rfl (fun _ => ⟨rfl, rfl⟩) ?_
        intro nv hnv
        cases name with
        | none => exact Or.inl hnv
        | some n =>
          simp only [List.mem_append, List.mem_singleton] at hnv
          rcases hnv with h1 | h1
          · exact Or.inl h1
          · subst h1; exact Or.inr ⟨rfl, by simp⟩
  | join a g =>
    simp only [step]; split
    · rename_i hst
      exact good_touch_starting h a hst _ (fun x => by split <;> rfl) (fun x => by split <;> rfl)
        (fun x => by split <;> rfl) (fun x => by split <;> rfl)
    · exact h
  | monitor a g =>
    simp only [step]; split
    · rename_i hst
      exact good_touch_starting h a hst _ (fun x => by split <;> rfl) (fun x => by split <;> rfl)
        (fun x => by split <;> rfl) (fun x => by split <;> rfl)
    · exact h
  | selfsend a =>
    simp only [step]; split
    · rename_i hst
      exact good_touch_starting h a hst _ (fun _ => rfl) (fun _ => rfl) (fun _ => rfl) (fun _ => rfl)
    · exact h
  | selflink a w =>
    simp only [step]; split
    · rename_i hc
      have hst : isStarting s a = true := by
        simp only [Bool.and_eq_true] at hc; exact hc.1.1
      exact good_touch_starting h a hst _ (fun _ => rfl) (fun _ => rfl) (fun _ => rfl) (fun _ => rfl)
    · exact h
  | spawnChild a =>
    simp only [step]; split
    · have h1 := good_append h (⟨none, some a, true, .running, false, [], [], [], 0, 0, true, [], none⟩ : Actor) s.names
        (fun hf => by cases hf) rfl (fun hs => by cases hs) (fun nv hnv => Or.inl hnv)
      refine good_pushEvent h1 a s.actors.length .started ?_
      refine ⟨(⟨none, some a, true, .running, false, [], [], [], 0, 0, true, [], none⟩ : Actor), ?_, by simp, rfl⟩
      simp only
      rw [List.getElem?_append_right (Nat.le_refl _)]; simp
    · exact h
  | cast a =>
    simp only [step]; split
    · rename_i hst
      exact good_touch_starting h a hst _ (fun _ => rfl) (fun _ => rfl) (fun _ => rfl) (fun _ => rfl)
    · exact h
  | call a =>
    simp only [step]; split
    · rename_i hst
      exact good_touch_starting (good_ports h (s.ports ++ [PortSt.waiting])) a hst
        (fun x => { x with mailbox := x.mailbox ++ [s.ports.length] })
        (fun _ => rfl) (fun _ => rfl) (fun _ => rfl) (fun _ => rfl)
    · cases ha : s.actors[a]? with
      | none => exact good_ports h (s.ports ++ [PortSt.sendErr])
      | some x =>
        simp only
        split
        · rename_i hr
          have hxr : x.phase = .running := by simpa using hr
          refine good_setActor (good_ports h (s.ports ++ [PortSt.replied])) a (fun x => { x with handled := x.handled + 1 })
            (fun _ => rfl) (fun _ h => h) (fun _ _ h => Or.inl h) ?_ ?_ ?_
          · intro y hy hf
            have : y = x := by
              have : s.actors[a]? = some y := hy
              rw [ha] at this; exact (Option.some.inj this).symm
            subst this
            have := (h.clean a y ha hf).1; rw [hxr] at this; cases this
          · intro y _ ce hce; exact Or.inl hce
          · intro y hy hs
            have : y = x := by
              have : s.actors[a]? = some y := hy
              rw [ha] at this; exact (Option.some.inj this).symm
            subst this
            simp only at hs; rw [hxr] at hs; cases hs
        · exact good_ports h (s.ports ++ [PortSt.sendErr])
  | finish a o =>
    simp only [step]
    split
    · exact h
    · rename_i hst
      have hst' : isStarting s a = true := by simpa using hst
      cases o with
      | ok =>
        simp only
        obtain ⟨x, hx, hxs⟩ := isStarting_iff.mp hst'
        simp only [hx]
        cases x.req with
        | some p =>
          simp only
          split
          · -- the requested supervisor takes the slot, then the actor runs
            have hg0 : Good (setActor s a (fun x => { x with sup := some p })) :=
              good_touch_starting h a hst' _ (fun _ => rfl) (fun _ => rfl) (fun _ => rfl) (fun _ => rfl)
            have hst0 : isStarting (setActor s a (fun x => { x with sup := some p })) a = true := by
              rw [isStarting_iff]
              exact ⟨{ x with sup := some p }, by rw [getElem?_setActor, hx]; simp, hxs⟩
            obtain ⟨hg, hr⟩ := good_becomeRunning hg0 a true hst0
            exact good_pushEvent hg p a .started hr
          · exact good_failStart h a hst'
        | none =>
          simp only
          split
          · cases x.sup with
            | none => exact (good_becomeRunning h a true hst').1
            | some w =>
              obtain ⟨hg, hr⟩ := good_becomeRunning h a true hst'
              exact good_pushEvent hg w a .started hr
          · exact (good_becomeRunning h a false hst').1
      | err => exact good_failStart h a hst'
      | panic => exact good_failStart h a hst'
  | cut a =>
    simp only [step]; split
    · rename_i hst; exact good_failStart h a hst
    · exact h
  | kill a =>
    simp only [step]
    cases ha : s.actors[a]? with
    | none => exact h
    | some x =>
      simp only
      cases hp : x.phase with
      | starting => exact good_failStart h a (isStarting_iff.mpr ⟨x, ha, hp⟩)
      | running => exact good_exitRunning h a _ ⟨x, ha, hp⟩
      | stopped => exact h
  | stop a =>
    simp only [step]
    cases ha : s.actors[a]? with
    | none => exact h
    | some x =>
      simp only
      split
      · rename_i hr; exact good_exitRunning h a _ ⟨x, ha, by simpa using hr⟩
      · exact h

theorem good_run (ops : List Op) : Good (run ops) := by
  unfold run
  suffices ∀ s, Good s → Good (ops.foldl step s) from this init good_init
  induction ops with
  | nil => intro s h; exact h
  | cons op rest ih => intro s h; exact ih _ (good_step h op)

theorem ok_of_good {s : S} (h : Good s) : ok s = true := by
  unfold ok
  rw [List.all_eq_true]
  rintro ⟨a, x⟩ hax
  have hx : s.actors[a]? = some x := by
    have := List.of_mem_zip hax
    obtain ⟨i, hi⟩ := List.mem_iff_getElem?.mp hax
    rw [List.getElem?_zip_eq_some] at hi
    have h1 := hi.1; have h2 := hi.2
    simp only [List.getElem?_range'] at h1
    have hlt := (List.getElem?_eq_some_iff.mp h2).1
    rw [List.getElem?_range hlt] at h1
    cases h1; exact h2
  simp only [Bool.or_eq_true, Bool.not_eq_true']
  cases hf : x.failedStart with
  | false => exact Or.inl rfl
  | true =>
    right
    obtain ⟨c1, c2, c3, c4, c5, c6, c7, c8⟩ := h.clean a x hx hf
    unfold cleanActor
    simp only [c1, c2, c3, c4, c5, c6, c7, c8, Bool.and_eq_true, List.all_eq_true]
    refine ⟨⟨⟨by simp, ?_⟩, ?_⟩, ?_⟩ <;> try simp
    · intro n b hnb heq
      obtain ⟨y, hy, hne⟩ := h.names (n, b) hnb
      simp only at hy
      rw [heq, hx] at hy; cases hy; exact hne c1
    · intro p c e hpe heq
      obtain ⟨y, hy, _, hfl⟩ := h.evs (p, c, e) hpe
      simp only at hy
      rw [heq, hx] at hy; cases hy; rw [hf] at hfl; cases hfl

end Spawn
