import RactorModel.Lemmas.FactorySlotInst
import RactorModel.Lemmas.FactoryStop
import RactorModel.Lemmas.FactoryFate

/-!
# The worker actors and the factory's bookkeeping agree (under `noStaleRun`)

`Core fk w` couples every pool slot with its worker actor: the keys the slot books as in flight
(`curr_jobs`) are exactly the keys of the jobs the actor holds (handler + mailbox) followed by the
keys of the `Finished` reports of that slot that still wait in the factory's mailbox (`fk wid`).
Together with `curr_jobs.len() ≤ 1` (`SlotOk`) this gives: a live worker actor never holds more than
one job, a job held by an actor is booked on its slot, every live actor that is no slot's actor is
idle and has been told to stop, and every slot has an actor that is alive or whose death the factory
has still to process.

The invariant is FALSE of the code in general (finding F4): it needs that no worker incarnation
dies while one of its `Finished` reports is still unprocessed — `noStaleRun`, the exact model-level
form of the oracle's classifier `noStaleCompletion`.
-/

namespace Factory

/-! ## `Finished` reports waiting in the factory's mailbox -/

def finKeys (wid : Nat) : List FMsg → List Nat
  | [] => []
  | .finished w k :: r => if w == wid then k :: finKeys wid r else finKeys wid r
  | _ :: r => finKeys wid r

theorem finKeys_append (wid : Nat) (l1 l2 : List FMsg) : finKeys wid (l1 ++ l2) = finKeys wid l1 ++ finKeys wid l2 := by
  induction l1 with
  | nil => rfl
  | cons m r ih =>
    cases m <;> simp only [List.cons_append, finKeys, ih]
    split <;> simp

/-! ## Environment frames -/

/-- only the log may differ -/
structure EnvEq (e e' : Env) : Prop where
  actors : e'.actors = e.actors
  sup : e'.sup = e.sup

theorem EnvEq.refl (e : Env) : EnvEq e e := ⟨rfl, rfl⟩
theorem EnvEq.trans {a b c : Env} (h1 : EnvEq a b) (h2 : EnvEq b c) : EnvEq a c :=
  ⟨h2.actors.trans h1.actors, h2.sup.trans h1.sup⟩
theorem envEq_emit (e : Env) (ev : Ev) : EnvEq e (e.emit ev) := ⟨rfl, rfl⟩
theorem envEq_discard (e : Env) (h : Option Nat) (r : Reason) (j : Job) : EnvEq e (e.discard h r j) := ⟨rfl, rfl⟩
theorem envEq_reject (e : Env) (j : Job) : EnvEq e (e.reject j) := by
  unfold Env.reject; split
  · exact envEq_emit e _
  · exact EnvEq.refl e
theorem envEq_accept (e : Env) (j : Job) : EnvEq e (e.accept j) := by
  unfold Env.accept; split
  · exact envEq_emit e _
  · exact EnvEq.refl e

theorem EnvEq.getActor {e e' : Env} (h : EnvEq e e') (aid : Nat) : e'.getActor aid = e.getActor aid := by
  unfold Env.getActor; rw [h.actors]

theorem getNextNonExpired_sup {h : Option Nat} (mq : List Job) (pend : List Nat) (e : Env) :
    (getNextNonExpired h mq pend e).2.2.2.sup = e.sup := by
  induction mq generalizing pend e with
  | nil => rfl
  | cons j rest ih =>
    unfold getNextNonExpired
    split
    · rfl
    · rw [ih]; rfl

theorem envEq_getNext (p : WP) (e : Env) : EnvEq e (p.getNext e).2.2 :=
  ⟨getNext_actors p e, getNextNonExpired_sup p.mq p.pending e⟩

theorem getNext_wid' (p : WP) (e : Env) : (p.getNext e).2.1.wid = p.wid := rfl

/-- one actor (`aid`) may have changed, nobody appeared or vanished -/
structure EnvStep (aid : Nat) (e e' : Env) : Prop where
  sup : e'.sup = e.sup
  other : ∀ b, b ≠ aid → e'.getActor b = e.getActor b
  self : (e'.getActor aid).isSome = (e.getActor aid).isSome
  alive : ∀ a a', e.getActor aid = some a → e'.getActor aid = some a' → a'.alive = a.alive

theorem EnvStep.refl (aid : Nat) (e : Env) : EnvStep aid e e :=
  ⟨rfl, fun _ _ => rfl, rfl, fun a a' h h' => by rw [h] at h'; cases h'; rfl⟩
theorem EnvStep.trans {aid : Nat} {a b c : Env} (h1 : EnvStep aid a b) (h2 : EnvStep aid b c) : EnvStep aid a c := by
  refine ⟨h2.sup.trans h1.sup, fun x hx => (h2.other x hx).trans (h1.other x hx), h2.self.trans h1.self, ?_⟩
  intro x z hx hz
  cases hy : b.getActor aid with
  | none => have := h1.self; rw [hy, hx] at this; cases this
  | some y => exact (h2.alive y z hy hz).trans (h1.alive x y hx hy)
theorem EnvEq.step {e e' : Env} (h : EnvEq e e') (aid : Nat) : EnvStep aid e e' :=
  ⟨h.sup, fun b _ => h.getActor b, by rw [h.getActor], fun a a' h1 h2 => by rw [h.getActor, h1] at h2; cases h2; rfl⟩

theorem find_setFirstActor_self (l : List Actor) (a a' : Actor) (h : l.find? (·.aid == a'.aid) = some a) :
    (setFirstActor a' l).find? (·.aid == a'.aid) = some a' := by
  induction l with
  | nil => simp at h
  | cons x xs ih =>
    unfold setFirstActor
    rw [List.find?_cons] at h
    cases hx : x.aid == a'.aid
    · rw [hx] at h
      simp only [Bool.false_eq_true, if_false, List.find?_cons, hx]
      exact ih h
    · simp only [if_true, List.find?_cons, beq_self_eq_true]

theorem getActor_setActor_self (e : Env) (a a' : Actor) (h : e.getActor a'.aid = some a) :
    (e.setActor a').getActor a'.aid = some a' :=
  find_setFirstActor_self e.actors a a' h

theorem envStep_setActor (e : Env) (a a' : Actor) (h : e.getActor a'.aid = some a) (hal : a'.alive = a.alive) :
    EnvStep a'.aid e (e.setActor a') := by
  refine
  ⟨rfl, fun b hb => getActor_setActor_other e a' b hb, by rw [getActor_setActor_self e a a' h, h]; rfl, ?_⟩
  intro x y hx hy
  rw [h] at hx; cases hx
  rw [getActor_setActor_self e a a' h] at hy; cases hy
  exact hal

/-! ## Coupling of one slot with its actor -/

def Cpl (p : WP) (e : Env) (fk : List Nat) : Prop :=
  ∃ a, e.getActor p.actor = some a ∧ a.wid = p.wid ∧
    (a.alive = true → a.stopReq = false ∧ p.curr.map (·.1) = a.heldJobs.map (·.key) ++ fk) ∧
    (a.alive = false → p.actor ∈ e.sup ∧ fk = [])

theorem Cpl.keep {p p' : WP} {e e' : Env} {fk : List Nat} (h : Cpl p e fk) (h1 : p'.actor = p.actor)
    (h2 : p'.wid = p.wid) (h3 : p'.curr = p.curr) (h4 : e'.getActor p.actor = e.getActor p.actor) (h5 : e'.sup = e.sup) :
    Cpl p' e' fk := by
  obtain ⟨a, g, hw, ha, hd⟩ := h
  exact ⟨a, by rw [h1, h4]; exact g, by rw [h2]; exact hw, by rw [h3]; exact ha, by rw [h1, h5]; exact hd⟩

/-- result of a `WorkerProperties` function on slot `p` -/
structure SRes (p : WP) (e : Env) (p' : WP) (e' : Env) (fk : List Nat) : Prop where
  actor : p'.actor = p.actor
  wid : p'.wid = p.wid
  cpl : Cpl p' e' fk
  env : EnvStep p.actor e e'

theorem sres_keep {p p' : WP} {e e' : Env} {fk : List Nat} (h : Cpl p e fk) (h1 : p'.actor = p.actor)
    (h2 : p'.wid = p.wid) (h3 : p'.curr = p.curr) (h4 : EnvEq e e') : SRes p e p' e' fk :=
  ⟨h1, h2, h.keep h1 h2 h3 (h4.getActor _) h4.sup, h4.step _⟩

theorem SRes.trans {p p1 p2 : WP} {e e1 e2 : Env} {fk fk' : List Nat} (h1 : SRes p e p1 e1 fk) (h2 : SRes p1 e1 p2 e2 fk') :
    SRes p e p2 e2 fk' :=
  ⟨h2.actor.trans h1.actor, h2.wid.trans h1.wid, h2.cpl, h1.env.trans (by rw [← h1.actor]; exact h2.env)⟩

theorem heldJobs_append_mailbox (a : Actor) (j : Job) :
    ({ a with mailbox := a.mailbox ++ [j] } : Actor).heldJobs = a.heldJobs ++ [j] := by
  unfold Actor.heldJobs; simp only [List.append_assoc]

/-- `dispatch_job` on a slot with nothing booked in flight -/
theorem sres_dispatchJob (p : WP) (e : Env) (j : Job) (fk : List Nat) (hc : p.curr = []) (h : Cpl p e fk) :
    SRes p e (p.dispatchJob e j).1 (p.dispatchJob e j).2 fk := by
  obtain ⟨a, g, hw, ha, hd⟩ := h
  have haid := getActor_aid g
  unfold WP.dispatchJob Env.cast
  simp only [g]
  by_cases hal : a.alive = true
  · have hn : ¬ ((!a.alive) = true) := by rw [hal]; exact Bool.false_ne_true
    rw [if_neg hn]
    simp only
    obtain ⟨hs, heq⟩ := ha hal
    rw [hc] at heq
    simp only [List.map_nil] at heq
    have hh : a.heldJobs.map (·.key) = [] ∧ fk = [] := by
      cases hx : a.heldJobs.map (·.key) with
      | nil => rw [hx] at heq; exact ⟨rfl, by simpa using heq.symm⟩
      | cons x xs => rw [hx] at heq; simp at heq
    have hheld : a.heldJobs = [] := by simpa using hh.1
    generalize ha' : ({ a with mailbox := a.mailbox ++ [j] } : Actor) = a'
    have haid' : a'.aid = p.actor := by subst ha'; exact haid
    have g' : e.getActor a'.aid = some a := by rw [haid']; exact g
    refine ⟨rfl, rfl, ⟨a', ?_, ?_, ?_, ?_⟩, ?_⟩
    · have := getActor_setActor_self e a a' g'
      rw [haid'] at this; exact this
    · subst ha'; exact hw
    · intro _
      refine ⟨by subst ha'; exact hs, ?_⟩
      have : a'.heldJobs = a.heldJobs ++ [j] := by subst ha'; exact heldJobs_append_mailbox a j
      rw [this, hheld, hh.2]
      simp only [hc, currInsert_nil]
      rfl
    · intro hdead; subst ha'; rw [hal] at hdead; cases hdead
    · have := envStep_setActor e a a' g' (by subst ha'; rfl)
      rw [haid'] at this; exact this
  · have hal' : a.alive = false := by simpa using hal
    have hn : (!a.alive) = true := by rw [hal']; rfl
    rw [if_pos hn]
    exact sres_keep ⟨a, g, hw, ha, hd⟩ rfl rfl rfl (EnvEq.refl e)

theorem shedOldest_envEq (limit fuel : Nat) (p : WP) (e : Env) : EnvEq e (shedOldest limit fuel p e).2 := by
  induction fuel generalizing p e with
  | zero => exact EnvEq.refl e
  | succ fuel ih =>
    unfold shedOldest
    split
    · have hn := envEq_getNext p e
      cases hg : p.getNext e with
      | mk r pe =>
        obtain ⟨p', e'⟩ := pe
        rw [hg] at hn
        simp only at hn
        cases r with
        | none => exact hn.trans (ih _ _)
        | some d => exact (hn.trans (envEq_discard e' _ _ d)).trans (ih _ _)
    · exact EnvEq.refl e

theorem shedOldest_actor (limit fuel : Nat) (p : WP) (e : Env) : (shedOldest limit fuel p e).1.actor = p.actor := by
  induction fuel generalizing p e with
  | zero => rfl
  | succ fuel ih =>
    unfold shedOldest
    split
    · cases hg : p.getNext e with
      | mk r pe =>
        obtain ⟨p', e'⟩ := pe
        have hp' : p'.actor = p.actor := by
          have := getNext_actor p e; rw [hg] at this; exact this
        cases r with
        | none => simp only; rw [ih]; exact hp'
        | some d => simp only; rw [ih]; exact hp'
    · rfl

/-- `enqueue_job` -/
theorem sres_enqueueJob (p : WP) (e : Env) (j : Job) (fk : List Nat) (h : Cpl p e fk) :
    SRes p e (p.enqueueJob e j).1 (p.enqueueJob e j).2 fk := by
  unfold WP.enqueueJob
  split
  · exact sres_keep h rfl rfl rfl ((envEq_discard e _ _ j).trans (envEq_reject _ j))
  · have h0 : SRes p e (p.track j.key) (e.accept j) fk := sres_keep h rfl rfl rfl (envEq_accept e j)
    refine h0.trans ?_
    generalize p.track j.key = p1 at h0 ⊢
    generalize e.accept j = e1 at h0 ⊢
    generalize ({ j with port := false } : Job) = j1
    have hc1 := h0.cpl
    unfold WP.enqueueAccepted
    split
    · rename_i hemp
      have hcurr : p1.curr = [] := by simpa using hemp
      have hn := envEq_getNext p1 e1
      cases hg : p1.getNext e1 with
      | mk r pe =>
        obtain ⟨p2, e2⟩ := pe
        have ha2 : p2.actor = p1.actor := by have := getNext_actor p1 e1; rw [hg] at this; exact this
        have hw2 : p2.wid = p1.wid := by have := getNext_wid' p1 e1; rw [hg] at this; exact this
        have hc2 : p2.curr = p1.curr := by have := getNext_curr p1 e1; rw [hg] at this; exact this
        rw [hg] at hn
        simp only at hn
        have s2 : SRes p1 e1 p2 e2 fk := sres_keep hc1 ha2 hw2 hc2 hn
        cases r with
        | none =>
          simp only
          exact s2.trans (sres_dispatchJob p2 e2 j1 fk (by rw [hc2]; exact hcurr) s2.cpl)
        | some older =>
          simp only
          have s3 : SRes p2 e2 { p2 with mq := p2.mq ++ [j1] } e2 fk := sres_keep s2.cpl rfl rfl rfl (EnvEq.refl _)
          exact (s2.trans s3).trans (sres_dispatchJob _ e2 older fk (by simp only; rw [hc2]; exact hcurr) s3.cpl)
    · simp only
      split
      · exact sres_keep hc1 (by rw [shedOldest_actor]) (by rw [shedOldest_wid]) (by rw [shedOldest_curr])
          (shedOldest_envEq _ _ _ _)
      · exact sres_keep hc1 rfl rfl rfl (EnvEq.refl _)

/-- `worker_complete` for a slot whose own `Finished(key)` report is being handled -/
theorem sres_workerComplete (p : WP) (e : Env) (key : Nat) (fk : List Nat) (hone : p.curr.length ≤ 1)
    (h : Cpl p e (key :: fk)) : SRes p e (p.workerComplete e key).1 (p.workerComplete e key).2 fk := by
  obtain ⟨a, g, hw, ha, hd⟩ := h
  have hal : a.alive = true := by
    cases hx : a.alive with
    | true => rfl
    | false => have := (hd hx).2; simp at this
  obtain ⟨hs, heq⟩ := ha hal
  -- the slot books exactly this key, the actor holds nothing, no other report waits
  have hlen : (p.curr.map (·.1)).length ≤ 1 := by simpa using hone
  have hheld : a.heldJobs = [] ∧ fk = [] ∧ p.curr.map (·.1) = [key] := by
    rw [heq] at hlen
    simp only [List.length_append, List.length_map, List.length_cons] at hlen
    have h1 : a.heldJobs = [] := List.eq_nil_of_length_eq_zero (by omega)
    have h2 : fk = [] := List.eq_nil_of_length_eq_zero (by omega)
    rw [h1, h2] at heq
    exact ⟨h1, h2, by simpa using heq⟩
  obtain ⟨h1, h2, h3⟩ := hheld
  have hany : p.curr.any (·.1 == key) = true := by
    cases hc : p.curr with
    | nil => rw [hc] at h3; simp at h3
    | cons x xs =>
      rw [hc] at h3
      simp only [List.map_cons, List.cons.injEq] at h3
      simp [h3.1]
  have hfil : p.curr.filter (fun x => x.1 != key) = [] := by
    cases hc : p.curr with
    | nil => rfl
    | cons x xs =>
      rw [hc] at h3 hone
      simp only [List.map_cons, List.cons.injEq, List.map_eq_nil_iff] at h3
      rw [h3.2]
      simp [h3.1]
  unfold WP.workerComplete
  simp only [hany, if_true]
  generalize hp0 : ({ p with curr := p.curr.filter (fun x => x.1 != key), pending := p.pending.erase key } : WP) = p0
  have hc0 : p0.curr = [] := by subst hp0; exact hfil
  have c0 : Cpl p0 e fk := by
    refine ⟨a, by subst hp0; exact g, by subst hp0; exact hw, ?_, ?_⟩
    · intro _; exact ⟨hs, by rw [hc0, h1, h2]; rfl⟩
    · intro hx; rw [hal] at hx; cases hx
  have s0 : SRes p e p0 e fk := ⟨by subst hp0; rfl, by subst hp0; rfl, c0, EnvStep.refl _ _⟩
  refine s0.trans ?_
  have hn := envEq_getNext p0 e
  cases hg : p0.getNext e with
  | mk r pe =>
    obtain ⟨p2, e2⟩ := pe
    have ha2 : p2.actor = p0.actor := by have := getNext_actor p0 e; rw [hg] at this; exact this
    have hw2 : p2.wid = p0.wid := by have := getNext_wid' p0 e; rw [hg] at this; exact this
    have hc2 : p2.curr = p0.curr := by have := getNext_curr p0 e; rw [hg] at this; exact this
    rw [hg] at hn
    simp only at hn
    have s2 : SRes p0 e p2 e2 fk := sres_keep c0 ha2 hw2 hc2 hn
    cases r with
    | none => exact s2
    | some j => exact s2.trans (sres_dispatchJob p2 e2 j fk (by rw [hc2]; exact hc0) s2.cpl)

/-! ## The world invariant -/

structure Core (fk : Nat → List Nat) (w : W) : Prop where
  slot : PoolAll SlotOk w
  nodupW : NodupW w.pool
  aidLt : ∀ aid a, w.env.getActor aid = some a → aid < w.nextAid
  supDead : ∀ aid ∈ w.env.sup, ∃ a, w.env.getActor aid = some a ∧ a.alive = false
  by1 : ∀ p ∈ w.pool, (p.actor, p.wid) ∈ w.byActor
  by2 : ∀ x ∈ w.byActor, ∃ p ∈ w.pool, p.actor = x.1 ∧ p.wid = x.2
  sa : ∀ p ∈ w.pool, Cpl p w.env (fk p.wid)
  free : ∀ aid a, w.env.getActor aid = some a → a.alive = true → (∀ p ∈ w.pool, p.actor ≠ aid) →
    a.heldJobs = [] ∧ a.stopReq = true
  fin : ∀ wid, (∀ p ∈ w.pool, p.wid ≠ wid) → fk wid = []

theorem Core.of_eq {fk : Nat → List Nat} {w w' : W} (h : Core fk w) (h1 : w'.pool = w.pool) (h2 : w'.byActor = w.byActor)
    (h3 : w'.nextAid = w.nextAid) (h4 : EnvEq w.env w'.env) : Core fk w' := by
  refine ⟨h.slot.of_pool h1, by rw [h1]; exact h.nodupW, ?_, ?_, ?_, ?_, ?_, ?_, ?_⟩
  · intro aid a ha; rw [h3]; rw [h4.getActor] at ha; exact h.aidLt aid a ha
  · intro aid ha; rw [h4.sup] at ha; rw [h4.getActor]; exact h.supDead aid ha
  · intro p hp; rw [h1] at hp; rw [h2]; exact h.by1 p hp
  · intro x hx; rw [h2] at hx; rw [h1]; exact h.by2 x hx
  · intro p hp; rw [h1] at hp; exact (h.sa p hp).keep rfl rfl rfl (h4.getActor _) h4.sup
  · intro aid a ha hal hn; rw [h4.getActor] at ha; rw [h1] at hn; exact h.free aid a ha hal hn
  · intro wid hn; rw [h1] at hn; exact h.fin wid hn

/-- two slots never share an actor -/
theorem Core.actor_inj {fk : Nat → List Nat} {w : W} (h : Core fk w) {p q : WP} (hp : p ∈ w.pool) (hq : q ∈ w.pool)
    (ha : p.actor = q.actor) : p = q := by
  obtain ⟨a, g, hw, _, _⟩ := h.sa p hp
  obtain ⟨b, g', hw', _, _⟩ := h.sa q hq
  rw [ha, g'] at g; cases g
  exact nodupW_eq_of_wid h.nodupW hp hq (hw.symm.trans hw')

theorem mem_setW_of_ne {pool : List WP} {wid : Nat} {p' x : WP} (hx : x ∈ pool) (hne : x.wid ≠ wid) :
    x ∈ setW pool wid p' := by
  induction pool with
  | nil => cases hx
  | cons y ys ih =>
    unfold setW
    cases hy : y.wid == wid
    · simp only [Bool.false_eq_true, if_false]
      rcases List.mem_cons.mp hx with h | h
      · subst h; exact List.mem_cons_self ..
      · exact List.mem_cons_of_mem _ (ih h)
    · simp only [if_true]
      rcases List.mem_cons.mp hx with h | h
      · subst h; exact absurd (by simpa using hy) hne
      · exact List.mem_cons_of_mem _ h

theorem mem_removeW_of_ne {pool : List WP} {wid : Nat} {x : WP} (hx : x ∈ pool) (hne : x.wid ≠ wid) :
    x ∈ removeW pool wid := by
  induction pool with
  | nil => cases hx
  | cons y ys ih =>
    unfold removeW
    cases hy : y.wid == wid
    · simp only [Bool.false_eq_true, if_false]
      rcases List.mem_cons.mp hx with h | h
      · subst h; exact List.mem_cons_self ..
      · exact List.mem_cons_of_mem _ (ih h)
    · simp only [if_true]
      rcases List.mem_cons.mp hx with h | h
      · subst h; exact absurd (by simpa using hy) hne
      · exact h

/-- a `WorkerProperties` function ran on slot `wid`; `fk'` may differ from `fk` at `wid` only -/
theorem core_slotUpdate {fk fk' : Nat → List Nat} {w w' : W} {wid : Nat} {p p' : WP} (h : Core fk w)
    (hg : getW w.pool wid = some p) (r : SRes p w.env p' w'.env (fk' wid)) (hso : SlotOk p')
    (hagree : ∀ x, x ≠ wid → fk' x = fk x)
    (h1 : w'.pool = setW w.pool wid p') (h2 : w'.byActor = w.byActor) (h3 : w'.nextAid = w.nextAid) : Core fk' w' := by
  have hpw : p.wid = wid := getW_wid hg
  have hp'w : p'.wid = wid := r.wid.trans hpw
  have hpm : p ∈ w.pool := getW_mem hg
  have hp'm : p' ∈ w'.pool := by rw [h1]; exact mem_setW_self hg
  -- other slots have other actors
  have hother : ∀ q ∈ w.pool, q.wid ≠ wid → q.actor ≠ p.actor := by
    intro q hq hne hqa
    have := h.actor_inj hq hpm hqa
    subst this; exact hne hpw
  have hmem : ∀ q, q ∈ w'.pool → q = p' ∨ (q ∈ w.pool ∧ q.wid ≠ wid) := by
    intro q hq; rw [h1] at hq; exact mem_setW_ne h.nodupW hg hp'w hq
  refine ⟨h.slot.setW hso h1, by rw [h1]; exact nodupW_setW hp'w h.nodupW, ?_, ?_, ?_, ?_, ?_, ?_, ?_⟩
  · intro aid a ha
    rw [h3]
    by_cases hb : aid = p.actor
    · subst hb
      have := r.env.self
      rw [ha] at this
      cases hx : w.env.getActor p.actor with
      | none => rw [hx] at this; cases this
      | some x => exact h.aidLt _ x hx
    · rw [r.env.other aid hb] at ha; exact h.aidLt aid a ha
  · intro aid ha
    rw [r.env.sup] at ha
    obtain ⟨a, g, hd⟩ := h.supDead aid ha
    by_cases hb : aid = p.actor
    · subst hb
      have := r.env.self
      rw [g] at this
      cases hx : w'.env.getActor p.actor with
      | none => rw [hx] at this; cases this
      | some x => exact ⟨x, rfl, (r.env.alive a x g hx).trans hd⟩
    · exact ⟨a, by rw [r.env.other aid hb]; exact g, hd⟩
  · intro q hq
    rw [h2]
    rcases hmem q hq with h' | ⟨h', _⟩
    · subst h'; rw [r.actor, r.wid]; exact h.by1 p hpm
    · exact h.by1 q h'
  · intro x hx
    rw [h2] at hx
    obtain ⟨q, hq, hqa, hqw⟩ := h.by2 x hx
    by_cases hqw' : q.wid = wid
    · have : q = p := nodupW_eq_of_wid h.nodupW hq hpm (hqw'.trans hpw.symm)
      subst this
      exact ⟨p', hp'm, r.actor.trans hqa, r.wid.trans hqw⟩
    · exact ⟨q, by rw [h1]; exact mem_setW_of_ne hq hqw', hqa, hqw⟩
  · intro q hq
    rcases hmem q hq with h' | ⟨h', hne⟩
    · subst h'; rw [hp'w]; exact r.cpl
    · rw [hagree _ hne]
      exact (h.sa q h').keep rfl rfl rfl (r.env.other _ (hother q h' hne)) r.env.sup
  · intro aid a ha hal hn
    have hb : aid ≠ p.actor := by
      intro hb; exact hn p' hp'm (r.actor.trans hb.symm)
    rw [r.env.other aid hb] at ha
    refine h.free aid a ha hal ?_
    intro q hq
    by_cases hqw' : q.wid = wid
    · have : q = p := nodupW_eq_of_wid h.nodupW hq hpm (hqw'.trans hpw.symm)
      subst this; exact fun hc => hb hc.symm
    · exact hn q (by rw [h1]; exact mem_setW_of_ne hq hqw')
  · intro x hn
    have hx : x ≠ wid := fun hc => hn p' hp'm (hp'w.trans hc.symm)
    rw [hagree x hx]
    refine h.fin x ?_
    intro q hq
    by_cases hqw' : q.wid = wid
    · rw [hqw']; exact fun hc => hx hc.symm
    · exact hn q (by rw [h1]; exact mem_setW_of_ne hq hqw')

end Factory
