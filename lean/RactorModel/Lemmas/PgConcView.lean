import RactorModel.Lemmas.PgConcAcc

/-!
The per-actor invariant of `Pg.Conc`, stated on the *view* of a global state: the seven relations,
where membership is the forward map's **plus** what the `join_scoped` calls that are in the middle of
their entry-lock region have already accepted (reverse index updated, forward insert still to come —
the group entry is held, nobody else can look at it or change it).

* forward ⊆ reverse is weakened exactly by the phase of the actor's own exit,
* reverse ⊆ forward never,
* what an exit has drained stays drained.
-/

namespace Pg.Conc
open AList Pg Pg.Fine

structure View where
  M : Key → Nat → Prop
  L : Key → Nat → Prop
  W : Nat → Nat → Prop
  RM : Nat → Key → Prop
  RG : Nat → Key → Prop
  RW : Nat → Nat → Prop
  D : Nat → Prop
  /-- ghost: stale reverse-only monitor entries left by a `demonitor*` that had fetched no `Arc` -/
  SG : Nat → Key → Prop
  SW : Nat → Nat → Prop

/-- what the view needs besides the state: the accepted sets of the lock table and the stale ghosts -/
structure Aux where
  acc : Key → List Nat
  sg : Nat → Key → Prop
  sw : Nat → Nat → Prop

def stView (st : State) (aux : Aux) : View where
  M := fun k x => x ∈ membersOf st k ∨ x ∈ aux.acc k
  L := fun k x => x ∈ listenersOf st k
  W := fun s x => x ∈ worldOf st s
  RM := fun x k => k ∈ relMem st x
  RG := fun x k => k ∈ relGmon st x
  RW := fun x s => s ∈ relWmon st x
  D := fun x => x ∈ st.dead
  SG := aux.sg
  SW := aux.sw

def auxOf (g : G) : Aux := ⟨accOf g, fun x k => (x, k) ∈ g.staleG, fun x s => (x, s) ∈ g.staleW⟩

def gView (g : G) : View := stView g.st (auxOf g)

structure VTrans (v v' : View) (e : Eff) : Prop where
  m : ∀ k x, v'.M k x ↔ (v.M k x ∧ ¬ e.delM k x) ∨ e.addM k x
  rm : ∀ x k, v'.RM x k ↔ (v.RM x k ∧ ¬ e.delRM x k) ∨ e.addM k x
  l : ∀ k x, v'.L k x ↔ (v.L k x ∧ ¬ e.delL k x) ∨ e.addL k x
  rg : ∀ x k, v'.RG x k ↔ (v.RG x k ∧ ¬ e.delRG x k) ∨ e.addL k x
  w : ∀ s x, v'.W s x ↔ (v.W s x ∧ ¬ e.delW s x) ∨ e.addW s x
  rw : ∀ x s, v'.RW x s ↔ (v.RW x s ∧ ¬ e.delRW x s) ∨ e.addW s x
  d : ∀ x, v.D x → v'.D x
  sg : ∀ x k, v.SG x k → v'.SG x k
  sw : ∀ x s, v.SW x s → v'.SW x s

/-- the region is well-behaved towards actor `a` -/
structure WBV (a : Nat) (v : View) (e : Eff) : Prop where
  am : ∀ k, e.addM k a → ¬ v.D a
  al : ∀ k, e.addL k a → ¬ v.D a
  aw : ∀ s, e.addW s a → ¬ v.D a
  dm : ∀ k, e.delM k a ↔ e.delRM a k
  dl : ∀ k, e.delL k a ↔ e.delRG a k
  dw : ∀ s, e.delW s a ↔ e.delRW a s

theorem wbv_of_wb {a : Nat} {st : State} {e : Eff} (aux : Aux) (h : WB a st e) : WBV a (stView st aux) e :=
  ⟨h.am, h.al, h.aw, h.dm, h.dl, h.dw⟩

/-- a state-level effect lifts to the view when the accepted sets do not change and nothing it removes
from a forward entry is an accepted-but-uncommitted actor (it cannot be: that entry is held) -/
theorem vtrans_lift {st st' : State} {e : Eff} (aux : Aux) (t : Trans st st' e)
    (hdel : ∀ k x, e.delM k x → x ∉ aux.acc k) : VTrans (stView st aux) (stView st' aux) e := by
  refine ⟨?_, t.rm, t.l, t.rg, t.w, t.rw, t.d, fun _ _ h => h, fun _ _ h => h⟩
  intro k x
  show (x ∈ membersOf st' k ∨ x ∈ aux.acc k) ↔ ((x ∈ membersOf st k ∨ x ∈ aux.acc k) ∧ ¬ e.delM k x) ∨ e.addM k x
  rw [t.m]
  constructor
  · rintro ((⟨h1, h2⟩ | h1) | h1)
    · exact Or.inl ⟨Or.inl h1, h2⟩
    · exact Or.inr h1
    · exact Or.inl ⟨Or.inr h1, fun z => hdel k x z h1⟩
  · rintro (⟨h1 | h1, h2⟩ | h1)
    · exact Or.inl (Or.inl ⟨h1, h2⟩)
    · exact Or.inr h1
    · exact Or.inl (Or.inr h1)

/-- forward ⊆ reverse for memberships, weakened by the phase of the actor's OWN exit only -/
def fMof (a : Nat) (v : View) (k : Key) : Phase → Prop
  | .leaving mk _ => k ∈ mk
  | .done => False
  | _ => v.RM a k

def fLof (a : Nat) (v : View) (k : Key) : Phase → Prop
  | .live | .marked => v.RG a k
  | .demon gk _ => k ∈ gk
  | _ => False

def fWof (a : Nat) (v : View) (s : Nat) : Phase → Prop
  | .live | .marked => v.RW a s
  | .demon _ wk => s ∈ wk
  | _ => False

def drainedG : Phase → Prop
  | .live | .marked => False
  | _ => True

def drainedM : Phase → Prop
  | .leaving _ _ | .done => True
  | _ => False

/-- the invariant about one actor, by the phase of its exit -/
structure VInv (a : Nat) (v : View) (ph : Phase) : Prop where
  /-- reverse ⊆ forward: never weakened for memberships; a monitor entry without its forward entry is a
  stale one left by a `demonitor*` that had fetched no `Arc` -/
  rM : ∀ k, v.RM a k → v.M k a
  rL : ∀ k, v.RG a k → v.L k a ∨ v.SG a k
  rW : ∀ s, v.RW a s → v.W s a ∨ v.SW a s
  /-- `Stopping` is published from `mark` on -/
  dead : ph ≠ .live → v.D a
  /-- forward ⊆ reverse, weakened by the phase of the actor's OWN exit only -/
  fM : ∀ k, v.M k a → fMof a v k ph
  fL : ∀ k, v.L k a → fLof a v k ph
  fW : ∀ s, v.W s a → fWof a v s ph
  /-- what the exit has drained stays drained -/
  drG : drainedG ph → (∀ k, ¬ v.RG a k) ∧ (∀ s, ¬ v.RW a s)
  drM : drainedM ph → ∀ k, ¬ v.RM a k
  /-- an actor that was already stopping when the run began (no exit to step) owns nothing -/
  old : ph = .live → v.D a → ((∀ k, ¬ v.M k a) ∧ (∀ k, ¬ v.L k a) ∧ (∀ s, ¬ v.W s a)) ∧
    ((∀ k, ¬ v.RM a k) ∧ (∀ k, ¬ v.RG a k) ∧ (∀ s, ¬ v.RW a s))

/-- what a region that is not part of `a`'s own exit guarantees about `a` -/
structure EnvV (a : Nat) (v v' : View) : Prop where
  dead : v.D a → v'.D a
  db : v'.D a → v.D a
  fM : (∀ k, v.M k a → v.RM a k) → ∀ k, v'.M k a → v'.RM a k
  fL : (∀ k, v.L k a → v.RG a k) → ∀ k, v'.L k a → v'.RG a k
  fW : (∀ s, v.W s a → v.RW a s) → ∀ s, v'.W s a → v'.RW a s
  rM : (∀ k, v.RM a k → v.M k a) → ∀ k, v'.RM a k → v'.M k a
  rL : (∀ k, v.RG a k → v.L k a ∨ v.SG a k) → ∀ k, v'.RG a k → v'.L k a ∨ v'.SG a k
  rW : (∀ s, v.RW a s → v.W s a ∨ v.SW a s) → ∀ s, v'.RW a s → v'.W s a ∨ v'.SW a s
  sM : v.D a → ∀ k, v'.M k a → v.M k a
  sL : v.D a → ∀ k, v'.L k a → v.L k a
  sW : v.D a → ∀ s, v'.W s a → v.W s a
  sRM : v.D a → ∀ k, v'.RM a k → v.RM a k
  sRG : v.D a → ∀ k, v'.RG a k → v.RG a k
  sRW : v.D a → ∀ s, v'.RW a s → v.RW a s

theorem envV_of_vtrans {a : Nat} {v v' : View} {e : Eff} (t : VTrans v v' e) (wb : WBV a v e)
    (db : v'.D a → v.D a) : EnvV a v v' := by
  refine ⟨t.d a, db, ?_, ?_, ?_, ?_, ?_, ?_, ?_, ?_, ?_, ?_, ?_, ?_⟩
  · intro h k hk
    rw [t.m] at hk; rw [t.rm]
    rcases hk with ⟨h1, h2⟩ | h1
    · exact Or.inl ⟨h k h1, fun x => h2 ((wb.dm k).mpr x)⟩
    · exact Or.inr h1
  · intro h k hk
    rw [t.l] at hk; rw [t.rg]
    rcases hk with ⟨h1, h2⟩ | h1
    · exact Or.inl ⟨h k h1, fun x => h2 ((wb.dl k).mpr x)⟩
    · exact Or.inr h1
  · intro h s hs
    rw [t.w] at hs; rw [t.rw]
    rcases hs with ⟨h1, h2⟩ | h1
    · exact Or.inl ⟨h s h1, fun x => h2 ((wb.dw s).mpr x)⟩
    · exact Or.inr h1
  · intro h k hk
    rw [t.rm] at hk; rw [t.m]
    rcases hk with ⟨x, y⟩ | x
    · exact Or.inl ⟨h k x, fun z => y ((wb.dm k).mp z)⟩
    · exact Or.inr x
  · intro h k hk
    rw [t.rg] at hk; rw [t.l]
    rcases hk with ⟨x, y⟩ | x
    · rcases h k x with z | z
      · exact Or.inl (Or.inl ⟨z, fun w => y ((wb.dl k).mp w)⟩)
      · exact Or.inr (t.sg a k z)
    · exact Or.inl (Or.inr x)
  · intro h s hs
    rw [t.rw] at hs; rw [t.w]
    rcases hs with ⟨x, y⟩ | x
    · rcases h s x with z | z
      · exact Or.inl (Or.inl ⟨z, fun w => y ((wb.dw s).mp w)⟩)
      · exact Or.inr (t.sw a s z)
    · exact Or.inl (Or.inr x)
  · intro hd k hk; rw [t.m] at hk
    rcases hk with ⟨h1, _⟩ | h1
    · exact h1
    · exact absurd hd (wb.am k h1)
  · intro hd k hk; rw [t.l] at hk
    rcases hk with ⟨h1, _⟩ | h1
    · exact h1
    · exact absurd hd (wb.al k h1)
  · intro hd s hs; rw [t.w] at hs
    rcases hs with ⟨h1, _⟩ | h1
    · exact h1
    · exact absurd hd (wb.aw s h1)
  · intro hd k hk; rw [t.rm] at hk
    rcases hk with ⟨h1, _⟩ | h1
    · exact h1
    · exact absurd hd (wb.am k h1)
  · intro hd k hk; rw [t.rg] at hk
    rcases hk with ⟨h1, _⟩ | h1
    · exact h1
    · exact absurd hd (wb.al k h1)
  · intro hd s hs; rw [t.rw] at hs
    rcases hs with ⟨h1, _⟩ | h1
    · exact h1
    · exact absurd hd (wb.aw s h1)

theorem envV_refl (a : Nat) (v : View) : EnvV a v v :=
  ⟨id, id, fun h => h, fun h => h, fun h => h, fun h => h, fun h => h, fun h => h,
    fun _ _ h => h, fun _ _ h => h, fun _ _ h => h, fun _ _ h => h, fun _ _ h => h, fun _ _ h => h⟩

/-- a region that is not part of `a`'s own exit keeps `a`'s invariant -/
theorem vinv_env {a : Nat} {v v' : View} {ph : Phase} (e : EnvV a v v') (h : VInv a v ph) : VInv a v' ph := by
  have hdead : ph ≠ .live → v.D a := h.dead
  refine ⟨e.rM h.rM, e.rL h.rL, e.rW h.rW, fun hp => e.dead (h.dead hp), ?_, ?_, ?_, ?_, ?_, ?_⟩
  · cases ph with
    | live => exact e.fM h.fM
    | marked => exact e.fM h.fM
    | demon gk wk => exact e.fM h.fM
    | demonDone => exact e.fM h.fM
    | leaving mk rm => exact fun k hk => h.fM k (e.sM (hdead (by simp)) k hk)
    | done => exact fun k hk => h.fM k (e.sM (hdead (by simp)) k hk)
  · cases ph with
    | live => exact e.fL h.fL
    | marked => exact e.fL h.fL
    | demon gk wk => exact fun k hk => h.fL k (e.sL (hdead (by simp)) k hk)
    | demonDone => exact fun k hk => h.fL k (e.sL (hdead (by simp)) k hk)
    | leaving mk rm => exact fun k hk => h.fL k (e.sL (hdead (by simp)) k hk)
    | done => exact fun k hk => h.fL k (e.sL (hdead (by simp)) k hk)
  · cases ph with
    | live => exact e.fW h.fW
    | marked => exact e.fW h.fW
    | demon gk wk => exact fun s hs => h.fW s (e.sW (hdead (by simp)) s hs)
    | demonDone => exact fun s hs => h.fW s (e.sW (hdead (by simp)) s hs)
    | leaving mk rm => exact fun s hs => h.fW s (e.sW (hdead (by simp)) s hs)
    | done => exact fun s hs => h.fW s (e.sW (hdead (by simp)) s hs)
  · intro hp
    have hd : v.D a := hdead (by intro e; rw [e] at hp; exact hp)
    exact ⟨fun k hk => (h.drG hp).1 k (e.sRG hd k hk), fun s hs => (h.drG hp).2 s (e.sRW hd s hs)⟩
  · intro hp
    have hd : v.D a := hdead (by intro e; rw [e] at hp; exact hp)
    exact fun k hk => h.drM hp k (e.sRM hd k hk)
  · intro hp hd'
    have hd := e.db hd'
    obtain ⟨⟨c1, c2, c3⟩, d1, d2, d3⟩ := h.old hp hd
    exact ⟨⟨fun k hk => c1 k (e.sM hd k hk), fun k hk => c2 k (e.sL hd k hk), fun s hs => c3 s (e.sW hd s hs)⟩,
      fun k hk => d1 k (e.sRM hd k hk), fun k hk => d2 k (e.sRG hd k hk), fun s hs => d3 s (e.sRW hd s hs)⟩

end Pg.Conc
