import Driver.C05

/-! Driver for `harness/hcore/src/bin/treemx.rs` (C05, round 4): every actor on its own OS thread, so the
region a thread executes between two schedule points is a step (or a few steps) of THAT actor's exit
machine in `Model/TreeConc.lean`; the racer thread's region is a `link` / `unlink`.  After every region
the implementation's tree (read with the lock-free readers while all threads are parked outside the tree
lock) is compared with the model's, and judged by `linksOk`/`setsOk`/`stoppedOk` (consistency between lock
regions) and `gainOk`; at rest by "the whole subtree is Stopped". -/

namespace Driver.TreeMx
open Tree Driver Driver.C05

structure DState where
  g : CState := {}
  n : Nat := 0
  parents : List (Option Nat) := []
  racer : String := "none"
  prev : Option State := none        -- the implementation's previous snapshot
  everLinked : List Nat := []        -- actors that had a supervisor in some snapshot of the implementation
  closedPrev : List Nat := []        -- the implementation's closed sets in its previous snapshot
  targets : List Nat := []
  /-- `spawn_linked` racer: 0 = not started, 1 = cell created (Starting), 2 = start link accepted,
  3 = from here on the new actor is a machine like the others (refused link: its cleanup; accepted: Running) -/
  phase : Nat := 0
  /-- actors that lost their supervisor in a region of ANOTHER actor's thread (its `take_children`) -/
  taken : List Nat := []

def get (ws : List String) (k : String) : String :=
  match ws.find? (·.startsWith (k ++ "=")) with
  | some w => (w.drop (k.length + 1)).toString
  | none => "?"

def initCase (ws : List String) : DState :=
  let parents := (splitOnChar (get ws "parents") ',').map (fun w => w.toNat?)
  let n := parents.length
  let g0 : CState := {}
  -- spawn everybody, then the start links (the children are `Starting`), then Running
  let g1 := (List.range n).foldl (fun g _ => cstepN g .spawn) g0
  let g2 := (List.range n).foldl (fun g i => match parents.getD i none with
      | some p => cstepN (cstepN g (.setStatus p .running)) (.linkStart i p)
      | none => g) g1
  let g3 := (List.range n).foldl (fun g i => cstepN g (.setStatus i .running)) g2
  { g := g3, n := n, parents := parents, racer := get ws "racer",
    targets := (splitOnChar (get ws "targets") ',').filterMap (·.toNat?) }

def xs (g : CState) (a : Nat) : CState := cstepN g (.xstep a)

/-- the implementation's closed sets: actors whose kids field is `x` -/
def closedOf (impl : String) : List Nat :=
  (words ((impl.splitOn " |").getD 1 "")).filterMap fun w =>
    match splitOnChar w ':' with
    | [i, _, _, k, _] => if k == "x" then i.toNat? else none
    | _ => none

/-- the steps of machine `a` that the region starting at point `p` (and ending at `q`) executed.  The
kill test of the next worklist entry is replayed together with its `take_children` (it only sets the
ghost flag), because WHICH entry is next is the `HashMap`'s choice: it is read off the implementation's
snapshot — the actor whose set this region closed (`closed`) — and put first by a `shuffle`. -/
def advance (g : CState) (a : Nat) (p q : String) (closed : List Nat) : CState :=
  -- a region that ends at `tree.take` while the machine has not begun: the task took the kill signal in it
  (fun g1 => if g1.pc a == .idle && q == "tree.take" then cstepN g1 (.begin a true) else g1) <|
  match p, g.pc a with
  | "status.publish", .idle =>
    -- a freshly started actor's loop task publishes Running; anybody else at this point is on its way out
    if g.t.status a == .starting then cstepN g (.setStatus a .running) else xs (cstepN g (.begin a false)) a
  | "status.publish", .pub => xs g a
  | "status.publish", .publishStopped => xs g a
  | "tree.take", .term _ pend none =>
    let cands := pend.eraseDups
    let z := match cands.find? (fun z => (g.t.kids z).isSome && closed.contains z) with
      | some z => some z
      | none => match cands.find? (fun z => (g.t.kids z).isNone) with
        | some z => some z
        | none => cands.head?
    match z with
    | none => g
    | some z =>
      let g1 := xs (xs (cstepN g (.shuffle a (z :: pend.erase z))) a) a
      match g1.pc a with
      | .term _ [] none => xs g1 a            -- the worklist is empty: on to `pub` / `detach`
      | _ => g1
  | "cleanup.unlink", .detach =>
    let g1 := xs g a
    match g1.pc a with
    | .unl none => xs g1 a
    | _ => g1
  | "tree.unlink", .unl (some _) => xs g a
  | _, _ => g

/-- like `showSnap`, a closed child set shown as `x` -/
def showMx (t : State) : String :=
  " ".intercalate ((List.range t.n).map fun i =>
    let sup := match t.sup i with | some p => toString p | none => "-"
    let kids := match t.kids i with | some ks => showNats (sortNats ks) | none => "x"
    s!"{i}:{(t.status i).name}:{sup}:{kids}:0")

def racerOp (r : String) : Option COp :=
  match splitOnChar r ':' with
  | ["link", c, p] => some (.link (c.toNat?.getD 0) (p.toNat?.getD 0))
  | ["unlink", c, p] => some (.unlink (c.toNat?.getD 0) (p.toNat?.getD 0))
  | _ => none

/-- at rest: whoever got the exit cause is Stopped, and so is everybody whose supervisor link was cut by
somebody else's `take_children` (it was linked beneath an exiting actor when that actor's worklist got
there); an orphan whose link was accepted under the tree likewise (it is then in `taken` too) -/
def restClauses (st : DState) (cur : State) : List String :=
  let stopped (i : Nat) : Bool := cur.status i == .stopped
  (if st.targets.all stopped then [] else ["C05.exit-not-finished"]) ++
  (if st.taken.all stopped then [] else ["C05.subtree-dies"])

def step (st : DState) (op impl : String) : DState × StepOut :=
  let ws := words op
  let snapOf (s : String) : Option State :=
    (parseSnapshot? ("r=x |" ++ (((s.splitOn " |").getD 1 "").replace ":x:" ":-:"))).map (·.2)
  let cur := snapOf impl
  let closed := closedOf impl
  let judge (st : DState) (extra : List String) : List String × DState :=
    match cur with
    | none => (["unparsable"], st)
    | some c =>
      let o1 := if linksOk c && setsOk c && stoppedOk c then [] else ["C05.ok mx-snapshot"]
      -- a Stopped actor's set is closed (not merely empty); a closed set stays closed
      let o1 := o1 ++ (if (List.range c.n).all (fun i => c.status i != .stopped || closed.contains i) then [] else ["C05.stopped-with-open-set"])
      let o1 := o1 ++ (if st.closedPrev.all closed.contains then [] else ["C05.closed-set-reopened"])
      let o2 := match st.prev with
        | some p => if gainOk p c then [] else ["C05.gain"]
        | none => []
      let linked := (List.range c.n).filter (fun i => (c.sup i).isSome)
      (o1 ++ o2 ++ extra, { st with prev := some c, closedPrev := closed, everLinked := (st.everLinked ++ linked).eraseDups })
  match ws with
  | "mx" :: rest =>
    let st1 := initCase rest
    let (orc, st2) := judge st1 []
    (st2, { model := s!"ok | {showMx st1.g.t}", oracle := orc })
  | ["g", tid, p] =>
    let tid := tid.toNat?.getD 0
    let q := ((impl.splitOn " |").getD 0 "").trimAscii.toString
    let spawnl : Option Nat := match splitOnChar st.racer ':' with
      | ["spawnl", sp] => sp.toNat?
      | _ => none
    let (g1, phase) :=
      if tid < st.n then (advance st.g tid p q closed, st.phase)
      else match spawnl with
        | some sp =>
          -- the racer thread runs `spawn_linked(.., supervisor = sp)` and then hosts the new actor `st.n`
          if st.phase == 0 && p == "status.publish" then (cstepN st.g .spawn, 1)               -- Starting, pre_start
          else if st.phase == 1 && p == "tree.link" then
            let g' := cstepN st.g (.linkStart st.n sp)
            -- refused: `start` returns Err, the lifecycle guard cleans the new cell up (still `Starting`)
            (g', if g'.t.sup st.n == some sp then 3 else 4)
          else if st.phase == 4 then
            (if p == "status.publish" && st.g.pc st.n == .idle then (xs (cstepN st.g (.begin st.n false)) st.n, 3)
             else (advance st.g st.n p q closed, 4))
          else if st.phase == 3 then (advance st.g st.n p q closed, 3)
          else (st.g, st.phase)
        | none => match racerOp st.racer with
          | some o => (if p == "tree.link" || p == "tree.unlink" then cstepN st.g o else st.g, st.phase)
          | none => (st.g, st.phase)
    -- whose supervisor link did this region cut?
    let cut := match st.prev, cur with
      | some pr, some c => (List.range c.n).filter (fun j => (pr.sup j).isSome && (c.sup j).isNone &&
          (tid < st.n || (spawnl.isSome && st.phase >= 3)) && tid != j)
      | _, _ => []
    let st1 := { st with g := g1, phase := phase, taken := (st.taken ++ cut).eraseDups }
    let (orc, st2) := judge st1 []
    (st2, { model := s!"{q} | {showMx g1.t}", oracle := orc,
            nontrivial := p != "h.idle" || q != "h.idle", key := some s!"{st.racer} {op} {impl}" })
  | "rest" :: rws =>
    -- a `spawn_linked` that returned `Err` leaves its cell Stopped
    let spawnErr := match cur with
      | some c => if get rws "spawn" == "err" && c.n > st.n && c.status st.n != .stopped then ["C05.spawn-err-not-stopped"] else []
      | none => []
    -- `spawn_linked` under a supervisor that has exited: Err, or the new child is terminated too
    let spawnOk := match cur, (splitOnChar st.racer ':') with
      | some c, ["spawnl", sp] =>
        let sp := sp.toNat?.getD 0
        if get rws "spawn" == "ok" && c.status sp == .stopped && c.n > st.n && c.status st.n != .stopped
        then ["C05.race-orphan"] else []
      | _, _ => []
    let extra := (match cur with | some c => restClauses st c | none => []) ++ spawnErr ++ spawnOk
    let (orc, st2) := judge st extra
    (st2, { model := s!"ok | {showMx st.g.t}", oracle := orc, nontrivial := true })
  | _ => (st, { model := "?" })

def run (ops impl : Array String) : IO Tally := replay ({} : DState) step ops impl

end Driver.TreeMx
