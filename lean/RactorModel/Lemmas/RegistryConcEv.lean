import RactorModel.Lemmas.RegistryConc

/-! The caller-order invariant and the event log of `Model/RegistryConc.lean`. -/

namespace Reg2

/-- under the caller order: an actor whose `wait()` has returned no longer holds its name entry -/
def OInv (s : State) : Prop := ∀ a, (s.act a).status = stopped → holds (s.act a) = false

theorem OInv.init : OInv init := by intro a h; simp [Reg2.init, stopped] at h

theorem OInv.step {s : State} (h : RInv s) (ho : OInv s) (op : Op) (hord : ordered s op = true) :
    OInv (step s op) := by
  have hp := h.pcs
  unfold OInv at ho ⊢
  cases op with
  | new a name => simp only [Reg2.step]; split <;> intros <;> reg_auto
  | newRemote a name => simp only [Reg2.step]; split <;> intros <;> reg_auto
  | regName a => simp only [Reg2.step]; split <;> (try split) <;> intros <;> reg_auto
  | regPid a => simp only [Reg2.step]; split <;> intros <;> reg_auto
  | regPidFail a => simp only [Reg2.step]; split <;> intros <;> reg_auto
  | rollback a => simp only [Reg2.step]; split <;> intros <;> reg_auto
  | monitor m => simp only [Reg2.step]; intros; reg_auto
  | demonitor m => simp only [Reg2.step]; intros; reg_auto
  | publish a st =>
    simp only [ordered, decide_eq_true_eq] at hord
    simp only [Reg2.step]; split <;> intros <;> reg_auto
  | bstep a =>
    have hpa := hp a
    simp only [Reg2.step]
    split
    · next stmt rest st hpc =>
      have hsuf : stopping ≤ (s.act a).status ∧ suffixOk (stmt :: rest) := by
        simpa only [pcOk, hpc] using hpa
      have hst := hsuf.1
      rcases hsuf.2 with e | e | e | e
      · injection e with e1 e2; subst e1 e2; simp only [exec]; intros; reg_auto
      · injection e with e1 e2; subst e1 e2; simp only [exec]; split <;> intros <;> reg_auto
      · injection e with e1 e2; subst e1 e2; simp only [exec]
        split
        · split <;> intros <;> reg_auto
        · intros; reg_auto
      · cases e
    · intros; reg_auto
    · exact ho

theorem OInv.run {s : State} (h : RInv s) (ho : OInv s) (ops : List Op) (hord : Ordered s ops = true) :
    OInv (run s ops) := by
  induction ops generalizing s with
  | nil => exact ho
  | cons op ops ih =>
    simp only [Ordered, Bool.and_eq_true] at hord
    exact ih (h.step op) (ho.step h op hord.1) hord.2

/-! ### the event log -/

/-- two entries of the log, the first one older: they differ, and the older one is not a `Terminate` of an
actor whose `Spawn` comes later -/
def EvRel (e f : Nat × Bool × Nat) : Prop := e ≠ f ∧ ¬ (e.2.1 = false ∧ f.2.1 = true ∧ e.2.2 = f.2.2)

def LogOk (s : State) : Prop := s.log.Pairwise EvRel

theorem log_cases (s : State) (op : Op) :
    (step s op).log = s.log ∨
    (∃ a, op = .regPid a ∧ (s.act a).pc = .consPid ∧ (step s op).log = s.log ++ fanout s true a) ∨
    (∃ a rest st, op = .bstep a ∧ (s.act a).pc = .blk (.unregPid :: rest) st ∧ (s.act a).remote = false ∧
      s.pids a = true ∧ (step s op).log = s.log ++ fanout s false a) := by
  cases op with
  | new a name => left; simp only [Reg2.step]; split <;> rfl
  | newRemote a name => left; simp only [Reg2.step]; split <;> rfl
  | regName a => left; simp only [Reg2.step]; split <;> (try split) <;> rfl
  | regPidFail a => left; simp only [Reg2.step]; split <;> rfl
  | rollback a => left; simp only [Reg2.step]; split <;> rfl
  | publish a st => left; simp only [Reg2.step]; split <;> rfl
  | monitor m => left; rfl
  | demonitor m => left; rfl
  | regPid a =>
    simp only [Reg2.step]; split
    · next h => right; left; exact ⟨a, rfl, h, rfl⟩
    · left; rfl
  | bstep a =>
    simp only [Reg2.step]
    split
    · next stmt rest st hpc =>
      cases stmt with
      | demonitor => left; rfl
      | unregName => left; simp only [exec, setPc]; split <;> (try split) <;> rfl
      | unregPid =>
        simp only [exec, setPc]
        split
        · next hc =>
          right; right
          simp only [Bool.and_eq_true, Bool.not_eq_eq_eq_not, Bool.not_true] at hc
          exact ⟨a, rest, st, rfl, hpc, hc.1, hc.2, rfl⟩
        · left; rfl
    · left; rfl
    · left; rfl

theorem fanout_pairwise (s : State) (k : Bool) (a : Nat) : (fanout s k a).Pairwise EvRel := by
  unfold fanout listeners
  apply List.Pairwise.map (R := fun x y => x ≠ y)
  · intro x y hxy
    refine ⟨?_, ?_⟩
    · intro e; injection e with e1 _; exact hxy e1
    · rintro ⟨h1, h2, _⟩; simp only at h1 h2; rw [h1] at h2; cases h2
  · exact List.Pairwise.filter _ List.nodup_range

theorem LogOk.step {s : State} (h : RInv s) (hl : LogOk s) (op : Op) : LogOk (step s op) := by
  unfold LogOk at hl ⊢
  rcases log_cases s op with e | ⟨a, _, hpc, e⟩ | ⟨a, rest, st, _, hpc, hrem, hpid, e⟩
  · rw [e]; exact hl
  · rw [e, List.pairwise_append]
    refine ⟨hl, fanout_pairwise _ _ _, ?_⟩
    intro x hx y hy
    obtain ⟨y1, y2, _⟩ := mem_fanout hy
    have hsp := h.evSp x hx
    have hns : x.2.2 ≠ a := by
      intro e'; rw [e'] at hsp; simp [spawned, hpc] at hsp
    refine ⟨?_, ?_⟩
    · intro e'; rw [e'] at hns; exact hns y2
    · rintro ⟨_, _, h3⟩; rw [y2] at h3; exact hns h3
  · rw [e, List.pairwise_append]
    refine ⟨hl, fanout_pairwise _ _ _, ?_⟩
    intro x hx y hy
    obtain ⟨y1, y2, _⟩ := mem_fanout hy
    refine ⟨?_, ?_⟩
    · intro e'
      have htm := h.evTm x hx (by rw [e']; exact y1)
      rw [e', y2] at htm
      have := h.pid a
      rw [hpid] at this
      simp [terminated, ← this] at htm
    · rintro ⟨_, h2, _⟩; rw [y1] at h2; cases h2

theorem LogOk.run {s : State} (h : RInv s) (hl : LogOk s) (ops : List Op) : LogOk (run s ops) := by
  induction ops generalizing s with
  | nil => exact hl
  | cons op ops ih => exact ih (h.step op) (hl.step h op)

end Reg2
