import RactorModel.Lemmas.PgConcLin
import RactorModel.Lemmas.PgConcNotify

/-!
# The notification clause of C11 restated against the property text (wave 2)

"Every effective join or leave, including the automatic leave on exit (one Leave per group the actor
was still in), is delivered to every actor monitoring that group, its scope or all scopes at that
time, with the right scope, group and actors, and to no one else."

Nothing here is read off `pg.rs`: `monitoring` is the monitoring relation of the text (the three
ways to monitor a group), `changed` is "the region changed whether `x` is a member of `k`"
(effective), and a record is classified as effective / ineffective by the membership before and
after its region alone.
-/

namespace Pg.Conc
open AList Pg Pg.Fine

/-- the text's "monitoring that group, its scope or all scopes" in state `st` -/
def monitoring (st : State) (m : Nat) (k : Key) : Prop :=
  m ∈ listenersOf st k ∨ m ∈ worldOf st k.1 ∨ m ∈ worldOf st allScopes

theorem mem_recipients_iff (st : State) (m : Nat) (k : Key) : m ∈ recipients st k ↔ monitoring st m k := by
  simp only [recipients, monitoring, List.mem_append, or_assoc]

/-- the region `t` run in `g` is an EFFECTIVE change of group `k` for actor `x` -/
def changed (g : G) (t : Tid) (k : Key) (x : Nat) : Prop :=
  ¬ (x ∈ membersOf (step g t).st k ↔ x ∈ membersOf g.st k)

/-- a record is effective if at least one actor it names changed sides in its region -/
def effectiveRec (g : G) (t : Tid) (p : Pending) : Prop := ∃ x ∈ p.actors, changed g t (p.s, p.g) x

/-- the two kinds of INEFFECTIVE record the implementation makes (decided against the text below):
a `Join` all of whose actors were members already (a repeated join), a `Leave` none of whose actors
was a member (possible only when the group entry exists for somebody else) -/
def ineffectiveRec (g : G) (p : Pending) : Prop :=
  (p.isJoin = true ∧ ∀ x ∈ p.actors, x ∈ membersOf g.st (p.s, p.g)) ∨
  (p.isJoin = false ∧ ∀ x ∈ p.actors, x ∉ membersOf g.st (p.s, p.g))

/-- **One region against the text.** For every state and every region of every thread, with `new` the
records the region appends:
(a) every effective change `(k, x)` of the region is covered by exactly one record (`new = [p]`), for
that scope and group, of the right kind, naming `x`, addressed to EXACTLY the actors monitoring `k`, its
scope or all scopes in the state the region ran in;
(b) every record is addressed to exactly the monitors of its group at that instant — nobody else;
(c) a record that is not effective is a repeated `Join` of members or a `Leave` of non-members: the
implementation reports these too (to the same monitors), everything it reports is true of the state after
the region (`PayloadOk`). -/
theorem text_step (g : G) (t : Tid) :
    ∃ new, (step g t).changes = g.changes ++ new ∧
      (∀ k x, changed g t k x → ∃ p, new = [p] ∧ (p.s, p.g) = k ∧ x ∈ p.actors ∧
        (p.isJoin = true ↔ x ∈ membersOf (step g t).st k) ∧ ∀ m, m ∈ p.to ↔ monitoring g.st m k) ∧
      (∀ p ∈ new, ∀ m, m ∈ p.to ↔ monitoring g.st m (p.s, p.g)) ∧
      (∀ p ∈ new, PayloadOk (step g t).st p ∧ (effectiveRec g t p ∨ ineffectiveRec g p)) := by
  obtain ⟨new, hnew, hto⟩ := records_step g t
  obtain ⟨new', hnew', hpay⟩ := payload_step g t
  have hnn : new' = new := List.append_cancel_left (hnew'.symm.trans hnew)
  subst hnn
  refine ⟨new', hnew, ?_, ?_, ?_⟩
  · intro k x hch
    obtain ⟨p, hp, hk, hx, hj, hr⟩ := change_recorded g t k x hch
    have : new' = [p] := List.append_cancel_left (hnew.symm.trans hp)
    exact ⟨p, this, hk, hx, hj, fun m => by rw [hr]; exact mem_recipients_iff g.st m k⟩
  · intro p hp m
    rw [hto p hp]; exact mem_recipients_iff g.st m (p.s, p.g)
  · intro p hp
    refine ⟨hpay p hp, ?_⟩
    by_cases he : effectiveRec g t p
    · exact Or.inl he
    · right
      have hall : ∀ x ∈ p.actors, (x ∈ membersOf (step g t).st (p.s, p.g) ↔ x ∈ membersOf g.st (p.s, p.g)) := by
        intro x hx
        apply Classical.byContradiction
        intro hn
        exact he ⟨x, hx, hn⟩
      unfold ineffectiveRec
      cases hj : p.isJoin with
      | true => exact Or.inl ⟨rfl, fun x hx => (hall x hx).mp ((hpay p hp x hx).1 hj)⟩
      | false => exact Or.inr ⟨rfl, fun x hx => fun hm => (hpay p hp x hx).2 hj ((hall x hx).mpr hm)⟩

/-- the state at the instant after `i` granted regions of the schedule -/
def stAt (g : G) (sched : List Tid) (i : Nat) : State := (run g (sched.take i)).st

theorem stAt_cons (g : G) (t : Tid) (ts : List Tid) (i : Nat) : stAt g (t :: ts) (i + 1) = stAt (step g t) ts i := rfl

/-- **Along a schedule**: every record made during the run was addressed to exactly the monitors of
its group at the instant `i` of its own region (a state of the run), whatever happened before or after. -/
theorem records_run (g : G) (sched : List Tid) :
    ∀ p ∈ (run g sched).changes, p ∈ g.changes ∨
      ∃ i, i < sched.length ∧ ∀ m, m ∈ p.to ↔ monitoring (stAt g sched i) m (p.s, p.g) := by
  induction sched generalizing g with
  | nil => intro p hp; exact Or.inl hp
  | cons t ts ih =>
    intro p hp
    rcases ih (step g t) p hp with h | ⟨i, hi, h⟩
    · obtain ⟨new, hnew, _, hb, _⟩ := text_step g t
      rw [hnew, List.mem_append] at h
      rcases h with h | h
      · exact Or.inl h
      · exact Or.inr ⟨0, by simp, hb p h⟩
    · exact Or.inr ⟨i + 1, by simp only [List.length_cons]; omega, by rw [stAt_cons]; exact h⟩

/-- **To no one else, end to end.** At rest every notification that was sent is the notification of a
recorded change, to an actor that was monitoring that group, its scope or all scopes at the instant of
that change's region. -/
theorem sent_only_to_monitors (g : G) (sched : List Tid) (hc : g.changes = [])
    (hperm : (run g sched).sent.Perm ((run g sched).changes.flatMap notifyPending)) :
    ∀ e ∈ (run g sched).sent, ∃ p ∈ (run g sched).changes, e = ⟨e.monitor, p.isJoin, p.s, p.g, p.actors⟩ ∧
      ∃ i, i < sched.length ∧ monitoring (stAt g sched i) e.monitor (p.s, p.g) := by
  intro e he
  have := hperm.mem_iff.mp he
  rw [List.mem_flatMap] at this
  obtain ⟨p, hp, hep⟩ := this
  unfold notifyPending at hep
  rw [List.mem_map] at hep
  obtain ⟨m, hm, rfl⟩ := hep
  refine ⟨p, hp, rfl, ?_⟩
  rcases records_run g sched p hp with h | ⟨i, hi, h⟩
  · rw [hc] at h; cases h
  · exact ⟨i, hi, (h m).mp hm⟩

end Pg.Conc
