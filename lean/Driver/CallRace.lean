import RactorModel.Model.CallRace
import Driver.Common

/-! Driver for the `CallRace` model (C09, E-THR engine `harness/hcore/src/bin/rpcrace.rs`).

  `case <n> <k>`        → `ok at=call.poll,…`
  `step c<i>`           → `at=<point>` / `at=done ret <res>`
  `rx handle r|d`       → `handled=<id:val|id:drop|-> st=<0|2>`
  `rx kill` / `rx stop` → `handled=- st=2`      (model macro: setStopping, setStopped, dropRx)
  `end`                 → `c0=<res|pending> … handled=… gone=<0|1> polls=<n,…>`
                          oracle `CallRace.judge` on the implementation's line only -/

namespace Driver.CallRaceD
open Driver _root_.CallRace

structure St where
  s : S := {}
  k : Nat := 0
  /-- polls granted to caller i after the callee's task ended (model side, for the `end` line) -/
  polls : List Nat := []

def showAt (s : S) (i : Nat) : String :=
  match s.pcs i with
  | .done r => s!"at=done ret {r.show}"
  | pc => s!"at={pc.point}"

def showHandled (l : List (Nat × Option Nat)) : String :=
  if l.isEmpty then "-" else ",".intercalate (l.map fun
    | (p, some v) => s!"{p}:{v}"
    | (p, none) => s!"{p}:drop")

def parseRes? (s : String) : Option (Option Res) :=
  if s == "pending" then some none
  else if s == "senderr" then some (some .sendErr)
  else if s == "sendererror" then some (some .senderError)
  else if s.startsWith "success:" then (s.drop 8).toString.toNat?.map fun v => some (.success v)
  else none

def parseHandled? (s : String) : Option (List (Nat × Option Nat)) :=
  if s == "-" then some [] else (splitOnChar s ',').mapM fun e =>
    match splitOnChar e ':' with
    | [p, "drop"] => p.toNat?.map fun p => (p, none)
    | [p, v] => do pure (← p.toNat?, some (← v.toNat?))
    | _ => none

def field? (ws : List String) (k : String) : Option String :=
  (ws.find? (·.startsWith (k ++ "="))).map fun w => (w.drop (k.length + 1)).toString

/-- the oracle on the implementation's `end` line -/
def oracleEnd (k : Nat) (impl : String) : List String :=
  let ws := words impl
  match (field? ws "handled").bind parseHandled?, (field? ws "gone").bind parseBool?,
        (field? ws "polls").bind natList? with
  | some handled, some gone, some polls =>
    (List.range k).flatMap fun i =>
      match (field? ws s!"c{i}").bind parseRes? with
      | some res =>
        judge res gone (polls.getD i 0) i ((handled.find? (·.1 == i)).map (·.2))
      | none => ["c09.race-unparsable"]
  | _, _, _ => ["c09.race-unparsable"]

def step (st : St) (op impl : String) : St × StepOut :=
  match words op with
  | ["case", _, k] =>
    let k := k.toNat?.getD 1
    ({ s := init, k := k, polls := List.replicate k 0 },
     { model := "ok at=" ++ ",".intercalate ((List.range k).map fun _ => "call.poll") })
  | ["step", c] =>
    match (c.drop 1).toString.toNat? with
    | some i =>
      if i ≥ st.k then (st, { model := "bad-op" }) else
      let wasDone := match st.s.pcs i with | .done _ => true | _ => false
      let s' := _root_.CallRace.step st.s (.c i)
      let polls := if !st.s.rxAlive && !wasDone then st.polls.set i (st.polls.getD i 0 + 1) else st.polls
      ({ st with s := s', polls := polls },
       { model := showAt s' i, nontrivial := !wasDone,
         key := some s!"{showAt st.s i}->{showAt s' i} st={st.s.status} rx={st.s.rxAlive} q={st.s.queue.length} cnt={st.s.count}" })
    | none => (st, { model := "bad-op" })
  | ["rx", "handle", m] =>
    let s' := _root_.CallRace.step st.s (.handle (m == "r"))
    let new := s'.handled.drop st.s.handled.length
    ({ st with s := s' }, { model := s!"handled={showHandled new} st={s'.status}", nontrivial := !new.isEmpty })
  | ["rx", how] =>
    if how != "kill" && how != "stop" then (st, { model := "bad-op" }) else
    let s' := run st.s [.setStopping, .setStopped, .dropRx]
    ({ st with s := s' },
     { model := s!"handled=- st={s'.status}", nontrivial := st.s.rxAlive,
       key := some s!"exit q={st.s.queue.length} pcs={(List.range st.k).map fun i => (st.s.pcs i).point}" })
  | ["end"] =>
    let res := (List.range st.k).map fun i =>
      match st.s.pcs i with
      | .done r => s!"c{i}={r.show}"
      | _ => s!"c{i}=pending"
    let model := s!"{" ".intercalate res} handled={showHandled st.s.handled} gone={if st.s.rxAlive then 0 else 1} polls={showNats st.polls}"
    (st, { model := model, oracle := (oracleEnd st.k impl).eraseDups, nontrivial := true })
  | _ => (st, { model := "bad-op" })

def run (ops impl : Array String) : IO Tally := replay ({} : St) step ops impl

end Driver.CallRaceD
