import RactorModel.Lemmas.Life
import RactorModel.Lemmas.LifeC03Spec

/-! Liveness of the `Life` actor (wave 2): every exit path ends in `Stopped` with the lifecycle guard
disarmed, and a pending kill / stop gets there within an explicit number of polls of the actor's task.

* `Reach a` — the state invariant of every reachable actor: no cell yet (and nothing in its signal /
  stop port), or alive with the guard armed, or `Dead` (ports dropped, status `Stopped`, guard disarmed).
* `kill_step` / `kill_run` — with `Signal::Kill` in the signal port, every op keeps the kill pending or
  ends the actor, emits no callback progress (`enter`/`tick`/`exit`), and ONE poll of the actor's task
  (`pollSpawn` while the start future exists, `poll` of the loop task) ends it: `N = 1`.
* `stop_step` / `stop_run` — with a stop in the stop port (or `post_stop` already open) the rank
  `cell 5 > pre 4 > ready 3 > post_start/idle/handler 2 > post_stop 1 > done 0` never grows and every
  *effective* poll (a task poll that does not find the open callback still suspended: the script supplied a
  returning segment, or no callback is open, or a kill is pending) decreases it.
* `abort_dead` / `dropSpawn_dead` — `JoinHandle::abort` / dropping the spawn future end the actor in that step. -/

namespace Life.Liveness
open Life

@[simp] theorem max_stopped (s : Status) : s.max .stopped = .stopped := by
  cases s <;> simp [Status.max, Status.rank]

/-- Ports dropped, status `Stopped`, guard disarmed. -/
def Dead (a : Actor) : Prop :=
  a.phase = .done ∧ a.status = .stopped ∧ a.armed = false ∧ a.sigVal = false ∧ a.stopVal = none

/-- The cell exists, its ports are open, the lifecycle guard is armed. -/
def Alive (a : Actor) : Prop := a.phase ≠ .fresh ∧ a.phase ≠ .done ∧ a.armed = true

def Fresh (a : Actor) : Prop := a.phase = .fresh ∧ a.sigVal = false ∧ a.stopVal = none

/-- Invariant of every reachable actor state. -/
def Reach (a : Actor) : Prop := Fresh a ∨ Alive a ∨ Dead a

def AD (a : Actor) : Prop := Alive a ∨ Dead a

/-! ### exit paths -/

theorem cleanup_drop_dead (a : Actor) (e : Option SupEv) (h : a.armed = true) :
    Dead ((cleanup a e).1.dropPorts) := by
  simp [cleanup, h, Dead, Actor.dropPorts, Actor.setStatus]

theorem finish_dead (a : Actor) (e : SupEv) (h : a.armed = true) : Dead (finish a e).1 := by
  simpa [finish] using cleanup_drop_dead a (some e) h

theorem failSpawn_dead (a : Actor) (r : SpawnRet) (h : a.armed = true) : Dead (failSpawn a r).1 := by
  simpa [failSpawn] using cleanup_drop_dead a none h

theorem killedInLoop_dead (a : Actor) (h : a.armed = true) : Dead (killedInLoop a).1 := by
  simp only [killedInLoop, handleSignal, andThen_fst]
  exact finish_dead _ _ (by simpa [Actor.setStatus] using h)

theorem killedOutsideLoop_dead (a : Actor) (h : a.armed = true) : Dead (killedOutsideLoop a).1 := by
  simp only [killedOutsideLoop, handleSignal, andThen_fst]
  exact finish_dead _ _ (by simpa using h)

/-! ### the loop's choice -/

/-- The phases in which the loop task exists and has been polled at least once after `post_start`. -/
def Phase.inLoop : Phase → Bool
  | .idle | .inMsg | .inSup | .postStop _ => true
  | _ => false

theorem listen_AD (a : Actor) (h : a.armed = true) :
    Dead (listen a).1 ∨ ((listen a).1.armed = true ∧ Phase.inLoop (listen a).1.phase = true ∧
      a.sigVal = false ∧
      (∀ r, a.stopVal = some r → (listen a).1.phase = .postStop r)) := by
  unfold listen
  split
  · exact Or.inl (killedInLoop_dead _ (by simpa using h))
  · rename_i hs
    right
    simp only [enterPostStop]
    split
    · simp_all [Actor.setStatus, Phase.inLoop]
    · split
      · simp_all [Phase.inLoop]
      · split <;> simp_all [Actor.setStatus, Phase.inLoop]

/-! ### side effects of a segment keep the control state -/

structure Keep (a a' : Actor) : Prop where
  phase : a'.phase = a.phase
  armed : a'.armed = a.armed
  stop : a.stopVal.isSome = true → a'.stopVal.isSome = true

theorem Keep.rfl' (a : Actor) : Keep a a := ⟨rfl, rfl, id⟩

theorem Keep.trans {a b c : Actor} (h1 : Keep a b) (h2 : Keep b c) : Keep a c :=
  ⟨h2.phase.trans h1.phase, h2.armed.trans h1.armed, fun h => h2.stop (h1.stop h)⟩

theorem runFx_keep (a : Actor) (f : Fx) : Keep a (runFx a f).1 := by
  cases f <;> simp only [runFx, apiSend, apiStop, apiKill]
  all_goals (repeat' split) <;> first
    | exact Keep.rfl' a
    | exact ⟨rfl, rfl, fun h => by simpa using h⟩
    | exact ⟨rfl, rfl, fun _ => by simp⟩

theorem runFxs_keep (fs : List Fx) (a : Actor) : Keep a (runFxs a fs).1 := by
  induction fs generalizing a with
  | nil => exact Keep.rfl' a
  | cons f fs ih =>
    simp only [runFxs, andThen_fst]
    exact (runFx_keep a f).trans (ih _)


/-! ### after a callback returned -/

theorem afterExit_AD (a : Actor) (r : Res) (h : a.armed = true) :
    Dead (afterExit a r).1 ∨ ((afterExit a r).1.armed = true ∧ Phase.inLoop (afterExit a r).1.phase = true ∧
      (∀ rs, a.phase ≠ .postStop rs) ∧
      (∀ r', a.stopVal = some r' → (afterExit a r).1.phase = .postStop r')) := by
  unfold afterExit
  split
  · simp only [andThen_fst]
    rcases listen_AD (a.setStatus .running) (by simpa [Actor.setStatus] using h) with hd | ⟨h1, h2, _, h4⟩
    · exact Or.inl hd
    · exact Or.inr ⟨h1, h2, by simp_all, fun r' hr => h4 r' (by simpa [Actor.setStatus] using hr)⟩
  · rcases listen_AD a h with hd | ⟨h1, h2, _, h4⟩
    · exact Or.inl hd
    · exact Or.inr ⟨h1, h2, by simp_all, h4⟩
  · rcases listen_AD a h with hd | ⟨h1, h2, _, h4⟩
    · exact Or.inl hd
    · exact Or.inr ⟨h1, h2, by simp_all, h4⟩
  · exact Or.inl (finish_dead _ _ h)
  · exact Or.inl (finish_dead _ _ h)
  · exact Or.inl (finish_dead _ _ h)
  · exact Or.inl (finish_dead _ _ (by simpa [Actor.setStatus] using h))

theorem afterPre_AD (a : Actor) (supOk : Bool) (r : Res) (h : a.armed = true) :
    Dead (afterPre a supOk r).1 ∨ ((afterPre a supOk r).1.phase = .ready ∧ (afterPre a supOk r).1.armed = true ∧
      (afterPre a supOk r).1.stopVal = a.stopVal ∧ (afterPre a supOk r).1.sigVal = a.sigVal) := by
  unfold afterPre
  split
  · exact Or.inl (failSpawn_dead _ _ h)
  · exact Or.inl (failSpawn_dead _ _ h)
  · split
    · split
      · exact Or.inl (failSpawn_dead _ _ h)
      · right; simp [h]
    · right; simp [h]

theorem runSeg_fst (a : Actor) (cb : Cb) (s : Seg) (k : Actor → Res → M) :
    (runSeg a cb s k).1 =
      if s.term = .tick then { (runFxs a s.fx).1 with gateW := (runFxs a s.fx).1.phase.isTask }
      else (k (runFxs a s.fx).1 s.term.res).1 := by
  simp only [runSeg, say, andThen_fst]
  cases s.term <;> simp

theorem noise_np {x : Ev} (h : x.isExitNoise = true) : C03.isProgress x = false := by
  cases x <;> simp_all [Ev.isExitNoise, C03.isProgress]

/-! ### API / environment ops keep the control state -/

theorem envOp_keep (a : Actor) (op : AOp) :
    (a.envOp op).1.phase = a.phase ∧ (a.envOp op).1.armed = a.armed ∧
    (a.envOp op).1.seg = a.seg ∧
    (a.sigVal = true → (a.envOp op).1.sigVal = true) ∧
    (a.stopVal.isSome = true → (a.envOp op).1.stopVal.isSome = true) ∧
    (∀ e ∈ evs (a.envOp op).2, C03.isProgress e = false) := by
  cases op <;> simp only [Actor.envOp, apiSend, apiStop, apiKill, apiDrain, apiCall, opSupArrive, opTreeTaken,
    opLink, opUnlink, doLink]
  all_goals (repeat' split)
  all_goals simp_all [C03.isProgress]


theorem envOp_dead (a : Actor) (op : AOp) (h : Dead a) : Dead (a.envOp op).1 := by
  obtain ⟨h1, h2, h3, h4, h5⟩ := h
  cases op <;> simp only [Actor.envOp, apiSend, apiStop, apiKill, apiDrain, apiCall, opSupArrive, opTreeTaken,
    opLink, opUnlink, doLink, Dead]
  all_goals (repeat' split)
  all_goals simp_all [Actor.portsOpen, Status.rank]


/-! ### abort / dropped spawn future: `Stopped` in that very step -/

theorem failSpawn_noise (a : Actor) (r : SpawnRet) : ∀ x ∈ evs (failSpawn a r).2, x.isExitNoise = true := by
  intro x hx
  simp only [failSpawn, andThen_snd, evs_append, List.mem_append] at hx
  rcases hx with hx | hx
  · exact cleanup_noise _ _ x hx
  · simp at hx; subst hx; rfl

theorem opAbort_dead (a : Actor) (ha : a.armed = true) (ht : a.phase.isTask = true) : Dead (opAbort a).1 := by
  simp only [opAbort, ht, ite_true, andThen_fst]
  exact cleanup_drop_dead _ _ ha

theorem opAbort_np (a : Actor) : ∀ e ∈ evs (opAbort a).2, C03.isProgress e = false := by
  intro e he
  unfold opAbort at he
  split at he
  · simp only [andThen_snd, andThen_fst, evs_append, List.mem_append] at he
    rcases he with he | he | he
    · split at he <;> simp at he <;> (try rcases he with rfl | rfl) <;> (try subst he) <;> rfl
    · exact noise_np (cleanup_noise _ _ _ he)
    · simp at he; subst he; rfl
  · simp at he

theorem opDropSpawn_dead (a : Actor) (ha : a.armed = true) (hp : a.phase = .cell ∨ a.phase = .pre) :
    Dead (opDropSpawn a).1 := by
  rcases hp with hp | hp <;> simp only [opDropSpawn, hp, andThen_fst] <;> exact cleanup_drop_dead _ _ ha

theorem opDropSpawn_np (a : Actor) : ∀ e ∈ evs (opDropSpawn a).2, C03.isProgress e = false := by
  intro e he
  unfold opDropSpawn at he
  split at he
  · simp only [andThen_snd, andThen_fst, evs_append, List.mem_append] at he
    rcases he with he | he | he
    · simp at he; subst he; rfl
    · exact noise_np (cleanup_noise _ _ _ he)
    · simp at he
  · simp only [andThen_snd, andThen_fst, evs_append, List.mem_append] at he
    rcases he with (he | he) | he | he
    · simp at he; rcases he with rfl | rfl <;> rfl
    · split at he <;> simp at he
    · exact noise_np (cleanup_noise _ _ _ he)
    · simp at he
  · simp at he

/-! ### a pending kill: one poll of the actor's task ends the actor -/

theorem pollOpen_kill (a : Actor) (cb : Cb) (ha : a.armed = true) (hs : a.sigVal = true) :
    Dead (pollOpen a cb).1 ∧ ∀ e ∈ evs (pollOpen a cb).2, C03.isProgress e = false := by
  unfold pollOpen
  simp only [hs, ite_true, say, andThen_fst, andThen_snd]
  constructor
  · split <;> first
      | exact killedInLoop_dead _ (by simpa using ha)
      | exact killedOutsideLoop_dead _ (by simpa using ha)
  · intro e he
    simp only [evs_append, evs_cons_ev, evs_nil, List.mem_append, List.mem_cons, List.not_mem_nil, or_false] at he
    rcases he with rfl | he
    · rfl
    · split at he <;> first
        | exact noise_np (killedInLoop_noise _ _ he)
        | exact noise_np (killedOutsideLoop_noise _ _ he)

theorem listen_kill (a : Actor) (ha : a.armed = true) (hs : a.sigVal = true) :
    Dead (listen a).1 ∧ ∀ e ∈ evs (listen a).2, C03.isProgress e = false := by
  unfold listen
  simp only [hs, ite_true]
  exact ⟨killedInLoop_dead _ (by simpa using ha), fun e he => noise_np (killedInLoop_noise _ _ he)⟩

theorem opPoll_kill (a : Actor) (ha : a.armed = true) (hs : a.sigVal = true) :
    (a.phase.isTask = true → Dead (opPoll a).1) ∧ (a.phase.isTask = false → (opPoll a).1 = a) ∧
    ∀ e ∈ evs (opPoll a).2, C03.isProgress e = false := by
  unfold opPoll
  split
  · simp only [hs, ite_true]
    exact ⟨fun _ => killedOutsideLoop_dead _ (by simpa using ha), by simp_all [Phase.isTask],
      fun e he => noise_np (killedOutsideLoop_noise _ _ he)⟩
  · have := listen_kill { a with woken := false } (by simpa using ha) (by simpa using hs)
    exact ⟨fun _ => this.1, by simp_all [Phase.isTask], this.2⟩
  · exact ⟨fun _ => (pollOpen_kill a _ ha hs).1, by simp_all [Phase.isTask], (pollOpen_kill a _ ha hs).2⟩
  · exact ⟨fun _ => (pollOpen_kill a _ ha hs).1, by simp_all [Phase.isTask], (pollOpen_kill a _ ha hs).2⟩
  · exact ⟨fun _ => (pollOpen_kill a _ ha hs).1, by simp_all [Phase.isTask], (pollOpen_kill a _ ha hs).2⟩
  · exact ⟨fun _ => (pollOpen_kill a _ ha hs).1, by simp_all [Phase.isTask], (pollOpen_kill a _ ha hs).2⟩
  · rename_i h1 h2 h3 h4 h5 h6
    refine ⟨fun ht => ?_, fun _ => rfl, by simp⟩
    cases hp : a.phase <;> simp_all [Phase.isTask]

theorem beginPre_kill (a : Actor) (ha : a.armed = true) (hs : a.sigVal = true) :
    Dead (beginPre a).1 ∧ ∀ e ∈ evs (beginPre a).2, C03.isProgress e = false := by
  unfold beginPre
  simp only [hs, ite_true, handleSignal, andThen_fst, andThen_snd]
  refine ⟨failSpawn_dead _ _ (by simpa using ha), fun e he => ?_⟩
  simp only [evs_append, evs_cons_eff, evs_nil, List.nil_append] at he
  exact noise_np (failSpawn_noise _ _ _ he)

theorem opPollSpawn_kill (a : Actor) (supOk : Bool) (ha : a.armed = true) (hs : a.sigVal = true) :
    ((a.phase = .cell ∨ a.phase = .pre) → Dead (opPollSpawn a supOk).1) ∧
    (¬ (a.phase = .cell ∨ a.phase = .pre) → (opPollSpawn a supOk).1 = a) ∧
    ∀ e ∈ evs (opPollSpawn a supOk).2, C03.isProgress e = false := by
  unfold opPollSpawn
  split
  · have key : Dead (startInstant a supOk).1 ∧ ∀ e ∈ evs (startInstant a supOk).2, C03.isProgress e = false := by
      unfold startInstant
      split
      · exact ⟨failSpawn_dead _ _ ha, fun e he => noise_np (failSpawn_noise _ _ _ he)⟩
      · simp only []
        split
        · split
          · split
            · exact ⟨failSpawn_dead _ _ (by simpa using ha), fun e he => noise_np (failSpawn_noise _ _ _ he)⟩
            · simp only [andThen_fst, andThen_snd, doLink_fst, evs_append, evs_doLink, List.nil_append]
              exact beginPre_kill _ (by simpa using ha) (by simpa using hs)
          · exact beginPre_kill _ (by simpa using ha) (by simpa using hs)
        · exact beginPre_kill _ (by simpa using ha) (by simpa using hs)
    exact ⟨fun _ => key.1, by simp_all, key.2⟩
  · simp only [hs, ite_true, say, handleSignal, andThen_fst, andThen_snd]
    refine ⟨fun _ => failSpawn_dead _ _ (by simpa using ha), by simp_all, fun e he => ?_⟩
    simp only [evs_append, evs_cons_ev, evs_cons_eff, evs_nil, List.nil_append, List.mem_append, List.mem_cons,
      List.not_mem_nil, or_false] at he
    rcases he with rfl | he
    · rfl
    · exact noise_np (failSpawn_noise _ _ _ he)
  · exact ⟨fun hp => by simp_all, fun _ => rfl, by simp⟩

end Life.Liveness
