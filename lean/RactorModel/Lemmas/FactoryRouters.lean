import RactorModel.Model.FactoryOracle

/-! Router arithmetic for C14 (custom hash, round-robin). -/

namespace Factory

theorem rrNext_lt (last n : Nat) (hn : 0 < n) : rrNext last n < n := by
  unfold rrNext; split <;> omega

theorem rrNext_eq_mod (last n : Nat) (hl : last < n) : rrNext last n = (last + 1) % n := by
  unfold rrNext
  split
  · have : last + 1 = n := by omega
    rw [this, Nat.mod_self]
  · rw [Nat.mod_eq_of_lt (by omega)]

/-- the slots chosen for `k` consecutive jobs routed without a hint, starting after `last` -/
def rrSeq (n : Nat) : Nat → Nat → List Nat
  | 0, _ => []
  | k + 1, last => rrNext last n :: rrSeq n k (rrNext last n)

theorem rrSeq_eq (n : Nat) (hn : 0 < n) (k last : Nat) :
    rrSeq n k last = (List.range k).map (fun i => (rrNext last n + i) % n) := by
  induction k generalizing last with
  | zero => rfl
  | succ k ih =>
    have h0 := rrNext_lt last n hn
    rw [rrSeq, ih, List.range_succ_eq_map, List.map_cons, List.map_map]
    congr 1
    · rw [Nat.add_zero, Nat.mod_eq_of_lt h0]
    · apply List.map_congr_left
      intro i _
      simp only [Function.comp]
      rw [rrNext_eq_mod _ n h0, Nat.mod_add_mod]
      congr 1; omega

theorem mod_two (x n : Nat) (h : x < 2 * n) : x % n = if x < n then x else x - n := by
  split
  · exact Nat.mod_eq_of_lt ‹_›
  · rw [Nat.mod_eq_sub_mod (by omega), Nat.mod_eq_of_lt (by omega)]

/-- a rotation `i ↦ (c + i) % n` hits every residue exactly once on `0..n-1` -/
theorem rot_unique (n c w : Nat) (hc : c < n) (hw : w < n) :
    ∃ i, i < n ∧ (c + i) % n = w ∧ ∀ j, j < n → (c + j) % n = w → j = i := by
  refine ⟨if c ≤ w then w - c else w + n - c, ?_, ?_, ?_⟩
  · split <;> omega
  · rw [mod_two _ n (by split <;> omega)]
    split <;> split <;> omega
  · intro j hj hjw
    rw [mod_two _ n (by omega)] at hjw
    split at hjw <;> split <;> omega


/-! ## The priority queue (`PriorityQueue::{pop_front, discard_oldest}`) -/

theorem takeFirst_spec {f : Job → Bool} {l : List Job} {x : Job} {r : List Job} (h : takeFirst f l = some (x, r)) :
    ∃ pre post, l = pre ++ x :: post ∧ r = pre ++ post ∧ f x = true ∧ ∀ y ∈ pre, f y = false := by
  induction l generalizing x r with
  | nil => simp [takeFirst] at h
  | cons j rest ih =>
    unfold takeFirst at h
    by_cases hf : f j = true
    · simp only [hf, if_true, Option.some.injEq, Prod.mk.injEq] at h
      obtain ⟨h1, h2⟩ := h
      subst h1; subst h2
      exact ⟨[], rest, rfl, rfl, hf, fun _ hy => by cases hy⟩
    · have hf' : f j = false := by simpa using hf
      simp only [hf', Bool.false_eq_true, if_false] at h
      cases ht : takeFirst f rest with
      | none => rw [ht] at h; simp at h
      | some xr =>
        obtain ⟨x', r'⟩ := xr
        rw [ht] at h
        simp only [Option.some.injEq, Prod.mk.injEq] at h
        obtain ⟨h1, h2⟩ := h
        subst h1; subst h2
        obtain ⟨pre, post, e1, e2, e3, e4⟩ := ih ht
        refine ⟨j :: pre, post, by rw [e1]; rfl, by rw [e2]; rfl, e3, ?_⟩
        intro y hy
        rcases List.mem_cons.mp hy with hy | hy
        · rw [hy]; exact hf'
        · exact e4 y hy

theorem takeFirst_none {f : Job → Bool} {l : List Job} (h : takeFirst f l = none) : ∀ y ∈ l, f y = false := by
  induction l with
  | nil => intro y hy; cases hy
  | cons j rest ih =>
    unfold takeFirst at h
    by_cases hf : f j = true
    · simp [hf] at h
    · have hf' : f j = false := by simpa using hf
      simp only [hf', Bool.false_eq_true, if_false] at h
      cases ht : takeFirst f rest with
      | none =>
        intro y hy
        rcases List.mem_cons.mp hy with hy | hy
        · rw [hy]; exact hf'
        · exact ih ht y hy
      | some xr => rw [ht] at h; simp at h

/-- scanning the classes in the order `ps`: the result is the first job of the first non-empty class, the
other jobs keep their order -/
theorem popByPrio_spec {cfg : Cfg} {ps : List Nat} {q : List Job} {x : Job} {r : List Job}
    (h : popByPrio cfg ps q = some (x, r)) :
    ∃ ps1 ps2, ps = ps1 ++ prioOf cfg x :: ps2 ∧ (∀ p' ∈ ps1, ∀ y ∈ q, prioOf cfg y ≠ p') ∧
      ∃ pre post, q = pre ++ x :: post ∧ r = pre ++ post ∧ ∀ y ∈ pre, prioOf cfg y ≠ prioOf cfg x := by
  induction ps with
  | nil => simp [popByPrio] at h
  | cons p ps ih =>
    unfold popByPrio at h
    cases ht : takeFirst (fun j => prioOf cfg j == p) q with
    | some xr =>
      obtain ⟨x', r'⟩ := xr
      rw [ht] at h
      simp only [Option.some.injEq, Prod.mk.injEq] at h
      obtain ⟨h1, h2⟩ := h
      subst h1; subst h2
      obtain ⟨pre, post, e1, e2, e3, e4⟩ := takeFirst_spec ht
      have hp : prioOf cfg x' = p := by simpa using e3
      refine ⟨[], ps, by rw [hp]; rfl, (fun _ hp' => by cases hp'), pre, post, e1, e2, ?_⟩
      intro y hy
      have := e4 y hy
      rw [hp]; simpa using this
    | none =>
      rw [ht] at h
      simp only at h
      obtain ⟨ps1, ps2, e1, e2, e3⟩ := ih h
      refine ⟨p :: ps1, ps2, by rw [e1]; rfl, ?_, e3⟩
      intro p' hp' y hy
      rcases List.mem_cons.mp hp' with hp' | hp'
      · have := takeFirst_none ht y hy
        rw [hp']; simpa using this
      · exact e2 p' hp' y hy

end Factory
