import RactorModel.Lemmas.PgInv

namespace Pg
open AList

section leavefacts
variable (st : State) (s g : Nat) (actors : List Nat)

theorem leave_noop (h : get st.map (s, g) = none) : leave st s g actors = (st, []) := by
  simp [leave, h]

theorem del_mem_idem (k : Key) (r : Rel) :
    (fun x : Rel => { x with mem := del k x.mem }) ((fun x : Rel => { x with mem := del k x.mem }) r) =
      (fun x : Rel => { x with mem := del k x.mem }) r := by
  simp [del, List.filter_filter]

variable {gs : GS} (hg : get st.map (s, g) = some gs)
include hg

theorem leave_state :
    (leave st s g actors).1 =
      { st with
        map := alter st.map (s, g) (fun _ => gsNorm ⟨gs.members.filter (fun a => !actors.contains a), gs.listeners⟩),
        index := if gs.members.filter (fun a => !actors.contains a) = [] then removeFromIndex st.index (s, g)
                 else st.index,
        rel := actors.foldl (fun r a => alter r a (fun o => o.map (fun x => { x with mem := del (s, g) x.mem }))) st.rel } := by
  simp [leave, hg]

theorem leave_map_get (k : Key) :
    get (leave st s g actors).1.map k =
      if k = (s, g) then gsNorm ⟨gs.members.filter (fun a => !actors.contains a), gs.listeners⟩ else get st.map k := by
  rw [leave_state st s g actors hg]; simp

theorem leave_membersOf (k : Key) :
    membersOf (leave st s g actors).1 k =
      if k = (s, g) then gs.members.filter (fun a => !actors.contains a) else membersOf st k := by
  unfold membersOf
  rw [leave_map_get st s g actors hg]
  by_cases e : k = (s, g)
  · rw [if_pos e, if_pos e, members_gsNorm]
  · rw [if_neg e, if_neg e]

theorem leave_members (k : Key) (a : Nat) :
    a ∈ membersOf (leave st s g actors).1 k ↔ a ∈ membersOf st k ∧ ¬ (k = (s, g) ∧ a ∈ actors) := by
  rw [leave_membersOf st s g actors hg]
  by_cases e : k = (s, g)
  · subst e
    rw [if_pos rfl]
    have : membersOf st (s, g) = gs.members := by unfold membersOf; rw [hg]; rfl
    rw [this]
    simp [List.mem_filter]
  · rw [if_neg e]; simp [e]

theorem leave_listeners (k : Key) : listenersOf (leave st s g actors).1 k = listenersOf st k := by
  unfold listenersOf
  rw [leave_map_get st s g actors hg]
  by_cases e : k = (s, g)
  · subst e
    rw [if_pos rfl, listeners_gsNorm, hg]; rfl
  · rw [if_neg e]

theorem leave_world : (leave st s g actors).1.world = st.world := by
  rw [leave_state st s g actors hg]

theorem leave_dead : (leave st s g actors).1.dead = st.dead := by
  rw [leave_state st s g actors hg]

theorem leave_rel_get (a : Nat) :
    get (leave st s g actors).1.rel a =
      if a ∈ actors then (get st.rel a).map (fun x => { x with mem := del (s, g) x.mem }) else get st.rel a := by
  rw [leave_state st s g actors hg]
  simp only
  rw [get_foldl_alter_map _ _ _ (del_mem_idem (s, g))]

theorem leave_relMem (a : Nat) (k : Key) :
    k ∈ relMem (leave st s g actors).1 a ↔ k ∈ relMem st a ∧ ¬ (k = (s, g) ∧ a ∈ actors) := by
  unfold relMem relOf
  rw [leave_rel_get st s g actors hg]
  by_cases c : a ∈ actors
  · rw [if_pos c]
    cases hr : get st.rel a with
    | none => simp [Rel.empty]
    | some r => simp [c]
  · rw [if_neg c]; simp [c]

theorem leave_relGmon (a : Nat) : relGmon (leave st s g actors).1 a = relGmon st a := by
  unfold relGmon relOf
  rw [leave_rel_get st s g actors hg]
  by_cases c : a ∈ actors
  · rw [if_pos c]; cases get st.rel a <;> rfl
  · rw [if_neg c]

theorem leave_relWmon (a : Nat) : relWmon (leave st s g actors).1 a = relWmon st a := by
  unfold relWmon relOf
  rw [leave_rel_get st s g actors hg]
  by_cases c : a ∈ actors
  · rw [if_pos c]; cases get st.rel a <;> rfl
  · rw [if_neg c]

theorem leave_relMem_nodup (a : Nat) (h : (relMem st a).Nodup) : (relMem (leave st s g actors).1 a).Nodup := by
  unfold relMem relOf at h ⊢
  rw [leave_rel_get st s g actors hg]
  by_cases c : a ∈ actors
  · rw [if_pos c]
    cases hr : get st.rel a with
    | none => simp [Rel.empty]
    | some r => rw [hr] at h; exact nodup_del h
  · rw [if_neg c]; exact h

theorem leave_rel_none (a : Nat) : get (leave st s g actors).1.rel a = none ↔ get st.rel a = none := by
  rw [leave_rel_get st s g actors hg]
  by_cases c : a ∈ actors
  · rw [if_pos c]; simp
  · rw [if_neg c]

theorem leave_index_get (s' : Nat) :
    get (leave st s g actors).1.index s' =
      if s' = s ∧ gs.members.filter (fun a => !actors.contains a) = [] then
        (get st.index s).bind (fun l => if del g l = [] then none else some (del g l))
      else get st.index s' := by
  rw [leave_state st s g actors hg]
  simp only
  by_cases c : gs.members.filter (fun a => !actors.contains a) = []
  · rw [if_pos c]
    simp only [removeFromIndex, get_alter, c, and_true]
  · rw [if_neg c]
    have : ¬ (s' = s ∧ gs.members.filter (fun a => !actors.contains a) = []) := fun x => c x.2
    rw [if_neg this]

theorem leave_idxOf (s' : Nat) :
    idxOf (leave st s g actors).1 s' =
      if s' = s ∧ gs.members.filter (fun a => !actors.contains a) = [] then del g (idxOf st s) else idxOf st s' := by
  unfold idxOf
  rw [leave_index_get st s g actors hg]
  by_cases c : s' = s ∧ gs.members.filter (fun a => !actors.contains a) = []
  · rw [if_pos c, if_pos c]
    cases get st.index s with
    | none => simp [del]
    | some l =>
      simp only [Option.bind_some, Option.getD_some]
      by_cases e : del g l = []
      · rw [if_pos e, e]; rfl
      · rw [if_neg e]; rfl
  · rw [if_neg c, if_neg c]

end leavefacts


theorem inv_leave {st : State} (h : Inv st) (s g : Nat) (actors : List Nat) :
    Inv (leave st s g actors).1 := by
  cases hg : get st.map (s, g) with
  | none => rw [leave_noop st s g actors hg]; exact h
  | some gs =>
  have hgm : membersOf st (s, g) = gs.members := by unfold membersOf; rw [hg]; rfl
  have hgl : listenersOf st (s, g) = gs.listeners := by unfold listenersOf; rw [hg]; rfl
  constructor
  · rw [leave_state st s g actors hg]
    dsimp only
    exact nodupKeys_alter h.kMap _ _
  · rw [leave_state st s g actors hg]
    simp only
    split
    · exact nodupKeys_alter h.kIdx _ _
    · exact h.kIdx
  · rw [leave_world st s g actors hg]; exact h.kWorld
  · rw [leave_state st s g actors hg]
    exact nodupKeys_foldl_alter actors st.rel (fun _ o => o.map (fun x => { x with mem := del (s, g) x.mem })) h.kRel
  · intro k a
    rw [leave_members st s g actors hg, leave_relMem st s g actors hg, h.mem]
  · intro k m
    rw [leave_listeners st s g actors hg, leave_relGmon st s g actors hg, h.gmon]
  · intro s' m
    have := h.wmon s' m
    unfold worldOf at this ⊢
    rw [leave_world st s g actors hg, leave_relWmon st s g actors hg, this]
  · -- idx
    intro s' g'
    rw [leave_idxOf st s g actors hg, leave_membersOf st s g actors hg]
    by_cases c : s' = s ∧ gs.members.filter (fun a => !actors.contains a) = []
    · obtain ⟨rfl, c2⟩ := c
      rw [if_pos ⟨rfl, c2⟩]
      simp only [mem_del, h.idx, Prod.mk.injEq, true_and]
      by_cases e : g' = g
      · subst e
        rw [if_pos rfl]
        constructor
        · intro hx; exact absurd rfl hx.2
        · intro hx; exact absurd c2 hx
      · simp [e]
    · rw [if_neg c, h.idx]
      by_cases e : (s', g') = (s, g)
      · rw [if_pos e]
        simp only [Prod.mk.injEq] at e
        obtain ⟨rfl, rfl⟩ := e
        have c2 : gs.members.filter (fun a => !actors.contains a) ≠ [] := fun x => c ⟨rfl, x⟩
        simp only [c2, ne_eq, not_false_eq_true, iff_true]
        rw [hgm]
        intro e0; rw [e0] at c2; exact c2 rfl
      · rw [if_neg e]
  · -- idxNE
    intro s'
    rw [leave_index_get st s g actors hg]
    by_cases c : s' = s ∧ gs.members.filter (fun a => !actors.contains a) = []
    · rw [if_pos c]
      cases get st.index s with
      | none => simp
      | some l =>
        simp only [Option.bind_some]
        by_cases e : del g l = []
        · rw [if_pos e]; simp
        · rw [if_neg e]; simpa using e
    · rw [if_neg c]; exact h.idxNE s'
  · -- mapNE
    intro k gs'
    rw [leave_map_get st s g actors hg]
    by_cases e : k = (s, g)
    · rw [if_pos e]
      intro hn
      obtain ⟨rfl, hh⟩ := gsNorm_some hn
      exact hh
    · rw [if_neg e]; exact h.mapNE k gs'
  · rw [leave_world st s g actors hg]; exact h.worldNE
  · intro a ha
    rw [leave_dead st s g actors hg] at ha
    rw [leave_rel_none st s g actors hg]
    exact h.dead a ha
  · intro k
    rw [leave_membersOf st s g actors hg]
    by_cases e : k = (s, g)
    · rw [if_pos e]
      have := h.ndM (s, g)
      rw [hgm] at this
      exact this.filter _
    · rw [if_neg e]; exact h.ndM k
  · intro k; rw [leave_listeners st s g actors hg]; exact h.ndL k
  · intro s'; unfold worldOf; rw [leave_world st s g actors hg]; exact h.ndW s'
  · intro s'
    rw [leave_idxOf st s g actors hg]
    split
    · exact nodup_del (h.ndI s)
    · exact h.ndI s'
  · intro a
    rw [leave_relGmon st s g actors hg, leave_relWmon st s g actors hg]
    exact ⟨leave_relMem_nodup st s g actors hg a (h.ndR a).1, (h.ndR a).2⟩

end Pg
