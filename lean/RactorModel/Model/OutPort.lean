/-!
# `OutPort` — executable model of `ractor/src/port/output.rs` (C16)

Both implementations of `OutputPort`, as small-step machines whose steps are the atomic
actions of the real code:

* **v2** (`output-port-v2`): an unbounded command channel (`queue`) carrying `Data` and
  `SetSubscriber` entries, and ONE port task running
  `loop { l = rx.len().clamp(1, MAX_BATCH_SIZE); rx.recv_many(&mut batch, l); dispatch_batch(..) }`.
  `dispatch_batch` is modelled with its loop variables as a zipper, one step per
  `Subscriber::send` call: segments between `SetSubscriber` entries, subscriber-major
  delivery, removal of the subscriber on a failed send (and `break` out of the segment),
  `SetSubscriber` applied at its position in the batch, duplicate ids allowed
  (`OutputPort::default()` = `new(true)`) or replaced in place (`new(false)`).
* **v1** (default): a `tokio::sync::broadcast` ring (`channel(10)`, which tokio rounds up to
  the next power of two: 16 slots), one receiver cursor and one forwarding task per
  subscription, one step per iteration of its `loop { match port.recv().await … }`:
  `Lagged` moves the cursor to the oldest retained entry, `Ok(Some(m))` converts and casts,
  a rejected cast — or, since the round-4 fix, a skipped message while the subscriber no
  longer accepts messages — ends the task (which drops the receiver).

The environment steps are the public API calls (`send`, `subscribe`) and a subscriber actor
exiting. Converters are arbitrary functions `M → Option O`. Fields marked *ghost* do not
influence any transition; they record history for the theorems and the driver.

Core Lean only (the driver links this file).
-/

namespace OutPort

/-- `MAX_BATCH_SIZE` of `v2::inner`. -/
def maxBatch : Nat := 32
/-- the argument of `pubsub::channel(10)` in `v1` -/
def declaredCapacity : Nat := 10

/-- `usize::next_power_of_two` for the small values used here. -/
def nextPow2 (n : Nat) : Nat := go n 1 n
where
  go (n p : Nat) : Nat → Nat
    | 0 => p
    | fuel + 1 => if n ≤ p then p else go n (2 * p) fuel

/-- number of slots of the broadcast ring: tokio rounds the requested capacity up to a
power of two (`broadcast::channel`: `capacity = capacity.next_power_of_two()`). -/
def ringCap : Nat := nextPow2 declaredCapacity

/-! ## v2 -/

/-- One subscription (`Box<dyn Subscriber>` = `Filtering { actor_ref, filter }`). -/
structure Sub (M O : Type) where
  /-- label: ordinal of the `subscribe` call (ghost; used by the driver and the harness) -/
  key : Nat
  /-- `Subscriber::id()`: the subscribing actor -/
  actor : Nat
  /-- the converter -/
  conv : M → Option O
  /-- ghost: index of this subscription's `SetSubscriber` entry in the channel history -/
  pos : Nat
  /-- ghost: the data messages for which `Subscriber::send` was called and returned `true` -/
  offered : List M := []
  /-- ghost: what was successfully sent to the subscriber actor's mailbox -/
  got : List O := []

/-- `OutportMessage` (`SetSubscriber(None)` is never produced by the public API). -/
inductive Cmd (M O : Type) where
  | data (m : M)
  | sub (s : Sub M O)

def Cmd.isData {M O} : Cmd M O → Bool
  | .data _ => true
  | .sub _ => false

def Cmd.data? {M O} : Cmd M O → Option M
  | .data m => some m
  | .sub _ => none

/-- the data messages of a command list, in order -/
def datas {M O} (l : List (Cmd M O)) : List M := l.filterMap Cmd.data?

/-- Split a batch suffix into its leading run of `Data` (one *segment*) and the rest, which
is empty or starts with a `SetSubscriber` (`batch[segment_start..].position(SetSubscriber)`). -/
def spanData {M O} : List (Cmd M O) → List M × List (Cmd M O)
  | .data m :: r => let (seg, rest) := spanData r; (m :: seg, rest)
  | l => ([], l)

/-- Program counter of the port task. -/
inductive Pc (M O : Type) where
  /-- at the top of the loop, about to compute `l` and call `recv_many` -/
  | top (subs : List (Sub M O))
  /-- suspended inside `rx.recv_many(&mut batch, l)` on an empty channel -/
  | wait (subs : List (Sub M O)) (l : Nat)
  /-- inside `dispatch_batch`: `srv` = `subscribers[..subscriber_index]` (already served in
  this segment), `todo` = `subscribers[subscriber_index..]`, `seg` = the current segment,
  `left` = `batch[message_index..segment_end]` still to be sent to the head of `todo`,
  `rest` = `batch[segment_end..]` -/
  | disp (srv todo : List (Sub M O)) (seg left : List M) (rest : List (Cmd M O))

structure V2 (M O : Type) where
  /-- `OutputPort::new(allow_duplicate_subscription)`; the public port uses `true` -/
  allowDup : Bool := true
  /-- the unbounded mpsc channel -/
  queue : List (Cmd M O) := []
  pc : Pc M O := .top []
  /-- subscriber actors that have exited: `send_message` to them fails -/
  dead : List Nat := []
  /-- ghost: everything ever enqueued, in channel order -/
  hist : List (Cmd M O) := []
  /-- ghost: subscriptions removed from `subscribers` (failed send, or replaced) -/
  gone : List (Sub M O) := []
  /-- ghost: number of `subscribe` calls so far -/
  nsub : Nat := 0

/-- a fresh port; `OutputPort::default()` is `V2.init true` -/
def V2.init (M O : Type) (allowDup : Bool) : V2 M O := { allowDup := allowDup }

/-- `apply_subscriber`: returns the new vector and the replaced entry, if any. -/
def applySub {M O} (allowDup : Bool) (subs : List (Sub M O)) (s : Sub M O) :
    List (Sub M O) × Option (Sub M O) :=
  if allowDup then (subs ++ [s], none)
  else match subs.findIdx? (·.actor == s.actor) with
    | some i => (subs.set i s, subs[i]?)
    | none => (subs ++ [s], none)

/-- Start the next segment of the batch: `rest` is what is left of the batch. -/
def nextSeg {M O} (allowDup : Bool) (subs : List (Sub M O)) (gone : List (Sub M O)) :
    List (Cmd M O) → Pc M O × List (Sub M O)
  | [] => (.top subs, gone)                      -- `batch.clear()`, back to the loop
  | .sub s :: r =>
    let (subs', old) := applySub allowDup subs s
    let (seg, rest) := spanData r
    (.disp [] subs' seg seg rest, gone ++ old.toList)
  | .data m :: r =>
    let (seg, rest) := spanData (.data m :: r)
    (.disp [] subs seg seg rest, gone)

/-- What a task step did (for the driver / harness comparison): the converter call. -/
structure Call (M : Type) where
  key : Nat
  msg : M
  /-- `Subscriber::send` returned `true` -/
  ok : Bool

/-- One step of the port task. -/
def V2.task {M O} (st : V2 M O) : V2 M O × Option (Call M) :=
  match st.pc with
  | .top subs =>
    let l := max 1 (min st.queue.length maxBatch)       -- `rx.len().clamp(1, MAX_BATCH_SIZE)`
    if st.queue.isEmpty then ({ st with pc := .wait subs l }, none)
    else
      let (pc, gone) := nextSeg st.allowDup subs st.gone (st.queue.take l)
      ({ st with queue := st.queue.drop l, pc := pc, gone := gone }, none)
  | .wait subs l =>
    if st.queue.isEmpty then (st, none)
    else
      let (pc, gone) := nextSeg st.allowDup subs st.gone (st.queue.take l)
      ({ st with queue := st.queue.drop l, pc := pc, gone := gone }, none)
  | .disp srv [] _ _ rest =>
    -- every subscriber served: apply the `SetSubscriber` at `segment_end`, next segment
    let (pc, gone) := nextSeg st.allowDup srv st.gone rest
    ({ st with pc := pc, gone := gone }, none)
  | .disp srv (s :: todo) seg [] rest =>
    -- `retain_subscriber`: `subscriber_index += 1`
    ({ st with pc := .disp (srv ++ [s]) todo seg seg rest }, none)
  | .disp srv (s :: todo) seg (m :: left) rest =>
    match s.conv m with
    | none =>
      if st.dead.contains s.actor then
        -- filtered out, but the subscriber no longer accepts messages (`accepts_messages()`):
        -- `send` returns false, the subscriber is removed like after a failed send
        ({ st with pc := .disp srv todo seg seg rest, gone := st.gone ++ [s] }, some ⟨s.key, m, false⟩)
      else
      -- filtered out: `send` returns true without sending
      ({ st with pc := .disp srv ({ s with offered := s.offered ++ [m] } :: todo) seg left rest },
       some ⟨s.key, m, true⟩)
    | some o =>
      if st.dead.contains s.actor then
        -- failed send: `subscribers.remove(subscriber_index)`, same index, segment restarts
        ({ st with pc := .disp srv todo seg seg rest, gone := st.gone ++ [s] }, some ⟨s.key, m, false⟩)
      else
        let s' : Sub M O := { s with offered := s.offered ++ [m], got := s.got ++ [o] }
        ({ st with pc := .disp srv (s' :: todo) seg left rest }, some ⟨s.key, m, true⟩)

/-! ### `dispatch_batch` in closed form

The same function written as the three nested loops of the source; `Lemmas/OutPortBatch.lean`
proves that running the one-send-per-step machine through a whole batch computes exactly
this (when no subscriber dies in the middle of the batch). -/

/-- inner loop (`while message_index < segment_end`) for one subscriber: the updated
subscriber, `retain_subscriber`, and the `Subscriber::send` calls made -/
def sendSeg {M O} (dead : List Nat) (s : Sub M O) : List M → Sub M O × Bool × List (Call M)
  | [] => (s, true, [])
  | m :: ms =>
    match s.conv m with
    | none =>
      if dead.contains s.actor then (s, false, [⟨s.key, m, false⟩])
      else
      let r := sendSeg dead { s with offered := s.offered ++ [m] } ms
      (r.1, r.2.1, ⟨s.key, m, true⟩ :: r.2.2)
    | some o =>
      if dead.contains s.actor then (s, false, [⟨s.key, m, false⟩])
      else
        let r := sendSeg dead { s with offered := s.offered ++ [m], got := s.got ++ [o] } ms
        (r.1, r.2.1, ⟨s.key, m, true⟩ :: r.2.2)

/-- middle loop (`while subscriber_index < subscribers.len()`): subscribers kept, subscribers
removed, calls made — subscriber-major -/
def dispatchSeg {M O} (dead : List Nat) (seg : List M) :
    List (Sub M O) → List (Sub M O) × List (Sub M O) × List (Call M)
  | [] => ([], [], [])
  | s :: t =>
    let r := sendSeg dead s seg
    let rest := dispatchSeg dead seg t
    (if r.2.1 then r.1 :: rest.1 else rest.1, if r.2.1 then rest.2.1 else r.1 :: rest.2.1, r.2.2 ++ rest.2.2)

/-- outer loop: `seg` accumulates the data entries of the current segment; a `SetSubscriber`
entry closes the segment, which is delivered before the subscription is applied.
`dispatch_batch(subscribers, batch)` is `dispatchBatch ad dead subscribers [] [] batch`
(second component: the subscribers removed, for the theorems). -/
def dispatchBatch {M O} (ad : Bool) (dead : List Nat) :
    List (Sub M O) → List (Sub M O) → List M → List (Cmd M O) →
      List (Sub M O) × List (Sub M O) × List (Call M)
  | subs, gone, seg, [] =>
    let r := dispatchSeg dead seg subs
    (r.1, gone ++ r.2.1, r.2.2)
  | subs, gone, seg, .data m :: b => dispatchBatch ad dead subs gone (seg ++ [m]) b
  | subs, gone, seg, .sub s :: b =>
    let r := dispatchSeg dead seg subs
    let a := applySub ad r.1 s
    let r' := dispatchBatch ad dead a.1 (gone ++ r.2.1 ++ a.2.toList) [] b
    (r'.1, r'.2.1, r.2.2 ++ r'.2.2)

/-- `n` consecutive steps of the port task and the calls they made -/
def V2.steps {M O} : Nat → V2 M O → V2 M O × List (Call M)
  | 0, st => (st, [])
  | n + 1, st =>
    let r := st.task
    let r' := V2.steps n r.1
    (r'.1, r.2.toList ++ r'.2)

/-- Operations on a v2 port: the public API, a subscriber exiting, one port-task step. -/
inductive Op2 (M O : Type) where
  | publish (m : M)
  | subscribe (actor : Nat) (conv : M → Option O)
  | exit (actor : Nat)
  | task

def V2.publish {M O} (st : V2 M O) (m : M) : V2 M O :=
  { st with queue := st.queue ++ [.data m], hist := st.hist ++ [.data m] }

def V2.subscribe {M O} (st : V2 M O) (actor : Nat) (conv : M → Option O) : V2 M O :=
  let s : Sub M O := { key := st.nsub, actor := actor, conv := conv, pos := st.hist.length }
  { st with queue := st.queue ++ [.sub s], hist := st.hist ++ [.sub s], nsub := st.nsub + 1 }

def V2.step {M O} (st : V2 M O) : Op2 M O → V2 M O
  | .publish m => st.publish m
  | .subscribe a c => st.subscribe a c
  | .exit a => { st with dead := a :: st.dead }
  | .task => st.task.1

def V2.run {M O} (st : V2 M O) (ops : List (Op2 M O)) : V2 M O := ops.foldl V2.step st

def Pc.subs {M O} : Pc M O → List (Sub M O)
  | .top s => s
  | .wait s _ => s
  | .disp d t _ _ _ => d ++ t

/-- the subscriptions waiting in a command list -/
def cmdSubs {M O} (l : List (Cmd M O)) : List (Sub M O) :=
  l.filterMap fun | .sub s => some s | .data _ => none

def Pc.rest {M O} : Pc M O → List (Cmd M O)
  | .disp _ _ _ _ r => r
  | _ => []

/-- the current `subscribers` vector of the port task -/
def V2.live {M O} (st : V2 M O) : List (Sub M O) := st.pc.subs

/-- every subscription ever made: current, removed, and not yet applied -/
def V2.all {M O} (st : V2 M O) : List (Sub M O) :=
  st.pc.subs ++ st.gone ++ cmdSubs st.pc.rest ++ cmdSubs st.queue

/-- the port task is parked in `recv_many` with nothing to do -/
def V2.idle {M O} (st : V2 M O) : Bool :=
  st.queue.isEmpty && match st.pc with | .disp .. => false | _ => true

/-- the publications enqueued after the subscription (channel order = the order in which
the `send` / `subscribe` calls took effect) -/
def V2.after {M O} (st : V2 M O) (s : Sub M O) : List M := datas (st.hist.drop (s.pos + 1))

/-- Run the port task until it parks (driver: one `grant` of the real task). -/
def V2.runTask {M O} : Nat → V2 M O → List (Call M) → V2 M O × List (Call M)
  | 0, st, acc => (st, acc)
  | fuel + 1, st, acc =>
    match st.pc, st.queue with
    | .wait _ _, [] => (st, acc)
    | _, _ =>
      let (st', c) := st.task
      V2.runTask fuel st' (acc ++ c.toList)

/-! ## v1 -/

/-- One subscription of the default port: broadcast receiver + forwarding task. -/
structure Fwd (M O : Type) where
  key : Nat
  actor : Nat
  conv : M → Option O
  /-- `Receiver::next`: ring position of the next entry to read -/
  cursor : Nat
  /-- the forwarding task has returned (its receiver is dropped, `handle.is_finished()`) -/
  ended : Bool := false
  /-- the `JoinHandle` is still in `subscriptions` -/
  held : Bool := true
  /-- ghost: ring position at subscription (`tail.pos` in `tx.subscribe()`) -/
  start : Nat
  /-- ghost: number of `send` calls made on the port before the subscription -/
  pstart : Nat
  /-- ghost: one entry per ring position in `[start, cursor)`: `none` = read by `recv`,
  `some t` = skipped by a `Lagged` observed when the tail was `t` -/
  mask : List (Option Nat) := []
  /-- ghost: the messages read, in order -/
  readMsgs : List M := []
  /-- ghost: what was successfully cast to the subscriber -/
  got : List O := []

structure V1 (M O : Type) where
  /-- number of ring slots -/
  cap : Nat := ringCap
  /-- every value stored in the ring so far (`tail.pos = log.length`); the ring retains the
  last `cap` of them -/
  log : List M := []
  fwds : List (Fwd M O) := []
  dead : List Nat := []
  /-- ghost: every `send` call on the port, stored or not -/
  pubs : List M := []

/-- a fresh port with a ring of `cap` slots; `OutputPort::default()` is `V1.init ringCap` -/
def V1.init (M O : Type) (cap : Nat) : V1 M O := { cap := cap }

inductive Op1 (M O : Type) where
  | publish (m : M)
  | subscribe (actor : Nat) (conv : M → Option O)
  | exit (actor : Nat)
  /-- one iteration of the forwarding loop of subscription `i` -/
  | task (i : Nat)

/-- `tx.receiver_count() > 0` -/
def V1.hasReceiver {M O} (st : V1 M O) : Bool := st.fwds.any (!·.ended)

/-- `OutputPort::send` -/
def V1.publish {M O} (st : V1 M O) (m : M) : V1 M O :=
  if st.hasReceiver then { st with log := st.log ++ [m], pubs := st.pubs ++ [m] }
  else { st with pubs := st.pubs ++ [m] }

/-- `OutputPort::subscribe`: prune finished handles, create receiver + task. -/
def V1.subscribe {M O} (st : V1 M O) (actor : Nat) (conv : M → Option O) : V1 M O :=
  let kept := st.fwds.map fun f => if f.ended then { f with held := false } else f
  { st with fwds := kept ++ [{ key := st.fwds.length, actor := actor, conv := conv,
                               cursor := st.log.length, start := st.log.length,
                               pstart := st.pubs.length }] }

/-- One `port.recv().await` + match arm of a forwarding task. -/
def Fwd.step {M O} (cap : Nat) (log : List M) (dead : List Nat) (f : Fwd M O) :
    Fwd M O × Option (Call M) :=
  if f.ended then (f, none)
  else if f.cursor + cap < log.length then
    -- `Err(Lagged(missed))`: `next = tail.pos - buffer.len()`; `continue`
    let next := log.length - cap
    ({ f with cursor := next,
              mask := f.mask ++ List.replicate (next - f.cursor) (some log.length) }, none)
  else match log[f.cursor]? with
    | none => (f, none)                                  -- empty for this receiver: pending
    | some m =>
      let f := { f with cursor := f.cursor + 1, mask := f.mask ++ [none],
                        readMsgs := f.readMsgs ++ [m] }
      match f.conv m with
      | none =>
        -- skipped; a subscriber that no longer accepts messages ends the task all the same
        if dead.contains f.actor then ({ f with ended := true }, some ⟨f.key, m, false⟩)
        else (f, some ⟨f.key, m, true⟩)
      | some o =>
        if dead.contains f.actor then ({ f with ended := true }, some ⟨f.key, m, false⟩)
        else ({ f with got := f.got ++ [o] }, some ⟨f.key, m, true⟩)

def V1.task {M O} (st : V1 M O) (i : Nat) : V1 M O × Option (Call M) :=
  match st.fwds[i]? with
  | none => (st, none)
  | some f =>
    let (f', c) := f.step st.cap st.log st.dead
    ({ st with fwds := st.fwds.set i f' }, c)

def V1.step {M O} (st : V1 M O) : Op1 M O → V1 M O
  | .publish m => st.publish m
  | .subscribe a c => st.subscribe a c
  | .exit a => { st with dead := a :: st.dead }
  | .task i => (st.task i).1

def V1.run {M O} (st : V1 M O) (ops : List (Op1 M O)) : V1 M O := ops.foldl V1.step st

/-- the publications made after the subscription -/
def V1.after {M O} (st : V1 M O) (f : Fwd M O) : List M := st.pubs.drop f.pstart

/-- Select the entries of `l` whose mask entry is `none` (= read, not skipped). -/
def pick {M} : List (Option Nat) → List M → List M
  | none :: k, m :: l => m :: pick k l
  | some _ :: k, _ :: l => pick k l
  | _, _ => []

/-- Run forwarding task `i` until it parks or returns (driver: one `grant`). -/
def V1.runTask {M O} : Nat → V1 M O → Nat → List (Call M) → V1 M O × List (Call M)
  | 0, st, _, acc => (st, acc)
  | fuel + 1, st, i, acc =>
    match st.fwds[i]? with
    | none => (st, acc)
    | some f =>
      if f.ended || (f.cursor ≥ st.log.length) then (st, acc)
      else
        let (st', c) := st.task i
        V1.runTask fuel st' i (acc ++ c.toList)

/-! ## Dropping the port

`OutputPort` is not `Clone`: dropping it drops the only sender.

* **v2**: the mpsc channel is closed; `recv_many` keeps returning what is queued (up to the
  limit) and returns `0` only when the channel is closed AND empty — then the port task
  `break`s out of its loop and its future completes (`finished`). So the task first delivers
  everything that had been enqueued before the drop.
* **v1**: the broadcast channel is closed (`tail.closed = true`, no slot is written) and the
  `JoinHandle`s in `subscriptions` are dropped, which DETACHES the forwarding tasks. A
  receiver still reads every retained entry (or observes `Lagged`) and gets
  `Err(RecvError::Closed)` only when it is empty for this receiver (`next == tail.pos`);
  the task then returns.

Both are wrappers around the machines above: the inner state (`base`) only ever changes by
the steps of `V2.step` / `V1.step`, so every invariant of the port carries over
(`Lemmas/OutPortDrop.lean`). After the drop the API is unreachable: `publish` / `subscribe`
are no-ops (the harness' re-entrant converter holds a `Weak` that no longer upgrades). -/

/-- a v2 port whose handle may have been dropped -/
structure V2c (M O : Type) where
  base : V2 M O := {}
  /-- the `OutputPort` (the only `MpscUnboundedSender`) has been dropped -/
  closed : Bool := false
  /-- `recv_many` returned 0: the port task left its loop, its future completed and
  `subscribers` was dropped -/
  finished : Bool := false

def V2c.init (M O : Type) (allowDup : Bool) : V2c M O := { base := V2.init M O allowDup }

inductive Op2c (M O : Type) where
  | op (o : Op2 M O)
  /-- `drop(port)` -/
  | drop

/-- one step of the port task of a port that may be closed -/
def V2c.task {M O} (st : V2c M O) : V2c M O × Option (Call M) :=
  if st.finished then (st, none)
  else if st.closed && st.base.idle then ({ st with finished := true }, none)
  else
    let r := st.base.task
    ({ st with base := r.1 }, r.2)

def V2c.step {M O} (st : V2c M O) : Op2c M O → V2c M O
  | .op (.publish m) => if st.closed then st else { st with base := st.base.publish m }
  | .op (.subscribe a c) => if st.closed then st else { st with base := st.base.subscribe a c }
  | .op (.exit a) => { st with base := st.base.step (.exit a) }
  | .op .task => st.task.1
  | .drop => { st with closed := true }

def V2c.run {M O} (st : V2c M O) (ops : List (Op2c M O)) : V2c M O := ops.foldl V2c.step st

/-- `n` consecutive steps of the port task -/
def V2c.tasks {M O} : Nat → V2c M O → V2c M O
  | 0, st => st
  | n + 1, st => V2c.tasks n st.task.1

/-- a v1 port whose handle may have been dropped -/
structure V1c (M O : Type) where
  base : V1 M O := {}
  /-- the `OutputPort` (the only `broadcast::Sender`, and the `JoinHandle`s) has been dropped -/
  closed : Bool := false
  /-- forwarding tasks that returned because `recv` reported `Closed` -/
  finished : List Nat := []

def V1c.init (M O : Type) (cap : Nat) : V1c M O := { base := V1.init M O cap }

inductive Op1c (M O : Type) where
  | op (o : Op1 M O)
  | drop

/-- one iteration of forwarding task `i` of a port that may be closed -/
def V1c.task {M O} (st : V1c M O) (i : Nat) : V1c M O × Option (Call M) :=
  if st.finished.contains i then (st, none)
  else match st.base.fwds[i]? with
    | none => (st, none)
    | some f =>
      if st.closed && !f.ended && decide (st.base.log.length ≤ f.cursor) then
        ({ st with finished := i :: st.finished }, none)       -- `Err(Closed) => return`
      else
        let r := st.base.task i
        ({ st with base := r.1 }, r.2)

def V1c.step {M O} (st : V1c M O) : Op1c M O → V1c M O
  | .op (.publish m) => if st.closed then st else { st with base := st.base.publish m }
  | .op (.subscribe a c) => if st.closed then st else { st with base := st.base.subscribe a c }
  | .op (.exit a) => { st with base := st.base.step (.exit a) }
  | .op (.task i) => (st.task i).1
  | .drop => { st with closed := true }

def V1c.run {M O} (st : V1c M O) (ops : List (Op1c M O)) : V1c M O := ops.foldl V1c.step st

/-- `n` consecutive iterations of forwarding task `i` -/
def V1c.tasks {M O} : Nat → V1c M O → Nat → V1c M O
  | 0, st, _ => st
  | n + 1, st, i => V1c.tasks n (st.task i).1 i

/-- the forwarding task of subscription `i` has returned (subscriber dead, or channel closed) -/
def V1c.taskDone {M O} (st : V1c M O) (i : Nat) : Bool :=
  st.finished.contains i || (match st.base.fwds[i]? with | some f => f.ended | none => false)

/-! ### the default port's `send` is two steps

`if self.tx.receiver_count() > 0 { let _ = self.tx.send(Some(msg)); }` — on a multi-threaded
runtime other threads may subscribe, end a forwarding task or publish between the check and
the store. `tx.send` itself stores nothing when there is no receiver at THAT moment. So a
publisher that saw no receiver is done at the check (its publication is dropped there), one
that saw a receiver performs an ordinary `publish` later, at its store point. -/

/-- a port with publishers in flight (past the `receiver_count()` check, before `tx.send`) -/
structure V1t (M O : Type) where
  base : V1c M O := {}
  /-- the messages of the publishers parked between check and store -/
  pending : List M := []

def V1t.init (M O : Type) (cap : Nat) : V1t M O := { base := V1c.init M O cap }

inductive Op1t (M O : Type) where
  | op (o : Op1c M O)
  /-- a publisher evaluates `receiver_count() > 0` -/
  | pubCheck (m : M)
  /-- the `i`-th publisher in flight performs `tx.send` -/
  | pubStore (i : Nat)

def V1t.step {M O} (st : V1t M O) : Op1t M O → V1t M O
  | .op o => { st with base := st.base.step o }
  | .pubCheck m =>
    if st.base.closed then st
    else if st.base.base.hasReceiver then { st with pending := st.pending ++ [m] }
    else { st with base := st.base.step (.op (.publish m)) }     -- dropped, here and now
  | .pubStore i =>
    match st.pending[i]? with
    | none => st
    | some m => { base := st.base.step (.op (.publish m)), pending := st.pending.eraseIdx i }

def V1t.run {M O} (st : V1t M O) (ops : List (Op1t M O)) : V1t M O := ops.foldl V1t.step st

/-! ### one `grant` of the engine = the task runs until it parks or returns; a converter call
may act on the port re-entrantly (`re`): publish on it, or drop it — the operation lands
between two sends of the same poll -/

/-- the converter call the next step of the port task will make, if any -/
def V2c.peek {M O} (st : V2c M O) : Option (Nat × M) :=
  if st.finished then none
  else match st.base.pc with
    | .disp _ (s :: _) _ (m :: _) _ => some (s.key, m)
    | _ => none

/-- the converter call the next iteration of forwarding task `i` will make, if any -/
def V1c.peek {M O} (st : V1c M O) (i : Nat) : Option (Nat × M) :=
  if st.finished.contains i then none
  else match st.base.fwds[i]? with
    | none => none
    | some f =>
      if f.ended || decide (f.cursor + st.base.cap < st.base.log.length) then none
      else (st.base.log[f.cursor]?).map fun m => (f.key, m)

/-- Run the v2 port task until it parks or finishes. `re c` = the port operations the
converter call `c` performs on the port it is subscribed to (in the middle of the poll);
`pre (key, m)` = what the converter call about to be made does BEFORE it returns and the
message is sent (e.g. it makes its own subscriber refuse messages). -/
def V2c.runTask {M O} (re : Call M → List (Op2c M O)) (pre : Nat × M → List (Op2c M O) := fun _ => []) : Nat → V2c M O → List (Call M) → V2c M O × List (Call M)
  | 0, st, acc => (st, acc)
  | fuel + 1, st, acc =>
    if st.finished then (st, acc)
    else match st.closed, st.base.pc, st.base.queue with
      | false, .wait _ _, [] => (st, acc)
      | _, _, _ =>
        let st := match st.peek with
          | some km => st.run (pre km)
          | none => st
        let (st', c) := st.task
        let st' := match c with
          | some c => st'.run (re c)
          | none => st'
        V2c.runTask re pre fuel st' (acc ++ c.toList)

/-- Run forwarding task `i` until it parks or returns. -/
def V1c.runTask {M O} (re : Call M → List (Op1c M O)) (pre : Nat × M → List (Op1c M O) := fun _ => []) : Nat → V1c M O → Nat → List (Call M) → V1c M O × List (Call M)
  | 0, st, _, acc => (st, acc)
  | fuel + 1, st, i, acc =>
    match st.base.fwds[i]? with
    | none => (st, acc)
    | some f =>
      if st.taskDone i || (!st.closed && decide (st.base.log.length ≤ f.cursor)) then (st, acc)
      else
        let st := match st.peek i with
          | some km => st.run (pre km)
          | none => st
        let (st', c) := st.task i
        let st' := match c with
          | some c => st'.run (re c)
          | none => st'
        V1c.runTask re pre fuel st' i (acc ++ c.toList)

/-! ## The property predicate (used by the theorems and, on the implementation's own
observations, by the driver) -/

/-- `got` — what one subscription received — judged against `after`, the publications made
after its subscription point:
* always: `got` is a subsequence of `filterMap conv after` (publication order, nothing
  invented, and — publications being distinct — nothing twice);
* `exact` (v2, subscriber alive, port task parked): nothing is missing;
* `pre` (v2, always): what is missing is a tail — nothing is skipped in the middle. -/
structure Verdict where
  subseq : Bool
  pre : Bool
  exact : Bool

def judge {M O} [BEq O] (conv : M → Option O) (after : List M) (got : List O) : Verdict :=
  let want := after.filterMap conv
  { subseq := got.isSublist want, pre := got.isPrefixOf want, exact := got == want }

/-- v1: the last `cap` publications are still retained whenever a parked forwarding task
last looked, so they cannot be missing: `got` ends with their images. -/
def recentOk {M O} [BEq O] (cap : Nat) (conv : M → Option O) (after : List M) (got : List O) : Bool :=
  let recent := (after.drop (after.length - cap)).filterMap conv
  recent.isSuffixOf got

end OutPort

namespace C16
open OutPort

/-- The C16 oracle for one subscription of a v2 port. `alive`: the subscriber has not
stopped; `idle`: the port task is parked with an empty channel. -/
def okV2 {M O} [BEq O] (conv : M → Option O) (after : List M) (got : List O) (alive idle : Bool) : Bool :=
  let v := judge conv after got
  v.subseq && v.pre && (!(alive && idle) || v.exact)

/-- The C16 oracle for one subscription of a v1 port. `parked`: the forwarding task is
alive and has consumed everything stored. -/
def okV1 {M O} [BEq O] (cap : Nat) (conv : M → Option O) (after : List M) (got : List O)
    (alive parked : Bool) : Bool :=
  let v := judge conv after got
  v.subseq && (!(alive && parked) || recentOk cap conv after got)

end C16
