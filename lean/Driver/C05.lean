import RactorModel.Model.Tree
import Driver.Common

/-! Driver for the `Tree` model (C05), E-LTS part.

ops (macro ops executed by `harness/hcore/src/bin/tree.rs` at quiescent points):
  `case <n>` · `spawn` · `spawnl <p>` · `link <c> <p>` · `unlink <c> <p>` · `block <a>` · `release <a>`
  `drain <a>` · `stop <a>` · `kill <a>` · `fail <a>` · `panic <a>` · `abort <a>`
observation: `r=<unit|ok|err|true|false> | <i>:<Status>:<sup|->:<kids,…|->:<handled> …`
-/

namespace Driver.C05
open Tree Driver

structure DState where
  m : MState := {}
  v : State := {}       -- the implementation's previous snapshot

def showRes : Res → String
  | .unit => "unit" | .ok => "ok" | .err => "err" | .tt => "true" | .ff => "false"

def sortNats (l : List Nat) : List Nat := (l.toArray.qsort (· < ·)).toList

def showActor (m : MState) (i : Nat) : String :=
  let sup := match m.t.sup i with | some p => toString p | none => "-"
  let kids := match m.t.kids i with | some ks => showNats (sortNats ks) | none => "-"
  s!"{i}:{(m.t.status i).name}:{sup}:{kids}:{(m.act i).handled}"

def observe (m : MState) (r : Res) : String :=
  s!"r={showRes r} |" ++ String.join ((List.range m.t.n).map fun i => " " ++ showActor m i)

def parseMOp? (ws : List String) : Option MOp :=
  match ws with
  | ["spawn"] => some .spawn
  | ["spawnl", p] => p.toNat?.map .spawnl
  | ["link", c, p] => do pure (.link (← c.toNat?) (← p.toNat?))
  | ["unlink", c, p] => do pure (.unlink (← c.toNat?) (← p.toNat?))
  | ["block", a] => a.toNat?.map .block
  | ["release", a] => a.toNat?.map .release
  | ["drain", a] => a.toNat?.map .drain
  | ["stop", a] => a.toNat?.map .stop
  | ["kill", a] => a.toNat?.map .kill
  | ["fail", a] => a.toNat?.map .fail
  | ["panic", a] => a.toNat?.map .fail
  | ["abort", a] => a.toNat?.map .abort
  | _ => none

def parseStatus? (s : String) : Option Status := Status.all.find? (·.name == s)

/-- one actor entry `i:Status:sup:kids:handled` -/
def parseActor? (s : String) : Option (Nat × Status × Option Nat × List Nat) :=
  match splitOnChar s ':' with
  | [i, st, sup, kids, _] => do
    let i ← i.toNat?
    let st ← parseStatus? st
    let sup ← if sup == "-" then some none else sup.toNat?.map some
    let kids ← natList? kids
    pure (i, st, sup, kids)
  | _ => none

/-- the implementation's snapshot as a `Tree.State` (closed and empty child sets look alike) -/
def parseSnapshot? (s : String) : Option (String × State) :=
  match s.splitOn " |" with
  | [r, rest] => do
    let r ← if r.startsWith "r=" then some (r.drop 2).toString else none
    let as ← (words rest).mapM parseActor?
    -- entries must be numbered 0..n-1
    if (as.map (·.1)) != List.range as.length then none else
    let arr := as.toArray
    pure (r, { n := as.length,
               sup := fun i => match arr[i]? with | some a => a.2.2.1 | none => none,
               kids := fun i => match arr[i]? with | some a => some a.2.2.2 | none => some [],
               status := fun i => match arr[i]? with | some a => a.2.1 | none => .unstarted })
  | _ => none

def sameLinks (a b : State) : Bool :=
  a.n == b.n && (List.range a.n).all fun i =>
    a.sup i == b.sup i && (a.kids i).map sortNats == (b.kids i).map sortNats

def oracle (prev cur : State) (mop : MOp) (r : String) : List String :=
  (if ok cur then [] else
      (if linksOk cur then [] else ["C05.ok links"]) ++
      (if stoppedOk cur then [] else ["C05.ok stopped-has-links"]) ++
      (if setsOk cur then [] else ["C05.ok child-set"]))
  ++ (if subtreeOk prev cur then [] else ["C05.subtree-dies"])
  ++ (if gainOk prev cur then [] else ["C05.gain"])
  ++ (match mop with
      | .link c p =>
        if r == "true" then
          (if cur.sup c == some p && ((cur.kids p).getD []).contains c then [] else ["C05.link-true-not-linked"])
        else if r == "false" then
          (if sameLinks prev cur then [] else ["C05.link-false-changed"])
        else ["C05.link-result"]
      | .spawnl p =>
        let c := prev.n
        if r == "ok" then
          (if cur.sup c == some p && ((cur.kids p).getD []).contains c then [] else ["C05.spawn-ok-not-linked"])
        else if r == "err" then
          (if cur.status c == .stopped then [] else ["C05.spawn-err-not-stopped"])
        else ["C05.spawn-result"]
      | _ => [])

def step (st : DState) (op impl : String) : DState × StepOut :=
  match (words op).filter (fun w => !w.startsWith "h=") with
  | ["case", _] => ({}, { model := "ok" })
  | ws =>
    match parseMOp? ws with
    | none => (st, { model := "bad-op" })
    | some mop =>
      let (m', r) := mstep codeFixed st.m mop
      let obs := observe m' r
      match parseSnapshot? impl with
      | none => ({ st with m := m' }, { model := obs, oracle := ["unparsable"] })
      | some (ir, cur) =>
        let orc := oracle st.v cur mop ir
        -- non-trivial: an exit that took at least one other actor with it, a refused link / spawn,
        -- a relink
        let stoppedBefore := (List.range st.m.t.n).countP (fun i => st.m.t.status i == .stopped)
        let stoppedAfter := (List.range m'.t.n).countP (fun i => m'.t.status i == .stopped)
        let nt := stoppedAfter ≥ stoppedBefore + 2 || r == .ff || r == .err ||
          (match mop with
           | .link c _ => (st.m.t.sup c).isSome && r == .tt
           | _ => false)
        ({ m := m', v := cur }, { model := obs, oracle := orc, nontrivial := nt })

def run (ops impl : Array String) : IO Tally :=
  replay ({} : DState) step ops impl

end Driver.C05
