import RactorModel.Lemmas.TimersProps

/-!
# C12 — timers fire once, never early, and die with their target

Property theorems only.  Model: `Model/Timers.lean` (tied to `ractor/src/time.rs` on tokio's paused
clock by `harness/hcore/src/bin/timers.rs` + `Driver/C12.lean`), lemmas: `Lemmas/Timers*.lean`.

Two levels:
* **small steps** (`steps init ops`, `ops : List Op`): any interleaving of clock ticks, single polls
  of single timer tasks, runs of the target's task, aborts, stop/kill/drain calls and creations —
  timer tasks may be polled arbitrarily late.  `Timers.ok` holds in every reachable state.
* **quiescent runs** (`mrun init ms`, `ms : List MOp`): the clock only moves when every task is
  idle (what a runtime does that is not overloaded, and exactly what the harness executes).
  There the closed form holds (`Timers.okPrompt`).
`Timers.ok` and `Timers.okPrompt` are the predicates the driver evaluates on the histories observed
from the real implementation.
-/

namespace C12
open Timers

/-- For every schedule of the small steps the history satisfies `Timers.ok`: never early,
nothing in the future, one-shot timers act at most once and their handle tells what happened
(`pending`/`cancelled` ⇒ nothing was sent, `ok`/`err` ⇒ exactly one attempt, `err` only for
`send_after`), a finished task never acted after it finished, at most one (failing) attempt after
the target stopped accepting, exit reasons have a source, handled messages were sent. -/
theorem ok_all (ops : List Op) : ok (steps init ops) = true :=
  (Inv.init.steps ops).ok

/-- At every quiescent point of a quiescent run both predicates hold. -/
theorem ok_quiescent (ms : List MOp) : ok (mrun init ms) = true ∧ okPrompt (mrun init ms) = true :=
  ⟨(BInv.init.mrun ms).inv.ok, (BInv.init.mrun ms).okPrompt⟩

/-- `send_after` (also `exit_after`, `kill_after`): at most one action, and not before the period
has elapsed since the API call — for every schedule. -/
theorem oneShot_once_never_early (ops : List Op) (τ : Timer) (hτ : τ ∈ (steps init ops).timers)
    (hk : τ.kind.oneShot = true) :
    τ.sentAt.length ≤ 1 ∧ ∀ t ∈ τ.sentAt, τ.created + τ.period ≤ t :=
  oneShot_once_never_early' (Inv.init.steps ops) τ hτ hk

/-- Every action of every timer: the k-th (1-based) is no earlier than `created + k·period`. -/
theorem never_early (ops : List Op) (τ : Timer) (hτ : τ ∈ (steps init ops).timers)
    (k : Nat) (hk : k < τ.sentAt.length) : τ.created + (k + 1) * τ.period ≤ τ.sentAt[k] :=
  never_early' (Inv.init.steps ops) τ hτ k hk

/-- `send_after`, the fire step: when the sleeping task is polled at or after its deadline it
sends exactly one message if the target still accepts (handle: `Ok`), and otherwise sends nothing
and reports the error through its handle. -/
theorem sendAfter_fires (ops : List Op) (i : Nat) (τ : Timer) (a : Nat)
    (hi : (steps init ops).timers[i]? = some τ) (hk : τ.kind = .sendAfter) (hp : τ.res = .pending)
    (ha : τ.armed = some a) (hd : a + τ.period ≤ (steps init ops).now) :
    let s := steps init ops
    let s' := step s (.fire i)
    ∃ τ', s'.timers[i]? = some τ' ∧ τ'.sentAt = [s.now] ∧
      (s.target.accepts = true → τ'.res = .ok ∧ s'.target.mbox = s.target.mbox ++ [(i, 1)]) ∧
      (s.target.accepts = false → τ'.res = .err ∧ s'.target.mbox = s.target.mbox) :=
  sendAfter_fires' (Inv.init.steps ops) i τ a hi hk hp ha hd

/-- A finished (returned or aborted) timer task never does anything again. -/
theorem finished_frozen (s : State) (i : Nat) (τ : Timer) (hi : s.timers[i]? = some τ)
    (hf : τ.res ≠ .pending) (ops : List Op) : (steps s ops).timers[i]? = some τ :=
  finished_frozen' s i τ hi hf ops

/-- Aborting a timer before its fire step prevents delivery: whatever happens afterwards, the
timer's action list stays what it was and its handle reports `cancelled`. -/
theorem abort_prevents (s : State) (i : Nat) (τ : Timer) (hi : s.timers[i]? = some τ)
    (hp : τ.res = .pending) (ops : List Op) :
    ∃ τ', (steps (step s (.abort i)) ops).timers[i]? = some τ' ∧ τ'.sentAt = τ.sentAt ∧ τ'.res = .cancelled :=
  abort_prevents' s i τ hi hp ops

/-- Closed form, no drift (quiescent runs): the k-th action of a timer happens no earlier than
`created + k·period` and no later than the first quiescent point `c` at or after that deadline;
in particular if the clock visits the deadline itself the action happens exactly then. -/
theorem closed_form (ms : List MOp) (τ : Timer) (hτ : τ ∈ (mrun init ms).timers)
    (k : Nat) (hk : k < τ.sentAt.length) :
    τ.created + (k + 1) * τ.period ≤ τ.sentAt[k] ∧
    (∀ c ∈ (mrun init ms).visits, τ.created + (k + 1) * τ.period ≤ c → τ.sentAt[k] ≤ c) ∧
    (τ.created + (k + 1) * τ.period ∈ (mrun init ms).visits → τ.sentAt[k] = τ.created + (k + 1) * τ.period) :=
  closed_form' (BInv.init.mrun ms) τ hτ k hk

/-- An interval task whose target left the active states ends within one period (quiescent
runs): once the clock is a full period past the instant the target stopped accepting, the task
is gone; and in any schedule it makes at most one (failing) attempt after that instant. -/
theorem interval_dies_with_target (ms : List MOp) (τ : Timer) (hτ : τ ∈ (mrun init ms).timers)
    (hk : τ.kind = .interval) (tc : Nat) (hc : (mrun init ms).target.closedAt = some tc) :
    (tc + τ.period ≤ (mrun init ms).now → τ.res ≠ .pending) ∧
    (τ.sentAt.filter (fun t => decide (tc < t))).length ≤ 1 :=
  interval_dies' (BInv.init.mrun ms) τ hτ hk tc hc

/-- `exit_after` / `kill_after`: if the target exited with reason `"Exit after {p}ms"` then an
`exit_after(p)` timer acted, no earlier than `p` after it was created and no later than the exit;
if it exited `"killed"`, somebody called `kill` or a `kill_after` timer acted no earlier than its
period. For every schedule. -/
theorem exit_reason (ops : List Op) (r : Reason) (te : Nat)
    (he : (steps init ops).target.exit = some (r, te)) :
    (∀ p, r = .exitAfter p → ∃ τ ∈ (steps init ops).timers, τ.kind = .exitAfter ∧ τ.period = p ∧
        ∃ t ∈ τ.sentAt, τ.created + p ≤ t ∧ t ≤ te) ∧
    (r = .killed → (steps init ops).target.manualKill = true ∨
        ∃ τ ∈ (steps init ops).timers, τ.kind = .killAfter ∧
          ∃ t ∈ τ.sentAt, τ.created + τ.period ≤ t ∧ t ≤ te) ∧
    (r = .manual → (steps init ops).target.manualStop = true) :=
  exit_reason' (Inv.init.steps ops) r te he

/-- The documented reason string (compared verbatim with what the real supervisor receives). -/
theorem reason_string (p : Nat) : (Reason.exitAfter p).render = "Exit after " ++ toString p ++ "ms" := rfl

/-! ### Non-vacuity -/

/-- an interval of 3 ms over quiescent points 0,3,6,8,9,19: messages at 3, 6, 9, then a burst of three at 19 -/
example : ((mrun init [.create .interval 3, .adv 3, .adv 3, .adv 2, .adv 1, .adv 10]).timers.map (·.sentAt))
    = [[3, 6, 9, 19, 19, 19]] := by decide

/-- send_after racing kill_after at the same instant: the send is accepted (handle `ok`), the
target dies "killed" without handling it -/
example : let s := mrun init [.create .sendAfter 5, .create .killAfter 5, .adv 5]
    s.timers.map (·.res) = [.ok, .ok] ∧ s.target.exit = some (.killed, 5) ∧ s.target.handled = [] := by decide

/-- abort at the boundary (clock already at the deadline, task not yet polled): nothing is sent -/
example : let s := mrun init [.create .sendAfter 5, .advAbort 5 0, .adv 1]
    s.timers.map (·.res) = [.cancelled] ∧ s.timers.map (·.sentAt) = [[]] := by decide

/-- a dead target: send_after reports the error, the interval makes one failing attempt and ends -/
example : let s := mrun init [.create .interval 3, .create .sendAfter 4, .adv 3, .kill, .adv 3]
    s.timers.map (·.res) = [.ok, .err] ∧ s.timers.map (·.sentAt) = [[3, 6], [6]]
      ∧ s.target.handled = [(0, 1, 3)] := by decide

/-- exit_after with the documented reason -/
example : (mrun init [.create .exitAfter 7, .adv 7]).target.exit = some (.exitAfter 7, 7) := by decide

end C12

#print axioms C12.ok_all
#print axioms C12.ok_quiescent
#print axioms C12.oneShot_once_never_early
#print axioms C12.never_early
#print axioms C12.sendAfter_fires
#print axioms C12.finished_frozen
#print axioms C12.abort_prevents
#print axioms C12.closed_form
#print axioms C12.interval_dies_with_target
#print axioms C12.exit_reason
#print axioms C12.reason_string
