import RactorModel.Lemmas.FactoryAffinity

/-!
Pool-shape invariant (C15, pool clause): the pool holds exactly one record per slot, every slot
`< pool_size` is present and not flagged draining, and every slot `≥ pool_size` is flagged
draining AND still has work.  Hence, as soon as no slot has work, the pool is exactly
`{0 … pool_size - 1}`.
-/

namespace Factory

structure Shape (n : Nat) (pool : List WP) : Prop where
  nodup : NodupW pool
  full : ∀ wid, wid < n → hasW pool wid = true
  inner : ∀ p ∈ pool, p.wid < n → p.draining = false
  extra : ∀ p ∈ pool, n ≤ p.wid → p.draining = true ∧ p.isWorking = true

/-! ### flags kept by `WorkerProperties` functions -/

theorem getNext_draining (p : WP) (e : Env) : (p.getNext e).2.1.draining = p.draining := rfl

theorem dispatchJob_draining (p : WP) (e : Env) (j : Job) : (p.dispatchJob e j).1.draining = p.draining := by
  unfold WP.dispatchJob; split <;> rfl

theorem shedOldest_draining (limit fuel : Nat) (p : WP) (e : Env) : (shedOldest limit fuel p e).1.draining = p.draining := by
  induction fuel generalizing p e with
  | zero => rfl
  | succ fuel ih =>
    unfold shedOldest
    split
    · cases hn : p.getNext e with
      | mk r pe =>
        obtain ⟨p', e'⟩ := pe
        have hw : p'.draining = p.draining := by
          have := getNext_draining p e; rw [hn] at this; exact this
        cases r with
        | none => simp only; rw [ih]; exact hw
        | some d => simp only; rw [ih]; exact hw
    · rfl

theorem enqueueAccepted_draining (p : WP) (e : Env) (j : Job) : (p.enqueueAccepted e j).1.draining = p.draining := by
  unfold WP.enqueueAccepted
  split
  · cases hn : p.getNext e with
    | mk r pe =>
      obtain ⟨p', e'⟩ := pe
      have hw : p'.draining = p.draining := by
        have := getNext_draining p e; rw [hn] at this; exact this
      cases r with
      | none => simp only; rw [dispatchJob_draining]; exact hw
      | some d => simp only; rw [dispatchJob_draining]; exact hw
  · simp only
    split
    · rw [shedOldest_draining]
    · rfl

theorem enqueueJob_draining (p : WP) (e : Env) (j : Job) : (p.enqueueJob e j).1.draining = p.draining := by
  unfold WP.enqueueJob
  split
  · rfl
  · rw [enqueueAccepted_draining]; rfl

theorem workerComplete_draining (p : WP) (e : Env) (key : Nat) : (p.workerComplete e key).1.draining = p.draining := by
  unfold WP.workerComplete
  split
  · generalize hp0 : ({ p with curr := p.curr.filter (fun x => x.1 != key), pending := p.pending.erase key } : WP) = p0
    have h0 : p0.draining = p.draining := by subst hp0; rfl
    cases hn : p0.getNext e with
    | mk r pe =>
      obtain ⟨p', e'⟩ := pe
      have hw : p'.draining = p0.draining := by
        have := getNext_draining p0 e; rw [hn] at this; exact this
      cases r with
      | none => simp only [hn]; rw [hw, h0]
      | some d => simp only [hn]; rw [dispatchJob_draining, hw, h0]
  · rfl

theorem replaceWorker_draining (p : WP) (e : Env) (naid : Nat) : (p.replaceWorker e naid).1.draining = p.draining := by
  unfold WP.replaceWorker
  simp only
  generalize hp0 : ({ p with curr := [], pending := p.curr.foldl (fun acc x => acc.erase x.1) p.pending, actor := naid } : WP) = p0
  have h0 : p0.draining = p.draining := by subst hp0; rfl
  cases hn : p0.getNext e with
  | mk r pe =>
    obtain ⟨p', e'⟩ := pe
    have hw : p'.draining = p0.draining := by
      have := getNext_draining p0 e; rw [hn] at this; exact this
    cases r with
    | none => simp only [hn]; rw [hw, h0]
    | some d => simp only [hn]; rw [dispatchJob_draining, hw, h0]

/-- a hand-over leaves the slot with work (in flight, or back at the head of its queue) -/
theorem currInsert_ne_nil (c : List (Nat × Nat)) (k id : Nat) : currInsert c k id ≠ [] := by
  unfold currInsert
  split
  · rename_i h
    intro hc
    have : c = [] := by simpa using hc
    simp [this] at h
  · simp

theorem dispatchJob_working (p : WP) (e : Env) (j : Job) : (p.dispatchJob e j).1.isWorking = true := by
  unfold WP.dispatchJob
  split
  · simp only [WP.isWorking, WP.isAvailable, Bool.not_and, Bool.or_eq_true, Bool.not_eq_true']
    left
    have := currInsert_ne_nil p.curr j.key j.id
    cases hc : currInsert p.curr j.key j.id with
    | nil => exact absurd hc this
    | cons _ _ => rfl
  · simp [WP.isWorking, WP.isAvailable]

theorem isWorking_of_curr {p : WP} (h : p.curr.isEmpty = false) : p.isWorking = true := by
  simp [WP.isWorking, WP.isAvailable, h]

theorem isWorking_of_mq {p : WP} (h : p.mq ≠ []) : p.isWorking = true := by
  simp only [WP.isWorking, WP.isAvailable, Bool.not_and, Bool.or_eq_true, Bool.not_eq_true']
  right
  cases hm : p.mq with
  | nil => exact absurd hm h
  | cons _ _ => rfl

theorem shedOldest_curr (limit fuel : Nat) (p : WP) (e : Env) : (shedOldest limit fuel p e).1.curr = p.curr := by
  induction fuel generalizing p e with
  | zero => rfl
  | succ fuel ih =>
    unfold shedOldest
    split
    · cases hn : p.getNext e with
      | mk r pe =>
        obtain ⟨p', e'⟩ := pe
        have hw : p'.curr = p.curr := by
          have := getNext_curr p e; rw [hn] at this; exact this
        cases r with
        | none => simp only; rw [ih]; exact hw
        | some d => simp only; rw [ih]; exact hw
    · rfl

/-- after `enqueue_job` the slot always has work (a job it sheds as Newest leaves it as busy as it was) -/
theorem enqueueJob_working (p : WP) (e : Env) (j : Job) : (p.enqueueJob e j).1.isWorking = true := by
  unfold WP.enqueueJob
  split
  · rename_i hs
    unfold WP.shedsNewest at hs
    split at hs
    · simp only [Bool.and_eq_true, Bool.not_eq_true'] at hs
      simp [WP.isWorking, hs.1]
    · simp at hs
  · unfold WP.enqueueAccepted
    split
    · cases hn : (p.track j.key).getNext (e.accept j) with
      | mk r pe =>
        obtain ⟨p', e'⟩ := pe
        cases r with
        | none => simp only; exact dispatchJob_working _ _ _
        | some d => simp only; exact dispatchJob_working _ _ _
    · rename_i hc
      simp only
      split
      · apply isWorking_of_curr
        rw [shedOldest_curr]
        simpa using hc
      · apply isWorking_of_curr
        simpa using hc

/-! ### pool primitives -/

theorem mem_setW {pool : List WP} {wid : Nat} {p' x : WP} (h : x ∈ setW pool wid p') : x = p' ∨ x ∈ pool := by
  induction pool with
  | nil => simp [setW] at h
  | cons y ys ih =>
    unfold setW at h
    split at h
    · cases h with
      | head => exact Or.inl rfl
      | tail _ h' => exact Or.inr (List.mem_cons_of_mem _ h')
    · cases h with
      | head => exact Or.inr (List.mem_cons_self ..)
      | tail _ h' =>
        rcases ih h' with h1 | h1
        · exact Or.inl h1
        · exact Or.inr (List.mem_cons_of_mem _ h1)

theorem hasW_iff_mem (pool : List WP) (wid : Nat) : hasW pool wid = true ↔ wid ∈ pool.map (·.wid) := by
  unfold hasW
  rw [List.any_eq_true, List.mem_map]
  constructor
  · rintro ⟨p, hp, he⟩; exact ⟨p, hp, by simpa using he⟩
  · rintro ⟨p, hp, he⟩; exact ⟨p, hp, by simpa using he⟩

theorem hasW_setW (pool : List WP) (wid wid' : Nat) (p' : WP) (hw : p'.wid = wid) :
    hasW (setW pool wid p') wid' = hasW pool wid' := by
  rw [Bool.eq_iff_iff, hasW_iff_mem, hasW_iff_mem, map_wid_setW pool wid p' hw]

theorem mem_removeW {pool : List WP} {wid : Nat} {x : WP} (h : x ∈ removeW pool wid) : x ∈ pool :=
  (removeW_sublist pool wid).subset h

theorem hasW_removeW_other (pool : List WP) (wid wid' : Nat) (hne : wid' ≠ wid) :
    hasW (removeW pool wid) wid' = hasW pool wid' := by
  induction pool with
  | nil => rfl
  | cons x xs ih =>
    unfold removeW
    split
    · rename_i hx
      have : x.wid = wid := by simpa using hx
      have hx' : (x.wid == wid') = false := by rw [this]; exact beq_false_of_ne (Ne.symm hne)
      simp [hasW, hx']
    · simp only [hasW, List.any_cons] at *
      rw [ih]

theorem getW_mem {pool : List WP} {wid : Nat} {p : WP} (h : getW pool wid = some p) : p ∈ pool :=
  List.mem_of_find?_eq_some h

/-- replacing a slot's record by one with the same id and admissible flags keeps the shape -/
theorem Shape.setW {n : Nat} {pool : List WP} {wid : Nat} {p p' : WP} (h : Shape n pool)
    (hg : getW pool wid = some p) (hw : p'.wid = wid)
    (hin : wid < n → p'.draining = false) (hex : n ≤ wid → p'.draining = true ∧ p'.isWorking = true) :
    Shape n (setW pool wid p') := by
  refine ⟨nodupW_setW hw h.nodup, ?_, ?_, ?_⟩
  · intro w hw'; rw [hasW_setW pool wid w p' hw]; exact h.full w hw'
  · intro x hx hlt
    rcases mem_setW hx with rfl | hm
    · exact hin (by rw [← hw]; exact hlt)
    · exact h.inner x hm hlt
  · intro x hx hle
    rcases mem_setW hx with rfl | hm
    · exact hex (by rw [← hw]; exact hle)
    · exact h.extra x hm hle

/-- dropping a slot `≥ n` keeps the shape -/
theorem Shape.removeW {n : Nat} {pool : List WP} {wid : Nat} (h : Shape n pool) (hle : n ≤ wid) :
    Shape n (removeW pool wid) := by
  refine ⟨nodupW_removeW wid h.nodup, ?_, ?_, ?_⟩
  · intro w hw; rw [hasW_removeW_other pool wid w (by omega)]; exact h.full w hw
  · intro x hx; exact h.inner x (mem_removeW hx)
  · intro x hx; exact h.extra x (mem_removeW hx)

/-- a draining slot lies outside `0..n` -/
theorem Shape.draining_ge {n : Nat} {pool : List WP} (h : Shape n pool) {p : WP} (hp : p ∈ pool)
    (hd : p.draining = true) : n ≤ p.wid := by
  by_cases hlt : p.wid < n
  · have := h.inner p hp hlt; rw [hd] at this; cases this
  · omega

end Factory

namespace Factory

def ShapeInv (w : W) : Prop := Shape w.poolSize w.pool

theorem ShapeInv.of_pool {w w' : W} (h : ShapeInv w) (hs : w'.poolSize = w.poolSize) (hp : w'.pool = w.pool) : ShapeInv w' := by
  unfold ShapeInv; rw [hs, hp]; exact h

theorem ShapeInv.of_routerFrame {w w' : W} (h : ShapeInv w) (f : RouterFrame w w') : ShapeInv w' :=
  h.of_pool f.poolSize f.pool

theorem nodupW_eq_of_wid {l : List WP} (h : NodupW l) {x y : WP} (hx : x ∈ l) (hy : y ∈ l) (hw : x.wid = y.wid) : x = y := by
  have h1 := getW_of_mem_nodup hx h
  have h2 := getW_of_mem_nodup hy h
  rw [hw] at h1
  rw [h1] at h2
  exact Option.some.inj h2

theorem mem_setW_self {pool : List WP} {wid : Nat} {p p' : WP} (hg : getW pool wid = some p) : p' ∈ setW pool wid p' := by
  induction pool with
  | nil => simp [getW] at hg
  | cons x xs ih =>
    unfold setW
    simp only [getW, List.find?_cons] at hg
    cases hx : x.wid == wid
    · simp only [hx] at hg
      simp only [Bool.false_eq_true, if_false]
      exact List.mem_cons_of_mem _ (ih hg)
    · simp

theorem shapeInv_routeInner (w : W) (j : Job) (hint : Option Nat) (h : ShapeInv w) : ShapeInv (w.routeInner j hint).2 := by
  unfold W.routeInner
  have hs := chooseTargetWorker_frame w j hint
  cases hc : w.chooseTargetWorker j hint with
  | mk t w1 =>
    rw [hc] at hs
    simp only at hs ⊢
    have h1 : ShapeInv w1 := h.of_routerFrame hs
    cases t with
    | none => exact h1
    | some wid =>
      simp only
      cases hg : getW w1.pool wid with
      | none => exact h1
      | some p =>
        simp only
        have hwid : (p.enqueueJob w1.env j).1.wid = wid := by rw [enqueueJob_wid]; exact getW_wid hg
        have hpw : p.wid = wid := getW_wid hg
        show Shape w1.poolSize (setW w1.pool wid (p.enqueueJob w1.env j).1)
        apply Shape.setW h1 hg hwid
        · intro hlt
          rw [enqueueJob_draining]
          exact h1.inner p (getW_mem hg) (by rw [hpw]; exact hlt)
        · intro hle
          rw [enqueueJob_draining]
          exact ⟨(h1.extra p (getW_mem hg) (by rw [hpw]; exact hle)).1, enqueueJob_working _ _ _⟩

theorem shapeInv_routeLimited (w : W) (j : Job) (hint : Option Nat) (h : ShapeInv w) : ShapeInv (w.routeLimited j hint).2 := by
  unfold W.routeLimited
  split
  · exact shapeInv_routeInner w j hint h
  · rename_i c lb _
    simp only
    have h0 : ShapeInv { w with rl := some (c, (LeakyBucket.check c lb w.env.now).1) } := h.of_pool rfl rfl
    split
    · split
      · split
        · rename_i hh _
          exact h0.of_routerFrame (availChange_frame { w with rl := some (c, (LeakyBucket.check c lb w.env.now).1) } hh true)
        · exact h0
      · exact h0
    · have hi := shapeInv_routeInner _ j hint h0
      cases hr : W.routeInner { w with rl := some (c, (LeakyBucket.check c lb w.env.now).1) } j hint with
      | mk r w2 =>
        rw [hr] at hi
        simp only at hi ⊢
        split
        · exact hi.of_pool rfl rfl
        · exact hi

theorem shapeInv_routeMessage (w : W) (j : Job) (hint : Option Nat) (h : ShapeInv w) : ShapeInv (w.routeMessage j hint).2 := by
  unfold W.routeMessage
  have hi := shapeInv_routeLimited w j hint h
  cases hr : w.routeLimited j hint with
  | mk r w2 => rw [hr] at hi; exact hi.of_pool rfl rfl

theorem shapeInv_dropExpiredHead (fuel : Nat) (w : W) (h : ShapeInv w) : ShapeInv (W.dropExpiredHead fuel w) := by
  induction fuel generalizing w with
  | zero => exact h
  | succ fuel ih =>
    unfold W.dropExpiredHead
    split
    · split
      · split
        · exact ih _ (h.of_pool rfl rfl)
        · exact h
      · exact h
    · exact h

theorem shapeInv_routeLoop (hint : Option Nat) (fuel : Nat) (w : W) (h : ShapeInv w) : ShapeInv (W.routeLoop hint fuel w) := by
  induction fuel generalizing w with
  | zero => exact h
  | succ fuel ih =>
    unfold W.routeLoop
    split
    · exact h
    · rename_i j _
      have hs := chooseTargetWorker_frame w j hint
      cases hc : w.chooseTargetWorker j hint with
      | mk t w1 =>
        rw [hc] at hs
        simp only at hs ⊢
        have h1 : ShapeInv w1 := h.of_routerFrame hs
        cases t with
        | none => exact h1
        | some worker =>
          simp only
          cases hp : qPopFront w1.cfg w1.queue with
          | none => exact h1
          | some jq =>
            obtain ⟨j', q⟩ := jq
            simp only
            have hr := shapeInv_routeMessage { w1 with queue := q } j' (some worker) (h1.of_pool rfl rfl)
            cases hrm : W.routeMessage { w1 with queue := q } j' (some worker) with
            | mk r w2 =>
              rw [hrm] at hr
              cases r with
              | handled => exact hr
              | rateLimited => exact ih _ (hr.of_pool rfl rfl)
              | backlog => exact hr.of_pool rfl rfl

theorem shapeInv_tryRoute (w : W) (hint : Option Nat) (h : ShapeInv w) : ShapeInv (w.tryRouteNextActiveJob hint) := by
  unfold W.tryRouteNextActiveJob
  exact shapeInv_routeLoop _ _ _ (shapeInv_dropExpiredHead _ _ h)

theorem shapeInv_shedQueueOldest (limit fuel : Nat) (w : W) (h : ShapeInv w) : ShapeInv (W.shedQueueOldest limit fuel w) := by
  induction fuel generalizing w with
  | zero => exact h
  | succ fuel ih =>
    unfold W.shedQueueOldest
    split
    · split
      · exact ih _ (h.of_pool rfl rfl)
      · exact ih _ h
    · exact h

theorem shapeInv_maybeEnqueue (w : W) (j : Job) (h : ShapeInv w) : ShapeInv (w.maybeEnqueue j) := by
  unfold W.maybeEnqueue
  split
  · split
    · exact h.of_pool rfl rfl
    · exact h.of_pool rfl rfl
  · exact shapeInv_shedQueueOldest _ _ _ (h.of_pool rfl rfl)
  · exact h.of_pool rfl rfl

/-! ### growing and shrinking -/

theorem growOne_shape (w : W) (n : Nat) (h : Shape n w.pool) :
    Shape (n + 1) (w.growOne n).pool ∧ (w.growOne n).poolSize = w.poolSize := by
  unfold W.growOne
  split
  · rename_i p hg
    have hpw : p.wid = n := getW_wid hg
    have hsh : Shape (n + 1) (setW w.pool n { p with draining := false }) := by
      have hnd := nodupW_setW (p' := { p with draining := false }) hpw h.nodup
      have hself : ({ p with draining := false } : WP) ∈ setW w.pool n { p with draining := false } := mem_setW_self hg
      refine ⟨hnd, ?_, ?_, ?_⟩
      · intro wid hlt
        rw [hasW_setW w.pool n wid { p with draining := false } hpw]
        by_cases hw : wid = n
        · subst hw
          rw [hasW_iff_mem]
          exact List.mem_map.mpr ⟨p, getW_mem hg, hpw⟩
        · exact h.full wid (by omega)
      · intro x hx hlt
        rcases mem_setW hx with rfl | hm
        · rfl
        · by_cases hw : x.wid = n
          · have := nodupW_eq_of_wid hnd hx hself (by rw [hw]; exact hpw.symm)
            rw [this]
          · exact h.inner x hm (by omega)
      · intro x hx hle
        rcases mem_setW hx with rfl | hm
        · simp only at hle; omega
        · exact h.extra x hm (by omega)
    split
    · exact ⟨by rw [(availChange_frame _ _ _).pool]; exact hsh, by rw [(availChange_frame _ _ _).poolSize]⟩
    · exact ⟨hsh, rfl⟩
  · rename_i hg
    refine ⟨?_, by rw [(availChange_frame _ _ _).poolSize]⟩
    rw [(availChange_frame _ _ _).pool]
    simp only
    have hnone : getW w.pool ({ wid := n, actor := w.nextAid, disc := w.workerDiscard w.disc, handler := w.handler } : WP).wid = none := hg
    refine ⟨nodupW_append_new hnone h.nodup, ?_, ?_, ?_⟩
    · intro wid hlt
      rw [hasW_iff_mem, List.map_append, List.mem_append]
      by_cases hw : wid = n
      · right; simp [hw]
      · left; rw [← hasW_iff_mem]; exact h.full wid (by omega)
    · intro x hx hlt
      rcases List.mem_append.mp hx with hm | hm
      · by_cases hw : x.wid = n
        · exfalso
          exact getW_none_not_mem hg (by rw [← hw]; exact List.mem_map.mpr ⟨x, hm, rfl⟩)
        · exact h.inner x hm (by omega)
      · simp only [List.mem_singleton] at hm; subst hm; rfl
    · intro x hx hle
      rcases List.mem_append.mp hx with hm | hm
      · exact h.extra x hm (by omega)
      · simp only [List.mem_singleton] at hm; subst hm; simp only at hle; omega

theorem growPool_shape (w : W) (k : Nat) (h : Shape w.poolSize w.pool) :
    Shape (w.poolSize + k) (w.growPool k).pool ∧ (w.growPool k).poolSize = w.poolSize := by
  unfold W.growPool
  induction k with
  | zero => exact ⟨h, rfl⟩
  | succ k ih =>
    rw [List.range_succ, List.foldl_append]
    simp only [List.foldl_cons, List.foldl_nil]
    obtain ⟨ih1, ih2⟩ := ih
    have := growOne_shape ((List.range k).foldl (fun w i => w.growOne (w.poolSize + i)) w) (w.poolSize + k) ih1
    rw [ih2]
    exact ⟨this.1, by rw [this.2, ih2]⟩

theorem wid_not_mem_removeW {pool : List WP} {wid : Nat} (hnd : NodupW pool) :
    wid ∉ (removeW pool wid).map (·.wid) := by
  induction pool with
  | nil => simp [removeW]
  | cons y ys ih =>
    have hnd' := List.nodup_cons.mp (show (y.wid :: ys.map (·.wid)).Nodup from hnd)
    unfold removeW
    cases hy : y.wid == wid
    · simp only [Bool.false_eq_true, if_false, List.map_cons, List.mem_cons, not_or]
      refine ⟨?_, ih hnd'.2⟩
      intro heq
      have : (y.wid == wid) = true := by rw [heq]; simp
      rw [hy] at this; cases this
    · simp only [if_true]
      have : y.wid = wid := by simpa using hy
      rw [← this]; exact hnd'.1

/-- while shrinking from `hi` to `n`: slots `n .. n+i-1` have been processed -/
structure ShrinkShape (n i hi : Nat) (pool : List WP) : Prop where
  nodup : NodupW pool
  full : ∀ wid, wid < n → hasW pool wid = true
  inner : ∀ p ∈ pool, p.wid < n → p.draining = false
  extra : ∀ p ∈ pool, n ≤ p.wid →
    (p.draining = true ∧ p.isWorking = true) ∨ (n + i ≤ p.wid ∧ p.wid < hi ∧ p.draining = false)

theorem shrinkOne_shape (w : W) (n i hi : Nat) (h : ShrinkShape n i hi w.pool) :
    ShrinkShape n (i + 1) hi (w.shrinkOne (n + i)).pool ∧ (w.shrinkOne (n + i)).poolSize = w.poolSize := by
  unfold W.shrinkOne
  split
  · rename_i p hg
    have hpw : p.wid = n + i := getW_wid hg
    split
    · -- busy: flagged draining
      rename_i hwk
      refine ⟨?_, rfl⟩
      simp only
      have hnd := nodupW_setW (p' := { p with draining := true }) hpw h.nodup
      have hself : ({ p with draining := true } : WP) ∈ setW w.pool (n + i) { p with draining := true } := mem_setW_self hg
      refine ⟨hnd, ?_, ?_, ?_⟩
      · intro wid hlt; rw [hasW_setW w.pool (n + i) wid { p with draining := true } hpw]; exact h.full wid hlt
      · intro x hx hlt
        rcases mem_setW hx with rfl | hm
        · simp only at hlt; omega
        · exact h.inner x hm hlt
      · intro x hx hle
        rcases mem_setW hx with rfl | hm
        · left; exact ⟨rfl, hwk⟩
        · by_cases hw : x.wid = n + i
          · have := nodupW_eq_of_wid hnd hx hself (by rw [hw]; exact hpw.symm)
            left; rw [this]; exact ⟨rfl, hwk⟩
          · rcases h.extra x hm hle with h1 | h1
            · exact Or.inl h1
            · exact Or.inr ⟨by omega, h1.2.1, h1.2.2⟩
    · -- idle: stopped and dropped
      refine ⟨?_, by simp only; rw [(availChange_frame _ _ _).poolSize]⟩
      simp only
      rw [(availChange_frame _ _ _).pool]
      refine ⟨nodupW_removeW _ h.nodup, ?_, ?_, ?_⟩
      · intro wid hlt; rw [hasW_removeW_other w.pool (n + i) wid (by omega)]; exact h.full wid hlt
      · intro x hx; exact h.inner x (mem_removeW hx)
      · intro x hx hle
        have hm := mem_removeW hx
        by_cases hw : x.wid = n + i
        · -- the only record of that slot was removed
          exfalso
          have hxp : x = p := nodupW_eq_of_wid h.nodup hm (getW_mem hg) (by rw [hw]; exact hpw.symm)
          subst hxp
          have hnot : x.wid ∉ (removeW w.pool (n + i)).map (·.wid) := by
            rw [hw]; exact wid_not_mem_removeW h.nodup
          exact hnot (List.mem_map.mpr ⟨x, hx, rfl⟩)
        · rcases h.extra x hm hle with h1 | h1
          · exact Or.inl h1
          · exact Or.inr ⟨by omega, h1.2.1, h1.2.2⟩
  · rename_i hg
    refine ⟨?_, rfl⟩
    refine ⟨h.nodup, h.full, h.inner, ?_⟩
    intro x hx hle
    rcases h.extra x hx hle with h1 | h1
    · exact Or.inl h1
    · refine Or.inr ⟨?_, h1.2.1, h1.2.2⟩
      have : x.wid ≠ n + i := by
        intro heq
        exact getW_none_not_mem hg (by rw [← heq]; exact List.mem_map.mpr ⟨x, hx, rfl⟩)
      omega

theorem shrinkPool_shape (w : W) (k : Nat) (hk : k ≤ w.poolSize) (h : Shape w.poolSize w.pool) :
    Shape (w.poolSize - k) (w.shrinkPool k).pool ∧ (w.shrinkPool k).poolSize = w.poolSize := by
  unfold W.shrinkPool
  have hgen : ∀ i, i ≤ k →
      ShrinkShape (w.poolSize - k) i w.poolSize ((List.range i).foldl (fun w' j => w'.shrinkOne (w'.poolSize - k + j)) w).pool ∧
      ((List.range i).foldl (fun w' j => w'.shrinkOne (w'.poolSize - k + j)) w).poolSize = w.poolSize := by
    intro i
    induction i with
    | zero =>
      intro _
      refine ⟨⟨h.nodup, fun wid hlt => h.full wid (by omega), fun p hp hlt => h.inner p hp (by omega), ?_⟩, rfl⟩
      intro p hp hle
      by_cases hlt : p.wid < w.poolSize
      · exact Or.inr ⟨by omega, hlt, h.inner p hp hlt⟩
      · exact Or.inl (h.extra p hp (by omega))
    | succ i ih =>
      intro hi
      rw [List.range_succ, List.foldl_append]
      simp only [List.foldl_cons, List.foldl_nil]
      obtain ⟨ih1, ih2⟩ := ih (by omega)
      rw [ih2]
      have := shrinkOne_shape ((List.range i).foldl (fun w' j => w'.shrinkOne (w'.poolSize - k + j)) w) (w.poolSize - k) i w.poolSize ih1
      exact ⟨this.1, by rw [this.2, ih2]⟩
  obtain ⟨h1, h2⟩ := hgen k (Nat.le_refl k)
  refine ⟨⟨h1.nodup, h1.full, h1.inner, ?_⟩, h2⟩
  intro p hp hle
  rcases h1.extra p hp hle with hh | hh
  · exact hh
  · omega

theorem shapeInv_flushAfterGrow (fuel : Nat) (w : W) (h : ShapeInv w) : ShapeInv (W.flushAfterGrow fuel w) := by
  induction fuel generalizing w with
  | zero => exact h
  | succ fuel ih =>
    unfold W.flushAfterGrow
    simp only
    split
    · exact h
    · split
      · exact shapeInv_tryRoute w none h
      · exact ih _ (shapeInv_tryRoute w none h)

theorem shapeInv_resizePool (w : W) (n : Nat) (h : ShapeInv w) : ShapeInv (w.resizePool n) := by
  unfold W.resizePool
  split
  · exact h
  · simp only
    split
    · rename_i hgt
      apply shapeInv_flushAfterGrow
      have := growPool_shape w (min GLOBAL_WORKER_POOL_MAXIMUM n - w.poolSize) h
      show Shape (min GLOBAL_WORKER_POOL_MAXIMUM n) _
      have he : w.poolSize + (min GLOBAL_WORKER_POOL_MAXIMUM n - w.poolSize) = min GLOBAL_WORKER_POOL_MAXIMUM n := by omega
      have hs := this.1
      rw [he] at hs; exact hs
    · split
      · rename_i hlt
        have := shrinkPool_shape w (w.poolSize - min GLOBAL_WORKER_POOL_MAXIMUM n) (by omega) h
        show Shape (min GLOBAL_WORKER_POOL_MAXIMUM n) _
        have he : w.poolSize - (w.poolSize - min GLOBAL_WORKER_POOL_MAXIMUM n) = min GLOBAL_WORKER_POOL_MAXIMUM n := by omega
        have hs := this.1
        rw [he] at hs; exact hs
      · rename_i h1 h2
        show Shape (min GLOBAL_WORKER_POOL_MAXIMUM n) w.pool
        have : min GLOBAL_WORKER_POOL_MAXIMUM n = w.poolSize := by omega
        rw [this]; exact h

end Factory

namespace Factory

theorem shapeInv_dispatch (w : W) (j : Job) (h : ShapeInv w) : ShapeInv (w.dispatch j) := by
  unfold W.dispatch
  split
  · exact h.of_pool rfl rfl
  · split
    · have hr := shapeInv_routeMessage w j none h
      cases hrm : w.routeMessage j none with
      | mk r w2 =>
        rw [hrm] at hr
        cases r with
        | handled => exact hr
        | rateLimited => exact hr.of_pool rfl rfl
        | backlog => exact shapeInv_maybeEnqueue w2 j hr
    · exact h.of_pool rfl rfl

theorem shapeInv_ite (c : Prop) [Decidable c] (a b : W) (ha : ShapeInv a) (hb : ShapeInv b) : ShapeInv (if c then a else b) := by
  split <;> assumption

theorem removeW_setW (pool : List WP) (wid : Nat) (p' : WP) (hw : p'.wid = wid) :
    removeW (setW pool wid p') wid = removeW pool wid := by
  induction pool with
  | nil => rfl
  | cons x xs ih =>
    unfold setW
    cases hx : x.wid == wid
    · simp only [Bool.false_eq_true, if_false]
      unfold removeW
      simp only [hx, Bool.false_eq_true, if_false]
      rw [ih]
    · simp only [if_true]
      unfold removeW
      have : (p'.wid == wid) = true := by simp [hw]
      simp only [this, hx, if_true]

theorem shapeInv_workerFinishedJob (w : W) (who key : Nat) (h : ShapeInv w) : ShapeInv (w.workerFinishedJob who key) := by
  unfold W.workerFinishedJob
  split
  · rename_i p hg
    have hpw : p.wid = who := getW_wid hg
    have hwid : (p.workerComplete w.env key).1.wid = who := by rw [workerComplete_wid]; exact hpw
    have hdr := workerComplete_draining p w.env key
    cases hwc : p.workerComplete w.env key with
    | mk p' e' =>
      rw [hwc] at hwid hdr
      simp only at hwid hdr ⊢
      split
      · rename_i hd
        have hge : w.poolSize ≤ who := by
          rw [← hpw]; exact Shape.draining_ge h (getW_mem hg) (by rw [← hdr]; exact hd)
        split
        · show Shape w.poolSize (removeW (setW w.pool who p') who)
          rw [removeW_setW _ _ _ hwid]
          exact Shape.removeW h hge
        · rename_i hwk
          show Shape w.poolSize (setW w.pool who p')
          apply Shape.setW h hg hwid
          · intro hlt; omega
          · intro _; exact ⟨hd, by simpa using hwk⟩
      · rename_i hnd
        have h1 : ShapeInv { w with pool := setW w.pool who p', env := e' } := by
          show Shape w.poolSize (setW w.pool who p')
          apply Shape.setW h hg hwid
          · intro _; simpa using hnd
          · intro hle
            have := (h.extra p (getW_mem hg) (by rw [hpw]; exact hle)).1
            rw [← hdr] at this
            exact absurd this hnd
        apply shapeInv_ite
        · exact (shapeInv_tryRoute _ _ h1).of_routerFrame (availChange_frame _ _ _)
        · exact shapeInv_tryRoute _ _ h1
  · exact shapeInv_tryRoute w _ h

theorem shapeInv_removeExpired (w : W) (h : ShapeInv w) : ShapeInv w.removeExpired := by
  unfold W.removeExpired
  split
  · exact h.of_pool rfl rfl
  · exact h

theorem shapeInv_calcRest (w : W) (h : ShapeInv w) : ShapeInv w.calcRest := by
  unfold W.calcRest
  exact (shapeInv_removeExpired w h).of_pool rfl rfl

theorem Shape.map_disc {n : Nat} {pool : List WP} (h : Shape n pool) (d : Option (Nat × Mode)) :
    Shape n (pool.map fun p => { p with disc := d }) := by
  refine ⟨?_, ?_, ?_, ?_⟩
  · unfold NodupW; rw [List.map_map]; exact h.nodup
  · intro wid hlt
    have := h.full wid hlt
    rw [hasW_iff_mem] at this ⊢
    rw [List.map_map]; exact this
  · intro x hx hlt
    obtain ⟨y, hy, rfl⟩ := List.mem_map.mp hx
    exact h.inner y hy hlt
  · intro x hx hle
    obtain ⟨y, hy, rfl⟩ := List.mem_map.mp hx
    exact h.extra y hy hle

theorem Shape.map_handler {n : Nat} {pool : List WP} (h : Shape n pool) (d : Option Nat) :
    Shape n (pool.map fun p => { p with handler := d }) := by
  refine ⟨?_, ?_, ?_, ?_⟩
  · unfold NodupW; rw [List.map_map]; exact h.nodup
  · intro wid hlt
    have := h.full wid hlt
    rw [hasW_iff_mem] at this ⊢
    rw [List.map_map]; exact this
  · intro x hx hlt
    obtain ⟨y, hy, rfl⟩ := List.mem_map.mp hx
    exact h.inner y hy hlt
  · intro x hx hle
    obtain ⟨y, hy, rfl⟩ := List.mem_map.mp hx
    exact h.extra y hy hle

theorem shapeInv_setHandler (w : W) (hd : Option Nat) (h : ShapeInv w) : ShapeInv (w.setHandler hd) :=
  Shape.map_handler h hd

theorem shapeInv_updateSettings (w : W) (d : Option (Option (Nat × Mode))) (n : Option Nat) (h : ShapeInv w) :
    ShapeInv (w.updateSettings d n) := by
  unfold W.updateSettings
  have h1 : ShapeInv (match d with
      | some d => { w with pool := w.pool.map (fun p => { p with disc := w.workerDiscard d }), disc := d }
      | none => w) := by
    cases d with
    | none => exact h
    | some d => exact Shape.map_disc h _
  cases n with
  | none => exact h1
  | some n => exact shapeInv_resizePool _ n h1

/-- the tail of `handle_supervisor_evt`, together with installing the replacement's record -/
theorem shapeInv_afterReplace_setW (w : W) (wid : Nat) (p p' : WP) (h : ShapeInv w) (hg : getW w.pool wid = some p)
    (hw : p'.wid = wid) (hd : p'.draining = p.draining) (w1 : W) (hs : w1.poolSize = w.poolSize)
    (hp : w1.pool = setW w.pool wid p') : ShapeInv (w1.afterReplace wid) := by
  have hpw : p.wid = wid := getW_wid hg
  have hget : getW w1.pool wid = some p' := by rw [hp]; exact getW_setW_same hg hw
  unfold W.afterReplace W.retireIdleDrainingWorker
  simp only [hget]
  by_cases hc : (p'.draining && !p'.isWorking) = true
  · simp only [hc, if_true]
    show Shape w1.poolSize (removeW w1.pool wid)
    rw [hs, hp, removeW_setW _ _ _ hw]
    have hdr : p.draining = true := by
      simp only [Bool.and_eq_true] at hc; rw [← hd]; exact hc.1
    exact Shape.removeW h (by rw [← hpw]; exact Shape.draining_ge h (getW_mem hg) hdr)
  · simp only [hc, Bool.false_eq_true, if_false]
    have h1 : ShapeInv w1 := by
      show Shape w1.poolSize w1.pool
      rw [hs, hp]
      apply Shape.setW h hg hw
      · intro hlt; rw [hd]; exact h.inner p (getW_mem hg) (by rw [hpw]; exact hlt)
      · intro hle
        have hdr := (h.extra p (getW_mem hg) (by rw [hpw]; exact hle)).1
        rw [← hd] at hdr
        refine ⟨hdr, ?_⟩
        simp only [hdr, Bool.true_and, Bool.not_eq_true', Bool.not_eq_false'] at hc
        simpa using hc
    apply shapeInv_ite
    · exact (shapeInv_tryRoute _ _ h1).of_routerFrame (availChange_frame _ _ _)
    · exact shapeInv_tryRoute _ _ h1

theorem shapeInv_handleSupervisorEvt (w : W) (who : Nat) (h : ShapeInv w) : ShapeInv (w.handleSupervisorEvt who) := by
  unfold W.handleSupervisorEvt
  split
  · exact h
  · rename_i wid _
    split
    · exact h
    · rename_i p hg
      simp only
      have hwid : (p.replaceWorker (w.env.spawn wid w.nextAid) w.nextAid).1.wid = wid := by
        rw [replaceWorker_wid]; exact getW_wid hg
      have hdr := replaceWorker_draining p (w.env.spawn wid w.nextAid) w.nextAid
      cases hrw : p.replaceWorker (w.env.spawn wid w.nextAid) w.nextAid with
      | mk p' e' =>
        rw [hrw] at hwid hdr
        exact shapeInv_afterReplace_setW w wid p p' h hg hwid hdr _ rfl rfl

theorem shape_empty : Shape 0 ([] : List WP) where
  nodup := List.nodup_nil
  full := fun wid hlt => absurd hlt (Nat.not_lt_zero wid)
  inner := fun p hp => absurd hp (List.not_mem_nil)
  extra := fun p hp => absurd hp (List.not_mem_nil)

theorem shapeInv_postStop (w : W) : ShapeInv w.postStop := by
  unfold W.postStop
  simp only
  exact shape_empty

theorem shapeInv_handleMsg (w : W) (m : FMsg) (h : ShapeInv w) : ShapeInv (w.handleMsg m) := by
  cases m with
  | dispatch j => exact shapeInv_dispatch w j h
  | finished who key => exact shapeInv_workerFinishedJob w who key h
  | adjust n => exact shapeInv_resizePool w n h
  | updateSettings d n => exact shapeInv_updateSettings w d n h
  | setHandler hd => exact shapeInv_setHandler w hd h
  | drainRequests => exact h.of_pool rfl rfl
  | calculate =>
    show ShapeInv (if w.cfg.hasCC && w.armed then { w with armed := false, blocked := true } else w.calcRest)
    split
    · exact h.of_pool rfl rfl
    · exact shapeInv_calcRest w h
  | getQueueDepth => exact h.of_pool rfl rfl
  | getNumActiveWorkers => exact h.of_pool rfl rfl
  | getAvailableCapacity => exact h.of_pool rfl rfl

theorem isDrained_poolSize (w : W) : w.isDrained.2.poolSize = w.poolSize := by
  unfold W.isDrained
  split
  · rfl
  · rfl
  · split <;> rfl

theorem shapeInv_afterHandle (w : W) (h : ShapeInv w) : ShapeInv w.afterHandle := by
  unfold W.afterHandle
  split
  · exact h
  · have hs := isDrained_same w
    have hps := isDrained_poolSize w
    cases hd : w.isDrained with
    | mk d w2 =>
      rw [hd] at hs hps
      simp only at hs hps ⊢
      have h2 : ShapeInv w2 := h.of_pool hps hs.2.2.1
      split
      · exact h2.of_pool rfl rfl
      · exact h2

theorem shapeInv_loopStep (w w' : W) (h : ShapeInv w) (hl : w.loopStep = some w') : ShapeInv w' := by
  unfold W.loopStep at hl
  split at hl
  · simp at hl
  · split at hl
    · simp only [Option.some.injEq] at hl; subst hl; exact shapeInv_postStop w
    · split at hl
      · simp only [Option.some.injEq] at hl; subst hl
        exact shapeInv_handleSupervisorEvt _ _ (h.of_pool rfl rfl)
      · split at hl
        · simp only [Option.some.injEq] at hl; subst hl
          exact shapeInv_afterHandle _ (shapeInv_handleMsg _ _ (h.of_pool rfl rfl))
        · simp at hl

theorem shapeInv_runQ (fuel : Nat) (w : W) (h : ShapeInv w) : ShapeInv (W.runQ fuel w) := by
  induction fuel generalizing w with
  | zero => exact h
  | succ fuel ih =>
    unfold W.runQ
    cases hl : w.loopStep with
    | some w' => simp only; exact ih _ (shapeInv_loopStep w w' h hl)
    | none =>
      simp only
      have hs : ShapeInv (W.tryFinishStop { w with env := w.env.settle }) := by
        unfold W.tryFinishStop
        split
        · exact h.of_pool rfl rfl
        · exact h.of_pool rfl rfl
      split
      · exact hs
      · exact ih _ hs

theorem shapeInv_send (w : W) (m : FMsg) (h : ShapeInv w) : ShapeInv (w.send m) := by
  unfold W.send; split
  · exact h
  · exact h.of_pool rfl rfl

theorem shapeInv_advanceTo (t fuel : Nat) (w : W) (h : ShapeInv w) : ShapeInv (W.advanceTo t fuel w) := by
  induction fuel generalizing w with
  | zero => exact h.of_pool rfl rfl
  | succ fuel ih =>
    unfold W.advanceTo
    split
    · simp only
      apply ih
      apply shapeInv_runQ
      apply shapeInv_send
      exact h.of_pool rfl rfl
    · exact h.of_pool rfl rfl

theorem shapeInv_finish (w : W) (aid : Nat) (ok : Bool) (h : ShapeInv w) : ShapeInv (w.finish aid ok) := by
  unfold W.finish
  cases ha : w.env.getActor aid with
  | none => exact h
  | some a =>
    simp only
    cases hr : a.running with
    | none => exact h
    | some j =>
      simp only
      split
      · exact h
      · split
        · exact h.of_pool rfl rfl
        · have h1 : ShapeInv (W.send { w with env := (w.env.emit (.finishOk aid)).emit (.handled aid j.id) } (.finished a.wid j.key)) :=
            shapeInv_send _ _ (h.of_pool rfl rfl)
          exact h1.of_pool rfl rfl

theorem shapeInv_applyOp (w : W) (op : Op) (h : ShapeInv w) : ShapeInv (w.applyOp op) := by
  cases op with
  | dispatch id key hash ttl acc =>
    simp only [W.applyOp]
    split
    · exact h
    · exact shapeInv_send _ _ (h.of_pool rfl rfl)
  | finish aid ok => exact shapeInv_finish w aid ok h
  | kill aid => exact h.of_pool rfl rfl
  | resize n => exact shapeInv_send _ _ (h.of_pool rfl rfl)
  | settings d n =>
    simp only [W.applyOp]
    apply shapeInv_send
    cases d with
    | none => cases n with
      | none => exact h
      | some n => exact h.of_pool rfl rfl
    | some d => cases n with
      | none => exact h.of_pool rfl rfl
      | some n => exact h.of_pool rfl rfl
  | drain => exact shapeInv_send _ _ (h.of_pool rfl rfl)
  | setHandler hd => exact shapeInv_send _ _ (h.of_pool rfl rfl)
  | advance => exact h
  | block => exact h.of_pool rfl rfl
  | release n =>
    simp only [W.applyOp]
    split
    · apply shapeInv_afterHandle
      apply shapeInv_calcRest
      split
      · exact shapeInv_resizePool _ _ (h.of_pool rfl rfl)
      · exact h.of_pool rfl rfl
    · exact h
  | nop => exact h

theorem shapeInv_ask (w : W) (m : FMsg) (h : ShapeInv w) : ShapeInv (w.ask m) := by
  unfold W.ask
  split
  · exact h.of_pool rfl rfl
  · simp only
    have h1 := shapeInv_runQ RUN_FUEL _ (shapeInv_send w m h)
    split
    · exact h1.of_pool rfl rfl
    · exact h1

theorem shapeInv_queries (w : W) (h : ShapeInv w) : ShapeInv w.queries := by
  unfold W.queries
  split
  · exact h.of_pool rfl rfl
  · exact shapeInv_ask _ _ (shapeInv_ask _ _ (shapeInv_ask _ _ (h.of_pool rfl rfl)))

theorem shapeInv_stepOp (w : W) (op : Op) (t0 tq te : Nat) (h : ShapeInv w) : ShapeInv (w.stepOp op t0 tq te) := by
  unfold W.stepOp
  simp only
  generalize hw1 : W.advanceTo t0 (advanceFuel w t0) w = w1
  have h1 : ShapeInv w1 := by rw [← hw1]; exact shapeInv_advanceTo _ _ _ h
  generalize hw2 : W.runQ RUN_FUEL (w1.applyOp op) = w2
  have h2 : ShapeInv w2 := by rw [← hw2]; exact shapeInv_runQ _ _ (shapeInv_applyOp _ _ h1)
  generalize hw3 : W.advanceTo tq (advanceFuel w2 tq) w2 = w3
  have h3 : ShapeInv w3 := by rw [← hw3]; exact shapeInv_advanceTo _ _ _ h2
  generalize hw4 : w3.queries = w4
  have h4 : ShapeInv w4 := by rw [← hw4]; exact shapeInv_queries _ h3
  generalize hw5 : W.advanceTo te (advanceFuel w4 te) w4 = w5
  have h5 : ShapeInv w5 := by rw [← hw5]; exact shapeInv_advanceTo _ _ _ h4
  exact h5.of_pool rfl rfl

theorem shapeInv_runSteps (w : W) (steps : List Step) (h : ShapeInv w) : ShapeInv (w.runSteps steps) := by
  induction steps generalizing w with
  | nil => exact h
  | cons s rest ih => exact ih _ (shapeInv_stepOp w s.op s.t0 s.tq s.te h)

theorem shapeInv_init (c : CaseCfg) : ShapeInv (init c) := by
  unfold init
  simp only
  have h0 : Shape 0 ([] : List WP) := shape_empty
  have := growPool_shape
    ({ cfg := c.cfg, poolSize := 0, pool := [], byActor := [], avail := [], inQ := [], last := 0,
       rl := c.rl.map fun (r : Nat × Nat × Nat × Nat) =>
          let lc : LeakyBucket.Cfg := ⟨r.1, r.2.1, r.2.2.1, 10 ^ 40⟩
          (lc, LeakyBucket.new lc (some r.2.2.2) 0),
       queue := [], disc := c.disc, drain := .notDraining,
       handler := if c.cfg.hasHandler then some 0 else none,
       env := { actors := [], log := [], now := 0, sup := [] },
       nextAid := 0, stopSignal := false, stopped := false, inbox := [], blocked := false, armed := false,
       nextCalc := CALCULATE_FREQUENCY, answers := [], lastWq := none } : W) c.n h0
  have hs := this.1
  simp only [Nat.zero_add] at hs
  exact hs

/-- (convergence) if no slot has work, the pool is exactly the slots `0 … pool_size - 1`, one record each -/
theorem Shape.idle_exact {n : Nat} {pool : List WP} (h : Shape n pool) (hidle : ∀ p ∈ pool, p.isWorking = false) :
    (pool.map (·.wid)).Perm (List.range n) := by
  have hlt : ∀ x ∈ pool.map (·.wid), x < n := by
    intro x hx
    obtain ⟨p, hp, rfl⟩ := List.mem_map.mp hx
    by_cases hl : p.wid < n
    · exact hl
    · have := (h.extra p hp (by omega)).2
      rw [hidle p hp] at this; cases this
  apply (List.perm_ext_iff_of_nodup h.nodup List.nodup_range).mpr
  intro a
  constructor
  · intro ha; exact List.mem_range.mpr (hlt a ha)
  · intro ha
    have := h.full a (List.mem_range.mp ha)
    rwa [hasW_iff_mem] at this

end Factory

namespace Factory

theorem dropExpiredHead_poolSize (fuel : Nat) (w : W) : (W.dropExpiredHead fuel w).poolSize = w.poolSize := by
  induction fuel generalizing w with
  | zero => rfl
  | succ fuel ih =>
    unfold W.dropExpiredHead
    split
    · split
      · split
        · rw [ih]
        · rfl
      · rfl
    · rfl

theorem routeLoop_poolSize (hint : Option Nat) (fuel : Nat) (w : W) : (W.routeLoop hint fuel w).poolSize = w.poolSize := by
  induction fuel generalizing w with
  | zero => rfl
  | succ fuel ih =>
    unfold W.routeLoop
    split
    · rfl
    · rename_i j _
      have hs := chooseTargetWorker_frame w j hint
      cases hc : w.chooseTargetWorker j hint with
      | mk t w1 =>
        rw [hc] at hs
        simp only at hs ⊢
        cases t with
        | none => exact hs.poolSize
        | some worker =>
          simp only
          cases hp : qPopFront w1.cfg w1.queue with
          | none => exact hs.poolSize
          | some jq =>
            obtain ⟨j', q⟩ := jq
            simp only
            have hr := routeMessage_frame { w1 with queue := q } j' (some worker)
            cases hrm : W.routeMessage { w1 with queue := q } j' (some worker) with
            | mk r w2 =>
              rw [hrm] at hr
              have hps : w2.poolSize = w.poolSize := by rw [hr.poolSize]; exact hs.poolSize
              cases r with
              | handled => exact hps
              | rateLimited => simp only; rw [ih]; exact hps
              | backlog => exact hps

theorem tryRoute_poolSize (w : W) (hint : Option Nat) : (w.tryRouteNextActiveJob hint).poolSize = w.poolSize := by
  unfold W.tryRouteNextActiveJob
  rw [routeLoop_poolSize, dropExpiredHead_poolSize]

theorem flushAfterGrow_poolSize (fuel : Nat) (w : W) : (W.flushAfterGrow fuel w).poolSize = w.poolSize := by
  induction fuel generalizing w with
  | zero => rfl
  | succ fuel ih =>
    unfold W.flushAfterGrow
    simp only
    split
    · rfl
    · split
      · exact tryRoute_poolSize w none
      · rw [ih, tryRoute_poolSize]

/-- `resize_pool`: a request of 0 is ignored, any other sets the size (capped at the global maximum) -/
theorem resizePool_poolSize (w : W) (n : Nat) :
    (w.resizePool n).poolSize = if n = 0 then w.poolSize else min GLOBAL_WORKER_POOL_MAXIMUM n := by
  unfold W.resizePool
  split
  · rename_i h; simp at h; simp [h]
  · rename_i h
    have hn : n ≠ 0 := by simpa using h
    simp only [hn, if_false]
    split
    · rw [flushAfterGrow_poolSize]
    · rfl

end Factory
