/-!
# Association lists (the shape of a `DashMap`/`HashMap` in the models)

`get` = lookup, `set` = insert-or-replace, `erase` = remove. Keys stay unique by construction
(`set` erases first); order is irrelevant (every consumer sorts or treats the list as a set).
-/

namespace AList

variable {κ : Type} {ν : Type} [DecidableEq κ]

def get (l : List (κ × ν)) (k : κ) : Option ν := (l.find? (fun p => decide (p.1 = k))).map (·.2)

def erase (l : List (κ × ν)) (k : κ) : List (κ × ν) := l.filter (fun p => !decide (p.1 = k))

def set (l : List (κ × ν)) (k : κ) (v : ν) : List (κ × ν) := erase l k ++ [(k, v)]

def keys (l : List (κ × ν)) : List κ := l.map (·.1)

/-- push-if-absent on a list used as a set (`Vec` listeners, `HashSet`s) -/
def ins {α : Type} [DecidableEq α] (x : α) (l : List α) : List α := if x ∈ l then l else l ++ [x]

/-- remove from a list used as a set -/
def del {α : Type} [DecidableEq α] (x : α) (l : List α) : List α := l.filter (fun y => !decide (y = x))

end AList
