/-!
# Model `Registry` (C10) — the name table, the pid table and the actors that use them

Transcribed from `ractor/src/registry.rs`, `registry/pid_registry.rs`,
`actor/actor_cell.rs` (`ActorCell::new`, `new_remote`, `set_status`) and `actor.rs`
(`ActorLifecycleGuard::cleanup`). One `Op` is one *atomic* region of the real code, i.e. the
code that runs between two `verif::point`s (E-THR grants exactly such a region), so a list
of ops is an arbitrary interleaving of any number of threads. API-level calls (a whole
`Actor::spawn`, a whole exit) are sequences of these ops (`Registry.spawnNamed`, `exit`, …).

* `register a n`   `ActorCell::new(Some n)`: DashMap `entry(n)`: vacant → insert, `Ok`;
                   occupied → `AlreadyRegistered`, the cell is dropped, *nothing* changes.
                   On success the pid table entry is made in the same region.
* `create a`       `ActorCell::new(None)` (pid table only).
* `proxy a n`      `ActorCell::new_remote(n, Remote id)`: never touches either table.
* `publish a s`    `inner.set_status(s)` (`fetch_max`); the caller whose publish is the first
                   one `≥ Stopping` is elected to run the cleanup block (`pc := 1`).
* `unregPid a`     cleanup block, first statement (`unregister_pid`, local ids only).
* `unregName a`    cleanup block, second statement (`registry::unregister(name)`).
                   `legacy = true` is the behaviour before the `fix:` commit (every cell with
                   a name removes *whatever* entry is stored under that name — finding F2);
                   `legacy = false` is the repaired code (only cells with a local id do).
* `drain a`        `ActorCell::drain()` through any reference, however stale: the status word moves to
                   `Draining` only from `Starting..Draining` (`fetch_update` with the guard
                   `f != Unstarted && f < Stopping`); on an actor that is `≥ Stopping` it changes nothing.
                   (`stop()`/`kill()` only enqueue a message: no step of this model.)
* `lookup n`, `lookupPid a`, `waitRet a`   observations.

`publish a Stopped` is only enabled once `a`'s cleanup block has finished (`pc = 3`): every
caller in the code base (`ActorLifecycleGuard::cleanup`, `processing_loop`) publishes
`Stopping` first, in the same thread, and `set_status` runs the block synchronously — the
statement order that C06 pins down. This is the link "unregister precedes publish(Stopped)".
-/

namespace Registry

def draining : Nat := 4
def stopping : Nat := 5
def stopped : Nat := 6

structure Actor where
  id : Nat
  name : Option Nat
  remote : Bool
  status : Nat
  /-- 0 = cleanup not elected, 1 = elected (pid unregister pending),
      2 = name unregister pending, 3 = cleanup block finished -/
  pc : Nat
  deriving DecidableEq, Repr

structure State where
  names : List (Nat × Nat)
  pids : List Nat
  actors : List Actor
  deriving DecidableEq, Repr

def init : State := ⟨[], [], []⟩

inductive Op
  | register (a n : Nat)
  | create (a : Nat)
  | proxy (a : Nat) (n : Option Nat)
  | publish (a s : Nat)
  | unregPid (a : Nat)
  | unregName (a : Nat)
  | lookup (n : Nat)
  | lookupPid (a : Nat)
  | waitRet (a : Nat)
  | drain (a : Nat)
  deriving DecidableEq, Repr

inductive Obs
  | ok
  | dup
  | bad
  | prev (s : Nat)
  | found (r : Option (Nat × Nat))   -- actor id and the status of the returned cell
  | foundPid (r : Option Nat)
  deriving DecidableEq, Repr

def getA (s : State) (a : Nat) : Option Actor := s.actors.find? (·.id == a)

def fresh (s : State) (a : Nat) : Bool := (getA s a).isNone

def setA (s : State) (a : Nat) (f : Actor → Actor) : State :=
  { s with actors := s.actors.map (fun x => if x.id = a then f x else x) }

def whereIs (s : State) (n : Nat) : Option Nat := (s.names.find? (·.1 == n)).map (·.2)

def statusOf (s : State) (a : Nat) : Nat := ((getA s a).map (·.status)).getD 0

/-- What `unregister(name)` does: `DashMap::remove(name)`, whoever is stored there. -/
def removeName (names : List (Nat × Nat)) (n : Nat) : List (Nat × Nat) :=
  names.filter (fun p => p.1 != n)

/-- `set_status`: the caller that moves the word from `< Stopping` to `≥ Stopping` runs the
cleanup block. -/
def electPc (st : Nat) (x : Actor) : Nat := if st ≥ stopping ∧ x.status < stopping then 1 else x.pc

def step (legacy : Bool) (s : State) : Op → State × Obs
  | .register a n =>
    if !fresh s a then (s, .bad)
    else if (whereIs s n).isSome then (s, .dup)
    else ({ names := s.names ++ [(n, a)], pids := s.pids ++ [a],
            actors := s.actors ++ [⟨a, some n, false, 0, 0⟩] }, .ok)
  | .create a =>
    if !fresh s a then (s, .bad)
    else ({ s with pids := s.pids ++ [a], actors := s.actors ++ [⟨a, none, false, 0, 0⟩] }, .ok)
  | .proxy a n =>
    if !fresh s a then (s, .bad)
    else ({ s with actors := s.actors ++ [⟨a, n, true, 0, 0⟩] }, .ok)
  | .publish a st =>
    match getA s a with
    | none => (s, .bad)
    | some x =>
      if st = stopped ∧ x.pc ≠ 3 ∧ x.status < stopped then (s, .bad)   -- caller order (C06)
      else if st > stopped then (s, .bad)
      else (setA s a (fun y => { y with status := max y.status st, pc := electPc st y }), .prev x.status)
  | .unregPid a =>
    match getA s a with
    | none => (s, .bad)
    | some x =>
      if x.pc ≠ 1 then (s, .bad)
      else
        let s' := if x.remote then s else { s with pids := s.pids.filter (· != a) }
        (setA s' a (fun x => { x with pc := 2 }), .ok)
  | .unregName a =>
    match getA s a with
    | none => (s, .bad)
    | some x =>
      if x.pc ≠ 2 then (s, .bad)
      else
        let s' := match x.name with
          | some n => if legacy || !x.remote then { s with names := removeName s.names n } else s
          | none => s
        (setA s' a (fun x => { x with pc := 3 }), .ok)
  | .lookup n => (s, .found ((whereIs s n).map (fun a => (a, statusOf s a))))
  | .lookupPid a => (s, .foundPid (if s.pids.contains a then some a else none))
  | .waitRet a => (s, if statusOf s a = stopped then .ok else .bad)
  | .drain a =>
    match getA s a with
    | none => (s, .bad)
    | some x =>
      if x.status ≠ 0 ∧ x.status < stopping then (setA s a (fun y => { y with status := draining }), .ok)
      else (s, .ok)

/-- `PidLifecycleEvent`s broadcast to the `pid_registry::monitor` listeners by one atomic
region (`true` = `Spawn`, `false` = `Terminate`, with the actor): `register_pid` notifies after a
successful insert, `unregister_pid` after a successful remove; nothing else does. In particular
a registration that answers `AlreadyRegistered` — and one by a non-fresh id — emits nothing: the
rejected cell never reaches the pid table. -/
def pidEvents (s : State) : Op → List (Bool × Nat)
  | .register a n => if fresh s a && (whereIs s n).isNone then [(true, a)] else []
  | .create a => if fresh s a then [(true, a)] else []
  | .unregPid a =>
    match getA s a with
    | some x => if x.pc = 1 ∧ x.remote = false ∧ a ∈ s.pids then [(false, a)] else []
    | none => []
  | _ => []

/-- events of a whole op sequence, in order -/
def runEvents (legacy : Bool) (s : State) : List Op → List (Bool × Nat)
  | [] => []
  | op :: ops => pidEvents s op ++ runEvents legacy (step legacy s op).1 ops

def run (legacy : Bool) (s : State) : List Op → State
  | [] => s
  | op :: ops => run legacy (step legacy s op).1 ops

/-- The observations of a run, one per op. -/
def trace (legacy : Bool) (s : State) : List Op → List (Op × Obs)
  | [] => []
  | op :: ops => (op, (step legacy s op).2) :: trace legacy (step legacy s op).1 ops

/-- what anybody can do with a (possibly stale) reference to actor `a` besides spawning: `drain()`,
and the observations. (`stop()`/`kill()` are not steps of this model at all.) -/
def isStaleRefOp (a : Nat) : Op → Bool
  | .drain b => b == a
  | .lookup _ | .lookupPid _ | .waitRet _ => true
  | _ => false

/-- a successful registration of name `n` in a trace -/
def isWin (n : Nat) : Op × Obs → Bool
  | (.register _ m, .ok) => m == n
  | _ => false

/-- a registration attempt for `n` that really ran (`bad` = the id was not fresh: not an attempt) -/
def isAttempt (n : Nat) : Op × Obs → Bool
  | (.register _ m, .ok) => m == n
  | (.register _ m, .dup) => m == n
  | _ => false

def isUnreg : Op → Bool
  | .unregName _ => true
  | _ => false

/-- 1 if the name is taken, else 0 -/
def occ (s : State) (n : Nat) : Nat := if (whereIs s n).isSome then 1 else 0

/-- Excluding hypothesis of the legacy `_partial` theorem: no remote proxy is created with a name. -/
def noNamedRemoteProxy (ops : List Op) : Bool :=
  ops.all fun | .proxy _ (some _) => false | _ => true

/-! ### API-level calls as sequences of atomic regions -/

/-- The exit sequence of an actor that reached `start` (any cause). -/
def exitOps (a : Nat) : List Op :=
  [.publish a stopping, .unregPid a, .unregName a, .publish a stopped]

/-- `Actor::spawn(Some n)` whose `pre_start` succeeds (status `Running = 2` afterwards). -/
def spawnNamedOps (a n : Nat) : List Op := [.register a n, .publish a 1, .publish a 2]

/-- `Actor::spawn(Some n)` whose `pre_start` fails: the lifecycle guard cleans up. -/
def spawnFailOps (a n : Nat) : List Op := .register a n :: .publish a 1 :: exitOps a

/-- `ActorRuntime::spawn_linked_remote(n, …)`. -/
def spawnProxyOps (a : Nat) (n : Option Nat) : List Op := [.proxy a n, .publish a 1, .publish a 2]

/-! ### The property as a decidable predicate on what an observer can see

`View` is what the harness reads off the real implementation after every step: the name
table (`registered()` + `where_is`), the pid table and, for every actor that was created
successfully, its name, whether it is a remote proxy, and its status word. The theorems of
`Props/C10.lean` state `ok (view s) = true` for every reachable model state; the driver
evaluates the very same `ok` on the implementation's view. -/

structure VActor where
  id : Nat
  name : Option Nat
  remote : Bool
  status : Nat
  deriving DecidableEq, Repr

structure View where
  names : List (Nat × Nat)
  pids : Option (List Nat)       -- `none` when the build has no pid table
  actors : List VActor
  /-- pid lifecycle events a `pid_registry::monitor` listener received since the previous view
  (`none` when nobody listens); actor `999` = a cell the harness never got hold of -/
  evs : Option (List (Bool × Nat)) := none
  deriving Repr

def view (s : State) : View :=
  { names := s.names, pids := some s.pids,
    actors := s.actors.map (fun x => ⟨x.id, x.name, x.remote, x.status⟩) }

/-- no name has two entries -/
def okUnique (v : View) : Bool := v.names.Pairwise (fun p q => p.1 ≠ q.1)

/-- whoever `where_is` returns owns that name, is local, and its `wait()` has not returned
(status `Stopped` is what `wait` waits for) -/
def okHolder (v : View) : Bool :=
  v.names.all fun p => v.actors.any fun x =>
    x.id == p.2 && x.name == some p.1 && !x.remote && decide (x.status < stopped)

/-- a successfully spawned local actor that has not begun to stop is what `where_is` finds
under its name: nobody else's unregister removed its entry -/
def okVisible (v : View) : Bool :=
  v.actors.all fun x => match x.name with
    | some n => x.remote || decide (x.status ≥ stopping) || v.names.contains (n, x.id)
    | none => true

/-- at most one live (not yet stopping) local actor per name -/
def okOneLive (v : View) : Bool :=
  v.actors.Pairwise fun x y =>
    x.name = none ∨ x.name ≠ y.name ∨ x.remote ∨ y.remote ∨ x.status ≥ stopping ∨ y.status ≥ stopping

def okPids (v : View) : Bool :=
  match v.pids with
  | none => true
  | some ps =>
    ps.Pairwise (· ≠ ·) &&
    (ps.all fun a => v.actors.any fun x => x.id == a && !x.remote && decide (x.status < stopped)) &&
    (v.actors.all fun x => x.remote || decide (x.status ≥ stopping) || ps.contains x.id)

/-- every pid lifecycle event concerns a local actor that was really created -/
def okPidEvents (v : View) : Bool :=
  (v.evs.getD []).all fun e => v.actors.any fun x => x.id == e.2 && !x.remote

/-- The failing clauses (names kept short: they are the keys of `known_findings.txt`). -/
def failing (v : View) : List String :=
  (if okUnique v then [] else ["two-entries-for-one-name"]) ++
  (if okHolder v then [] else ["where-is-returns-stopped-or-foreign-actor"]) ++
  (if okVisible v then [] else ["live-actor-lost-its-name"]) ++
  (if okOneLive v then [] else ["two-live-actors-one-name"]) ++
  (if okPids v then [] else ["pid-table"]) ++
  (if okPidEvents v then [] else ["pid-event-for-a-rejected-or-remote-cell"])

def ok (v : View) : Bool :=
  okUnique v && okHolder v && okVisible v && okOneLive v && okPids v && okPidEvents v

/-- Transition clause (atomic `entry`): a registration succeeds iff the name was vacant in
the table seen just before it, and a failed one changes nothing. `before`/`after` are the
views around the step, `res` the answer. -/
def okRegister (before after : View) (a n : Nat) (res : Obs) : Bool :=
  match res with
  | .ok => !(before.names.any (·.1 == n)) && after.names.contains (n, a)
  | .dup => before.names.any (·.1 == n) && decide (after.names = before.names)
              && decide (after.actors = before.actors) && decide (after.pids = before.pids)
              && (after.evs.getD []).isEmpty        -- no `Spawn`/`Terminate` for the rejected cell
  | _ => true


end Registry
