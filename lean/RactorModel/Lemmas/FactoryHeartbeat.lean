import RactorModel.Model.FactoryHeartbeat

namespace Heartbeat

/-- the invariant of one slot -/
structure Inv (s : Slot) : Prop where
  pend : ∀ t, s.hb.sentAt = some t → s.pingQueued = true ∧ t ≤ s.now
  busy : ∀ t t0, s.hb.sentAt = some t → s.running = some t0 → t0 ≤ t
  idle : ∀ t, s.hb.sentAt = some t → s.running = none → t = s.now
  run : ∀ t0, s.running = some t0 → t0 ≤ s.now

theorem inv_init : Inv {} :=
  ⟨(by intro t h; cases h), (by intro t t0 h; cases h), (by intro t h; cases h), (by intro t h; cases h)⟩

theorem inv_settle (s : Slot) (h : Inv s) : Inv s.settle := by
  unfold Slot.settle
  split
  · exact ⟨(by intro t ht; cases ht), (by intro t t0 ht; cases ht), (by intro t ht; cases ht), h.run⟩
  · exact h

theorem settle_now (s : Slot) : s.settle.now = s.now := by unfold Slot.settle; split <;> rfl
theorem settle_running (s : Slot) : s.settle.running = s.running := by unfold Slot.settle; split <;> rfl

/-- after the worker's task has run, a heartbeat is pending only on a worker that is inside a job -/
theorem settle_idle_clear (s : Slot) (h : Inv s) (hr : s.running = none) : s.settle.hb.sentAt = none := by
  unfold Slot.settle
  cases hs : s.hb.sentAt with
  | none => split <;> simp [HB.clear, hs]
  | some t =>
    have := (h.pend t hs).1
    simp [hr, this, HB.clear]

theorem inv_advance (s : Slot) (t : Nat) (h : Inv s) : Inv (s.advance t) := by
  unfold Slot.advance
  split
  · rename_i hgt
    have hi := inv_settle s h
    have hn := settle_now s
    refine ⟨?_, hi.busy, ?_, ?_⟩
    · intro u hu
      have := hi.pend u hu
      exact ⟨this.1, by show u ≤ t; rw [hn] at this; omega⟩
    · intro u hu hr
      have hr' : s.running = none := by rw [← settle_running]; exact hr
      have := settle_idle_clear s h hr'
      rw [this] at hu; cases hu
    · intro t0 ht0
      have := hi.run t0 ht0
      show t0 ≤ t
      rw [hn] at this; omega
  · exact h

theorem advance_now_ge (s : Slot) (t : Nat) : s.now ≤ (s.advance t).now := by
  unfold Slot.advance; split
  · show s.now ≤ t; omega
  · exact Nat.le_refl _

theorem inv_step (s : Slot) (e : Ev) (h : Inv s) : Inv (s.step e) := by
  unfold Slot.step
  have ha := inv_advance s e.time h
  generalize s.advance e.time = a at ha
  cases e with
  | ping t =>
    simp only
    split
    · rename_i hp
      refine ⟨?_, ?_, ?_, ha.run⟩
      · intro u hu
        simp only [HB.sent, Option.some.injEq] at hu
        exact ⟨rfl, by show u ≤ a.now; omega⟩
      · intro u t0 hu hr
        simp only [HB.sent, Option.some.injEq] at hu
        have := ha.run t0 hr
        omega
      · intro u hu _
        simp only [HB.sent, Option.some.injEq] at hu
        exact hu.symm
    · exact ha
  | start t =>
    simp only
    cases hr : a.running with
    | some t0 => simp only; exact ha
    | none =>
      simp only
      have hc := settle_idle_clear a ha hr
      have hi := inv_settle a ha
      refine ⟨?_, ?_, ?_, ?_⟩
      · intro u hu; rw [hc] at hu; cases hu
      · intro u t0 hu; rw [hc] at hu; cases hu
      · intro u hu; rw [hc] at hu; cases hu
      · intro t0 ht0
        simp only [Option.some.injEq] at ht0
        show t0 ≤ a.settle.now
        omega
  | finish t =>
    simp only
    have hc : (({ a with running := none } : Slot).settle).hb.sentAt = none := by
      unfold Slot.settle
      cases hs : a.hb.sentAt with
      | none => split <;> simp [HB.clear, hs]
      | some u =>
        have := (ha.pend u hs).1
        simp [this, HB.clear]
    have hr : (({ a with running := none } : Slot).settle).running = none := by rw [settle_running]
    refine ⟨?_, ?_, ?_, ?_⟩
    · intro u hu; rw [hc] at hu; cases hu
    · intro u t0 hu; rw [hc] at hu; cases hu
    · intro u hu; rw [hc] at hu; cases hu
    · intro t0 ht0; rw [hr] at ht0; cases ht0
  | check t to => exact ha

theorem inv_run (s : Slot) (es : List Ev) (h : Inv s) : Inv (s.run es) := by
  induction es generalizing s with
  | nil => exact h
  | cons e es ih => exact ih _ (inv_step s e h)

/-- DEAD-MAN'S SWITCH: whatever pings, job starts, completions and earlier checks happened, in whatever order and at
whatever instants: if `IdentifyStuckWorkers` at instant `t` finds the slot stuck for `detection_timeout = timeout`, then the
worker is inside a job at that moment, that job was already running when the unanswered ping was sent, and it has been
running for longer than `timeout`. -/
theorem stuck_means_one_long_job (es : List Ev) (t timeout : Nat)
    (h : (({} : Slot).run es).stuckAt t timeout = true) :
    ∃ t0 u, ((({} : Slot).run es).advance t).running = some t0 ∧ ((({} : Slot).run es).advance t).hb.sentAt = some u ∧
      t0 ≤ u ∧ ((({} : Slot).run es).advance t).now - t0 > timeout := by
  have hi := inv_advance _ t (inv_run {} es inv_init)
  unfold Slot.stuckAt at h
  generalize (({} : Slot).run es).advance t = a at hi h
  unfold HB.isStuckAt at h
  cases hs : a.hb.sentAt with
  | none => simp [hs] at h
  | some u =>
    simp only [hs, decide_eq_true_eq] at h
    cases hr : a.running with
    | none =>
      have := hi.idle u hs hr
      omega
    | some t0 =>
      have := hi.busy u t0 hs hr
      exact ⟨t0, u, rfl, rfl, this, by omega⟩

/-- an idle worker is never declared stuck, however long ago it was pinged -/
theorem idle_never_stuck (es : List Ev) (t timeout : Nat) (hr : ((({} : Slot).run es).advance t).running = none) :
    (({} : Slot).run es).stuckAt t timeout = false := by
  cases hst : (({} : Slot).run es).stuckAt t timeout with
  | false => rfl
  | true =>
    obtain ⟨t0, _, h1, _⟩ := stuck_means_one_long_job es t timeout hst
    rw [hr] at h1; cases h1

end Heartbeat
