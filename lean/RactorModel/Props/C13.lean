import RactorModel.Lemmas.FactoryFate

/-!
# C13 — Factory: every job meets exactly one fate, never runs twice

Property theorems only. Model `Model/Factory.lean`, oracle `C13.fateOk` in
`Model/FactoryOracle.lean`, lemmas `Lemmas/FactoryFate.lean`.
-/

namespace C13
open Factory

/-! ## Each rejection carries the reason of the branch that made it, and is made once -/

/-- what a rejection appends to the history: one discard report (to the handler if one is
configured) and, if the submitter attached an acceptance port that is still unanswered, the
job handed back through it — both exactly once. -/
def rejection (hasHandler : Bool) (r : Reason) (j : Job) : List Ev :=
  Ev.discard r j.id hasHandler :: (if j.port then [Ev.reply j.id true] else [])

theorem reject_log (e : Env) (r : Reason) (j : Job) :
    ((e.discard r j).reject j).log = e.log ++ rejection e.hasHandler r j := by
  unfold Env.reject Env.discard Env.emit rejection
  split <;> simp

/-- (TTL) a job that is already expired when the factory sees it is rejected with `TtlExpired`
and nothing else happens to it: no routing, no queueing. -/
theorem dispatch_expired (w : W) (j : Job) (h : j.expired w.env.now = true) :
    (w.dispatch j).env.log = w.env.log ++ rejection w.env.hasHandler .ttlExpired j ∧
    (w.dispatch j).queue = w.queue ∧ (w.dispatch j).pool = w.pool := by
  unfold W.dispatch
  simp only [h, if_true]
  exact ⟨reject_log _ _ _, trivial, trivial⟩

/-- (shutdown) once `DrainRequests` has been handled every later job is rejected with
`Shutdown`; it never reaches a worker or a queue. -/
theorem dispatch_draining (w : W) (j : Job) (h : j.expired w.env.now = false)
    (hd : w.drain ≠ .notDraining) :
    (w.dispatch j).env.log = w.env.log ++ rejection w.env.hasHandler .shutdown j ∧
    (w.dispatch j).queue = w.queue ∧ (w.dispatch j).pool = w.pool := by
  unfold W.dispatch
  have : (w.drain == Drain.notDraining) = false := by
    cases hw : w.drain <;> simp_all
  simp only [h, this, Bool.false_eq_true, if_false]
  exact ⟨reject_log _ _ _, trivial, trivial⟩

/-! ## A worker death loses only what that incarnation held -/

/-- the jobs an actor holds: the one it is handling and those in its mailbox -/
def held (a : Actor) : List Job := (match a.running with | some j => [j] | none => []) ++ a.mailbox

/-- When actor `aid` dies exactly the jobs it held are lost (one `lost` event each), its
supervisor is told once, and no other actor changes. -/
theorem die_loses_only_held (e : Env) (a : Actor) (aid : Nat) (ha : e.getActor aid = some a)
    (halive : a.alive = true) :
    (e.die aid).log = e.log ++ (held a).map (fun j => Ev.lost aid j.id) ∧
    (e.die aid).sup = e.sup ++ [aid] ∧
    ∀ other, other ≠ aid → (e.die aid).getActor other = e.getActor other := by
  have haid : a.aid = aid := by
    have := List.find?_some ha
    simpa using this
  unfold Env.die
  simp only [ha, halive, Bool.not_true, Bool.false_eq_true, if_false]
  refine ⟨rfl, rfl, ?_⟩
  intro other hne
  have := getActor_setActor_other e { a with alive := false, running := none, mailbox := [], stopReq := false } other
    (by simp only; omega)
  simpa [Env.getActor] using this

/-- A dead actor accepts nothing: the hand-over fails and `dispatch_job` keeps the job at the
head of the worker's queue for the replacement. -/
theorem dispatchJob_to_dead_keeps_job (p : WP) (e : Env) (j : Job) (a : Actor)
    (ha : e.getActor p.actor = some a) (hdead : a.alive = false) :
    (p.dispatchJob e j).1.mq = j :: p.mq ∧ (p.dispatchJob e j).2 = e ∧ (p.dispatchJob e j).1.curr = p.curr := by
  unfold WP.dispatchJob Env.cast
  simp [ha, hdead]

end C13

#print axioms C13.reject_log
#print axioms C13.dispatch_expired
#print axioms C13.dispatch_draining
#print axioms C13.die_loses_only_held
#print axioms C13.dispatchJob_to_dead_keeps_job
