import RactorModel.Model.Pg
import RactorModel.Lemmas.AList

/-! Generic facts about `alter` / `alterMany` and the accessors of the `Pg` model. -/

namespace Pg
open AList

section alter
variable {κ ν : Type} [DecidableEq κ]

@[simp] theorem get_alter (l : List (κ × ν)) (k k' : κ) (f : Option ν → Option ν) :
    get (alter l k f) k' = if k' = k then f (get l k) else get l k' := by
  unfold alter
  cases h : f (get l k) <;> by_cases e : k' = k <;> simp [e]

theorem nodupKeys_alter {l : List (κ × ν)} (h : NodupKeys l) (k : κ) (f : Option ν → Option ν) :
    NodupKeys (alter l k f) := by
  unfold alter
  split
  · exact nodupKeys_erase h k
  · exact nodupKeys_set h k _

theorem get_alterMany (l : List (κ × ν)) (ks : List κ) (f : Option ν → Option ν)
    (hf : ∀ o, f (f o) = f o) (k' : κ) :
    get (alterMany l ks f) k' = if k' ∈ ks then f (get l k') else get l k' := by
  unfold alterMany
  induction ks generalizing l with
  | nil => simp
  | cons k ks ih =>
    simp only [List.foldl_cons, ih, get_alter, List.mem_cons]
    by_cases e : k' = k
    · subst e; simp [hf]
    · simp [e]

theorem nodupKeys_alterMany {l : List (κ × ν)} (h : NodupKeys l) (ks : List κ) (f : Option ν → Option ν) :
    NodupKeys (alterMany l ks f) := by
  unfold alterMany
  induction ks generalizing l with
  | nil => exact h
  | cons k ks ih => exact ih (nodupKeys_alter h k f)

end alter

/-! ### accessors -/

def idxOf (st : State) (s : Nat) : List Nat := (get st.index s).getD []
def relOf (st : State) (a : Nat) : Rel := (get st.rel a).getD Rel.empty
def relMem (st : State) (a : Nat) : List Key := (relOf st a).mem
def relGmon (st : State) (a : Nat) : List Key := (relOf st a).gmon
def relWmon (st : State) (a : Nat) : List Nat := (relOf st a).wmon

theorem membersOf_eq (st : State) (k : Key) :
    membersOf st k = match get st.map k with | some gs => gs.members | none => [] := by
  unfold membersOf; cases get st.map k <;> rfl

theorem listenersOf_eq (st : State) (k : Key) :
    listenersOf st k = match get st.map k with | some gs => gs.listeners | none => [] := by
  unfold listenersOf; cases get st.map k <;> rfl

theorem members_gsNorm (gs : GS) : ((gsNorm gs).map (·.members)).getD [] = gs.members := by
  unfold gsNorm
  by_cases c : gs.members = [] ∧ gs.listeners = []
  · rw [if_pos c]; exact c.1.symm
  · rw [if_neg c]; rfl

theorem listeners_gsNorm (gs : GS) : ((gsNorm gs).map (·.listeners)).getD [] = gs.listeners := by
  unfold gsNorm
  by_cases c : gs.members = [] ∧ gs.listeners = []
  · rw [if_pos c]; exact c.2.symm
  · rw [if_neg c]; rfl

theorem gsNorm_some {gs gs' : GS} (h : gsNorm gs = some gs') :
    gs' = gs ∧ (gs.members ≠ [] ∨ gs.listeners ≠ []) := by
  unfold gsNorm at h
  by_cases c : gs.members = [] ∧ gs.listeners = []
  · rw [if_pos c] at h; cases h
  · rw [if_neg c] at h
    refine ⟨(Option.some.inj h).symm, ?_⟩
    by_cases m : gs.members = []
    · right; exact fun l => c ⟨m, l⟩
    · left; exact m

/-! ### folds of `ins` -/

theorem mem_foldl_ins {α : Type} [DecidableEq α] (xs l : List α) (y : α) :
    y ∈ xs.foldl (fun m a => ins a m) l ↔ y ∈ l ∨ y ∈ xs := by
  induction xs generalizing l with
  | nil => simp
  | cons x xs ih =>
    simp only [List.foldl_cons, ih, mem_ins, List.mem_cons]
    constructor
    · rintro ((rfl | h) | h)
      · exact Or.inr (Or.inl rfl)
      · exact Or.inl h
      · exact Or.inr (Or.inr h)
    · rintro (h | rfl | h)
      · exact Or.inl (Or.inr h)
      · exact Or.inl (Or.inl rfl)
      · exact Or.inr h

theorem nodup_foldl_ins {α : Type} [DecidableEq α] (xs l : List α) (h : l.Nodup) :
    (xs.foldl (fun m a => ins a m) l).Nodup := by
  induction xs generalizing l with
  | nil => exact h
  | cons x xs ih => exact ih _ (nodup_ins h)

/-- fold of `relUpdate` with an idempotent, commuting modification -/
theorem get_foldl_relUpdate (xs : List Nat) (rel : List (Nat × Rel)) (f : Rel → Rel)
    (hf : ∀ r, f (f r) = f r) (b : Nat) :
    get (xs.foldl (fun r a => relUpdate r a f) rel) b =
      if b ∈ xs then some (f ((get rel b).getD Rel.empty)) else get rel b := by
  induction xs generalizing rel with
  | nil => simp
  | cons x xs ih =>
    rw [List.foldl_cons, ih]
    simp only [relUpdate, get_alter, List.mem_cons]
    by_cases e : b = x
    · subst e; simp [hf]
    · simp [e]

theorem nodupKeys_foldl_relUpdate (xs : List Nat) (rel : List (Nat × Rel)) (f : Rel → Rel)
    (h : NodupKeys rel) : NodupKeys (xs.foldl (fun r a => relUpdate r a f) rel) := by
  induction xs generalizing rel with
  | nil => exact h
  | cons x xs ih => exact ih _ (nodupKeys_alter h _ _)

/-- fold of a `map`-style alteration (leave: drop a membership from every listed actor) -/
theorem get_foldl_alter_map (xs : List Nat) (rel : List (Nat × Rel)) (f : Rel → Rel)
    (hf : ∀ r, f (f r) = f r) (b : Nat) :
    get (xs.foldl (fun r a => alter r a (fun o => o.map f)) rel) b =
      if b ∈ xs then (get rel b).map f else get rel b := by
  induction xs generalizing rel with
  | nil => simp
  | cons x xs ih =>
    simp only [List.foldl_cons, ih, get_alter, List.mem_cons]
    by_cases e : b = x
    · subst e
      cases get rel b <;> simp [hf]
    · simp [e]

theorem nodupKeys_foldl_alter (xs : List Nat) (rel : List (Nat × Rel)) (F : Nat → Option Rel → Option Rel)
    (h : NodupKeys rel) : NodupKeys (xs.foldl (fun r a => alter r a (F a)) rel) := by
  induction xs generalizing rel with
  | nil => exact h
  | cons x xs ih => exact ih _ (nodupKeys_alter h _ _)

end Pg
