import RactorModel.Extracted
import RactorModel.Lemmas.LifeC01
import RactorModel.Lemmas.LifeC01Spec
import RactorModel.Lemmas.LifeWorld
import RactorModel.Lemmas.LifeGrace

/-!
# C01 — One handler at a time, in lifecycle order

`Life.C01.ok tr` (defined in `Model/Life.lean`) is acceptance of one actor's observable trace by
the lifecycle automaton `Life.C01.next`:

* `enter pre_start` first and once; `enter post_start` only after `exit pre_start ok`;
  `enter handle|sup` only after `exit post_start ok`;
* no `enter` while another callback is open (non-overlap); `tick`/`exit`/`cancelled` only of the
  callback that is open;
* `enter post_stop` at most once, with no callback open, only after a stop message was accepted or
  a drain marker enqueued (graceful), never after an accepted kill, never after a callback
  returned `Err`, panicked or was cancelled (the automaton is `dead` then and accepts no `enter`).

The run-time oracle of `bin/check C01` evaluates this very predicate on the traces observed from
the real code.
-/

namespace C01
open Life

/-- **C01, all schedules.** For every actor id and every sequence of operations — API calls by
any number of senders / stoppers / killers / drainers, polls of the spawn future and of the actor
task, segments supplied to the open callback (ticking, sending to self, stopping or killing self,
returning `Ok`/`Err`, panicking), aborts and dropped spawn futures at any await point, supervision
events arriving, the supervisor terminating — the trace of the model is accepted by the lifecycle
automaton. -/
theorem lifecycle (id : Nat) (ops : List AOp) : Life.C01.ok (trace id ops) = true := by
  obtain ⟨s', h, _⟩ := Life.C01.run_sim ops (Actor.init id) {} (Life.C01.inv_init id)
  simp [Life.C01.ok, trace, h, Except.isOk, Except.toBool]

/-- **The same for the composed world** (what the driver replays): in every run of `World.step`
from the empty world (one harness case: any number of actors, supervision links, effects routed
between them), the trace projection of every actor `i` satisfies the property — because the world
changes actors only through `Actor.step` (`Life.world_actor_run`). -/
theorem lifecycle_world (ops : List Op) (h : ∀ op ∈ ops, op ≠ .case) (i : Nat) :
    Life.C01.ok (projEvs i (({} : World).run ops).2) = true := by
  obtain ⟨aops, e⟩ := world_actor_run ops h i
  have := lifecycle i aops
  simp only [trace, e] at this
  exact this

/-- The invariant behind it, for every reachable state: unless the actor is done, the automaton's
stage is the one of the actor's phase (so the callback whose future exists is exactly the one the
automaton considers open), an accepted kill is still pending in the signal port, and a pending
stop message / drain marker has been announced. -/
theorem invariant (id : Nat) (ops : List AOp) :
    ∃ s, accepts Life.C01.next {} (trace id ops) = .ok s ∧ Life.C01.Inv ((Actor.init id).run ops).1 s :=
  Life.C01.run_sim ops (Actor.init id) {} (Life.C01.inv_init id)

/-- Non-overlap, read off the automaton: an accepted trace never has an `enter` directly or
later while a callback is open — stated for the immediate case (any two consecutive `enter`s are
rejected, whatever happened before). -/
theorem no_overlap (s : Life.C01.St) (cb1 cb2 : Cb) (a1 a2 : Arg) (rest : List Ev) :
    (accepts Life.C01.next s (.enter cb1 a1 :: .enter cb2 a2 :: rest)).isOk = false := by
  rw [accepts_cons]
  cases h1 : Life.C01.next s (.enter cb1 a1) with
  | error c => rfl
  | ok s1 =>
    simp only []
    rw [accepts_cons, Life.C01.next_enter_of_isOpen s1 cb2 a2 (Life.C01.next_enter_isOpen h1)]
    rfl

/-! ### What acceptance means, in the vocabulary of the trace alone (spec validation, round 4)

`Life.C01.openAfter p` is the callback whose future exists after the trace `p`, computed by scanning
`p` (an `enter` opens, `exit`/`cancelled` close, the end of the task closes); `isFatal` are the events
after which `post_stop` must never run; `entered cb tr` counts the `enter cb` events. None of them
mentions the automaton. -/

/-- Non-overlap, general form: in an accepted trace every `enter` happens while no callback is open —
between two `enter`s there is an `exit` or `cancelled` (or the end of the task). -/
theorem enter_only_when_closed (tr p r : List Ev) (cb : Cb) (a : Arg) (h : Life.C01.ok tr = true)
    (e : tr = p ++ .enter cb a :: r) : Life.C01.openAfter p = none := by
  obtain ⟨s, hs⟩ := Life.C01.ok_iff.mp h
  subst e
  obtain ⟨s1, h1, h2⟩ := Life.C01.accepts_append_inv _ p _ hs
  rw [accepts_cons] at h2
  cases hn : Life.C01.next s1 (.enter cb a) with
  | error c => simp [hn] at h2
  | ok s2 =>
    have hopen := Life.C01.accepts_open (o := none) h1 rfl
    cases ho : s1.stage.isOpen with
    | true => rw [Life.C01.next_enter_of_isOpen s1 cb a ho] at hn; cases hn
    | false =>
      rw [ho] at hopen
      unfold Life.C01.openAfter
      cases hx : Life.C01.openFrom none p with
      | none => rfl
      | some c => rw [hx] at hopen; cases hopen

/-- `post_stop` only on a graceful exit: before an accepted `enter post_stop` no callback returned
`Err` or panicked, none was cancelled, no kill (API, self or tree) was accepted, the task did not
end — and a stop was accepted or a drain marker enqueued. -/
theorem post_stop_only_graceful (tr p r : List Ev) (a : Arg) (h : Life.C01.ok tr = true)
    (e : tr = p ++ .enter .postStop a :: r) :
    (∀ x ∈ p, Life.C01.isFatal x = false) ∧ (∃ x ∈ p, Life.C01.isStopReq x = true) := by
  obtain ⟨s, hs⟩ := Life.C01.ok_iff.mp h
  subst e
  obtain ⟨s1, h1, h2⟩ := Life.C01.accepts_append_inv _ p _ hs
  rw [accepts_cons] at h2
  cases hn : Life.C01.next s1 (.enter .postStop a) with
  | error c => simp [hn] at h2
  | ok s2 =>
    obtain ⟨hnd, hreq⟩ := Life.C01.next_enter_postStop hn
    constructor
    · intro x hx
      cases hf : Life.C01.isFatal x with
      | false => rfl
      | true => exact absurd (Life.C01.accepts_doomed h1 (Or.inr ⟨x, hx, hf⟩)) hnd
    · rcases Life.C01.accepts_stopReq h1 hreq with h0 | h0
      · cases h0
      · exact h0

/-- Exactly once, positive form: in an accepted trace `pre_start` is entered at most once and
`post_start` at most as often as `pre_start`; and whenever a message handler, a supervision handler
or `post_stop` is entered, **exactly one** `pre_start` and **exactly one** `post_start` were entered
before it. -/
theorem start_callbacks_exactly_once (tr : List Ev) (h : Life.C01.ok tr = true) :
    Life.C01.entered .preStart tr ≤ 1 ∧ Life.C01.entered .postStart tr ≤ Life.C01.entered .preStart tr ∧
    ∀ p r cb a, tr = p ++ .enter cb a :: r → (cb = .handle ∨ cb = .sup ∨ cb = .postStop) →
      Life.C01.entered .preStart p = 1 ∧ Life.C01.entered .postStart p = 1 := by
  obtain ⟨s, hs⟩ := Life.C01.ok_iff.mp h
  have hall := Life.C01.accepts_cnt (n1 := 0) (n2 := 0) hs (by simp [Life.C01.cntOk])
  simp only [Nat.zero_add] at hall
  refine ⟨?_, ?_, ?_⟩
  · cases hst : s.stage <;> simp_all [Life.C01.cntOk]
  · cases hst : s.stage <;> simp_all [Life.C01.cntOk]
  · intro p r cb a e hcb
    subst e
    obtain ⟨s1, h1, h2⟩ := Life.C01.accepts_append_inv _ p _ hs
    rw [accepts_cons] at h2
    cases hn : Life.C01.next s1 (.enter cb a) with
    | error c => simp [hn] at h2
    | ok s2 =>
      have hrun := Life.C01.next_enter_late hn hcb
      have hp := Life.C01.accepts_cnt (n1 := 0) (n2 := 0) h1 (by simp [Life.C01.cntOk])
      simp only [Nat.zero_add, hrun, Life.C01.cntOk] at hp
      exact hp

/-- No callback after the task ended: nothing is entered after a `join` (the loop task is over,
normally or aborted) in an accepted trace. -/
theorem nothing_after_task_end (tr p r : List Ev) (j : JoinRes) (h : Life.C01.ok tr = true)
    (e : tr = p ++ .join j :: r) : ∀ cb a, Ev.enter cb a ∉ r := by
  obtain ⟨s, hs⟩ := Life.C01.ok_iff.mp h
  subst e
  obtain ⟨s1, _, h2⟩ := Life.C01.accepts_append_inv _ p _ hs
  rw [accepts_cons] at h2
  exact Life.C01.accepts_dead (s := { s1 with stage := .dead }) h2 rfl

/-- Liveness at a step ("exactly once" needs the callback to be entered at all): a `spawn` on a free
slot whose name is free (and, for a thread-local actor, whose supervisor accepts the link) enters
`pre_start` in that very step. -/
theorem spawn_enters_pre_start (a : Actor) (sup : Option Nat) (name : Option String) (nameFree isLocal supOk : Bool)
    (hph : a.phase = .fresh) (hn : (name.isSome && !nameFree) = false)
    (hl : isLocal = true → sup.isSome = true → supOk = true) :
    Ev.enter .preStart .none ∈ evs (opSpawn a sup name nameFree isLocal supOk).2 ∧
    (opSpawn a sup name nameFree isLocal supOk).1.phase = .pre := by
  unfold opSpawn
  simp only [hph, hn]
  cases isLocal with
  | false => simp
  | true =>
    cases sup with
    | none => simp
    | some p => simp [hl rfl rfl]

/-- The first poll of the loop task enters `post_start` (unless a kill is pending), and an instant
start task's first poll enters `pre_start` (unless a kill is pending or the link is refused). -/
theorem ready_poll_enters_post_start (a : Actor) (hph : a.phase = .ready) (hs : a.sigVal = false) :
    evs (opPoll a).2 = [.enter .postStart .none] ∧ (opPoll a).1.phase = .postStart := by
  unfold opPoll
  simp [hph, hs]

theorem instant_first_poll_enters_pre_start (a : Actor) (supOk : Bool) (hph : a.phase = .cell)
    (hst : a.status = .unstarted)
    (hs : a.sigVal = false) (hl : a.isLocal = true → a.wantSup.isSome = true → supOk = true) :
    Ev.enter .preStart .none ∈ evs (opPollSpawn a supOk).2 ∧ (opPollSpawn a supOk).1.phase = .pre := by
  unfold opPollSpawn startInstant
  simp only [hph, hst, ne_eq, not_true_eq_false, ↓reduceIte]
  cases hloc : a.isLocal with
  | false => simp [beginPre, hs]
  | true =>
    cases hw : a.wantSup with
    | none => simp [beginPre, hs]
    | some p =>
      have : supOk = true := hl hloc (by simp [hw])
      simp [beginPre, hs, this, doLink]

/-! ### E-SRC obligations -/

/- (removed in round 5) `src_thread_local_twins` demanded that `processing_loop`, `process_message`, `handle_signal`,
`do_post_start`, `do_post_stop` of `thread_local/inner.rs` be token-identical to their `actor.rs` twins. That is more
than C01 states: a behaviour-preserving edit of ONE twin (a merged or-pattern arm, a reworded trace line — benign edits
A-3 and A-10) broke it. The thread-local runtime is tied to the model by its own engine runs (`e-lts-thread-local`,
`e-lts-adapter`), which execute the real thread-local loop op by op against the same model; `Extracted.threadLocalTwins`
is still generated for information. -/

theorem src_status : Extracted.statusDiscriminants = Life.statusTable := by decide

/-! ### Non-vacuity and rejection examples -/

/-- A full graceful life: spawn, pre_start ok, post_start ok, one message, stop, post_stop. -/
def demoOps : List AOp :=
  [.spawn none none true false true, .resume ⟨[], .ok⟩, .pollSpawn true, .poll, .resume ⟨[.sendSelf 7], .ok⟩, .poll,
   .resume ⟨[], .tick⟩, .poll, .stop none, .resume ⟨[], .ok⟩, .poll, .resume ⟨[], .ok⟩, .poll]

example : traceNoSnap 0 demoOps =
    [.enter .preStart .none, .tick .preStart, .exit .preStart .ok, .spawnRet .ok,
     .enter .postStart .none, .tick .postStart, .sendRet true 7 true, .exit .postStart .ok,
     .enter .handle (.msg 7), .tick .handle, .stopRet false .none true, .tick .handle, .exit .handle .ok,
     .enter .postStop .none, .tick .postStop, .exit .postStop .ok, .join .ok] := by decide

/-- A kill while a handler is suspended cancels it; no `post_stop`. -/
example : traceNoSnap 0 [.spawn none none true false true, .resume ⟨[], .ok⟩, .pollSpawn true, .poll, .resume ⟨[], .ok⟩,
      .send 1, .poll, .kill, .poll] =
    [.enter .preStart .none, .tick .preStart, .exit .preStart .ok, .spawnRet .ok,
     .enter .postStart .none, .sendRet false 1 true, .tick .postStart, .exit .postStart .ok,
     .enter .handle (.msg 1), .killRet false true, .cancelled .handle, .join .ok] := by decide

/-- The automaton is not trivially accepting: each of these is rejected. -/
example : Life.C01.ok [.enter .postStart .none] = false := by decide
example : Life.C01.ok [.enter .preStart .none, .enter .handle (.msg 1)] = false := by decide
example : Life.C01.ok [.enter .preStart .none, .exit .preStart (.err 1), .enter .postStart .none] = false := by decide
example : Life.C01.ok [.enter .preStart .none, .exit .preStart .ok, .enter .postStart .none,
    .exit .postStart .ok, .enter .postStop .none] = false := by decide  -- not graceful
example : Life.C01.ok [.enter .preStart .none, .exit .preStart .ok, .enter .postStart .none,
    .exit .postStart .ok, .stopRet false .none true, .killRet false true, .enter .postStop .none] = false := by decide
example : Life.C01.ok [.enter .preStart .none, .exit .preStart .ok, .enter .postStart .none,
    .exit .postStart .ok, .stopRet false .none true, .enter .handle (.msg 1), .exit .handle (.panic 3),
    .enter .postStop .none] = false := by decide

-- the holes the round-4 audit found (all accepted before): a callback after the task ended, after an
-- abort, after a tree kill
example : Life.C01.ok [.enter .preStart .none, .exit .preStart .ok, .spawnRet .ok, .enter .postStart .none,
    .exit .postStart .ok, .stopRet false .none true, .aborted, .join .cancelled, .enter .postStop .none] = false := by decide
example : Life.C01.ok [.enter .preStart .none, .exit .preStart .ok, .spawnRet .ok, .enter .postStart .none,
    .exit .postStart .ok, .aborted, .join .cancelled, .enter .handle (.msg 1)] = false := by decide
example : Life.C01.ok [.enter .preStart .none, .exit .preStart .ok, .spawnRet .ok, .enter .postStart .none,
    .exit .postStart .ok, .stopRet false .none true, .treeKill, .enter .postStop .none] = false := by decide
example : Life.C01.ok [.enter .preStart .none, .dropped, .cancelled .preStart, .enter .preStart .none] = false := by decide

/-! ### The graceful path goes through `post_stop`, once (wave 2) -/

open Life.Liveness in
/-- **`post_stop` is entered at most once.** In an accepted trace nothing after an `enter post_stop` is another one. -/
theorem post_stop_at_most_once (tr p q : List Ev) (e : Ev) (h : Life.C01.ok tr = true)
    (hs : tr = p ++ e :: q) (he : isEnterPS e = true) : ∀ x ∈ q, isEnterPS x = false := by
  obtain ⟨s, hacc⟩ := Life.C01.ok_iff.mp h
  subst hs
  obtain ⟨s1, _, h2⟩ := Life.C01.accepts_append_inv _ p _ hacc
  rw [accepts_cons] at h2
  cases hn : Life.C01.next s1 e with
  | error c => simp [hn] at h2
  | ok s2 =>
    simp only [hn] at h2
    exact accepts_late h2 (Or.inl ((next_late hn).1 he))

open Life.Liveness in
/-- **… and at least once on the graceful path.** An actor that is neither done nor inside `post_stop` and has no
kill in its signal port: along EVERY run that ends with the actor done (`Stopped`, by `C03.reachable`), the run's
trace contains `enter post_stop`, or evidence that something else ended the actor — an accepted kill (`kill()`,
`myself.kill()`, `terminate()`), a callback that returned `Err` / panicked / was cancelled, an aborted task, a
dropped or failed start (`isInterv`). Together with `post_stop_at_most_once`, `C03.stop_reaches_stopped` and
`C03.drain_reaches_stopped`: after an accepted stop / an enqueued drain marker the actor reaches `Stopped` with
`post_stop` entered exactly once in between unless a kill or failure intervenes. -/
theorem graceful_exit_passes_post_stop (a : Actor) (ops : List AOp) (hnd : a.phase ≠ .done)
    (hnp : ∀ r, a.phase ≠ .postStop r) (hs : a.sigVal = false) (hfin : (a.run ops).1.phase = .done) :
    (∃ e ∈ (a.run ops).2, isEnterPS e = true) ∨ (∃ e ∈ (a.run ops).2, isInterv e = true) := by
  rcases grace_run ops a hnd hnp hfin with h | h
  · rw [hs] at h; cases h
  · exact h

-- graceful stop: exactly one `enter post_stop`, no intervention in the trace
example : ((traceNoSnap 0 [.spawn none none true false true, .resume ⟨[], .ok⟩, .pollSpawn true, .poll,
    .resume ⟨[], .ok⟩, .stop none, .poll, .resume ⟨[], .ok⟩, .poll]).filter Life.Liveness.isEnterPS).length = 1 := by decide
example : ((traceNoSnap 0 [.spawn none none true false true, .resume ⟨[], .ok⟩, .pollSpawn true, .poll,
    .resume ⟨[], .ok⟩, .stop none, .poll, .resume ⟨[], .ok⟩, .poll]).filter Life.Liveness.isInterv).length = 0 := by decide
-- a handler failure intervenes: no `post_stop`, the evidence is in the trace
example : ((traceNoSnap 0 [.spawn none none true false true, .resume ⟨[], .ok⟩, .pollSpawn true, .poll,
    .resume ⟨[], .ok⟩, .send 1, .poll, .stop none, .resume ⟨[], .err 3⟩, .poll]).filter Life.Liveness.isEnterPS).length = 0 := by
  decide
example : ((traceNoSnap 0 [.spawn none none true false true, .resume ⟨[], .ok⟩, .pollSpawn true, .poll,
    .resume ⟨[], .ok⟩, .send 1, .poll, .stop none, .resume ⟨[], .err 3⟩, .poll]).filter Life.Liveness.isInterv)
    = [.exit .handle (.err 3)] := by decide

end C01

#print axioms C01.lifecycle
#print axioms C01.lifecycle_world
#print axioms C01.invariant
#print axioms C01.no_overlap
#print axioms C01.enter_only_when_closed
#print axioms C01.post_stop_only_graceful
#print axioms C01.start_callbacks_exactly_once
#print axioms C01.nothing_after_task_end
#print axioms C01.spawn_enters_pre_start
#print axioms C01.ready_poll_enters_post_start
#print axioms C01.instant_first_poll_enters_pre_start
#print axioms C01.src_status
#print axioms C01.post_stop_at_most_once
#print axioms C01.graceful_exit_passes_post_stop
