import RactorModel.Model.PgConc

/-!
# Readers as threads of `Pg.Conc` (wave 2)

The six public queries of `pg.rs` run as threads next to the writers of `Pg.Conc`, lock region by lock
region:

* `get_members` / `get_local_members`: ONE region — `map.get(key)` under the read lock of the key's shard
  (blocked while a `join_scoped` holds that group entry);
* `which_scoped_groups`: ONE region — `index.get(scope)`;
* `which_groups` / `which_scopes` / `which_scopes_and_groups`: `map.iter()` — the DashMap is visited SHARD BY
  SHARD, each shard under its own read lock: shard `j` = the keys `k` with `sh k % nSh = j` for an ARBITRARY
  shard function `sh` and shard count `nSh` (parameters of `rstep`; every theorem is for all of them), shards
  `0 … nSh-1` in order, one region per shard (all entries of that shard present at that instant; a shard with a
  held entry blocks), writers run between two shards; after the last shard the call returns
  (`sort`/`dedup` of the result are not modelled: answers are compared as sets).

A reader never writes. Ghosts: `RG.hist` = the writers' regions granted so far (the instant of a region =
its length), `vis` = which key was read at which instant.
-/

namespace Pg.Conc
open AList Pg Pg.Fine

inductive Query
  | getMembers (s g : Nat)
  | getLocalMembers (s g : Nat)
  | whichScopedGroups (s : Nat)
  | whichGroups
  | whichScopes
  | whichScopesAndGroups
  deriving DecidableEq, Repr

def isIter : Query → Bool
  | .whichGroups | .whichScopes | .whichScopesAndGroups => true
  | _ => false

/-- the answer of a one-region query read off one state -/
def singleAns (st : State) : Query → List Nat
  | .getMembers s g => getMembers st s g
  | .getLocalMembers s g => getLocalMembers st s g
  | .whichScopedGroups s => whichScopedGroups st s
  | _ => []

/-- `map.get(key)` waits while a `join_scoped` holds that entry -/
def singleBlocked (g : G) : Query → Bool
  | .getMembers s g' => locked g (s, g')
  | .getLocalMembers s g' => locked g (s, g')
  | _ => false

/-- what the one region of a one-region query reads (ghost label) -/
def qKey : Query → Key
  | .getMembers s g => (s, g)
  | .getLocalMembers s g => (s, g)
  | .whichScopedGroups s => (s, 0)
  | _ => (0, 0)

/-- what an iterating query makes of the non-empty keys it collected -/
def iterProj : Query → List Key → List Nat
  | .whichGroups, acc => acc.map (·.2)
  | .whichScopes, acc => acc.map (·.1)
  | _, _ => []

/-- program counter of a reader thread -/
inductive RPc
  | call (q : Query)
  /-- inside `map.iter()`: `next` = the shard to visit next; ghosts: `first` = instant of the call's first region,
  `vis` = keys visited so far with the instant of their shard's region; `acc` = the keys found with members -/
  | iter (q : Query) (next first : Nat) (vis : List (Key × Nat)) (acc : List Key)
  /-- returned: `ans` (for `which_scopes_and_groups` the answer is `acc`); ghosts: instants of the first and
  the last region -/
  | ret (q : Query) (ans : List Nat) (acc : List Key) (vis : List (Key × Nat)) (first last : Nat)
  deriving DecidableEq, Repr

/-- the entries of shard `j` present in the forward map -/
def shardKeys (sh : Key → Nat) (nSh : Nat) (st : State) (j : Nat) : List Key :=
  (keys st.map).filter (fun k => sh k % nSh == j)

/-- one region of a reader at instant `now` -/
def readerStep (sh : Key → Nat) (nSh : Nat) (g : G) (now : Nat) : RPc → RPc
  | .call q =>
    if isIter q then .iter q 0 now [] []         -- `map.iter()` created: no lock yet
    else if singleBlocked g q then .call q
    else .ret q (singleAns g.st q) [] [(qKey q, now)] now now
  | .iter q next first vis acc =>
    if nSh ≤ next then .ret q (iterProj q acc) acc vis first now
    else
      let ks := shardKeys sh nSh g.st next
      if ks.any (locked g) then .iter q next first vis acc
      else .iter q (next + 1) first (vis ++ ks.map (fun k => (k, now)))
             (acc ++ ks.filter (fun k => !(membersOf g.st k).isEmpty))
  | .ret q a c v f l => .ret q a c v f l

structure RG where
  g : G
  rd : List RPc
  /-- ghost: the writers' regions granted so far -/
  hist : List Tid
  deriving Repr

inductive RTid
  | w (t : Tid)
  | r (i : Nat)
  deriving DecidableEq, Repr

def rstep (sh : Key → Nat) (nSh : Nat) (rg : RG) : RTid → RG
  | .w t => { rg with g := step rg.g t, hist := rg.hist ++ [t] }
  | .r i =>
    match rg.rd[i]? with
    | none => rg
    | some pc => { rg with rd := rg.rd.set i (readerStep sh nSh rg.g rg.hist.length pc) }

def rrun (sh : Key → Nat) (nSh : Nat) (rg : RG) (sched : List RTid) : RG := sched.foldl (rstep sh nSh) rg

def rstart (g : G) (qs : List Query) : RG := ⟨g, qs.map .call, []⟩

/-- the writers' state at the instant after `n` of the regions `hist` -/
def stAtH (g0 : G) (hist : List Tid) (n : Nat) : State := (run g0 (hist.take n)).st

end Pg.Conc
