-- Root of the `RactorModel` library: every model, lemma and property module.
import RactorModel.Extracted
import RactorModel.Props.C18
import RactorModel.Props.C01
import RactorModel.Props.C03
import RactorModel.Props.C04
import RactorModel.Props.C10
import RactorModel.Props.C09
import RactorModel.Props.C08
import RactorModel.Props.C16
import RactorModel.Props.C20
