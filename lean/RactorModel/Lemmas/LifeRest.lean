import RactorModel.Lemmas.LifeLive
import RactorModel.Lemmas.LifeCell

/-! The status word of a live actor (wave 2, for the bridge to `TreeConc.Rest`): a reachable actor whose
status is `>= Stopping` is either done (`Stopped`, guard disarmed) or inside `post_stop` — `Stopping` is
published only by `enterPostStop` or on a path that finishes `cleanup` within the same poll. -/

namespace Life.Liveness
open Life

/-- status below `Stopping` -/
def lt5 (a : Actor) : Prop := a.status.rank < Status.stopping.rank

/-- outside `post_stop` and before the end the status is below `Stopping` -/
def SI (a : Actor) : Prop := (∀ r, a.phase ≠ .postStop r) → a.phase ≠ .done → lt5 a

/-- the shape every step result has, given `lt5` before -/
def SIres (x : Actor) : Prop := (∃ r, x.phase = .postStop r) ∨ x.phase = .done ∨ lt5 x

theorem SIres.si {x : Actor} (h : SIres x) : SI x := by
  intro h1 h2
  rcases h with ⟨r, hr⟩ | hd | hl
  · exact absurd hr (h1 r)
  · exact absurd hd h2
  · exact hl

theorem dead_SIres {x : Actor} (h : Dead x) : SIres x := Or.inr (Or.inl h.1)

theorem runFx_status (a : Actor) (f : Fx) : (runFx a f).1.status = a.status := by
  cases f <;> simp only [runFx, apiSend, apiStop, apiKill]
  all_goals (repeat' split) <;> rfl

theorem runFxs_status (fs : List Fx) (a : Actor) : (runFxs a fs).1.status = a.status := by
  induction fs generalizing a with
  | nil => rfl
  | cons f fs ih =>
    simp only [runFxs, andThen_fst]
    rw [ih, runFx_status]

theorem listen_SIres (a : Actor) (h : lt5 a) : SIres (listen a).1 := by
  unfold listen
  split
  · exact Or.inr (Or.inl (killedInLoop_phase _))
  · simp only [enterPostStop]
    split
    · exact Or.inl ⟨_, rfl⟩
    · split
      · exact Or.inr (Or.inr h)
      · split
        · exact Or.inr (Or.inr h)
        · exact Or.inr (Or.inr h)
        · exact Or.inl ⟨_, rfl⟩
        · exact Or.inr (Or.inr h)

theorem max_running_lt5 (s : Status) (h : s.rank < Status.stopping.rank) :
    (s.max .running).rank < Status.stopping.rank := by
  cases s <;> simp_all [Status.max, Status.rank]

theorem afterExit_SIres (a : Actor) (r : Res) (h : lt5 a) : SIres (afterExit a r).1 := by
  unfold afterExit
  split
  · simp only [andThen_fst]
    apply listen_SIres
    unfold lt5 at h ⊢
    simp only [Actor.setStatus]
    exact max_running_lt5 _ h
  · exact listen_SIres a h
  · exact listen_SIres a h
  all_goals exact Or.inr (Or.inl (finish_phase _ _))

theorem failSpawn_phase (a : Actor) (r : SpawnRet) : (failSpawn a r).1.phase = .done := by
  simp [failSpawn, Actor.dropPorts]

theorem afterPre_SIres (a : Actor) (supOk : Bool) (r : Res) (h : lt5 a) : SIres (afterPre a supOk r).1 := by
  unfold afterPre
  split
  · exact Or.inr (Or.inl (failSpawn_phase _ _))
  · exact Or.inr (Or.inl (failSpawn_phase _ _))
  · split
    · split
      · exact Or.inr (Or.inl (failSpawn_phase _ _))
      · exact Or.inr (Or.inr h)
    · exact Or.inr (Or.inr h)

theorem runSeg_SIres (a : Actor) (cb : Cb) (s : Seg) (k : Actor → Res → M) (h : lt5 a)
    (hk : ∀ b r, lt5 b → SIres (k b r).1) : SIres (runSeg a cb s k).1 := by
  rw [runSeg_fst]
  have hb : lt5 (runFxs a s.fx).1 := by unfold lt5; rw [runFxs_status]; exact h
  split
  · exact Or.inr (Or.inr hb)
  · exact hk _ _ hb

theorem beginPre_SIres (b : Actor) (h : lt5 b) : SIres (beginPre b).1 := by
  unfold beginPre
  split
  · simp only [handleSignal, andThen_fst]
    exact Or.inr (Or.inl (failSpawn_phase _ _))
  · exact Or.inr (Or.inr h)

theorem startInstant_SIres (a : Actor) (supOk : Bool) : SIres (startInstant a supOk).1 := by
  have hl : ∀ b : Actor, b.status = .starting → lt5 b := by
    intro b hb; simp [lt5, hb, Status.rank]
  unfold startInstant
  split
  · exact Or.inr (Or.inl (failSpawn_phase _ _))
  · simp only []
    split
    · split
      · split
        · exact Or.inr (Or.inl (failSpawn_phase _ _))
        · simp only [andThen_fst, doLink_fst]
          exact beginPre_SIres _ (hl _ rfl)
      · exact beginPre_SIres _ (hl _ rfl)
    · exact beginPre_SIres _ (hl _ rfl)

theorem pollOpen_SIres (a : Actor) (cb : Cb) (h : lt5 a) : SIres (pollOpen a cb).1 := by
  unfold pollOpen
  simp only []
  split
  · simp only [say, andThen_fst]
    split <;> first
      | exact Or.inr (Or.inl (killedInLoop_phase _))
      | exact Or.inr (Or.inl (killedOutsideLoop_phase _))
  · split
    · exact Or.inr (Or.inr h)
    · exact runSeg_SIres _ cb _ afterExit h (fun b r hb => afterExit_SIres b r hb)

theorem envOp_lt5 (a : Actor) (op : AOp) (h : lt5 a) : lt5 (a.envOp op).1 := by
  unfold lt5 at h ⊢
  cases op <;> simp only [Actor.envOp, apiSend, apiStop, apiKill, apiDrain, apiCall, opSupArrive, opTreeTaken,
    opLink, opUnlink, doLink]
  all_goals (repeat' split)
  all_goals simp_all [Status.rank]

/-- the step from a state outside `post_stop`, not done, with status below `Stopping` -/
theorem lt5_step (a : Actor) (op : AOp) (h : lt5 a) (hn : ∀ r, a.phase ≠ .postStop r) :
    SIres (a.stepCore op).1 := by
  cases op with
  | spawn sup name nameFree isLocal supOk =>
    simp only [Actor.stepCore, opSpawn]
    (repeat' split) <;> first
      | exact Or.inr (Or.inr h)
      | exact Or.inr (Or.inr (by simp [lt5, Status.rank]))
  | spawnInstant sup name nameFree isLocal =>
    simp only [Actor.stepCore, opSpawnInstant]
    (repeat' split) <;> exact Or.inr (Or.inr h)
  | pollSpawn supOk =>
    simp only [Actor.stepCore, opPollSpawn]
    split
    · exact startInstant_SIres a supOk
    · split
      · simp only [say, handleSignal, andThen_fst]
        exact Or.inr (Or.inl (failSpawn_phase _ _))
      · split
        · exact Or.inr (Or.inr h)
        · exact runSeg_SIres _ _ _ _ h (fun b r hb => afterPre_SIres b supOk r hb)
    · exact Or.inr (Or.inr h)
  | dropSpawn =>
    simp only [Actor.stepCore, opDropSpawn]
    split
    · exact Or.inr (Or.inl (by simp [Actor.dropPorts]))
    · exact Or.inr (Or.inl (by simp [Actor.dropPorts]))
    · exact Or.inr (Or.inr h)
  | poll =>
    simp only [Actor.stepCore, pollMark_fst, opPoll]
    split
    · split
      · exact Or.inr (Or.inl (killedOutsideLoop_phase _))
      · exact Or.inr (Or.inr h)
    · exact listen_SIres _ h
    · exact pollOpen_SIres a _ h
    · exact pollOpen_SIres a _ h
    · exact pollOpen_SIres a _ h
    · exact pollOpen_SIres a _ h
    · exact Or.inr (Or.inr h)
  | abort =>
    simp only [Actor.stepCore, opAbort]
    split
    · exact Or.inr (Or.inl (by simp [Actor.dropPorts]))
    · exact Or.inr (Or.inr h)
  | resume s =>
    simp only [Actor.stepCore, opResume]
    (repeat' split) <;> exact Or.inr (Or.inr h)
  | _ =>
    simp only [Actor.stepCore]
    split
    · exact Or.inr (Or.inr h)
    · exact Or.inr (Or.inr (envOp_lt5 a _ h))

theorem rank_one {x : Actor} (h : rank x = 1) : ∃ r, x.phase = .postStop r := by
  cases hp : x.phase <;> simp_all [rank]

theorem SI_step (a : Actor) (op : AOp) (hr : Reach a) (h : SI a) : SI (a.step op).1 := by
  show SI (a.stepCore op).1
  by_cases hd : a.phase = .done
  · intro _ h2; exact absurd (stepCore_done a op hd) h2
  · by_cases hp : ∃ r, a.phase = .postStop r
    · obtain ⟨r, hpr⟩ := hp
      have hal : Alive a := by
        rcases hr with h' | h' | h'
        · rw [h'.1] at hpr; cases hpr
        · exact h'
        · exact absurd h'.1 hd
      rcases step_prog a op hal with hx | ⟨hx, hpg⟩
      · exact (dead_SIres hx).si
      · obtain ⟨_, p2, _⟩ := hpg (Or.inr ⟨r, hpr⟩)
        have e1 : rank a = 1 := rank_postStop hpr
        have e2 := rank_pos hx
        exact SIres.si (Or.inl (rank_one (by omega)))
    · have hn : ∀ r, a.phase ≠ .postStop r := fun r hpr => hp ⟨r, hpr⟩
      exact (lt5_step a op (h hn hd) hn).si

theorem SI_init (id : Nat) : SI (Actor.init id) := fun _ _ => by simp [lt5, Actor.init, Status.rank]

theorem SI_run (ops : List AOp) (a : Actor) (hr : Reach a) (h : SI a) : SI (a.run ops).1 := by
  induction ops generalizing a with
  | nil => exact h
  | cons op ops ih => exact ih _ (reach_step a op hr) (SI_step a op hr h)

/-- **Reachable actors:** a status `>= Stopping` means `Dead` (Stopped, guard disarmed) or inside `post_stop`. -/
theorem stopping_dead_or_post_stop {a : Actor} (hr : Reach a) (h : SI a)
    (hs : Status.stopping.rank ≤ a.status.rank) : Dead a ∨ (Alive a ∧ ∃ r, a.phase = .postStop r) := by
  by_cases hd : a.phase = .done
  · exact Or.inl (hr.dead_of_done hd)
  · by_cases hp : ∃ r, a.phase = .postStop r
    · obtain ⟨r, hpr⟩ := hp
      rcases hr with h' | h' | h'
      · rw [h'.1] at hpr; cases hpr
      · exact Or.inr ⟨h', r, hpr⟩
      · exact Or.inl h'
    · have := h (fun r hpr => hp ⟨r, hpr⟩) hd
      unfold lt5 at this; omega

end Life.Liveness
