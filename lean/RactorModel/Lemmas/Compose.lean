import RactorModel.Model.Compose
import RactorModel.Lemmas.Remote
import RactorModel.Lemmas.Link

/-! Lemmas for `Model/Compose.lean`: the shared wire seen from one reference, the coupling
invariant, the refinement of every component. -/

namespace Compose
open Remote

/-! ## the shared wire seen from one reference -/

def pj {α : Type} (p : Nat) (s : List (Nat × α)) : List α := (s.filter (·.1 == p)).map (·.2)

theorem projPipe_eq {α : Type} (p : Nat) (st : Pipe (Nat × α)) : projPipe p st = st.map (pj p) := rfl

theorem pj_append {α : Type} (p : Nat) (a b : List (Nat × α)) : pj p (a ++ b) = pj p a ++ pj p b := by
  simp [pj]

theorem pj_cons_self {α : Type} (p : Nat) (x : α) (s : List (Nat × α)) : pj p ((p, x) :: s) = x :: pj p s := by
  simp [pj]

theorem pj_cons_other {α : Type} (p q : Nat) (x : α) (s : List (Nat × α)) (h : q ≠ p) :
    pj p ((q, x) :: s) = pj p s := by
  simp [pj, h]

theorem projPipe_push_self {α : Type} (p : Nat) (x : α) (st : Pipe (Nat × α)) (h : st ≠ []) :
    projPipe p (Pipe.push (p, x) st) = Pipe.push x (projPipe p st) := by
  cases st with
  | nil => exact absurd rfl h
  | cons s rest => simp [projPipe, Pipe.push]

theorem projPipe_push_other {α : Type} (p q : Nat) (x : α) (st : Pipe (Nat × α)) (h : st ≠ []) (hq : q ≠ p) :
    projPipe p (Pipe.push (q, x) st) = projPipe p st := by
  cases st with
  | nil => exact absurd rfl h
  | cons s rest => simp [projPipe, Pipe.push, hq]

theorem push_ne_nil {α : Type} (x : α) (st : Pipe α) : Pipe.push x st ≠ [] := by
  cases st <;> simp [Pipe.push]

theorem move_ne_nil {α : Type} (i : Nat) (st : Pipe α) (h : st ≠ []) : (Pipe.move i st).1 ≠ [] := by
  induction i generalizing st with
  | zero =>
    match st with
    | [] => exact absurd rfl h
    | [s] => cases s <;> simp [Pipe.move]
    | s :: t :: rest => cases s <;> simp [Pipe.move]
  | succ i ih =>
    match st with
    | [] => exact absurd rfl h
    | s :: rest => simp [Pipe.move]

/-- moving the oldest element of stage `i`, which is addressed to `p`: reference `p` sees its own
pipe make the same move (and hand out the same element), every other reference sees nothing -/
theorem projPipe_move {α : Type} (i : Nat) (st : Pipe (Nat × α)) (p : Nat) (x : α)
    (hh : headAt i st = some (p, x)) :
    projPipe p (Pipe.move i st).1 = (Pipe.move i (projPipe p st)).1 ∧
    (Pipe.move i (projPipe p st)).2 = (Pipe.move i st).2.map (·.2) ∧
    (∀ e, (Pipe.move i st).2 = some e → e = (p, x)) ∧
    ∀ q, q ≠ p → projPipe q (Pipe.move i st).1 = projPipe q st := by
  induction i generalizing st with
  | zero =>
    match st with
    | [] => simp [headAt] at hh
    | [s] =>
      cases s with
      | nil => simp [headAt] at hh
      | cons y s' =>
        simp only [headAt, List.head?_cons, Option.some.injEq] at hh
        subst hh
        refine ⟨by simp [projPipe, Pipe.move], by simp [projPipe, Pipe.move], by simp [Pipe.move], ?_⟩
        intro q hq
        have : ¬ (p = q) := fun h => hq h.symm
        simp [projPipe, Pipe.move, this]
    | s :: t :: rest =>
      cases s with
      | nil => simp [headAt] at hh
      | cons y s' =>
        simp only [headAt, List.head?_cons, Option.some.injEq] at hh
        subst hh
        refine ⟨by simp [projPipe, Pipe.move], by simp [projPipe, Pipe.move], by simp [Pipe.move], ?_⟩
        intro q hq
        have : ¬ (p = q) := fun h => hq h.symm
        simp [projPipe, Pipe.move, this]
  | succ i ih =>
    match st with
    | [] => simp [headAt] at hh
    | s :: rest =>
      simp only [headAt] at hh
      obtain ⟨h1, h2, h3, h4⟩ := ih rest hh
      refine ⟨?_, ?_, ?_, ?_⟩
      · simp only [projPipe, Pipe.move, List.map_cons] at h1 ⊢
        rw [h1]
      · simp only [projPipe, Pipe.move, List.map_cons] at h2 ⊢
        exact h2
      · simpa [Pipe.move] using h3
      · intro q hq
        have := h4 q hq
        simp only [projPipe, Pipe.move, List.map_cons] at this ⊢
        rw [this]

theorem projPipe_purge {α : Type} (dead : Nat → Bool) (st : Pipe (Nat × α)) (p : Nat) :
    projPipe p (purge dead st) = if dead p then Pipe.clear (projPipe p st) else projPipe p st := by
  simp only [projPipe, purge, Pipe.clear, List.map_map]
  split
  · rename_i hd
    apply List.map_congr_left
    intro s _
    simp only [Function.comp, List.filter_filter, List.map_eq_nil_iff, List.filter_eq_nil_iff]
    intro e _
    by_cases he : e.1 = p
    · simp [he, hd]
    · simp [he]
  · rename_i hd
    apply List.map_congr_left
    intro s _
    simp only [Function.comp, List.filter_filter]
    congr 1
    apply List.filter_congr
    intro e _
    by_cases he : e.1 = p
    · simp [he, hd]
    · simp [he]

theorem purge_ne_nil {α : Type} (dead : Nat → Bool) (st : Pipe (Nat × α)) (h : st ≠ []) : purge dead st ≠ [] := by
  cases st with
  | nil => exact absurd rfl h
  | cons s rest => simp [purge]

/-! ## what one `Net` step does to its pipes and to the proxy's status -/

theorem net_proxy (n : Net) :
    (n.step .proxy).fwd = (proxyFrames n).foldl (fun p f => Pipe.push f p) n.fwd ∧
    (n.step .proxy).back = n.back ∧ (n.step .proxy).linkUp = n.linkUp := by
  cases h : n.mbox with
  | nil => simp [Net.step, proxyFrames, h]
  | cons e rest =>
    obtain ⟨m, sender⟩ := e
    simp [Net.step, proxyFrames, h]

theorem net_moveF (n : Net) (i : Nat) :
    (n.step (.moveF i)).fwd = (n.fwd.move i).1 ∧ (n.step (.moveF i)).back = n.back ∧
    (n.step (.moveF i)).linkUp = n.linkUp := by
  simp only [Net.step]
  split <;> (try split) <;> (try split) <;> simp

theorem net_moveB (n : Net) (i : Nat) :
    (n.step (.moveB i)).back = (n.back.move i).1 ∧ (n.step (.moveB i)).fwd = n.fwd ∧
    (n.step (.moveB i)).linkUp = n.linkUp := by
  simp only [Net.step]
  split <;> simp

theorem net_answer (n : Net) (h data : Nat) :
    (n.step (.answer h data)).back =
      (match answerReply n h data with | none => n.back | some r => n.back.push r) ∧
    (n.step (.answer h data)).fwd = n.fwd ∧ (n.step (.answer h data)).linkUp = n.linkUp := by
  simp only [Net.step, answerReply]
  cases n.handles.find? (·.id == h) <;> simp

theorem net_loseA (n : Net) :
    (n.step .loseA).back = Pipe.clear n.back ∧ (n.step .loseA).fwd = n.fwd ∧ (n.step .loseA).linkUp = false := by
  simp [Net.step]

/-- the ops that touch neither pipe nor the proxy's status -/
def plain : Remote.Op → Bool
  | .cast _ _ | .call _ _ | .abandon _ | .drop _ | .targetExit => true
  | _ => false

theorem net_plain (n : Net) (op : Remote.Op) (h : plain op = true) :
    (n.step op).fwd = n.fwd ∧ (n.step op).back = n.back ∧ (n.step op).linkUp = n.linkUp := by
  cases op <;> simp [plain] at h <;> simp only [Net.step] <;> (try split) <;> simp

/-- a stopped proxy never runs again -/
theorem net_down_stays (n : Net) (op : Remote.Op) (h : n.linkUp = false) : (n.step op).linkUp = false := by
  cases op with
  | proxy => rw [(net_proxy n).2.2]; exact h
  | moveF i => rw [(net_moveF n i).2.2]; exact h
  | moveB i => rw [(net_moveB n i).2.2]; exact h
  | answer a d => rw [(net_answer n a d).2.2]; exact h
  | cut => simp [Net.step]
  | loseA => simp [Net.step]
  | cast a b => rw [(net_plain n _ rfl).2.2]; exact h
  | call a b => rw [(net_plain n _ rfl).2.2]; exact h
  | abandon a => rw [(net_plain n _ rfl).2.2]; exact h
  | drop a => rw [(net_plain n _ rfl).2.2]; exact h
  | targetExit => rw [(net_plain n _ rfl).2.2]; exact h

/-- pushing the frames of proxy `p` on the shared wire -/
theorem projPipe_pushes {α : Type} (p : Nat) (fs : List α) (st : Pipe (Nat × α)) (h : st ≠ []) :
    projPipe p (fs.foldl (fun st f => Pipe.push (p, f) st) st) = fs.foldl (fun st f => Pipe.push f st) (projPipe p st) ∧
    (∀ q, q ≠ p → projPipe q (fs.foldl (fun st f => Pipe.push (p, f) st) st) = projPipe q st) ∧
    fs.foldl (fun st f => Pipe.push (p, f) st) st ≠ [] := by
  induction fs generalizing st with
  | nil => exact ⟨rfl, fun _ _ => rfl, h⟩
  | cons f fs ih =>
    obtain ⟨h1, h2, h3⟩ := ih (Pipe.push (p, f) st) (push_ne_nil _ _)
    refine ⟨?_, ?_, h3⟩
    · simp only [List.foldl_cons]
      rw [h1, projPipe_push_self p f st h]
    · intro q hq
      simp only [List.foldl_cons]
      rw [h2 q hq, projPipe_push_other q p f st h (fun e => hq e.symm)]


/-! ## the coupling invariant -/

structure Inv (s : Sys) : Prop where
  /-- the private forward pipe of reference `p` IS the shared wire seen from `p` -/
  fwd : ∀ p, (s.nets p).fwd = projPipe p s.fwd
  back : ∀ p, (s.nets p).back = projPipe p s.back
  ne : s.fwd ≠ [] ∧ s.back ≠ []
  /-- the proxy actor of `p` runs iff `p` is in `remote_actors` -/
  status : ∀ p, running s p = s.link.mirror.proxies.contains p
  /-- only a proxy that was made can have stopped -/
  fresh : ∀ p, (s.nets p).linkUp = false → s.made.contains p = true

theorem projPipe_replicate {α : Type} (p k : Nat) :
    projPipe p (List.replicate k ([] : List (Nat × α))) = List.replicate k [] := by
  simp [projPipe]

theorem inv_init (k k' : Nat) : Inv (init k k') := by
  refine ⟨?_, ?_, ?_, ?_, ?_⟩
  · intro p; simp [init, Net.init, projPipe_replicate]
  · intro p; simp [init, Net.init, projPipe_replicate]
  · simp [init, List.replicate_succ]
  · intro p; simp [init, running]
  · intro p; simp [init, Net.init]

/-- a step that replaces the `Net` of one reference `p` by a step that keeps status, and
leaves `made` / `link` alone, keeps the two status clauses -/
theorem status_keep (s s' : Sys) (h : Inv s) (hm : s'.made = s.made) (hl : s'.link = s.link)
    (hu : ∀ q, (s'.nets q).linkUp = (s.nets q).linkUp) :
    (∀ p, running s' p = s'.link.mirror.proxies.contains p) ∧
    (∀ p, (s'.nets p).linkUp = false → s'.made.contains p = true) := by
  refine ⟨fun p => ?_, fun p hp => ?_⟩
  · rw [hl, ← h.status p]
    simp only [running, hm, hu]
  · rw [hm]; exact h.fresh p (by rw [← hu]; exact hp)

theorem status_keep' (s : Sys) (h : Inv s) (nets' : Nat → Net)
    (hu : ∀ q, (nets' q).linkUp = (s.nets q).linkUp) :
    (∀ p, (s.made.contains p && (nets' p).linkUp) = s.link.mirror.proxies.contains p) ∧
    (∀ p, (nets' p).linkUp = false → s.made.contains p = true) :=
  status_keep s { s with nets := nets' } h rfl rfl hu

theorem upd_self (f : Nat → Net) (p : Nat) (n : Net) : upd f p n p = n := by simp [upd]
theorem upd_other (f : Nat → Net) (p q : Nat) (n : Net) (h : q ≠ p) : upd f p n q = f q := by simp [upd, h]

/-- the generic case: reference `p` takes one `Net` step that touches no pipe -/
theorem inv_plain (s : Sys) (h : Inv s) (p : Nat) (op : Remote.Op) (hp : plain op = true)
    (s' : Sys) (hn : s'.nets = upd s.nets p ((s.nets p).step op)) (hf : s'.fwd = s.fwd) (hb : s'.back = s.back)
    (hm : s'.made = s.made) (hl : s'.link = s.link) : Inv s' := by
  have hq : ∀ q, (s'.nets q).fwd = (s.nets q).fwd ∧ (s'.nets q).back = (s.nets q).back ∧
      (s'.nets q).linkUp = (s.nets q).linkUp := by
    intro q
    by_cases e : q = p
    · subst e; rw [hn, upd_self]; exact net_plain _ op hp
    · rw [hn, upd_other _ _ _ _ e]; exact ⟨rfl, rfl, rfl⟩
  obtain ⟨h4, h5⟩ := status_keep s s' h hm hl (fun q => (hq q).2.2)
  exact ⟨fun q => by rw [(hq q).1, hf]; exact h.fwd q, fun q => by rw [(hq q).2.1, hb]; exact h.back q,
    by rw [hf, hb]; exact h.ne, h4, h5⟩

/-- what a `Link` step (with re-advertisements of stopped proxies removed) can add to `remote_actors` -/
theorem link_proxies (l : Link.S Unit) (okp : Nat → Bool) (e : Link.Ev Unit) (q : Nat)
    (hq : q ∈ (Link.step l (restrictEv okp e)).mirror.proxies) : q ∈ l.mirror.proxies ∨ okp q = true := by
  cases e with
  | ctl c =>
    simp only [restrictEv, Link.step] at hq
    split at hq
    · cases c with
      | spawn pids =>
        simp only [restrict, Mirror.step] at hq
        rw [mem_ensure] at hq
        rcases hq with hq | hq
        · exact Or.inl hq
        · exact Or.inr (by simpa using (List.mem_filter.mp hq).2)
      | pgJoin sc g pids =>
        simp only [restrict, Mirror.step] at hq
        rw [mem_ensure] at hq
        rcases hq with hq | hq
        · exact Or.inl hq
        · exact Or.inr (by simpa using (List.mem_filter.mp hq).2)
      | terminate pids =>
        simp only [restrict, Mirror.step] at hq
        exact Or.inl (List.mem_filter.mp hq).1
      | pgLeave sc g pids =>
        simp only [restrict, Mirror.step] at hq
        exact Or.inl hq
      | close => simp [restrict, Link.isClose] at *
    · exact Or.inl hq
  | send f => simp only [restrictEv, Link.step] at hq; split at hq <;> exact Or.inl hq
  | writer w fl =>
    simp only [restrictEv, Link.step] at hq
    split at hq
    · split at hq <;> exact Or.inl hq
    · exact Or.inl hq
  | read r =>
    simp only [restrictEv, Link.step] at hq
    split at hq
    · split at hq
      · split at hq <;> exact Or.inl hq
      · exact Or.inl hq
    · exact Or.inl hq
  | sessionStops => simp only [restrictEv, Link.step] at hq; split at hq <;> exact Or.inl hq
  | nodeNotices =>
    simp only [restrictEv, Link.step] at hq
    split at hq
    · simp [Mirror.step] at hq
    · exact Or.inl hq
  | proxyStopped pid =>
    simp only [restrictEv, Link.step] at hq
    split at hq
    · simp [Mirror.step] at hq
    · exact Or.inl hq
  | sendVia pid => simp only [restrictEv, Link.step] at hq; split at hq <;> exact Or.inl hq


theorem inv_step (s : Sys) (op : Op) (h : Inv s) : Inv (step s op) := by
  cases op with
  | cast p sender payload =>
    simp only [step]
    split
    · exact inv_plain s h p (.cast sender payload) rfl _ rfl rfl rfl rfl rfl
    · exact ⟨h.fwd, h.back, h.ne, h.status, h.fresh⟩
  | call p sender payload =>
    simp only [step]
    split
    · exact inv_plain s h p (.call sender payload) rfl _ rfl rfl rfl rfl rfl
    · exact ⟨h.fwd, h.back, h.ne, h.status, h.fresh⟩
  | abandon p port => exact inv_plain s h p (.abandon port) rfl _ rfl rfl rfl rfl rfl
  | drop p a => exact inv_plain s h p (.drop a) rfl _ rfl rfl rfl rfl rfl
  | targetExit p => exact inv_plain s h p .targetExit rfl _ rfl rfl rfl rfl rfl
  | proxy p =>
    simp only [step]
    split
    · obtain ⟨n1, n2, n3⟩ := net_proxy (s.nets p)
      obtain ⟨w1, w2, w3⟩ := projPipe_pushes p (proxyFrames (s.nets p)) s.fwd h.ne.1
      have hu : ∀ q, (upd s.nets p ((s.nets p).step .proxy) q).linkUp = (s.nets q).linkUp := by
        intro q; by_cases e : q = p
        · subst e; rw [upd_self]; exact n3
        · rw [upd_other _ _ _ _ e]
      refine ⟨fun q => ?_, fun q => ?_, ⟨w3, h.ne.2⟩, (status_keep' s h _ hu).1, (status_keep' s h _ hu).2⟩
      · by_cases e : q = p
        · subst e; simp only [upd_self]; rw [n1, w1, h.fwd]
        · simp only [upd_other _ _ _ _ e]; rw [w2 q e]; exact h.fwd q
      · by_cases e : q = p
        · subst e; simp only [upd_self]; rw [n2]; exact h.back q
        · simp only [upd_other _ _ _ _ e]; exact h.back q
    · exact h
  | moveF i =>
    simp only [step]
    split
    · exact h
    · rename_i p x hh
      obtain ⟨n1, n2, n3⟩ := net_moveF (s.nets p) i
      obtain ⟨w1, _, _, w4⟩ := projPipe_move i s.fwd p x hh
      have hu : ∀ q, (upd s.nets p ((s.nets p).step (.moveF i)) q).linkUp = (s.nets q).linkUp := by
        intro q; by_cases e : q = p
        · subst e; rw [upd_self]; exact n3
        · rw [upd_other _ _ _ _ e]
      refine ⟨fun q => ?_, fun q => ?_, ⟨move_ne_nil i s.fwd h.ne.1, h.ne.2⟩, (status_keep' s h _ hu).1, (status_keep' s h _ hu).2⟩
      · by_cases e : q = p
        · subst e; simp only [upd_self]; rw [n1, w1, h.fwd]
        · simp only [upd_other _ _ _ _ e]; rw [w4 q e]; exact h.fwd q
      · by_cases e : q = p
        · subst e; simp only [upd_self]; rw [n2]; exact h.back q
        · simp only [upd_other _ _ _ _ e]; exact h.back q
  | moveB i =>
    simp only [step]
    split
    · exact h
    · rename_i p x hh
      obtain ⟨n1, n2, n3⟩ := net_moveB (s.nets p) i
      obtain ⟨w1, _, _, w4⟩ := projPipe_move i s.back p x hh
      have hu : ∀ q, (upd s.nets p ((s.nets p).step (.moveB i)) q).linkUp = (s.nets q).linkUp := by
        intro q; by_cases e : q = p
        · subst e; rw [upd_self]; exact n3
        · rw [upd_other _ _ _ _ e]
      refine ⟨fun q => ?_, fun q => ?_, ⟨h.ne.1, move_ne_nil i s.back h.ne.2⟩, (status_keep' s h _ hu).1, (status_keep' s h _ hu).2⟩
      · by_cases e : q = p
        · subst e; simp only [upd_self]; rw [n2]; exact h.fwd q
        · simp only [upd_other _ _ _ _ e]; exact h.fwd q
      · by_cases e : q = p
        · subst e; simp only [upd_self]; rw [n1, w1, h.back]
        · simp only [upd_other _ _ _ _ e]; rw [w4 q e]; exact h.back q
  | answer p a data =>
    simp only [step]
    obtain ⟨n1, n2, n3⟩ := net_answer (s.nets p) a data
    have hu : ∀ q, (upd s.nets p ((s.nets p).step (.answer a data)) q).linkUp = (s.nets q).linkUp := by
      intro q; by_cases e : q = p
      · subst e; rw [upd_self]; exact n3
      · rw [upd_other _ _ _ _ e]
    refine ⟨fun q => ?_, fun q => ?_, ⟨h.ne.1, ?_⟩, (status_keep' s h _ hu).1, (status_keep' s h _ hu).2⟩
    · by_cases e : q = p
      · subst e; simp only [upd_self]; rw [n2]; exact h.fwd q
      · simp only [upd_other _ _ _ _ e]; exact h.fwd q
    · by_cases e : q = p
      · subst e; simp only [upd_self]; rw [n1]
        cases answerReply (s.nets q) a data with
        | none => exact h.back q
        | some r => simp only; rw [projPipe_push_self q r s.back h.ne.2, h.back]
      · simp only [upd_other _ _ _ _ e]
        cases answerReply (s.nets p) a data with
        | none => exact h.back q
        | some r => simp only; rw [projPipe_push_other q p r s.back h.ne.2 (fun e' => e e'.symm)]; exact h.back q
    · cases answerReply (s.nets p) a data with
      | none => exact h.ne.2
      | some r => exact push_ne_nil _ _
  | link e =>
    simp only [step]
    have hlp := link_proxies s.link (fun p => !stopped s p) e
    generalize Link.step s.link (restrictEv (fun p => !stopped s p) e) = l at hlp ⊢
    refine ⟨fun q => ?_, fun q => ?_, ⟨h.ne.1, purge_ne_nil (fun p => running s p && !l.mirror.proxies.contains p) s.back h.ne.2⟩, fun q => ?_, fun q hq => ?_⟩
    · simp only
      split
      · rw [(net_loseA _).2.1]; exact h.fwd q
      · exact h.fwd q
    · simp only
      rw [projPipe_purge]
      split
      · rw [(net_loseA _).1, h.back]
      · exact h.back q
    · have hs := h.status q
      have hfr := h.fresh q
      have hl := hlp q
      simp only [running, stopped] at hs hl ⊢
      by_cases hm : q ∈ s.made
      · by_cases hu : (s.nets q).linkUp = true
        · by_cases hc : q ∈ l.mirror.proxies
          · simp [hm, hu, hc]
          · simp [hm, hu, hc, (net_loseA (s.nets q)).2.2]
        · have hu' : (s.nets q).linkUp = false := by simpa using hu
          have hc : q ∉ l.mirror.proxies := by
            intro hc
            rcases hl hc with h1 | h1
            · simp [hm, hu', h1] at hs
            · simp [hm, hu'] at h1
          simp [hm, hu', hc]
      · have hu : (s.nets q).linkUp = true := by
          cases hu : (s.nets q).linkUp with
          | true => rfl
          | false => exact absurd (by simpa using hfr hu) hm
        by_cases hc : q ∈ l.mirror.proxies
        · simp [hm, hu, hc]
        · simp [hm, hu, hc]
    · simp only at hq
      split at hq
      · rename_i hd
        simp only [running, Bool.and_eq_true] at hd
        have : q ∈ s.made := by simpa using hd.1.1
        simp [this]
      · have := h.fresh q hq
        have : q ∈ s.made := by simpa using this
        simp [this]

theorem inv_run (ops : List Op) (s : Sys) (h : Inv s) : Inv (run s ops) := by
  induction ops generalizing s with
  | nil => exact h
  | cons op ops ih => exact ih _ (inv_step s op h)


/-! ## refinement: every component of a composed run is a run of the component model -/

theorem step_nets (s : Sys) (op : Op) (q : Nat) :
    (step s op).nets q = s.nets q ∨ ∃ nop, (step s op).nets q = (s.nets q).step nop := by
  have hupd : ∀ (p : Nat) (nop : Remote.Op), upd s.nets p ((s.nets p).step nop) q = s.nets q ∨
      ∃ nop', upd s.nets p ((s.nets p).step nop) q = (s.nets q).step nop' := by
    intro p nop
    by_cases e : q = p
    · subst e; exact Or.inr ⟨nop, by rw [upd_self]⟩
    · exact Or.inl (by rw [upd_other _ _ _ _ e])
  cases op with
  | cast p a b => simp only [step]; split; exact hupd p _; exact Or.inl rfl
  | call p a b => simp only [step]; split; exact hupd p _; exact Or.inl rfl
  | abandon p a => exact hupd p _
  | proxy p => simp only [step]; split; exact hupd p _; exact Or.inl rfl
  | moveF i => simp only [step]; split; exact Or.inl rfl; exact hupd _ _
  | answer p a d => exact hupd p _
  | drop p a => exact hupd p _
  | moveB i => simp only [step]; split; exact Or.inl rfl; exact hupd _ _
  | targetExit p => exact hupd p _
  | link e =>
    simp only [step]
    split
    · exact Or.inr ⟨.loseA, rfl⟩
    · exact Or.inl rfl

theorem step_link (s : Sys) (op : Op) :
    (step s op).link = s.link ∨ ∃ e, (step s op).link = Link.step s.link e := by
  cases op with
  | link e => exact Or.inr ⟨_, rfl⟩
  | cast p a b => simp only [step]; split <;> exact Or.inl rfl
  | call p a b => simp only [step]; split <;> exact Or.inl rfl
  | proxy p => simp only [step]; split <;> exact Or.inl rfl
  | moveF i => simp only [step]; split <;> exact Or.inl rfl
  | moveB i => simp only [step]; split <;> exact Or.inl rfl
  | abandon p a => exact Or.inl rfl
  | answer p a d => exact Or.inl rfl
  | drop p a => exact Or.inl rfl
  | targetExit p => exact Or.inl rfl

/-- the `Net` of every reference and the `Link` of a composed run are runs of `Net` / `Link` -/
theorem run_refines (ops : List Op) (s : Sys) :
    (∀ p, ∃ nops, (run s ops).nets p = (s.nets p).run nops) ∧ ∃ evs, (run s ops).link = Link.run s.link evs := by
  induction ops generalizing s with
  | nil => exact ⟨fun p => ⟨[], rfl⟩, [], rfl⟩
  | cons op ops ih =>
    obtain ⟨h1, evs, h2⟩ := ih (step s op)
    refine ⟨fun p => ?_, ?_⟩
    · obtain ⟨nops, hn⟩ := h1 p
      rcases step_nets s op p with h | ⟨nop, h⟩
      · exact ⟨nops, by rw [← h]; exact hn⟩
      · exact ⟨nop :: nops, by rw [Net.run, List.foldl_cons, ← h]; exact hn⟩
    · rcases step_link s op with h | ⟨e, h⟩
      · exact ⟨evs, by rw [← h]; exact h2⟩
      · exact ⟨e :: evs, by rw [Link.run, List.foldl_cons, ← h]; exact h2⟩

/-! ## a stopped proxy stays stopped -/

theorem stopped_step (s : Sys) (op : Op) (p : Nat) (h : stopped s p = true) : stopped (step s op) p = true := by
  simp only [stopped, Bool.and_eq_true, Bool.not_eq_true'] at h ⊢
  obtain ⟨hm, hu⟩ := h
  refine ⟨?_, ?_⟩
  · cases op with
    | link e => simp only [step]; have : p ∈ s.made := by simpa using hm
                simp [this]
    | cast q a b => simp only [step]; split <;> exact hm
    | call q a b => simp only [step]; split <;> exact hm
    | proxy q => simp only [step]; split <;> exact hm
    | moveF i => simp only [step]; split <;> exact hm
    | moveB i => simp only [step]; split <;> exact hm
    | abandon q a => exact hm
    | answer q a d => exact hm
    | drop q a => exact hm
    | targetExit q => exact hm
  · rcases step_nets s op p with h | ⟨nop, h⟩
    · rw [h]; exact hu
    · rw [h]; exact net_down_stays _ _ hu

theorem stopped_run (ops : List Op) (s : Sys) (p : Nat) (h : stopped s p = true) : stopped (run s ops) p = true := by
  induction ops generalizing s with
  | nil => exact h
  | cons op ops ih => exact ih _ (stopped_step s op p h)

/-! ## a reference is a member of a group only while it is in `remote_actors` -/

def MInv (m : Mirror) : Prop := ∀ e ∈ m.members, e.2 ∈ m.proxies

theorem minv_step (m : Mirror) (c : Ctl) (h : MInv m) : MInv (m.step c) := by
  cases c with
  | spawn pids => intro e he; exact (mem_ensure m pids e.2).mpr (Or.inl (h e he))
  | terminate pids =>
    intro e he
    simp only [Mirror.step, List.mem_filter] at he ⊢
    exact ⟨h e he.1, he.2⟩
  | pgJoin sc g pids =>
    intro e he
    simp only [Mirror.step] at he ⊢
    rw [mem_ensure]
    rw [mem_joinAll] at he
    rcases he with he | he
    · exact Or.inl (h e (by simpa [ensure_members] using he))
    · exact Or.inr he.2
  | pgLeave sc g pids =>
    intro e he
    simp only [Mirror.step, leaveAll, List.mem_filter] at he ⊢
    exact h e he.1
  | close => intro e he; simp [Mirror.step] at he

theorem link_minv (l : Link.S Unit) (e : Link.Ev Unit) (h : MInv l.mirror) : MInv (Link.step l e).mirror := by
  cases e with
  | ctl c => simp only [Link.step]; split; exact minv_step _ _ h; exact h
  | send f => simp only [Link.step]; split <;> exact h
  | writer w fl =>
    simp only [Link.step]
    split
    · split <;> exact h
    · exact h
  | read r =>
    simp only [Link.step]
    split
    · split
      · split <;> exact h
      · exact h
    · exact h
  | sessionStops => simp only [Link.step]; split <;> exact h
  | nodeNotices => simp only [Link.step]; split; exact minv_step _ _ h; exact h
  | proxyStopped pid => simp only [Link.step]; split; exact minv_step _ _ h; exact h
  | sendVia pid => simp only [Link.step]; split <;> exact h

theorem minv_run (evs : List (Link.Ev Unit)) (l : Link.S Unit) (h : MInv l.mirror) : MInv (Link.run l evs).mirror := by
  induction evs generalizing l with
  | nil => exact h
  | cons e evs ih => exact ih _ (link_minv l e h)


/-! ## sends -/

theorem cast_accepted (s : Sys) (p a b : Nat) (h : accepts s p = true) :
    ((step s (.cast p a b)).nets p).sent = (s.nets p).sent ++ [⟨false, a, b⟩] ∧
    ((step s (.cast p a b)).nets p).mbox = (s.nets p).mbox ++ [(.cast b, a)] ∧
    (step s (.cast p a b)).accepted = s.accepted ++ [(p, ⟨false, a, b⟩)] ∧
    (step s (.cast p a b)).refused = s.refused := by
  have h' := h
  simp only [accepts, running, Bool.and_eq_true] at h
  simp only [accepts] at h'
  simp only [step, if_pos h.1, if_pos h', upd_self]
  simp [Net.step, h.2]

theorem cast_refused (s : Sys) (p a b : Nat) (h : accepts s p = false) :
    (step s (.cast p a b)).nets p = s.nets p ∧
    (step s (.cast p a b)).accepted = s.accepted ∧
    (step s (.cast p a b)).refused = s.refused ++ [(p, ⟨false, a, b⟩)] := by
  have h' := h
  simp only [accepts] at h'
  simp only [accepts, running] at h
  by_cases hm : s.made.contains p = true
  · have hu : (s.nets p).linkUp = false := by rw [hm] at h; simpa using h
    simp only [step, if_pos hm, h', Bool.false_eq_true, ↓reduceIte, upd_self]
    simp [Net.step, hu]
  · simp only [step, if_neg hm, and_self]

theorem settle_link (s : Sys) : (settle s).link = Link.settle s.link := rfl

end Compose
