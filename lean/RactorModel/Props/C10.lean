import RactorModel.Lemmas.RegistryView
import RactorModel.Lemmas.RegistryConcEv
import RactorModel.Extracted
import RactorModel.Lemmas.PidRegistryView
import RactorModel.Lemmas.RegistryConcPid
import RactorModel.Lemmas.RegistryThreads
import RactorModel.Lemmas.RegistryWindow
import RactorModel.Lemmas.RegistryThreadsSim
import RactorModel.Lemmas.RegistryThreadsEntry

/-!
# C10 — a name maps to at most one live actor and is released on exit

Property theorems only. Model: `Model/Registry.lean` (one op = one atomic region of the real
code between two schedule points, so an op list is an arbitrary interleaving of any number of
threads); lemmas: `Lemmas/Registry.lean`, `Lemmas/RegistryView.lean`.

`step false` is the code after the `fix:` commit (finding F2 repaired), `step true` the
behaviour before it; the legacy statements are kept so that the history of the finding stays
machine-checked: negation on a witness, `_partial` under `noNamedRemoteProxy`.
-/

namespace C10
open Registry

/-- Every state the (repaired) code can reach, under every interleaving, satisfies the
observable predicate `Registry.ok` — the predicate the driver evaluates on the real
implementation after every step: one entry per name; whoever `where_is` returns registered
that name, is local and is not `Stopped`; every successfully spawned local actor that has not
begun to stop is found under its name (no foreign unregister removed it); at most one live
actor per name; the same for the pid table. -/
theorem ok_reachable (ops : List Op) : ok (view (run false init ops)) = true :=
  ok_of_inv (inv_run (inv_init false) ops) (fun h => by cases h)

/-- (i) atomic `entry`: a registration by a fresh cell succeeds iff the name is vacant … -/
theorem register_ok_iff_vacant (l : Bool) (s : State) (a n : Nat) :
    (step l s (.register a n)).2 = .ok ↔ (fresh s a = true ∧ whereIs s n = none) := by
  simp only [step]
  by_cases hf : fresh s a = true <;> by_cases hw : (whereIs s n).isSome = true <;>
    simp_all [Option.isSome_iff_ne_none]

/-- … and a failed one (`AlreadyRegistered`) changes nothing at all (frame lemma). -/
theorem register_dup_frame (l : Bool) (s : State) (a n : Nat)
    (h : (step l s (.register a n)).2 ≠ .ok) : (step l s (.register a n)).1 = s := by
  simp only [step] at h ⊢
  by_cases hf : fresh s a = true <;> by_cases hw : (whereIs s n).isSome = true <;> simp_all

/-- … and it has no side effect on the pid table's listeners either: no `PidLifecycleEvent`
(`Spawn`/`Terminate`) is broadcast for the rejected cell (cluster builds). -/
theorem register_dup_no_pid_events (l : Bool) (s : State) (a n : Nat)
    (h : (step l s (.register a n)).2 ≠ .ok) : pidEvents s (.register a n) = [] := by
  simp only [step] at h
  simp only [pidEvents]
  by_cases hf : fresh s a = true <;> by_cases hw : (whereIs s n).isSome = true <;>
    simp_all [Option.isSome_iff_ne_none]

/-- Every pid lifecycle event ever broadcast, in any run, concerns a local actor that was really
created (registered successfully or unnamed) — never a rejected cell, never a remote proxy. -/
theorem pid_events_sound (l : Bool) (ops : List Op) (e : Bool × Nat) (he : e ∈ runEvents l init ops) :
    ∃ x ∈ (run l init ops).actors, x.id = e.2 ∧ x.remote = false :=
  runEvents_actor l ops init e he

/-- (i) Of any set of same-name registrations racing between two exits (no unregister step in
the segment) at most one succeeds, and none if the name was taken at the start — for every
start state, any number of threads and every interleaving. -/
theorem at_most_one_winner (l : Bool) (s : State) (ops : List Op) (n : Nat)
    (hu : ∀ op ∈ ops, isUnreg op = false) :
    ((trace l s ops).filter (isWin n)).length + occ s n ≤ 1 := by
  have := winners_count l n ops s hu
  have : occ (run l s ops) n ≤ 1 := by unfold occ; split <;> omega
  omega

/-- (i) … and exactly one succeeds when the name was vacant and at least one attempt ran. -/
theorem exactly_one_winner (l : Bool) (s : State) (ops : List Op) (n : Nat)
    (hu : ∀ op ∈ ops, isUnreg op = false) (hvac : whereIs s n = none)
    (hatt : ∃ e ∈ trace l s ops, isAttempt n e = true) :
    ((trace l s ops).filter (isWin n)).length = 1 := by
  have hc := winners_count l n ops s hu
  have h0 : occ s n = 0 := by simp [occ, hvac]
  suffices occ (run l s ops) n = 1 by omega
  clear hc h0 hvac
  induction ops generalizing s with
  | nil => simp [trace] at hatt
  | cons op ops ih =>
    obtain ⟨e, he, hatt⟩ := hatt
    simp only [trace, List.mem_cons] at he
    have hu' : ∀ o ∈ ops, isUnreg o = false := fun o ho => hu o (by simp [ho])
    rcases he with rfl | he
    · have h1 := attempt_occ l s op n hatt
      have h2 := occ_mono l n ops (step l s op).1 hu'
      have : occ (run l (step l s op).1 ops) n ≤ 1 := by unfold occ; split <;> omega
      simp only [run]; omega
    · exact ih (step l s op).1 hu' ⟨e, he, hatt⟩

/-- (ii) `where_is n = some a` ⇒ `a` is a local actor that registered `n` and has not yet
executed its unregister step (`pc < 3`), hence is not `Stopped`: it is never an actor whose
`wait()` has returned. Holds before and after the fix. -/
theorem whereIs_sound (l : Bool) (ops : List Op) (n a : Nat)
    (h : whereIs (run l init ops) n = some a) :
    ∃ x ∈ (run l init ops).actors, x.id = a ∧ x.name = some n ∧ x.remote = false ∧ x.pc < 3 ∧
      x.status < stopped := by
  have hi := inv_run (inv_init l) ops
  obtain ⟨x, hx, h1, h2, h3, h4⟩ := hi.holder _ (whereIs_mem h)
  exact ⟨x, hx, h1, h2, h3, h4, status_lt_stopped_of_pc hi hx h4⟩

/-- (ii) an actor whose `wait()` can return (status `Stopped`) is found under no name. -/
theorem waited_not_found (l : Bool) (ops : List Op) (a : Nat)
    (h : (step l (run l init ops) (.waitRet a)).2 = .ok) (n : Nat) :
    whereIs (run l init ops) n ≠ some a := by
  intro hw
  obtain ⟨x, hx, h1, _, _, _, h5⟩ := whereIs_sound l ops n a hw
  have hi := inv_run (inv_init l) ops
  have hg : getA (run l init ops) a = some x := by
    cases hg : getA (run l init ops) a with
    | none =>
      have hfr : fresh (run l init ops) a = true := by simp [fresh, hg]
      have := fresh_iff.mp hfr x hx
      exact absurd h1 this
    | some y =>
      obtain ⟨hy, hya⟩ := getA_some hg
      rw [id_inj hi.ids hx hy (h1.trans hya.symm)]
  simp only [step, statusOf, hg, Option.map_some, Option.getD_some] at h
  split at h
  · omega
  · cases h

/-- (ii) release: once every local actor that ever carried the name `n` has finished its
exit (status `Stopped` — what `wait()` waits for), the name is vacant and the next spawn
under `n` succeeds. -/
theorem name_free_after_exit (ops : List Op) (n b : Nat)
    (hall : ∀ x ∈ (run false init ops).actors, x.name = some n → x.remote = true ∨ x.status = stopped)
    (hb : fresh (run false init ops) b = true) :
    (step false (run false init ops) (.register b n)).2 = .ok := by
  rw [register_ok_iff_vacant]
  refine ⟨hb, ?_⟩
  cases hw : whereIs (run false init ops) n with
  | none => rfl
  | some a =>
    obtain ⟨x, hx, _, h2, h3, _, h5⟩ := whereIs_sound false ops n a hw
    rcases hall x hx h2 with h | h
    · rw [h3] at h; cases h
    · omega

/-- (iii) FULL STATEMENT (true of the repaired code): no unregister step — of any actor,
local or remote proxy, in any state the code can reach — removes an entry that belongs to
somebody else. -/
theorem no_stale_unregister (ops : List Op) (a n b : Nat)
    (hw : whereIs (run false init ops) n = some b) (hne : b ≠ a) :
    whereIs (step false (run false init ops) (.unregName a)).1 n = some b := by
  have hi := inv_run (inv_init false) ops
  have hi' : Inv false (step false (run false init ops) (.unregName a)).1 := inv_step hi _
  generalize run false init ops = s at *
  apply whereIs_some_of_mem hi'.keys
  have hmem := whereIs_mem hw
  simp only [step]
  cases hg : getA s a with
  | none => exact hmem
  | some x0 =>
    simp only
    split
    · exact hmem
    · next hpc =>
      obtain ⟨hx0, hid⟩ := getA_some hg
      simp only [setA_names]
      split
      · next m hm =>
        simp only [Bool.false_or]
        split
        · next hloc =>
          refine mem_removeName.mpr ⟨hmem, ?_⟩
          show n ≠ m
          intro e; subst e
          have hin0 := hi.visible (fun h => by cases h) x0 hx0 (by simpa using hloc) n hm (by omega)
          exact hne ((key_unique hi.keys hmem hin0).trans hid)
        · exact hmem
      · exact hmem

/-- (iii) is FALSE of the code before the fix (finding F2). Witness: local actor 0 spawns as
name 7; a `RemoteActor` proxy 1 is created for a peer actor that is also called 7 (it is never
registered); the proxy stops. Afterwards actor 0 is `Running` but `where_is 7 = none`. -/
def f2Witness : List Op := spawnNamedOps 0 7 ++ spawnProxyOps 1 (some 7) ++ exitOps 1

theorem stale_unregister_legacy :
    whereIs (run true init (spawnNamedOps 0 7 ++ spawnProxyOps 1 (some 7))) 7 = some 0 ∧
    whereIs (run true init f2Witness) 7 = none ∧
    statusOf (run true init f2Witness) 0 = 2 ∧
    ok (view (run true init f2Witness)) = false ∧
    failing (view (run true init f2Witness)) = ["live-actor-lost-its-name"] := by
  decide

/-- (iii) `_partial` for the legacy code: the property holds on every run in which no remote
proxy is created with a name. -/
theorem ok_reachable_legacy_partial (ops : List Op) (h : noNamedRemoteProxy ops = true) :
    ok (view (run true init ops)) = true :=
  ok_of_inv (inv_run (inv_init true) ops)
    (fun _ => noNamedProxy_run true ops init (by simp [noNamedProxy, init]) h)

/-- A late `drain()` on an actor that has begun to stop changes nothing at all: the status word is
not rewound (seeded changes C10-4 / C11-4 break exactly this), so the lifecycle guard's final
`set_status(Stopping)` is not a first transition and the cleanup block is not run again. -/
theorem late_drain_is_noop (l : Bool) (s : State) (a : Nat) (x : Actor) (hg : getA s a = some x)
    (h : x.status ≥ stopping) : step l s (.drain a) = (s, .ok) := by
  simp only [step, hg]
  rw [if_neg]
  intro c; omega

/-- Nothing that can be done through a stale reference to an exiting actor touches either table
or any actor: in particular the names of the live actors stay where they are. -/
theorem exiting_actor_env_frame (l : Bool) (s : State) (a : Nat) (x : Actor) (hg : getA s a = some x)
    (h : x.status ≥ stopping) (op : Op) (hop : isStaleRefOp a op = true) : (step l s op).1 = s := by
  cases op with
  | drain b =>
    simp only [isStaleRefOp, beq_iff_eq] at hop
    subst hop
    rw [late_drain_is_noop l s b x hg h]
  | lookup n => rfl
  | lookupPid b => rfl
  | waitRet b => rfl
  | _ => simp [isStaleRefOp] at hop

/-- …and `drain()` on a live actor only moves its status word (to `Draining`): both tables and the
cleanup election are as before. -/
theorem drain_keeps_tables (l : Bool) (s : State) (a : Nat) :
    (step l s (.drain a)).1.names = s.names ∧ (step l s (.drain a)).1.pids = s.pids := by
  simp only [step]
  split
  · exact ⟨rfl, rfl⟩
  · split <;> exact ⟨rfl, rfl⟩

/-- Status words only grow (`fetch_max`) and the cleanup block is elected at most once. -/
theorem cleanup_once (l : Bool) (s : State) (a st : Nat) (x : Actor) (hg : getA s a = some x)
    (hpc : x.pc ≠ 0) (hi : Inv l s) :
    ∀ y ∈ (step l s (.publish a st)).1.actors, y.id = a → y.pc = x.pc ∧ y.status ≥ x.status := by
  obtain ⟨hx, hid⟩ := getA_some hg
  have hp := (hi.pcs x hx).1
  intro y hy hya
  simp only [step, hg] at hy
  split at hy
  · have := getA_unique hi.ids hg hy hya; subst this; exact ⟨rfl, Nat.le_refl _⟩
  · split at hy
    · have := getA_unique hi.ids hg hy hya; subst this; exact ⟨rfl, Nat.le_refl _⟩
    · obtain ⟨z, hz, rfl⟩ := mem_setA.mp hy
      split at hya
      · next e =>
        have := getA_unique hi.ids hg hz e; subst this
        rw [if_pos e]
        simp only [electPc]
        have : ¬ (st ≥ stopping ∧ z.status < stopping) := fun c => hpc (hp.mpr c.2)
        rw [if_neg this]
        exact ⟨rfl, Nat.le_max_left _ _⟩
      · next e => exact absurd hya e

/-! ### Non-vacuity -/

/-- two threads race for the name 7, the loser gets `dup`; the winner exits; a third spawn wins -/
example :
    (trace false init ([.register 0 7, .register 1 7] ++ [.publish 0 1, .publish 0 2] ++ exitOps 0 ++
        [.waitRet 0, .lookup 7, .register 2 7, .lookup 7])).map (·.2) =
      [.ok, .dup, .prev 0, .prev 1, .prev 2, .ok, .ok, .prev 5, .ok, .found none, .ok,
       .found (some (2, 0))] := by decide

/-- the F2 witness is harmless for the repaired code -/
example : ok (view (run false init f2Witness)) = true ∧ whereIs (run false init f2Witness) 7 = some 0 := by
  decide

example : noNamedRemoteProxy (spawnNamedOps 0 7 ++ spawnProxyOps 1 none ++ exitOps 1) = true := by decide
example : noNamedRemoteProxy f2Witness = false := by decide

/-! ### Round 4: constructor, `set_status` and the pid monitors as programs (`Model/RegistryConc.lean`)

`Reg2.Op` lists are arbitrary interleavings of: the three statements of `ActorCell::new` (name insert, pid
insert — which may fail —, rollback), `new_remote`, `set_status` calls (the `fetch_max`, then the cleanup
block statement by statement: `demonitor`, `unregister_pid`, `registry::unregister`), `monitor` /
`demonitor` of the pid registry.  `publish a Stopped` is not guarded. -/

/-- the invariant of the split model, for every interleaving -/
theorem conc_invariant (ops : List Reg2.Op) : Reg2.RInv (Reg2.run Reg2.init ops) := Reg2.RInv.init.run ops

/-- whoever a lookup returns owns the name: it was constructed with that name, is local, and is between its
own insert and its own removal; two such cells never share a name -/
theorem conc_name_has_one_owner (ops : List Reg2.Op) (n a : Nat)
    (h : (Reg2.run Reg2.init ops).names n = some a) :
    ((Reg2.run Reg2.init ops).act a).name = some n ∧ ((Reg2.run Reg2.init ops).act a).remote = false ∧
    Reg2.holds ((Reg2.run Reg2.init ops).act a) = true ∧
    ∀ b, ((Reg2.run Reg2.init ops).act b).name = some n → Reg2.holds ((Reg2.run Reg2.init ops).act b) = true → b = a := by
  have I := conc_invariant ops
  obtain ⟨h1, h2⟩ := I.owner n a h
  refine ⟨h1, ?_, h2, ?_⟩
  · simp only [Reg2.holds, Bool.and_eq_true, Bool.not_eq_eq_eq_not, Bool.not_true] at h2; exact h2.1.1
  · intro b hb1 hb2
    have := I.entry b n hb1 hb2
    rw [h] at this; exact (Option.some.inj this).symm

/-- a failed registration — `AlreadyRegistered` at the name insert, or a failing `register_pid` followed by
the rollback — leaves no name behind, whatever other constructors (same name or not), lookups and exits
interleave: no entry of the table points at a cell whose `new` returned `Err` -/
theorem failed_registration_leaves_no_name (ops : List Reg2.Op) (a : Nat)
    (hf : ((Reg2.run Reg2.init ops).act a).pc = .failed) (n : Nat) :
    (Reg2.run Reg2.init ops).names n ≠ some a := by
  intro h
  have := ((conc_invariant ops).owner n a h).2
  simp [Reg2.holds, hf] at this

/-- the rollback is an unguarded remove-by-key; it is safe because at that point the entry under the name
is the cell's own (nobody else can have taken the name in the window), and afterwards the name is free -/
theorem rollback_removes_own_entry (ops : List Reg2.Op) (a n : Nat)
    (hpc : ((Reg2.run Reg2.init ops).act a).pc = .consRollback)
    (hn : ((Reg2.run Reg2.init ops).act a).name = some n) :
    (Reg2.run Reg2.init ops).names n = some a ∧
    (Reg2.step (Reg2.run Reg2.init ops) (.rollback a)).names n = none ∧
    ((Reg2.step (Reg2.run Reg2.init ops) (.rollback a)).act a).pc = .failed := by
  have I := conc_invariant ops
  have hp := I.pcs a
  have hh : Reg2.holds ((Reg2.run Reg2.init ops).act a) = true := by
    simp only [Reg2.pcOk, hpc] at hp
    simp [Reg2.holds, hpc, hp.2.1, hn]
  refine ⟨I.entry a n hn hh, ?_, ?_⟩
  · simp [Reg2.step, hpc, hn, Reg2.setPc, Reg2.upd]
  · simp [Reg2.step, hpc, hn, Reg2.setPc, Reg2.upd]

/-- the window between the two DashMap operations of `new` is visible: a lookup can return a cell that
`where_is_pid` does not know — exactly while the cell is between its name insert and its pid insert (or
rollback), or while its elected cleanup block is between `unregister_pid` and `registry::unregister` -/
theorem name_without_pid_window (ops : List Reg2.Op) (n a : Nat)
    (h : (Reg2.run Reg2.init ops).names n = some a) (hp : (Reg2.run Reg2.init ops).pids a = false) :
    ((Reg2.run Reg2.init ops).act a).pc = .consPid ∨ ((Reg2.run Reg2.init ops).act a).pc = .consRollback ∨
    ∃ st, ((Reg2.run Reg2.init ops).act a).pc = .blk [.unregName] st := by
  have I := conc_invariant ops
  have h2 := (I.owner n a h).2
  have h3 := I.pid a
  have h4 := I.pcs a
  rw [hp] at h3
  cases hpc : ((Reg2.run Reg2.init ops).act a).pc with
  | consPid => exact .inl rfl
  | consRollback => exact .inr (.inl rfl)
  | blk rest st =>
    right; right
    simp only [Reg2.pcOk, hpc] at h4
    rcases h4.2 with e | e | e | e <;> subst e
    · simp [Reg2.pidHeld, Reg2.holds, hpc] at h2 h3; simp [h2.1] at h3
    · simp [Reg2.pidHeld, Reg2.holds, hpc] at h2 h3; simp [h2.1] at h3
    · exact ⟨st, rfl⟩
    · simp [Reg2.holds, hpc] at h2
  | live =>
    simp [Reg2.pidHeld, Reg2.holds, hpc] at h2 h3
    simp [h2.1.1] at h3
    exact absurd h2.2 (Nat.not_lt.mpr h3)
  | none => simp [Reg2.holds, hpc] at h2
  | consName => simp [Reg2.holds, hpc] at h2
  | failed => simp [Reg2.holds, hpc] at h2

/-- clause 5 with the order as a hypothesis about the callers instead of a guard of the model: if every
`set_status(Stopped)` is issued on an actor that is already at least `Stopping` (`Reg2.Ordered`; discharged for
the source text by `stopped_call_sites_match_source` below), `where_is` never returns an actor whose
`wait()` has returned -/
theorem whereIs_sound_conc (ops : List Reg2.Op) (hord : Reg2.Ordered Reg2.init ops = true) (n a : Nat)
    (h : (Reg2.run Reg2.init ops).names n = some a) :
    ((Reg2.run Reg2.init ops).act a).status ≠ Reg2.stopped := by
  intro hs
  have := Reg2.OInv.run Reg2.RInv.init Reg2.OInv.init ops hord a hs
  rw [((conc_invariant ops).owner n a h).2] at this; cases this

/-- … and without the hypothesis it is false: `set_status(Stopped)` on a running actor publishes `Stopped`
first and unregisters afterwards — a lookup in between returns an actor whose `wait()` has returned -/
theorem whereIs_unsound_without_caller_order :
    let s := Reg2.run Reg2.init [.new 0 (some 7), .regName 0, .regPid 0, .publish 0 2, .publish 0 6]
    s.names 7 = some 0 ∧ (s.act 0).status = Reg2.stopped ∧
      Reg2.Ordered Reg2.init [.new 0 (some 7), .regName 0, .regPid 0, .publish 0 2, .publish 0 6] = false := by
  decide

/-- clause 6: once every local actor that carries the name is Stopped, the name is free (so the next
`regName` for it succeeds) -/
theorem name_free_after_exit_conc (ops : List Reg2.Op) (hord : Reg2.Ordered Reg2.init ops = true) (n : Nat)
    (hall : ∀ a, ((Reg2.run Reg2.init ops).act a).name = some n →
      ((Reg2.run Reg2.init ops).act a).status = Reg2.stopped) :
    (Reg2.run Reg2.init ops).names n = none := by
  cases h : (Reg2.run Reg2.init ops).names n with
  | none => rfl
  | some a =>
    exact absurd (hall a ((conc_invariant ops).owner n a h).1) (whereIs_sound_conc ops hord n a h)

/-- pid table (clause 8): `get_all_pids` / `where_is_pid` know exactly the local actors between their
`register_pid` and their own `unregister_pid`; a remote id is never in the table -/
theorem pid_table_is_live_locals (ops : List Reg2.Op) (a : Nat) :
    (Reg2.run Reg2.init ops).pids a = Reg2.pidHeld ((Reg2.run Reg2.init ops).act a) ∧
    (((Reg2.run Reg2.init ops).act a).remote = true → Reg2.whereIsPid (Reg2.run Reg2.init ops) a = none) := by
  have h := (conc_invariant ops).pid a
  refine ⟨h, fun hr => ?_⟩
  simp [Reg2.whereIsPid, h, Reg2.pidHeld, hr]

/-- `register_pid` reports `Spawn(a)` to exactly the listeners registered at that instant, once each -/
theorem spawn_reported_to_current_monitors (s : Reg2.State) (a : Nat) (h : (s.act a).pc = .consPid) :
    (Reg2.step s (.regPid a)).log = s.log ++ (Reg2.listeners s).map (fun l => (l, true, a)) ∧
    ((Reg2.listeners s).map (fun l => (l, true, a))).Nodup := by
  refine ⟨by simp [Reg2.step, h, Reg2.setPc, Reg2.fanout], ?_⟩
  exact (Reg2.fanout_pairwise s true a).imp (fun h => h.1)

/-- `unregister_pid` (second statement of the elected cleanup block) reports `Terminate(a)` to exactly the
listeners registered at that instant, once each, if `a` is in the table; nothing otherwise -/
theorem terminate_reported_to_current_monitors (s : Reg2.State) (a st : Nat) (rest : List Reg2.Stmt)
    (h : (s.act a).pc = .blk (.unregPid :: rest) st) :
    (Reg2.step s (.bstep a)).log =
      s.log ++ (if (s.act a).remote = false ∧ s.pids a = true then (Reg2.listeners s).map (fun l => (l, false, a)) else []) := by
  by_cases hc : (s.act a).remote = false ∧ s.pids a = true
  · simp [Reg2.step, h, Reg2.exec, Reg2.setPc, Reg2.fanout, hc.1, hc.2]
  · have : (!(s.act a).remote && s.pids a) = false := by
      cases hr : (s.act a).remote <;> cases hp : s.pids a <;> simp_all
    simp [Reg2.step, h, Reg2.exec, Reg2.setPc, this, hc]

/-- for every interleaving: no listener is told the same event twice; a `Terminate(a)` is never followed by a
`Spawn(a)` (Spawn before Terminate); every event is about a local actor whose `register_pid` succeeded
(nothing for remote ids, nothing for rejected cells), every `Terminate` about one that has left the table -/
theorem pid_events_once_in_order (ops : List Reg2.Op) :
    (Reg2.run Reg2.init ops).log.Pairwise Reg2.EvRel ∧
    (∀ e ∈ (Reg2.run Reg2.init ops).log, Reg2.spawned ((Reg2.run Reg2.init ops).act e.2.2) = true) ∧
    (∀ e ∈ (Reg2.run Reg2.init ops).log, e.2.1 = false → Reg2.terminated ((Reg2.run Reg2.init ops).act e.2.2) = true) :=
  ⟨Reg2.LogOk.run Reg2.RInv.init List.Pairwise.nil ops, (conc_invariant ops).evSp, (conc_invariant ops).evTm⟩

/-! #### ties to the source text (E-SRC) -/

/-- `set_status`: the status word is published first, then the block in the order of `Reg2.blockProg`, the
waiters are notified last -/
theorem set_status_block_matches_source :
    Extracted.setStatusOrder =
      "inner.set_status" :: (Reg2.blockProg.map Reg2.Stmt.text ++ ["demonitor_all", "leave_all", "notify_stop_listener"]) ∧
    Extracted.setStatusCleanupElectedOnce = true := by decide

/-- the caller order (`Reg2.Ordered`): `set_status(Stopped)` has exactly two call sites; in `cleanup` it is
preceded by `set_status(Stopping)`; in `spawn_linked_remote` it runs only after `start(..)` has returned an
error, i.e. after the lifecycle guard's `cleanup` -/
theorem stopped_call_sites_match_source :
    Extracted.stoppedCallSites = ["actor.rs:cleanup", "actor.rs:spawn_linked_remote"] ∧
    Extracted.remoteStoppedAfterFailedStart = true ∧
    Extracted.cleanupOrder.head? = some "set_status:Stopping" ∧
    Extracted.cleanupOrder.getLast? = some "set_status:Stopped" := by decide

/-- the fix of F2: the name is unregistered only by cells with a local id, and `new_remote` registers nothing -/
theorem unregister_guarded_by_is_local :
    Extracted.unregisterGuardedByIsLocal = true ∧ Extracted.newRemoteTouchesRegistries = false := by decide

/-- `ActorCell::new` (and its thread-local twin): name insert, pid insert, rollback on failure, in this order -/
theorem constructor_order_matches_source :
    Extracted.newRegistryCalls = ["register", "register_pid", "unregister"] ∧
    Extracted.newRollsBackOnPidFailure = true ∧
    Extracted.newThreadLocalRegistryCalls = ["register", "register_pid", "unregister"] := by decide

/-- the pid registry only ever looks at local ids; events are sent after the table changed -/
theorem pid_registry_guards_match_source :
    Extracted.pidRegistryLocalGuards = [("register_pid", true), ("unregister_pid", true), ("where_is_pid", true)] ∧
    Extracted.pidEventsAfterTableChange = true := by decide

/-- non-vacuity: two same-name constructors race, the loser's pid insert of an unrelated third fails and is
rolled back, a monitor sees Spawn then Terminate of the winner exactly once -/
example :
    let s := Reg2.run Reg2.init [.monitor 9, .new 0 (some 7), .new 1 (some 7), .regName 1, .regName 0, .regPid 1,
      .new 2 (some 8), .regName 2, .regPidFail 2, .rollback 2, .publish 1 2, .publish 1 5, .bstep 1, .bstep 1,
      .bstep 1, .bstep 1, .publish 1 6]
    (s.act 0).pc = .failed ∧ (s.act 2).pc = .failed ∧ s.names 8 = none ∧ s.names 7 = none ∧
      s.log = [(9, true, 1), (9, false, 1)] ∧ (s.act 1).status = 6 ∧ Reg2.allPids s = [] := by decide


end C10

/-!
# Round 4 — the pid table of the `cluster` build and its lifecycle monitors

Model: `Model/PidRegistry.lean` (one op = one API call on a quiescent system: `register_pid` of a local
spawn, `new_remote`, the cleanup block `demonitor(self); unregister_pid(self)`, `monitor`, `demonitor`,
`get_all_pids`, `where_is_pid`); lemmas: `Lemmas/PidRegistry*.lean`. `trace s ops` = every
`PidLifecycleEvent` sent during the run with its recipient, `dtrace` = those a listener got to handle.

What C10 itself states about the pid table ("the same holds for pid lookup in cluster builds") is
`pid_get_all_refines`, `pid_where_is_agrees`, `pid_remote_invisible`; the statements about the lifecycle
*monitors* go beyond the text of C10 (bonus guarantees, labelled `bonus` below).
-/

namespace C10
open PidRegistry

/-- `get_all_pids()` is exactly the list of local actors that have not begun to exit — in every
reachable state, list equality (refinement to the abstract set `liveLocals`), without duplicates. -/
theorem pid_get_all_refines (ops : List PidRegistry.Op) :
    PidRegistry.obs (PidRegistry.run PidRegistry.init ops) .getAll
        = .pids (liveLocals (PidRegistry.run PidRegistry.init ops)) ∧
    (liveLocals (PidRegistry.run PidRegistry.init ops)).Nodup := by
  have h := PidRegistry.inv_run PidRegistry.inv_init ops
  exact ⟨by simp only [PidRegistry.obs, h.pids], liveLocals_nodup h.ids⟩

/-- `where_is_pid(id)` answers `Some` exactly for the live local actors — never for a remote id, never
for an actor that has begun to exit, never for an id nobody was given. -/
theorem pid_where_is_agrees (ops : List PidRegistry.Op) (a : Nat) :
    whereIsPid (PidRegistry.run PidRegistry.init ops) a = true ↔
      a ∈ liveLocals (PidRegistry.run PidRegistry.init ops) := by
  have h := PidRegistry.inv_run PidRegistry.inv_init ops
  have := found_iff h a
  rw [h.pids] at this
  rw [← this]
  simp only [PidRegistry.view, List.mem_filter]
  constructor
  · intro hw
    refine ⟨?_, hw⟩
    simp only [whereIsPid] at hw
    split at hw
    · rename_i x hx; exact (known_iff _ a).mp (getA_known hx)
    · cases hw
  · exact fun hw => hw.2

/-- Creating a remote actor (`ActorCell::new_remote`) is invisible: neither table changes, nobody is
told anything, and both queries answer as before — in ANY state. -/
theorem pid_remote_invisible (s : PidRegistry.State) (a : Nat) :
    (PidRegistry.step s (.remote a)).pids = s.pids ∧ (PidRegistry.step s (.remote a)).mons = s.mons ∧
    events s (.remote a) = [] ∧
    PidRegistry.obs (PidRegistry.step s (.remote a)) .getAll = PidRegistry.obs s .getAll := by
  simp only [PidRegistry.step, PidRegistry.obs, events]
  split <;> simp

/-- The exit of a remote actor leaves the pid table alone and tells nobody (it only drops the remote
actor's own listener entry). -/
theorem pid_remote_exit_silent (s : PidRegistry.State) (a : Nat) (x : PidRegistry.Actor)
    (hx : getA s a = some x) (hr : x.remote = true) :
    (PidRegistry.step s (.exitBegin a)).pids = s.pids ∧ events s (.exitBegin a) = [] := by
  simp only [PidRegistry.step, events, hx, hr]
  constructor
  · split <;> simp
  · simp

/-- Nothing is ever reported about a remote id: the subject of every event ever sent, in any run, is a
local actor (and, ids being unique, no remote actor carries that id). -/
theorem pid_nothing_for_remote (ops : List PidRegistry.Op) (e : Ev)
    (he : e ∈ PidRegistry.trace PidRegistry.init ops) :
    (∃ x ∈ (PidRegistry.run PidRegistry.init ops).actors, x.id = e.who ∧ x.remote = false) ∧
    ∀ y ∈ (PidRegistry.run PidRegistry.init ops).actors, y.id = e.who → y.remote = false := by
  have hinv := PidRegistry.inv_run PidRegistry.inv_init ops
  have hloc : ∃ x ∈ (PidRegistry.run PidRegistry.init ops).actors, x.id = e.who ∧ x.remote = false := by
    clear hinv
    generalize PidRegistry.init = s at he ⊢
    induction ops generalizing s with
    | nil => cases he
    | cons op ops ih =>
      simp only [PidRegistry.trace, List.mem_append] at he
      rcases he with he | he
      · obtain ⟨x, hx, hid, hr⟩ := events_local he
        -- local actors stay (only their phase changes)
        have keep : ∀ (ops : List PidRegistry.Op) (s : PidRegistry.State),
            (∃ x ∈ s.actors, x.id = e.who ∧ x.remote = false) →
            ∃ x ∈ (PidRegistry.run s ops).actors, x.id = e.who ∧ x.remote = false := by
          intro ops
          induction ops with
          | nil => exact fun s h => h
          | cons op ops ih2 =>
            intro s ⟨x, hx, hid, hr⟩
            apply ih2
            cases op with
            | spawn b =>
              simp only [PidRegistry.step]; split
              · exact ⟨x, hx, hid, hr⟩
              · exact ⟨x, List.mem_append_left _ hx, hid, hr⟩
            | remote b =>
              simp only [PidRegistry.step]; split
              · exact ⟨x, hx, hid, hr⟩
              · exact ⟨x, List.mem_append_left _ hx, hid, hr⟩
            | exitBegin b =>
              simp only [PidRegistry.step]; split
              · exact ⟨x, hx, hid, hr⟩
              · split
                · exact ⟨x, hx, hid, hr⟩
                · refine ⟨if x.id = b then { x with phase := 1 } else x, ?_, ?_, ?_⟩
                  · simp only [setPhase, List.mem_map]; exact ⟨x, hx, rfl⟩
                  · split <;> exact hid
                  · split <;> exact hr
            | exitEnd b =>
              simp only [PidRegistry.step]; split
              · exact ⟨x, hx, hid, hr⟩
              · split
                · exact ⟨x, hx, hid, hr⟩
                · refine ⟨if x.id = b then { x with phase := 2 } else x, ?_, ?_, ?_⟩
                  · simp only [setPhase, List.mem_map]; exact ⟨x, hx, rfl⟩
                  · split <;> exact hid
                  · split <;> exact hr
            | monitor m => simp only [PidRegistry.step]; split <;> exact ⟨x, hx, hid, hr⟩
            | demonitor m => exact ⟨x, hx, hid, hr⟩
            | getAll => exact ⟨x, hx, hid, hr⟩
            | whereIs b => exact ⟨x, hx, hid, hr⟩
        exact keep ops _ ⟨x, hx, hid, hr⟩
      · exact ih _ he
  refine ⟨hloc, ?_⟩
  obtain ⟨x, hx, hid, hr⟩ := hloc
  intro y hy hyid
  have : y = x := unique_of_nodup hinv.ids hy hx (by rw [hyid, hid])
  subst this; exact hr

/-- (bonus) `Spawn(a)` is reported exactly once to every monitor registered at the instant `a` is
registered, and to nobody else, ever: in a run from ANY state, the `Spawn(a)` events of the whole run are
precisely one per entry of the listener list at that instant (which has no duplicates, `pid_monitors_nodup`). -/
theorem pid_spawn_reported_exactly (s₀ : PidRegistry.State) (pre post : List PidRegistry.Op) (a : Nat)
    (hf : known (PidRegistry.run s₀ pre) a = false) :
    (PidRegistry.trace s₀ (pre ++ .spawn a :: post)).filter (fun e => e.spawn && e.who == a)
      = (PidRegistry.run s₀ pre).mons.map (fun m => ⟨m, true, a⟩) := by
  rw [trace_append]
  simp only [PidRegistry.trace, List.filter_append]
  have h1 : (PidRegistry.trace s₀ pre).filter (fun e => e.spawn && e.who == a) = [] := by
    rw [List.filter_eq_nil_iff]
    intro e he hc
    simp only [Bool.and_eq_true, beq_iff_eq] at hc
    have := (trace_who s₀ pre e he).1
    rw [hc.2, hf] at this; cases this
  have h2 : (events (PidRegistry.run s₀ pre) (.spawn a)).filter (fun e => e.spawn && e.who == a)
      = (PidRegistry.run s₀ pre).mons.map (fun m => ⟨m, true, a⟩) := by
    simp only [events, hf, Bool.false_eq_true, ↓reduceIte]
    rw [List.filter_eq_self]
    intro e he
    simp only [List.mem_map] at he
    obtain ⟨m, _, rfl⟩ := he
    simp
  have h3 : (PidRegistry.trace (PidRegistry.step (PidRegistry.run s₀ pre) (.spawn a)) post).filter
      (fun e => e.spawn && e.who == a) = [] := by
    rw [List.filter_eq_nil_iff]
    intro e he hc
    simp only [Bool.and_eq_true, beq_iff_eq] at hc
    have hk : known (PidRegistry.step (PidRegistry.run s₀ pre) (.spawn a)) a = true := by
      rw [known_step]; simp [newId, hf]
    have := no_spawn_after_known hk post e he hc.2
    rw [hc.1] at this; cases this
  rw [h1, h2, h3]; simp

/-- (bonus) `Terminate(a)` is reported exactly once to every monitor registered at the instant `a`'s
cleanup block runs — except `a` itself, which `set_status` demonitors first — and to nobody else, ever. -/
theorem pid_terminate_reported_exactly (s₀ : PidRegistry.State) (pre post : List PidRegistry.Op) (a : Nat)
    (x : PidRegistry.Actor) (hx : getA (PidRegistry.run s₀ pre) a = some x) (hp : x.phase = 0)
    (hr : x.remote = false) (hin : a ∈ (PidRegistry.run s₀ pre).pids) :
    (PidRegistry.trace s₀ (pre ++ .exitBegin a :: post)).filter (fun e => !e.spawn && e.who == a)
      = ((PidRegistry.run s₀ pre).mons.filter (· != a)).map (fun m => ⟨m, false, a⟩) := by
  rw [trace_append]
  simp only [PidRegistry.trace, List.filter_append]
  have h1 : (PidRegistry.trace s₀ pre).filter (fun e => !e.spawn && e.who == a) = [] := by
    rw [List.filter_eq_nil_iff]
    intro e he hc
    simp only [Bool.and_eq_true, Bool.not_eq_true', beq_iff_eq] at hc
    have := (trace_who s₀ pre e he).2 hc.1
    rw [hc.2] at this; exact this hin
  have h2 : (events (PidRegistry.run s₀ pre) (.exitBegin a)).filter (fun e => !e.spawn && e.who == a)
      = ((PidRegistry.run s₀ pre).mons.filter (· != a)).map (fun m => ⟨m, false, a⟩) := by
    simp only [events, hx, hp, hr, hin, and_self, ↓reduceIte]
    rw [List.filter_eq_self]
    intro e he
    simp only [List.mem_map] at he
    obtain ⟨m, _, rfl⟩ := he
    simp
  have h3 : (PidRegistry.trace (PidRegistry.step (PidRegistry.run s₀ pre) (.exitBegin a)) post).filter
      (fun e => !e.spawn && e.who == a) = [] := by
    rw [List.filter_eq_nil_iff]
    intro e he hc
    simp only [Bool.and_eq_true, beq_iff_eq] at hc
    have hk : known (PidRegistry.step (PidRegistry.run s₀ pre) (.exitBegin a)) a = true :=
      known_step_mono _ (getA_known hx)
    have hg : a ∉ (PidRegistry.step (PidRegistry.run s₀ pre) (.exitBegin a)).pids := by
      simp [PidRegistry.step, hx, hp, hr]
    exact silent_after_gone hk hg post e he hc.2
  rw [h1, h2, h3]; simp

/-- (bonus) the same from the initial state, for every live local actor. -/
theorem pid_terminate_of_live_local (pre post : List PidRegistry.Op) (a : Nat)
    (hl : a ∈ liveLocals (PidRegistry.run PidRegistry.init pre)) :
    (PidRegistry.trace PidRegistry.init (pre ++ .exitBegin a :: post)).filter (fun e => !e.spawn && e.who == a)
      = ((PidRegistry.run PidRegistry.init pre).mons.filter (· != a)).map (fun m => ⟨m, false, a⟩) := by
  have h := PidRegistry.inv_run PidRegistry.inv_init pre
  have hk := liveLocals_known hl
  cases hx : getA (PidRegistry.run PidRegistry.init pre) a with
  | none => rw [getA_none_known hx] at hk; cases hk
  | some x =>
    have := (mem_liveLocals_getA h.ids hx).mp hl
    exact pid_terminate_reported_exactly _ pre post a x hx this.2 this.1 (by rw [h.pids]; exact hl)

/-- (bonus) Spawn before Terminate: once `Terminate(a)` has been sent to anybody, `Spawn(a)` is never
sent to anybody — for every run from every state. -/
theorem pid_spawn_before_terminate (s₀ : PidRegistry.State) (ops : List PidRegistry.Op) (l₁ l₂ : List Ev)
    (e : Ev) (hsplit : PidRegistry.trace s₀ ops = l₁ ++ e :: l₂) (he : e.spawn = false) :
    ∀ e' ∈ l₂, e'.who = e.who → e'.spawn = false := by
  have h := okOrder_trace s₀ ops
  rw [hsplit, okOrder_append] at h
  have h2 := h.2.1
  simp only [okOrder, Bool.and_eq_true, Bool.or_eq_true] at h2
  rcases h2.1 with h3 | h3
  · rw [he] at h3; cases h3
  · intro e' he' hw
    simp only [spawnFree, List.all_eq_true, Bool.not_eq_true', Bool.and_eq_false_iff,
      beq_eq_false_iff_ne] at h3
    rcases h3 e' he' with h4 | h4
    · exact h4
    · exact absurd hw h4

/-- (bonus) no recipient is ever sent the same event twice, in any run; and the listener list never
holds an actor twice (`monitor` is idempotent). -/
theorem pid_never_reported_twice (ops : List PidRegistry.Op) :
    (PidRegistry.trace PidRegistry.init ops).Nodup ∧ (PidRegistry.run PidRegistry.init ops).mons.Nodup :=
  ⟨trace_nodup PidRegistry.inv_init ops, (PidRegistry.inv_run PidRegistry.inv_init ops).mons⟩

/-- (bonus) an actor that exits is removed from the listener list by its own cleanup block. -/
theorem pid_exiting_monitor_removed (ops : List PidRegistry.Op) (a : Nat)
    (ha : alive (PidRegistry.run PidRegistry.init ops) a = true) :
    a ∉ (PidRegistry.step (PidRegistry.run PidRegistry.init ops) (.exitBegin a)).mons := by
  obtain ⟨x, hx, hp⟩ := alive_getA (PidRegistry.inv_run PidRegistry.inv_init ops) ha
  simp [PidRegistry.step, hx, hp]

/-- The run-time oracle of engine `pidmon` (`failingStep`: get_all_pids = live locals, where_is_pid
agrees, no event about a remote or unknown actor, every live listener of the instant handles the event
exactly once and nobody else handles anything, an exiting monitor leaves the list, remote creation is
invisible) never fails on the model, whatever happened before. -/
theorem pid_oracle_step (ops : List PidRegistry.Op) (op : PidRegistry.Op) :
    failingStep (PidRegistry.view (PidRegistry.run PidRegistry.init ops)) op
      (PidRegistry.view (PidRegistry.step (PidRegistry.run PidRegistry.init ops) op))
      (delivered (PidRegistry.run PidRegistry.init ops) op) = [] :=
  failingStep_nil (PidRegistry.inv_run PidRegistry.inv_init ops) op

/-- The history oracle (`failingHist`: per recipient no `Spawn(a)` after `Terminate(a)`, nothing handled
twice) never fails on the events the model's listeners handle. -/
theorem pid_oracle_hist (ops : List PidRegistry.Op) :
    failingHist (dtrace PidRegistry.init ops) = [] := by
  have hsub := dtrace_sublist PidRegistry.init ops
  have h1 : okOrderPer (dtrace PidRegistry.init ops) = true := by
    simp only [okOrderPer, List.all_eq_true]
    intro e _
    exact okOrder_sublist (List.Sublist.trans List.filter_sublist hsub) (okOrder_trace _ ops)
  have h2 : (dtrace PidRegistry.init ops).Nodup :=
    List.Nodup.sublist hsub (trace_nodup PidRegistry.inv_init ops)
  simp [failingHist, h1, h2]

/-! ### Non-vacuity (tests, not theorems) -/

/-- two monitors (one of them a remote-id actor), a third actor spawns and exits, monitor 1 exits
(it is not told of its own termination, monitor 2 is), a late monitor sees only what follows -/
example :
    PidRegistry.trace PidRegistry.init
      [.spawn 1, .remote 2, .monitor 1, .monitor 2, .monitor 1, .spawn 3, .exitBegin 3, .exitEnd 3,
       .exitBegin 1, .spawn 4, .monitor 4, .exitBegin 2, .spawn 5, .exitBegin 4] =
      [⟨1, true, 3⟩, ⟨2, true, 3⟩, ⟨1, false, 3⟩, ⟨2, false, 3⟩, ⟨2, false, 1⟩, ⟨2, true, 4⟩, ⟨4, true, 5⟩] := by
  decide

/-- hypotheses of `pid_spawn_reported_exactly` / `pid_terminate_reported_exactly` are satisfiable -/
example : known (PidRegistry.run PidRegistry.init [.spawn 1, .monitor 1]) 3 = false ∧
    getA (PidRegistry.run PidRegistry.init [.spawn 1, .monitor 1, .spawn 3]) 3 = some ⟨3, false, 0⟩ ∧
    3 ∈ (PidRegistry.run PidRegistry.init [.spawn 1, .monitor 1, .spawn 3]).pids := by decide

/-- what the code does with `monitor()` on an actor that has already exited: the entry stays for ever
(nobody runs `demonitor` for it again) — its events are sent and silently lost -/
example :
    let s := PidRegistry.run PidRegistry.init [.spawn 0, .exitBegin 0, .exitEnd 0, .monitor 0, .spawn 1]
    s.mons = [0] ∧ alive s 0 = false ∧
    events (PidRegistry.run PidRegistry.init [.spawn 0, .exitBegin 0, .exitEnd 0, .monitor 0]) (.spawn 1)
      = [⟨0, true, 1⟩] ∧
    delivered (PidRegistry.run PidRegistry.init [.spawn 0, .exitBegin 0, .exitEnd 0, .monitor 0]) (.spawn 1) = [] := by
  decide

/-- the oracle does fail on wrong observations: an event to an actor that monitors only later, a
missing event, an event about a remote actor, a pid table with a remote entry -/
example :
    let s := PidRegistry.run PidRegistry.init [.spawn 1, .remote 2, .monitor 1]
    failingStep (PidRegistry.view s) (.spawn 3) (PidRegistry.view (PidRegistry.step s (.spawn 3)))
        [⟨1, true, 3⟩, ⟨2, true, 3⟩] = ["pid-event-to-non-monitor-or-unexpected"] ∧
    failingStep (PidRegistry.view s) (.spawn 3) (PidRegistry.view (PidRegistry.step s (.spawn 3))) []
        = ["pid-lifecycle-event-missing-or-duplicated"] ∧
    failingStep (PidRegistry.view s) (.getAll) (PidRegistry.view s) [⟨1, true, 2⟩]
        = ["pid-event-for-remote-actor", "pid-event-to-non-monitor-or-unexpected"] ∧
    failingStep (PidRegistry.view s) (.getAll) { PidRegistry.view s with pids := [1, 2] } []
        = ["get-all-pids-not-live-locals", "where-is-pid-disagrees"] ∧
    failingHist [⟨1, false, 3⟩, ⟨1, true, 3⟩] = ["terminate-before-spawn"] := by
  decide

end C10

#print axioms C10.ok_reachable
#print axioms C10.register_ok_iff_vacant
#print axioms C10.register_dup_frame
#print axioms C10.register_dup_no_pid_events
#print axioms C10.pid_events_sound
#print axioms C10.at_most_one_winner
#print axioms C10.exactly_one_winner
#print axioms C10.whereIs_sound
#print axioms C10.waited_not_found
#print axioms C10.name_free_after_exit
#print axioms C10.no_stale_unregister
#print axioms C10.stale_unregister_legacy
#print axioms C10.ok_reachable_legacy_partial
#print axioms C10.cleanup_once
#print axioms C10.late_drain_is_noop
#print axioms C10.exiting_actor_env_frame
#print axioms C10.drain_keeps_tables
#print axioms C10.conc_invariant
#print axioms C10.conc_name_has_one_owner
#print axioms C10.failed_registration_leaves_no_name
#print axioms C10.rollback_removes_own_entry
#print axioms C10.name_without_pid_window
#print axioms C10.whereIs_sound_conc
#print axioms C10.whereIs_unsound_without_caller_order
#print axioms C10.name_free_after_exit_conc
#print axioms C10.pid_table_is_live_locals
#print axioms C10.spawn_reported_to_current_monitors
#print axioms C10.terminate_reported_to_current_monitors
#print axioms C10.pid_events_once_in_order
#print axioms C10.set_status_block_matches_source
#print axioms C10.stopped_call_sites_match_source
#print axioms C10.unregister_guarded_by_is_local
#print axioms C10.constructor_order_matches_source
#print axioms C10.pid_registry_guards_match_source
#print axioms C10.pid_get_all_refines
#print axioms C10.pid_where_is_agrees
#print axioms C10.pid_remote_invisible
#print axioms C10.pid_remote_exit_silent
#print axioms C10.pid_nothing_for_remote
#print axioms C10.pid_spawn_reported_exactly
#print axioms C10.pid_terminate_reported_exactly
#print axioms C10.pid_terminate_of_live_local
#print axioms C10.pid_spawn_before_terminate
#print axioms C10.pid_never_reported_twice
#print axioms C10.pid_exiting_monitor_removed
#print axioms C10.pid_oracle_step
#print axioms C10.pid_oracle_hist

/-!
# Round 4, wave 2 — pid analogues of the name clauses (`Reg2`), and SEVERAL `set_status` callers per cell (`Reg3`)

(1) `Reg2` has one program counter per actor, so two overlapping `set_status` calls on one cell are skipped by
construction and `Reg2.Ordered` ("the status word is ≥ Stopping when `Stopped` is published") understates what
clause 5 needs.  `Reg3` (`Model/RegistryThreads.lean`) gives every (cell, thread) pair its own program counter
inside `set_status`: a call that loses the election returns at once, also while the elected caller is still in
its cleanup block.  Results: `Reg2.Ordered` read literally, and even "the caller's own `set_status(Stopping)` has
returned", are NOT enough with two callers (`status_order_not_enough_with_two_callers`,
`own_order_not_enough_with_two_callers`, both `decide`d counterexamples); the discipline the code base really
follows (`Reg3.Disc`: all `≥ Stopping` publishes on a local cell come from one thread of control, `Stopped` after
that thread's own `Stopping` call returned) is enough (`whereIs_sound_threads`, `name_free_after_exit_threads`,
`wherePid_sound_threads`); the weakest hypothesis is characterised exactly (`weakest_hypothesis_exact`).
(2) explicit pid analogues of clauses 1/4/5/6 on `Reg2`: `wherePid_sound_conc`, `pid_free_after_exit_conc`,
`pid_visible_while_running`, `wherePid_unsound_without_caller_order`.
-/

namespace C10

/-! ### (2) pid lookup, model `Reg2` -/

/-- clause 8 ↔ clauses 1 and 5 for pids: whatever `where_is_pid(a)` returns is the cell `a` itself (a pid maps to
at most one cell), it is local, its `register_pid` has succeeded, it has not run its own `unregister_pid`, and —
under the caller order — its `wait()` has not returned -/
theorem wherePid_sound_conc (ops : List Reg2.Op) (hord : Reg2.Ordered Reg2.init ops = true) (a b : Nat)
    (h : Reg2.whereIsPid (Reg2.run Reg2.init ops) a = some b) :
    b = a ∧ ((Reg2.run Reg2.init ops).act a).remote = false ∧
    Reg2.spawned ((Reg2.run Reg2.init ops).act a) = true ∧ Reg2.pidHeld ((Reg2.run Reg2.init ops).act a) = true ∧
    ((Reg2.run Reg2.init ops).act a).status ≠ Reg2.stopped := by
  have I := conc_invariant ops
  have hp : (Reg2.run Reg2.init ops).pids a = true := by
    cases hc : (Reg2.run Reg2.init ops).pids a with
    | true => rfl
    | false => simp [Reg2.whereIsPid, hc] at h
  have hb : b = a := by simp [Reg2.whereIsPid, hp] at h; exact h.symm
  have hh : Reg2.pidHeld ((Reg2.run Reg2.init ops).act a) = true := by rw [← I.pid a]; exact hp
  have hl : ((Reg2.run Reg2.init ops).act a).remote = false := by
    simp only [Reg2.pidHeld, Bool.and_eq_true, Bool.not_eq_eq_eq_not, Bool.not_true] at hh; exact hh.1
  refine ⟨hb, hl, ?_, hh, ?_⟩
  · have hh' := hh
    simp only [Reg2.pidHeld, hl] at hh'
    simp only [Reg2.spawned, hl]
    cases hpc : ((Reg2.run Reg2.init ops).act a).pc <;> simp_all
  · intro hs
    have := Reg2.OInvP.run Reg2.RInv.init Reg2.OInvP.init ops hord a hs
    rw [hh] at this; cases this

/-- clause 6 for pids: once `wait()` has returned the pid is released: `where_is_pid` answers `None` and
`get_all_pids` does not list it -/
theorem pid_free_after_exit_conc (ops : List Reg2.Op) (hord : Reg2.Ordered Reg2.init ops = true) (a : Nat)
    (hs : ((Reg2.run Reg2.init ops).act a).status = Reg2.stopped) :
    Reg2.whereIsPid (Reg2.run Reg2.init ops) a = none ∧ a ∉ Reg2.allPids (Reg2.run Reg2.init ops) := by
  have h1 := Reg2.OInvP.run Reg2.RInv.init Reg2.OInvP.init ops hord a hs
  have h2 : (Reg2.run Reg2.init ops).pids a = false := by rw [(conc_invariant ops).pid a]; exact h1
  refine ⟨by simp [Reg2.whereIsPid, h2], ?_⟩
  intro hm
  simp only [Reg2.allPids, List.mem_filter] at hm
  rw [h2] at hm; cases hm.2

/-- clause 4 for pids (no hypothesis): from the return of `register_pid` until the cell begins to stop,
`where_is_pid` returns it -/
theorem pid_visible_while_running (ops : List Reg2.Op) (a : Nat)
    (hpc : ((Reg2.run Reg2.init ops).act a).pc = .live) (hl : ((Reg2.run Reg2.init ops).act a).remote = false)
    (hst : ((Reg2.run Reg2.init ops).act a).status < Reg2.stopping) :
    Reg2.whereIsPid (Reg2.run Reg2.init ops) a = some a := by
  have h := (conc_invariant ops).pid a
  have : (Reg2.run Reg2.init ops).pids a = true := by rw [h]; simp [Reg2.pidHeld, hpc, hl, hst]
  simp [Reg2.whereIsPid, this]

/-- … and without the caller order the pid lookup returns a cell whose `wait()` has returned -/
theorem wherePid_unsound_without_caller_order :
    let s := Reg2.run Reg2.init [.new 0 none, .regPid 0, .publish 0 2, .publish 0 6]
    Reg2.whereIsPid s 0 = some 0 ∧ (s.act 0).status = Reg2.stopped := by
  decide

/-- non-vacuity of the pid clauses: an ordered run in which the pid is found while the actor runs, and is gone —
from `where_is_pid` and from `get_all_pids` — once it is Stopped -/
example :
    let pre : List Reg2.Op := [.new 0 none, .regPid 0, .publish 0 2]
    let ops := pre ++ [.publish 0 5, .bstep 0, .bstep 0, .bstep 0, .bstep 0, .publish 0 5, .publish 0 6]
    Reg2.Ordered Reg2.init ops = true ∧ Reg2.whereIsPid (Reg2.run Reg2.init pre) 0 = some 0 ∧
    ((Reg2.run Reg2.init ops).act 0).status = 6 ∧ Reg2.whereIsPid (Reg2.run Reg2.init ops) 0 = none ∧
    Reg2.allPids (Reg2.run Reg2.init ops) = [] := by decide

/-! ### (1) several `set_status` callers per cell, model `Reg3` -/

/-- the invariant of the threaded model, for every interleaving and whatever the callers do -/
theorem threads_invariant (ops : List Reg3.Op) : Reg3.TInv (Reg3.run Reg3.init ops) := Reg3.TInv.init.run ops

/-- the election of `set_status` (`status >= Stopping && previous_status < Stopping` on the result of one
`fetch_max`) picks at most one call per cell, ever: two threads are never both inside the cleanup block of one
cell, and the cell is `≥ Stopping` while one is -/
theorem cleanup_elected_once_threads (ops : List Reg3.Op) (a t t' : Nat) (r r' : List Reg2.Stmt) (st st' : Nat)
    (h : (Reg3.run Reg3.init ops).thr a t = .blk r st) (h' : (Reg3.run Reg3.init ops).thr a t' = .blk r' st') :
    t = t' ∧ Reg2.stopping ≤ ((Reg3.run Reg3.init ops).cell a).status := by
  have I := threads_invariant ops
  have e := (I.blkEl a t r st h).1
  have e' := (I.blkEl a t' r' st' h').1
  rw [e] at e'
  refine ⟨Option.some.inj e', (I.elected a).2 ?_⟩
  rw [e]; simp

/-- clause 5 with several callers, from the discipline of the code base (`Reg3.disc`): `where_is` never returns
a cell whose `wait()` has returned -/
theorem whereIs_sound_threads (ops : List Reg3.Op) (hd : Reg3.Disc Reg3.init ops = true) (n a : Nat)
    (h : Reg3.whereIs (Reg3.run Reg3.init ops) n = some a) :
    ((Reg3.run Reg3.init ops).cell a).status ≠ Reg2.stopped :=
  Reg3.sound_of_dinv (threads_invariant ops) (Reg3.DInv.run Reg3.TInv.init Reg3.DInv.init ops hd) n a h

/-- clause 6 with several callers: once every cell that carries the name is Stopped, the name is free -/
theorem name_free_after_exit_threads (ops : List Reg3.Op) (hd : Reg3.Disc Reg3.init ops = true) (n : Nat)
    (hall : ∀ a, ((Reg3.run Reg3.init ops).cell a).name = some n →
      ((Reg3.run Reg3.init ops).cell a).status = Reg2.stopped) :
    Reg3.whereIs (Reg3.run Reg3.init ops) n = none := by
  cases h : Reg3.whereIs (Reg3.run Reg3.init ops) n with
  | none => rfl
  | some a =>
    exact absurd (hall a ((threads_invariant ops).owner n a h).1) (whereIs_sound_threads ops hd n a h)

/-- the pid analogue with several callers: `where_is_pid` returns the cell itself, local, not Stopped; a Stopped
local cell is not in the pid table -/
theorem wherePid_sound_threads (ops : List Reg3.Op) (hd : Reg3.Disc Reg3.init ops = true) (a b : Nat)
    (h : Reg3.whereIsPid (Reg3.run Reg3.init ops) a = some b) :
    b = a ∧ ((Reg3.run Reg3.init ops).cell a).remote = false ∧
    ((Reg3.run Reg3.init ops).cell a).status ≠ Reg2.stopped := by
  have hp : (Reg3.run Reg3.init ops).pids a = true := by
    cases hc : (Reg3.run Reg3.init ops).pids a with
    | true => rfl
    | false => simp [Reg3.whereIsPid, hc] at h
  have hb : b = a := by simp [Reg3.whereIsPid, hp] at h; exact h.symm
  exact ⟨hb, ((threads_invariant ops).pidOwner a hp).1,
    Reg3.pid_sound_of_dinv (threads_invariant ops) (Reg3.DInv.run Reg3.TInv.init Reg3.DInv.init ops hd) a hp⟩

/-- `Reg2.Ordered` read literally ("`Stopped` is published on a cell whose status word is ≥ Stopping") is not
enough as soon as two threads call `set_status` on one cell: thread 0 is elected and still inside its block,
thread 1 publishes `Stopped` -/
theorem status_order_not_enough_with_two_callers :
    let ops : List Reg3.Op := [.new 0 (some 7), .regName 0, .regPid 0, .publish 0 0 2, .publish 0 0 5, .publish 0 1 6]
    Reg3.All Reg3.statusOrdered Reg3.init ops = true ∧
    Reg3.whereIs (Reg3.run Reg3.init ops) 7 = some 0 ∧ ((Reg3.run Reg3.init ops).cell 0).status = Reg2.stopped ∧
    Reg3.whereIsPid (Reg3.run Reg3.init ops) 0 = some 0 := by
  decide

/-- … and neither is "the caller's OWN `set_status(Stopping)` has returned" (the order of the statements of
`ActorLifecycleGuard::cleanup` alone): the second caller's `Stopping` loses the election and returns at once -/
theorem own_order_not_enough_with_two_callers :
    let ops : List Reg3.Op := [.new 0 (some 7), .regName 0, .regPid 0, .publish 0 0 2, .publish 0 0 5, .publish 0 1 5, .publish 0 1 6]
    Reg3.All Reg3.ownOrdered Reg3.init ops = true ∧ Reg3.All Reg3.statusOrdered Reg3.init ops = true ∧
    Reg3.Disc Reg3.init ops = false ∧
    Reg3.whereIs (Reg3.run Reg3.init ops) 7 = some 0 ∧ ((Reg3.run Reg3.init ops).cell 0).status = Reg2.stopped := by
  decide

/-- the precise weakest hypothesis: clause 5 holds in every state of a run iff every `set_status(Stopped)` that
takes effect finds the cell's name entry already removed -/
theorem weakest_hypothesis_exact (ops : List Reg3.Op) :
    Reg3.SoundAlong Reg3.init ops ↔ Reg3.Weakest Reg3.init ops :=
  ⟨Reg3.weakest_of_soundAlong Reg3.TInv.init ops,
   Reg3.soundAlong_of_weakest Reg3.TInv.init (by intro n a h; simp [Reg3.init] at h) ops⟩

/-- the discipline of the code base implies the weakest hypothesis (and is strictly stronger: it is a property
of the program text, `Weakest` one of the run) -/
theorem disc_implies_weakest (ops : List Reg3.Op) (hd : Reg3.Disc Reg3.init ops = true) :
    Reg3.Weakest Reg3.init ops := by
  refine (weakest_hypothesis_exact ops).1 ?_
  have key : ∀ (s : Reg3.State) (ops : List Reg3.Op), Reg3.TInv s → Reg3.DInv s → Reg3.Disc s ops = true →
      Reg3.SoundAlong s ops := by
    intro s ops
    induction ops generalizing s with
    | nil => intro h d _; exact Reg3.sound_of_dinv h d
    | cons op ops ih =>
      intro h d hd
      simp only [Reg3.Disc, Reg3.All, Bool.and_eq_true] at hd
      exact ⟨Reg3.sound_of_dinv h d, ih (Reg3.step s op) (h.step op) (d.step h op hd.1) hd.2⟩
  exact key _ _ Reg3.TInv.init Reg3.DInv.init hd

/-- Reg2's structural assumption made explicit: if every `set_status` call on a cell comes from ONE thread, the
order of that thread's own calls (`Stopped` after its `Stopping` has returned — the text of `cleanup`) IS the
discipline; so clause 5/6 and their pid analogues hold under "one caller + own order" -/
theorem one_caller_own_order_is_enough (ops : List Reg3.Op) (h1 : ops.all Reg3.single = true)
    (h2 : Reg3.All Reg3.ownOrdered Reg3.init ops = true) :
    Reg3.Disc Reg3.init ops = true ∧ Reg3.Sound (Reg3.run Reg3.init ops) := by
  have hd := Reg3.disc_of_single_run Reg3.SInv.init ops h1 h2
  exact ⟨hd, fun n a h => whereIs_sound_threads ops hd n a h⟩

/-- E-SRC: the discipline `Reg3.disc` for the source text.  `set_status(Stopping)` has exactly three call sites:
`ActorLifecycleGuard::cleanup` and the end of `processing_loop` (Send and thread-local); `set_status(Stopped)` on
a local cell only `cleanup` (`stopped_call_sites_match_source`; the other site is for a remote cell, which owns no
registry entry — `unregister_guarded_by_is_local`).  `cleanup` is called only by the guard's `finish` and `drop`,
the guard is not `Clone` (one owner), and `start` runs `processing_loop(..).await` and `lifecycle.finish(evt)`
back to back in the one task it spawns (before the spawn the guard lives in `start`'s own frame): every
`≥ Stopping` publish on a local cell is made by the thread of control that owns the cell's guard, and `Stopped`
comes last in `cleanup`, after its own `set_status(Stopping)` returned -/
theorem stopping_call_sites_match_source :
    Extracted.stoppingCallSites = ["actor.rs:cleanup", "actor.rs:processing_loop", "inner.rs:processing_loop"] ∧
    Extracted.cleanupCallers = ["finish", "drop"] ∧ Extracted.lifecycleGuardIsClone = false ∧
    Extracted.loopThenFinishSameTask = [true, true] ∧
    Extracted.cleanupOrder.head? = some "set_status:Stopping" ∧
    Extracted.cleanupOrder.getLast? = some "set_status:Stopped" := by decide

/-- non-vacuity: a run that obeys the discipline with two threads on one cell (thread 1 publishes `Running`
while thread 0 stops the cell); same-name constructors lose while the entry is held (by the stopping cell, then\nby a constructor that is rolled back), a successor takes the name after the exit -/
example :
    let ops : List Reg3.Op := [.new 0 (some 7), .regName 0, .regPid 0, .publish 0 1 2, .publish 0 0 5, .publish 0 1 4,
      .bstep 0 0, .bstep 0 0, .new 1 (some 7), .regName 1, .bstep 0 0, .bstep 0 0, .publish 0 0 5, .publish 0 0 6,
      .new 2 (some 7), .regName 2, .regPidFail 2, .new 3 (some 7), .regName 3, .rollback 2, .new 4 (some 7), .regName 4,
      .regPid 4]
    Reg3.Disc Reg3.init ops = true ∧ Reg3.whereIs (Reg3.run Reg3.init ops) 7 = some 4 ∧
    ((Reg3.run Reg3.init ops).cell 0).status = 6 ∧ ((Reg3.run Reg3.init ops).cell 1).cons = .failed ∧
    ((Reg3.run Reg3.init ops).cell 3).cons = .failed ∧ ((Reg3.run Reg3.init ops).cell 2).cons = .failed ∧
    Reg3.whereIsPid (Reg3.run Reg3.init ops) 0 = none := by decide


/-! ### (3) the window ops of the E-THR replay (`Model/RegistryWindow.lean`) against the atomic `register` -/

section
open Registry

/-- the two halves the cluster E-THR engine logs when a random schedule leaves a constructor parked at
`new.reg_pid` (`regname k n` = `regNameOnly`, `regpid k` = `regPidOnly`) compose, on every reachable state, to the
atomic `register` op all the `Model/Registry` theorems are about — same state, same answer, same pid events; what
may happen BETWEEN the halves is the subject of `Reg2` (`name_without_pid_window`) and `Reg3` -/
theorem window_halves_compose (ops : List Registry.Op) (a n : Nat)
    (hok : (step false (run false init ops) (.register a n)).2 = .ok) :
    regPidOnly (regNameOnly (run false init ops) a n).1 a = ((step false (run false init ops) (.register a n)).1, .ok) ∧
    (regNameOnly (run false init ops) a n).2 = .ok ∧
    regPidEvents (regNameOnly (run false init ops) a n).1 a = pidEvents (run false init ops) (.register a n) := by
  have I := inv_run (inv_init false) ops
  generalize run false init ops = s at *
  have hf : fresh s a = true := by
    cases h : fresh s a with
    | true => rfl
    | false => simp [step, h] at hok
  have hw : (whereIs s n).isSome = false := by
    cases h : (whereIs s n).isSome with
    | false => rfl
    | true => simp [step, hf, h] at hok
  have hp : s.pids.contains a = false := by
    cases h : s.pids.contains a with
    | false => rfl
    | true =>
      obtain ⟨x, hx, hid, _⟩ := I.pidHolder a (by simpa using h)
      exact absurd hid (fresh_iff.mp hf x hx)
  have hst : step false s (.register a n) =
      ({ names := s.names ++ [(n, a)], pids := s.pids ++ [a], actors := s.actors ++ [⟨a, some n, false, 0, 0⟩] }, .ok) := by
    simp [step, hf, hw]
  have hn : regNameOnly s a n =
      ({ names := s.names ++ [(n, a)], pids := s.pids, actors := s.actors ++ [⟨a, some n, false, 0, 0⟩] }, .ok) := by
    simp [regNameOnly, hst]
  have hin : inWindow { names := s.names ++ [(n, a)], pids := s.pids, actors := s.actors ++ [⟨a, some n, false, 0, 0⟩] } a = true := by
    simp only [inWindow, getA, getA_append_fresh hf ⟨a, some n, false, 0, 0⟩ rfl, hp]
    rfl
  refine ⟨?_, ?_, ?_⟩
  · rw [hn, hst]; simp [regPidOnly, hin]
  · rw [hn]
  · have hw' : whereIs s n = none := by
      cases h : whereIs s n with
      | none => rfl
      | some b => rw [h] at hw; cases hw
    rw [hn]; simp [regPidEvents, regPidOnly, hin, pidEvents, hf, hw']

end


/-! ### `Reg2` is `Reg3` with one caller per cell -/

/-- every `Reg2` run (any interleaving; the pid monitors dropped) is the `Reg3` run of the same ops issued by
thread 0 of each cell: same name table, same pid table, same name / remote flag / status word of every cell -/
theorem reg2_is_reg3_with_one_caller (ops : List Reg2.Op) :
    (Reg3.ofOps ops).all Reg3.single = true ∧
    (∀ n, (Reg3.run Reg3.init (Reg3.ofOps ops)).names n = (Reg2.run Reg2.init ops).names n) ∧
    (∀ a, (Reg3.run Reg3.init (Reg3.ofOps ops)).pids a = (Reg2.run Reg2.init ops).pids a) ∧
    (∀ a, ((Reg3.run Reg3.init (Reg3.ofOps ops)).cell a).status = ((Reg2.run Reg2.init ops).act a).status ∧
          ((Reg3.run Reg3.init (Reg3.ofOps ops)).cell a).name = ((Reg2.run Reg2.init ops).act a).name ∧
          ((Reg3.run Reg3.init (Reg3.ofOps ops)).cell a).remote = ((Reg2.run Reg2.init ops).act a).remote) := by
  have h := Reg3.Sim.init.run ops
  exact ⟨Reg3.ofOps_single ops, h.names, h.pids, fun a => ⟨(h.cells a).2.2.1, (h.cells a).1, (h.cells a).2.1⟩⟩

/-- … and `Reg2.Ordered` there is `Reg3.Disc` here: `whereIs_sound_conc` is the one-caller instance of
`whereIs_sound_threads` (second proof of it, through `Reg3`) -/
theorem whereIs_sound_conc_via_threads (ops : List Reg2.Op) (hord : Reg2.Ordered Reg2.init ops = true) (n a : Nat)
    (h : (Reg2.run Reg2.init ops).names n = some a) :
    Reg3.Disc Reg3.init (Reg3.ofOps ops) = true ∧ ((Reg2.run Reg2.init ops).act a).status ≠ Reg2.stopped := by
  have hd := Reg3.disc_of_ordered_run Reg3.Sim.init Reg3.TInv.init Reg3.JInv.init Reg3.SInv.init ops hord
  have hs := Reg3.Sim.init.run ops
  refine ⟨hd, ?_⟩
  rw [← (hs.cells a).2.2.1]
  exact whereIs_sound_threads (Reg3.ofOps ops) hd n a (by rw [Reg3.whereIs, hs.names n]; exact h)


/-! ### clauses 1 and 4 with several callers -/

/-- whoever a lookup returns owns the name — constructed with it, local, between its own insert and the removal by
whichever caller was elected (or the rollback) — and two such cells never share a name -/
theorem name_has_one_owner_threads (ops : List Reg3.Op) (n a : Nat)
    (h : Reg3.whereIs (Reg3.run Reg3.init ops) n = some a) :
    ((Reg3.run Reg3.init ops).cell a).name = some n ∧ ((Reg3.run Reg3.init ops).cell a).remote = false ∧
    ∀ b, ((Reg3.run Reg3.init ops).cell b).name = some n → Reg3.Holds (Reg3.run Reg3.init ops) b → b = a := by
  have I := threads_invariant ops
  have E := Reg3.EInv.run Reg3.TInv.init Reg3.SufInv.init Reg3.EInv.init ops
  obtain ⟨h1, h2, _⟩ := I.owner n a h
  refine ⟨h1, h2, fun b hb1 hb2 => ?_⟩
  have := E b n hb1 hb2
  rw [Reg3.whereIs] at h; rw [h] at this; exact (Option.some.inj this).symm

/-- clause 4 with several callers: from the return of the constructor until SOME caller publishes `≥ Stopping`,
`where_is` returns the cell — whatever any number of threads do with the cell meanwhile (`publish` of lower
statuses, late calls that lose) and whatever other cells do under the same name -/
theorem whereIs_visible_threads (ops : List Reg3.Op) (a n : Nat)
    (hb : ((Reg3.run Reg3.init ops).cell a).born = true) (hl : ((Reg3.run Reg3.init ops).cell a).remote = false)
    (hn : ((Reg3.run Reg3.init ops).cell a).name = some n)
    (hst : ((Reg3.run Reg3.init ops).cell a).status < Reg2.stopping) :
    Reg3.whereIs (Reg3.run Reg3.init ops) n = some a := by
  have I := threads_invariant ops
  have E := Reg3.EInv.run Reg3.TInv.init Reg3.SufInv.init Reg3.EInv.init ops
  refine E a n hn ⟨hl, .inr (.inr ⟨I.bornCons a hb, ?_⟩)⟩
  have hel : ((Reg3.run Reg3.init ops).cell a).el = none := by
    cases he : ((Reg3.run Reg3.init ops).cell a).el with
    | none => rfl
    | some t =>
      have := (I.elected a).2 (by rw [he]; simp)
      exact absurd this (Nat.not_le.mpr hst)
  simp [Reg3.elHasName, hel]

end C10

#print axioms C10.wherePid_sound_conc
#print axioms C10.pid_free_after_exit_conc
#print axioms C10.pid_visible_while_running
#print axioms C10.wherePid_unsound_without_caller_order
#print axioms C10.threads_invariant
#print axioms C10.cleanup_elected_once_threads
#print axioms C10.whereIs_sound_threads
#print axioms C10.name_free_after_exit_threads
#print axioms C10.wherePid_sound_threads
#print axioms C10.status_order_not_enough_with_two_callers
#print axioms C10.own_order_not_enough_with_two_callers
#print axioms C10.weakest_hypothesis_exact
#print axioms C10.disc_implies_weakest
#print axioms C10.one_caller_own_order_is_enough
#print axioms C10.stopping_call_sites_match_source
#print axioms C10.window_halves_compose
#print axioms C10.reg2_is_reg3_with_one_caller
#print axioms C10.whereIs_sound_conc_via_threads
#print axioms C10.name_has_one_owner_threads
#print axioms C10.whereIs_visible_threads
