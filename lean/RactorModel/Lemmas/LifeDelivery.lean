import RactorModel.Lemmas.LifeWorld
import RactorModel.Lemmas.LifeC01

/-! Delivery and frame for the composed world: what `World.effects` / `World.cascade` do to the
*other* actors of a step.

* The only single-actor ops they apply are `supArrive`, `treeTaken`, `kidAdd`, `kidDel`; none of them
  moves a phase, emits a supervision event, or creates / removes a slot.
* `World.effectsDone` / `cascadeDone` say (by the same recursion) whether the fuel sufficed; the driver
  evaluates them on every replayed step (`model-fuel-exhausted` otherwise), so no effect is ever dropped
  silently.
* **Delivery**: when the fuel sufficed, the supervision arrivals of the step are exactly the events
  emitted in it, in emission order, each handed once to the port of its target (provided the target has
  a cell); nothing else arrives anywhere.
* **Frame**: an actor that shows no output in the step is unchanged.
-/

namespace Life

/-! ### the ops that effects apply -/

/-- The single-actor ops that `World.effects` / `World.cascade` apply to other actors. -/
def AOp.isRouted : AOp → Bool
  | .supArrive _ | .treeTaken | .kidAdd _ | .kidDel _ | .monDrop _ => true
  | _ => false

theorem routed_phase (a : Actor) (op : AOp) (h : AOp.isRouted op = true) : (a.step op).1.phase = a.phase := by
  have hk := Life.C01.apiKill_phase
  cases op <;> simp [AOp.isRouted] at h <;>
    simp only [Actor.step, Actor.stepCore] <;> (split <;> try rfl) <;>
    simp only [Actor.envOp, opSupArrive, opTreeTaken] <;> (repeat' split) <;> simp [hk]

/-- Emitted supervision events among tagged outputs: (target, event). -/
def emitsOf : List WOut → List (Nat × SupEv)
  | [] => []
  | (_, .ev (.emit p e)) :: l => (p, e) :: emitsOf l
  | (_, .eff (.monSend m e)) :: l => (m, e) :: emitsOf l     -- the copy for monitor `m`
  | _ :: l => emitsOf l

/-- Supervision arrivals among tagged outputs: (receiver, event). -/
def arrivalsOf : List WOut → List (Nat × SupEv)
  | [] => []
  | (p, .ev (.supArrive e)) :: l => (p, e) :: arrivalsOf l
  | _ :: l => arrivalsOf l

theorem emitsOf_append (l1 l2 : List WOut) : emitsOf (l1 ++ l2) = emitsOf l1 ++ emitsOf l2 := by
  induction l1 with
  | nil => rfl
  | cons o l ih =>
    obtain ⟨i, o⟩ := o
    cases o with
    | ev e => cases e <;> simp [emitsOf, ih]
    | eff x => cases x <;> simp [emitsOf, ih]
    | _ => simp [emitsOf, ih]

theorem arrivalsOf_append (l1 l2 : List WOut) : arrivalsOf (l1 ++ l2) = arrivalsOf l1 ++ arrivalsOf l2 := by
  induction l1 with
  | nil => rfl
  | cons o l ih =>
    obtain ⟨i, o⟩ := o
    cases o with
    | ev e => cases e <;> simp [arrivalsOf, ih]
    | _ => simp [arrivalsOf, ih]

/-- Outputs (of one actor) that carry neither an emitted event nor an arrival. -/
def quiet (l : List Out) : Prop :=
  ∀ o ∈ l, (∀ p e, o ≠ .ev (.emit p e)) ∧ (∀ e, o ≠ .ev (.supArrive e)) ∧ (∀ m e, o ≠ .eff (.monSend m e)) ∧
    (∀ c l, o ≠ .eff (.spawnChild c l))

/-- No callback of the step spawned a child (`Fx.spawnChild`): the set of actors that have a cell does not
change while the effects are routed. -/
def noSpawn (l : List WOut) : Prop := ∀ o ∈ l, ∀ c loc, o.2 ≠ .eff (.spawnChild c loc)

theorem noSpawn_tag_quiet (i : Nat) (l : List Out) (h : quiet l) : noSpawn (l.map (fun o => (i, o))) := by
  intro o ho c loc
  simp only [List.mem_map] at ho
  obtain ⟨x, hx, rfl⟩ := ho
  exact (h x hx).2.2.2 c loc

theorem emitsOf_tag_quiet (i : Nat) (l : List Out) (h : quiet l) : emitsOf (l.map (fun o => (i, o))) = [] := by
  induction l with
  | nil => rfl
  | cons o l ih =>
    have ho := h o (by simp)
    have hl : quiet l := fun x hx => h x (by simp [hx])
    cases o with
    | ev e => cases e <;> first | (exact absurd rfl (ho.1 _ _)) | simpa [emitsOf] using ih hl
    | eff x => cases x <;> first | (exact absurd rfl (ho.2.2.1 _ _)) | simpa [emitsOf] using ih hl
    | _ => simpa [emitsOf] using ih hl

theorem arrivalsOf_tag_quiet (i : Nat) (l : List Out) (h : quiet l) : arrivalsOf (l.map (fun o => (i, o))) = [] := by
  induction l with
  | nil => rfl
  | cons o l ih =>
    have ho := h o (by simp)
    have hl : quiet l := fun x hx => h x (by simp [hx])
    cases o with
    | ev e => cases e <;> first | (exact absurd rfl (ho.2.1 _)) | simpa [arrivalsOf] using ih hl
    | _ => simpa [arrivalsOf] using ih hl

theorem tails_quiet (a a' : Actor) : quiet (supTail a a' ++ snapTail a') := by
  intro o ho
  simp only [supTail, snapTail, List.mem_append] at ho
  rcases ho with ho | ho <;> (split at ho <;> simp at ho; subst ho; simp)

theorem opTreeTaken_quiet (a : Actor) : quiet (opTreeTaken a).2 := by
  unfold opTreeTaken
  simp only []
  split
  · intro o ho
    simp only [List.mem_append, List.mem_cons, List.mem_nil_iff, or_false] at ho
    rcases ho with ho | ho
    · split at ho
      · simp at ho; subst ho; simp
      · cases ho
    · subst ho; simp
  · intro o ho
    simp only [List.mem_cons, List.mem_nil_iff, or_false] at ho
    subst ho; simp

theorem stepCore_quiet (a : Actor) (op : AOp)
    (h : op = .treeTaken ∨ (∃ c, op = .kidAdd c) ∨ (∃ c, op = .kidDel c) ∨ ∃ c, op = .monDrop c) :
    quiet (a.stepCore op).2 := by
  have hnote : ∀ t : String, quiet [Out.note t] := by
    intro t o ho; simp at ho; subst ho; simp
  rcases h with rfl | ⟨c, rfl⟩ | ⟨c, rfl⟩ | ⟨c, rfl⟩
  · simp only [Actor.stepCore]; split
    · exact hnote _
    · exact opTreeTaken_quiet a
  · simp only [Actor.stepCore]; split
    · exact hnote _
    · intro o ho; simp [Actor.envOp] at ho
  · simp only [Actor.stepCore]; split
    · exact hnote _
    · intro o ho; simp [Actor.envOp] at ho
  · simp only [Actor.stepCore]; split
    · exact hnote _
    · simp only [Actor.envOp]; exact hnote _

/-- `treeTaken`, `kidAdd`, `kidDel` are quiet. -/
theorem step_quiet (a : Actor) (op : AOp)
    (h : op = .treeTaken ∨ (∃ c, op = .kidAdd c) ∨ (∃ c, op = .kidDel c) ∨ ∃ c, op = .monDrop c) :
    quiet (a.step op).2 := by
  intro o ho
  rw [step_eq, List.append_assoc, List.mem_append] at ho
  rcases ho with ho | ho
  · exact stepCore_quiet a op h o ho
  · exact tails_quiet _ _ o ho

/-- The outputs of handing `e` to an actor's port: exactly one arrival when it has a cell. -/
theorem supArrive_outs (a : Actor) (e : SupEv) :
    (a.phase ≠ .fresh → ∃ tl, (a.step (.supArrive e)).2 = .ev (.supArrive e) :: tl ∧ quiet tl) ∧
    (a.phase = .fresh → quiet (a.step (.supArrive e)).2) := by
  constructor
  · intro hnf
    refine ⟨supTail a (a.stepCore (.supArrive e)).1 ++ snapTail (a.stepCore (.supArrive e)).1, ?_, tails_quiet _ _⟩
    rw [step_eq]
    simp only [Actor.stepCore, hnf, ↓reduceIte, Actor.envOp, opSupArrive]
    split <;> simp
  · intro hf
    intro o ho
    rw [step_eq, List.append_assoc, List.mem_append] at ho
    rcases ho with ho | ho
    · simp [Actor.stepCore, hf] at ho; subst ho; simp
    · exact tails_quiet _ _ o ho

/-- Whether `p` has a cell in `w` (an event handed to it is an arrival). -/
def World.hasCell (w : World) (p : Nat) : Bool := decide (p < w.actors.length) && decide ((w.get p).phase ≠ .fresh)

theorem apply_length (w : World) (i : Nat) (op : AOp) : (w.apply i op).1.actors.length = w.actors.length := by
  unfold World.apply; split <;> simp [World.set]

theorem apply_routed_phase (w : World) (i : Nat) (op : AOp) (h : AOp.isRouted op = true) (j : Nat) :
    ((w.apply i op).1.get j).phase = (w.get j).phase := by
  unfold World.apply
  split
  · rename_i hi
    by_cases hij : j = i
    · subst hij; simp only []; rw [get_set_self _ _ _ hi]; exact routed_phase _ _ h
    · simp only []; rw [get_set_other _ _ hij]
  · rfl

theorem apply_routed_hasCell (w : World) (i : Nat) (op : AOp) (h : AOp.isRouted op = true) (p : Nat) :
    (w.apply i op).1.hasCell p = w.hasCell p := by
  simp [World.hasCell, apply_length, apply_routed_phase w i op h p]

theorem apply_quiet (w : World) (i : Nat) (op : AOp)
    (h : op = .treeTaken ∨ (∃ c, op = .kidAdd c) ∨ (∃ c, op = .kidDel c) ∨ ∃ c, op = .monDrop c) :
    emitsOf (w.apply i op).2 = [] ∧ arrivalsOf (w.apply i op).2 = [] := by
  unfold World.apply
  split
  · exact ⟨emitsOf_tag_quiet i _ (step_quiet _ _ h), arrivalsOf_tag_quiet i _ (step_quiet _ _ h)⟩
  · exact ⟨rfl, rfl⟩

theorem apply_supArrive (w : World) (p : Nat) (e : SupEv) :
    emitsOf (w.apply p (.supArrive e)).2 = [] ∧
    arrivalsOf (w.apply p (.supArrive e)).2 = (if w.hasCell p then [(p, e)] else []) := by
  unfold World.apply
  by_cases hp : p < w.actors.length
  · simp only [hp, ↓reduceIte]
    by_cases hf : (w.get p).phase = .fresh
    · have hq := (supArrive_outs (w.get p) e).2 hf
      simp [World.hasCell, hp, hf, emitsOf_tag_quiet p _ hq, arrivalsOf_tag_quiet p _ hq]
    · obtain ⟨tl, htl, hq⟩ := (supArrive_outs (w.get p) e).1 hf
      rw [htl]
      simp [World.hasCell, hp, hf, emitsOf, arrivalsOf, emitsOf_tag_quiet p _ hq, arrivalsOf_tag_quiet p _ hq]
  · simp [hp, World.hasCell, emitsOf, arrivalsOf]

/-- The deliverable part of the emitted events: the targets that have a cell. -/
def deliverable (w : World) (l : List (Nat × SupEv)) : List (Nat × SupEv) := l.filter (fun x => w.hasCell x.1)

/-- **Delivery** (and the invariance of "who has a cell") for `effects` and `cascade`, by induction on
the fuel: when the fuel sufficed, the arrivals produced are exactly the deliverable emitted events of
the processed outputs, in order; the effects themselves emit nothing. -/
theorem effects_cascade_delivery (fuel : Nat) :
    (∀ w outs, noSpawn outs → (∀ p, (World.effects fuel w outs).1.hasCell p = w.hasCell p) ∧
      emitsOf (World.effects fuel w outs).2 = [] ∧
      (World.effectsDone fuel w outs = true →
        arrivalsOf (World.effects fuel w outs).2 = deliverable w (emitsOf outs)) ∧
      (emitsOf outs = [] → arrivalsOf (World.effects fuel w outs).2 = [])) ∧
    (∀ w kids, (∀ p, (World.cascade fuel w kids).1.hasCell p = w.hasCell p) ∧
      emitsOf (World.cascade fuel w kids).2 = [] ∧ arrivalsOf (World.cascade fuel w kids).2 = []) := by
  induction fuel with
  | zero =>
    refine ⟨fun w outs _ => ⟨fun _ => rfl, rfl, ?_, fun _ => rfl⟩, fun w kids => ⟨fun _ => rfl, rfl, rfl⟩⟩
    intro hd
    cases outs with
    | nil => rfl
    | cons o l => simp [World.effectsDone] at hd
  | succ n ih =>
    obtain ⟨ihe, ihc⟩ := ih
    constructor
    · intro w outs hns
      cases outs with
      | nil => exact ⟨fun _ => rfl, rfl, fun _ => rfl, fun _ => rfl⟩
      | cons o rest =>
        obtain ⟨src, o⟩ := o
        have hnsr : noSpawn rest := fun x hx => hns x (by simp [hx])
        -- the effect of the head output
        have head : ∃ r : World × List WOut,
            World.effects (n + 1) w ((src, o) :: rest) =
              ((World.effects n r.1 rest).1, r.2 ++ (World.effects n r.1 rest).2) ∧
            (∀ p, r.1.hasCell p = w.hasCell p) ∧ emitsOf r.2 = [] ∧
            arrivalsOf r.2 = deliverable w (emitsOf [(src, o)]) ∧
            (World.effectsDone (n + 1) w ((src, o) :: rest) = true → World.effectsDone n r.1 rest = true) := by
          cases o with
          | ev e =>
            cases e with
            | emit p e =>
              refine ⟨w.apply p (.supArrive e), rfl, fun q => apply_routed_hasCell w p _ rfl q,
                (apply_supArrive w p e).1, ?_, fun h => by simpa [World.effectsDone] using h⟩
              rw [(apply_supArrive w p e).2]
              simp [deliverable, emitsOf]
              split <;> simp_all
            | _ => exact ⟨(w, []), rfl, fun _ => rfl, rfl, rfl, fun h => by simpa [World.effectsDone] using h⟩
          | note t => exact ⟨(w, []), rfl, fun _ => rfl, rfl, rfl, fun h => by simpa [World.effectsDone] using h⟩
          | eff x =>
            cases x with
            | cascade kids =>
              obtain ⟨c1, c2, c3⟩ := ihc w kids
              exact ⟨World.cascade n w kids, rfl, c1, c2, by simpa [deliverable, emitsOf] using c3,
                fun h => by simp only [World.effectsDone, Bool.and_eq_true] at h; exact h.2⟩
            | link p =>
              exact ⟨w.apply p (.kidAdd src), rfl, fun q => apply_routed_hasCell w p _ rfl q,
                (apply_quiet w p _ (Or.inr (Or.inl ⟨src, rfl⟩))).1,
                by simpa [deliverable, emitsOf] using (apply_quiet w p _ (Or.inr (Or.inl ⟨src, rfl⟩))).2,
                fun h => by simpa [World.effectsDone] using h⟩
            | unlink p =>
              exact ⟨w.apply p (.kidDel src), rfl, fun q => apply_routed_hasCell w p _ rfl q,
                (apply_quiet w p _ (Or.inr (Or.inr (Or.inl ⟨src, rfl⟩)))).1,
                by simpa [deliverable, emitsOf] using (apply_quiet w p _ (Or.inr (Or.inr (Or.inl ⟨src, rfl⟩)))).2,
                fun h => by simpa [World.effectsDone] using h⟩
            | spawnChild c loc => exact absurd rfl (hns (src, _) (by simp) c loc)
            | monSend m e =>
              have ha := apply_supArrive w m e
              have hdel : arrivalsOf (w.apply m (.supArrive e)).2 = deliverable w (emitsOf [(src, Out.eff (.monSend m e))]) := by
                rw [ha.2]; simp [deliverable, emitsOf]; split <;> simp_all
              by_cases hpo : (w.get m).portsOpen = true
              · refine ⟨w.apply m (.supArrive e), by simp [World.effects, hpo],
                  fun q => apply_routed_hasCell w m _ rfl q, ha.1, hdel,
                  fun h => by simpa [World.effectsDone, hpo] using h⟩
              · have hq := apply_quiet (w.apply m (.supArrive e)).1 src (.monDrop m) (Or.inr (Or.inr (Or.inr ⟨m, rfl⟩)))
                refine ⟨(((w.apply m (.supArrive e)).1.apply src (.monDrop m)).1,
                    (w.apply m (.supArrive e)).2 ++ ((w.apply m (.supArrive e)).1.apply src (.monDrop m)).2),
                  by simp [World.effects, hpo], ?_, ?_, ?_, fun h => by simpa [World.effectsDone, hpo] using h⟩
                · intro q
                  rw [apply_routed_hasCell _ src _ rfl q, apply_routed_hasCell w m _ rfl q]
                · rw [emitsOf_append, ha.1, hq.1]; rfl
                · rw [arrivalsOf_append, hq.2, List.append_nil]; exact hdel
        obtain ⟨r, hr, h1, h2, h3, h4⟩ := head
        obtain ⟨e1, e2, e3, e4⟩ := ihe r.1 rest hnsr
        rw [hr]
        have hsplit : emitsOf ((src, o) :: rest) = emitsOf [(src, o)] ++ emitsOf rest := by
          rw [← emitsOf_append]; rfl
        refine ⟨fun p => by rw [e1 p, h1 p], by rw [emitsOf_append, h2, e2]; rfl, ?_, ?_⟩
        · intro hd
          rw [arrivalsOf_append, h3, e3 (h4 hd)]
          have hcell : (fun x : Nat × SupEv => r.1.hasCell x.1) = (fun x => w.hasCell x.1) := by
            funext x; exact h1 x.1
          simp only [deliverable, hsplit, List.filter_append, hcell]
        · intro hne
          rw [hsplit] at hne
          have hn1 : emitsOf [(src, o)] = [] := (List.append_eq_nil_iff.mp hne).1
          have hn2 : emitsOf rest = [] := (List.append_eq_nil_iff.mp hne).2
          rw [arrivalsOf_append, h3, hn1, e4 hn2]
          rfl
    · intro w kids
      cases kids with
      | nil => exact ⟨fun _ => rfl, rfl, rfl⟩
      | cons c cs =>
        simp only [World.cascade]
        have ha := apply_quiet w c .treeTaken (Or.inl rfl)
        have hq : noSpawn (w.apply c .treeTaken).2 := by
          unfold World.apply
          split
          · exact noSpawn_tag_quiet c _ (step_quiet _ _ (Or.inl rfl))
          · intro o ho; cases ho
        obtain ⟨e1, e2, _, e4⟩ := ihe (w.apply c .treeTaken).1 (w.apply c .treeTaken).2 hq
        -- the nested effects process only quiet outputs: no emitted event, so no arrival
        have e3 : arrivalsOf (World.effects n (w.apply c .treeTaken).1 (w.apply c .treeTaken).2).2 = [] := e4 ha.1
        obtain ⟨c1, c2, c3⟩ := ihc (World.effects n (w.apply c .treeTaken).1 (w.apply c .treeTaken).2).1 cs
        refine ⟨fun p => by rw [c1 p, e1 p, apply_routed_hasCell w c _ rfl p], ?_, ?_⟩
        · simp [emitsOf_append, ha.1, e2, c2]
        · simp [arrivalsOf_append, ha.2, e3, c3]


/-! ### frame: an actor without outputs is untouched -/

theorem routed_nonempty (a : Actor) (op : AOp) (h : AOp.isRouted op = true) : (a.step op).2 ≠ [] := by
  rw [step_eq]
  by_cases hf : a.phase = .fresh
  · have : (a.stepCore op).2 = [.note "nocell"] := by
      cases op <;> simp [AOp.isRouted] at h <;> simp [Actor.stepCore, hf]
    simp [this]
  · have hp : (a.stepCore op).1.phase ≠ .fresh := by
      have := routed_phase a op h
      simp only [Actor.step] at this
      rw [this]; exact hf
    simp [snapTail, hp]

theorem apply_frame (w : World) (j : Nat) (op : AOp) (h : AOp.isRouted op = true) (i : Nat)
    (hi : ∀ o ∈ (w.apply j op).2, o.1 ≠ i) : (w.apply j op).1.get i = w.get i := by
  unfold World.apply at hi ⊢
  split
  · rename_i hj
    simp only [hj, ↓reduceIte] at hi
    by_cases hij : i = j
    · subst hij
      exfalso
      have hne := routed_nonempty (w.get i) op h
      cases hout : ((w.get i).step op).2 with
      | nil => exact hne hout
      | cons o l => exact hi (i, o) (by simp [hout]) rfl
    · simp only []; exact get_set_other _ _ hij
  · rfl

theorem apply_spawnInstant_frame (w1 : World) (c src : Nat) (loc : Bool) (i : Nat)
    (hout : ∀ x ∈ (w1.apply c (.spawnInstant (some src) none true loc)).2, x.1 ≠ i) :
    (w1.apply c (.spawnInstant (some src) none true loc)).1.get i = w1.get i := by
  unfold World.apply at hout ⊢
  split
  · rename_i hc
    simp only [hc, ↓reduceIte] at hout
    by_cases hic : i = c
    · subst hic
      exfalso
      have hne : ((w1.get i).step (.spawnInstant (some src) none true loc)).2 ≠ [] := by
        rw [step_eq]
        simp only [Actor.stepCore, opSpawnInstant]
        (repeat' split) <;> simp
      cases hl : ((w1.get i).step (.spawnInstant (some src) none true loc)).2 with
      | nil => exact hne hl
      | cons o l => exact hout (i, o) (by simp [hl]) rfl
    · simp only []; exact get_set_other _ _ hic
  · rfl

theorem effects_cascade_frame (fuel : Nat) (i : Nat) :
    (∀ w outs, (∀ o ∈ (World.effects fuel w outs).2, o.1 ≠ i) → (World.effects fuel w outs).1.get i = w.get i) ∧
    (∀ w kids, (∀ o ∈ (World.cascade fuel w kids).2, o.1 ≠ i) → (World.cascade fuel w kids).1.get i = w.get i) := by
  induction fuel with
  | zero => exact ⟨fun _ _ _ => rfl, fun _ _ _ => rfl⟩
  | succ n ih =>
    obtain ⟨ihe, ihc⟩ := ih
    constructor
    · intro w outs hi
      cases outs with
      | nil => rfl
      | cons o rest =>
        obtain ⟨src, o⟩ := o
        simp only [World.effects] at hi ⊢
        have hsplit : ∀ (r : World × List WOut), (∀ x ∈ r.2 ++ (World.effects n r.1 rest).2, x.1 ≠ i) →
            r.1.get i = w.get i → (World.effects n r.1 rest).1.get i = w.get i := by
          intro r hx hr
          rw [ihe r.1 rest (fun x hx' => hx x (by simp [hx'])), hr]
        cases o with
        | ev e =>
          cases e with
          | emit p e => exact hsplit _ hi (apply_frame w _ _ rfl i (fun x hx => hi x (by simp [hx])))
          | _ => exact hsplit (w, []) hi rfl
        | note t => exact hsplit (w, []) hi rfl
        | eff x =>
          cases x with
          | cascade kids => exact hsplit _ hi (ihc w _ (fun x hx => hi x (by simp [hx])))
          | link p => exact hsplit _ hi (apply_frame w _ _ rfl i (fun x hx => hi x (by simp [hx])))
          | unlink p => exact hsplit _ hi (apply_frame w _ _ rfl i (fun x hx => hi x (by simp [hx])))
          | spawnChild c loc =>
            refine hsplit _ hi ?_
            have hslot : (if c = w.actors.length then ({ w with actors := w.actors ++ [Actor.init c] } : World) else w).get i = w.get i := by
              split
              · rename_i h; exact get_addSlot w c i h
              · rfl
            rw [apply_spawnInstant_frame _ c src loc i (fun x hx => hi x (by simp [hx])), hslot]
          | monSend m e =>
            by_cases hpo : (w.get m).portsOpen = true
            · simp only [hpo, ↓reduceIte] at hi ⊢
              exact hsplit _ hi (apply_frame w _ _ rfl i (fun x hx => hi x (by simp [hx])))
            · simp only [hpo, Bool.false_eq_true, ↓reduceIte] at hi ⊢
              have h1 := apply_frame w m (.supArrive e) rfl i (fun x hx => hi x (by simp [hx]))
              have h2 := apply_frame (w.apply m (.supArrive e)).1 src (.monDrop m) rfl i
                (fun x hx => hi x (by simp [hx]))
              exact hsplit (((w.apply m (.supArrive e)).1.apply src (.monDrop m)).1,
                (w.apply m (.supArrive e)).2 ++ ((w.apply m (.supArrive e)).1.apply src (.monDrop m)).2) hi
                (by rw [h2, h1])
    · intro w kids hi
      cases kids with
      | nil => rfl
      | cons c cs =>
        simp only [World.cascade] at hi ⊢
        rw [ihc _ cs (fun x hx => hi x (by simp [hx])),
          ihe _ _ (fun x hx => hi x (by simp [hx])),
          apply_frame w c .treeTaken rfl i (fun x hx => hi x (by simp [hx]))]


/-! ### one harness op -/

theorem hasCell_tables (w : World) (op : Op) (outs : List WOut) (p : Nat) :
    (w.tables op outs).hasCell p = w.hasCell p := by
  have hl : (w.tables op outs).actors.length = w.actors.length := by
    unfold World.tables; split <;> (try split) <;> rfl
  simp [World.hasCell, hl, get_tables]

/-- **Delivery for one harness op**: when the fuel sufficed (`stepDone`, checked by the driver on every
replayed step), the supervision arrivals among the other actors' outputs are exactly the events the
target emitted in this step whose target has a cell — same events, same order, each once — and the
effects emit no further event. -/
theorem step_delivery (w : World) (op : Op) (hd : w.stepDone op = true) (hns : noSpawn (w.step op).2.1) :
    arrivalsOf (w.step op).2.2 = deliverable (w.step op).1 (emitsOf (w.step op).2.1) ∧
    emitsOf (w.step op).2.2 = [] := by
  unfold World.step World.stepDone at *
  cases op with
  | case => exact ⟨rfl, rfl⟩
  | _ =>
    simp only [] at hd ⊢
    split
    · exact ⟨rfl, rfl⟩
    · rename_i a aop htgt
      simp only [htgt] at hd hns
      simp only [] at hns ⊢
      generalize (if a = w.actors.length then ({ w with actors := w.actors ++ [Actor.init a] } : World) else w) = w0 at hd hns ⊢
      obtain ⟨e1, e2, e3, _⟩ := (effects_cascade_delivery
        (4 * (w0.actors.length + 1) * ((w0.apply a aop).2.length + 1) + 8)).1 (w0.apply a aop).1 (w0.apply a aop).2 hns
      refine ⟨?_, e2⟩
      rw [e3 hd]
      simp only [deliverable]
      congr 1
      funext x
      rw [hasCell_tables, e1]

/-- **Frame for one harness op**: an actor other than the target that shows no output among the effects
of the step is exactly as it was (state and all): unrelated actors keep running untouched. -/
theorem step_frame (w : World) (op : Op) (i : Nat)
    (htgt : ∀ a aop, op.target w = some (a, aop) → a ≠ i)
    (hi : ∀ o ∈ (w.step op).2.2, o.1 ≠ i) (hc : op ≠ .case) : (w.step op).1.get i = w.get i := by
  unfold World.step at *
  cases op with
  | case => exact absurd rfl hc
  | _ =>
    simp only [] at hi ⊢
    split
    · rfl
    · rename_i a aop ht
      simp only [ht] at hi
      simp only [] at hi ⊢
      have hai : i ≠ a := fun h => htgt a aop ht h.symm
      have hslot : (if a = w.actors.length then ({ w with actors := w.actors ++ [Actor.init a] } : World) else w).get i = w.get i := by
        split
        · rename_i h; exact get_addSlot w a i h
        · rfl
      generalize (if a = w.actors.length then ({ w with actors := w.actors ++ [Actor.init a] } : World) else w) = w0 at hi hslot ⊢
      rw [get_tables, (effects_cascade_frame _ i).1 _ _ hi]
      unfold World.apply
      split
      · simp only []; rw [get_set_other _ _ hai, hslot]
      · exact hslot

/-- An event handed to a port that is open is enqueued at the end of the supervision queue. -/
theorem supArrive_enqueues (a : Actor) (e : SupEv) (h : a.portsOpen = true) :
    (opSupArrive a e).1.supQ = a.supQ ++ [e] := by
  simp [opSupArrive, h]

end Life
