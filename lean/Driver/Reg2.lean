import RactorModel.Model.RegistryConc
import Driver.Common

/-! Driver for `Model/RegistryConc.lean` (C10, round 4), harness `hcluster/src/bin/regmon.rs`.

An API-level op is the sequence of atomic steps (`Reg2.Op`) the call executes when nothing interleaves;
the observation after it is compared with the implementation's, and the property clauses are judged on
the implementation's own lines. -/

namespace Driver.Reg2D
open Driver

structure DState where
  s : Reg2.State := {}
  /-- indices whose spawn returned a cell -/
  shown : List Nat := []
  logSeen : Nat := 0
  /-- the index parked between its name insert and its pid insert -/
  win : Option Nat := none
  /-- thread-local actors (the harness never subscribes them as listeners) -/
  tl : List Nat := []
  -- what the implementation itself said so far (for the clauses)
  implNames : String := "-"
  implSpawned : List String := []          -- indices whose constructor reached the pid table (res ok / start)
  implEvs : List (String × Bool × String) := []   -- (listener, spawn?, actor) of this case

/-- keep the model's maps tabulated -/
def norm (s : Reg2.State) : Reg2.State :=
  let n := s.n + 1
  let act := (Array.range n).map s.act
  let names := (Array.range 8).map s.names
  let pids := (Array.range n).map s.pids
  let mons := (Array.range n).map s.mons
  { s with act := fun x => (act[x]?).getD {}, names := fun x => (names[x]?).getD none,
           pids := fun x => (pids[x]?).getD false, mons := fun x => (mons[x]?).getD false }

def runOps (s : Reg2.State) (ops : List Reg2.Op) : Reg2.State := ops.foldl (fun s op => norm (Reg2.step s op)) s

def exitOps (i : Nat) : List Reg2.Op :=
  [.publish i Reg2.stopping, .bstep i, .bstep i, .bstep i, .bstep i, .publish i Reg2.stopped]

def alive (s : Reg2.State) (i : Nat) : Bool := Reg2.pidHeld (s.act i)

def parseName (w : String) : Option Nat := if w == "-" then none else w.toNat?

/-- the constructor up to (not including) the pid insert; `true` = still going -/
def construct (s : Reg2.State) (i : Nat) (name : Option Nat) : Reg2.State × Bool :=
  let s1 := runOps s ([.new i name] ++ (if name.isSome then [.regName i] else []))
  (s1, (s1.act i).pc == .consPid)

def apply (st : DState) (ws : List String) : DState × String :=
  match ws with
  | ["case", _] => ({ s := {} }, "unit")
  | [kind, i, nm] =>
    if kind == "wina" then
      let i := i.toNat?.getD 0
      let (s1, going) := construct st.s i (parseName nm)
      if going then ({ st with s := s1, win := some i }, "win") else ({ st with s := s1 }, "dup")
    else if kind == "spawn" || kind == "spawnfail" || kind == "spawntl" || kind == "spawntlfail" then
      let i := i.toNat?.getD 0
      let (s1, going) := construct st.s i (parseName nm)
      if !going then ({ st with s := s1 }, "dup")
      else
        let s2 := runOps s1 [.regPid i, .publish i 1]
        if kind == "spawn" then ({ st with s := runOps s2 [.publish i 2], shown := st.shown ++ [i] }, "ok")
        else if kind == "spawntl" then
          ({ st with s := runOps s2 [.publish i 2], shown := st.shown ++ [i], tl := st.tl ++ [i] }, "ok")
        else ({ st with s := runOps s2 (exitOps i) }, "start")
    else (st, "bad-op")
  | [ckind, i, nm, j] =>
    if ckind != "collide" && ckind != "collidetl" then (st, "bad-op") else
    let i := i.toNat?.getD 0
    let j := j.toNat?.getD 0
    if !(st.shown.contains j && alive st.s j) then (st, "skip")
    else
      let name := parseName nm
      let (s1, going) := construct st.s i name
      if !going then ({ st with s := s1 }, "dup")
      else ({ st with s := runOps s1 ([.regPidFail i] ++ (if name.isSome then [.rollback i] else [])) }, "pid")
  | ["winb", i] =>
    let i := i.toNat?.getD 0
    if st.win == some i then
      ({ st with s := runOps st.s [.regPid i, .publish i 1, .publish i 2], shown := st.shown ++ [i], win := none }, "ok")
    else (st, "skip")
  | ["winc", i] =>
    let i := i.toNat?.getD 0
    if st.shown.contains i && alive st.s i then ({ st with s := runOps st.s (exitOps i) }, "unit") else (st, "unit")
  | ["mon", i] =>
    let i := i.toNat?.getD 0
    let (s1, _) := construct st.s i none
    ({ st with s := runOps s1 [.regPid i, .publish i 1, .publish i 2], shown := st.shown ++ [i] }, "ok")
  | ["monitor", i] =>
    let i := i.toNat?.getD 0
    if st.shown.contains i && alive st.s i && !st.tl.contains i then ({ st with s := runOps st.s [.monitor i] }, "unit")
    else (st, "skip")
  | ["demonitor", i] =>
    let i := i.toNat?.getD 0
    if st.shown.contains i then ({ st with s := runOps st.s [.demonitor i] }, "unit") else (st, "unit")
  | [kind, i] =>
    if kind == "stop" || kind == "kill" then
      let i := i.toNat?.getD 0
      if st.shown.contains i && alive st.s i then ({ st with s := runOps st.s (exitOps i) }, "unit") else (st, "unit")
    else (st, "bad-op")
  | _ => (st, "bad-op")

def join (l : List String) : String := if l.isEmpty then "-" else ",".intercalate l

/-- stable sort of the new events by listener -/
def byListener (evs : List (Nat × Bool × Nat)) : List (Nat × Bool × Nat) :=
  let ls := (evs.map (·.1)).eraseDups
  let ls := (ls.toArray.qsort (· < ·)).toList
  ls.flatMap (fun l => evs.filter (·.1 == l))

def observe (st : DState) (res : String) : String :=
  let s := st.s
  let names := (List.range 4).filterMap (fun n => (s.names n).map (fun a => s!"{n}:{a}"))
  let pids := (Reg2.allPids s).map toString
  let sts := ((st.shown.toArray.qsort (· < ·)).toList).map (fun i => s!"{i}:{(s.act i).status}")
  let evs := byListener (s.log.drop st.logSeen)
  let ev := evs.map (fun e => s!"{e.1}{if e.2.1 then "S" else "T"}{e.2.2}")
  s!"res={res} | names={join names} pids={join pids} st={join sts} ev={join ev}"

def field (impl k : String) : String :=
  match (words impl).find? (·.startsWith (k ++ "=")) with
  | some w => (w.drop (k.length + 1)).toString
  | none => "?"

def items (s : String) : List String := if s == "-" || s == "?" then [] else splitOnChar s ','

/-- `0S3` → ("0", true, "3") -/
def parseEv (w : String) : Option (String × Bool × String) :=
  match w.splitOn "S", w.splitOn "T" with
  | [m, a], _ => some (m, true, a)
  | _, [m, a] => some (m, false, a)
  | _, _ => none

def oracle (st : DState) (ws : List String) (impl : String) : List String × DState :=
  let res := field impl "res"
  let names := field impl "names"
  let isCons := match ws with
    | k :: _ => k == "spawn" || k == "spawnfail" || k == "collide" || k == "wina" || k == "spawntl" || k == "spawntlfail" || k == "collidetl"
    | _ => false
  let idx := (ws.drop 1).headD "?"
  let spawned := if isCons && (res == "ok" || res == "start") || ws.head? == some "mon" || (ws.head? == some "winb" && res == "ok")
                 then st.implSpawned ++ [idx] else st.implSpawned
  let stsI := (items (field impl "st")).filterMap (fun w => match splitOnChar w ':' with | [i, v] => some (i, v.toNat?.getD 0) | _ => none)
  let newEvs := (items (field impl "ev")).filterMap parseEv
  let allEvs := st.implEvs ++ newEvs
  let c1 := if isCons && (res == "dup" || res == "pid") && names != st.implNames
            then ["C10.failed-registration-left-a-name"] else []
  -- (the cell parked inside its constructor has its name in the table but has not been handed to anybody)
  let inWin := match st.win with | some i => toString i | none => "none"
  let c2 := if (items names).all (fun w => match splitOnChar w ':' with
                | [_, i] => !i.endsWith "!" && (i == inWin || stsI.any (fun p => p.1 == i && p.2 < 6))
                | _ => false) then [] else ["C10.where-is-returns-stopped-or-foreign-actor"]
  let pidsI := field impl "pids"
  let expect := join ((stsI.filter (fun p => p.2 < 5)).map (·.1))
  let c3 := if pidsI == expect then [] else ["C10.pid-table"]
  -- every event at most once per listener; no listener is told Spawn of an actor after Terminate of it
  -- (the line's events are sorted by listener, so only one listener's own order means anything)
  let dup := (List.range allEvs.length).any (fun i => (allEvs.drop (i + 1)).contains (allEvs.getD i ("", true, "")))
  let order := (List.range allEvs.length).any (fun i =>
      let e := allEvs.getD i ("", true, "")
      !e.2.1 && (allEvs.drop (i + 1)).any (fun f => f.1 == e.1 && f.2.1 && f.2.2 == e.2.2))
  let c4 := if dup || order then ["C10.pid-event-twice-or-spawn-after-terminate"] else []
  let c5 := if newEvs.all (fun e => spawned.contains e.2.2) then [] else ["C10.pid-event-for-a-rejected-or-remote-cell"]
  let st' := if ws.head? == some "case" then { st with implNames := "-", implSpawned := [], implEvs := [] }
             else { st with implNames := names, implSpawned := spawned, implEvs := allEvs }
  (c1 ++ c2 ++ c3 ++ c4 ++ c5, st')

def step (st : DState) (op impl : String) : DState × StepOut :=
  let ws := words op
  let (st1, res) := apply st ws
  let model := observe st1 res
  let st2 := { st1 with logSeen := st1.s.log.length }
  let (orc, st3) := oracle { st2 with implNames := st.implNames, implSpawned := st.implSpawned, implEvs := st.implEvs } ws impl
  let nontrivial := res == "dup" || res == "pid" || res == "start" || field impl "ev" != "-"
  (st3, { model := model, oracle := orc, nontrivial := nontrivial })

def run (ops impl : Array String) : IO Tally := replay ({} : DState) step ops impl

end Driver.Reg2D
