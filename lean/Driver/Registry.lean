import RactorModel.Model.Registry
import RactorModel.Model.RegistryWindow
import Driver.Common

/-! Driver for the `Registry` model (C10).

Every op line is one atomic region of the real code (E-THR: the region a granted thread ran
from the schedule point it was parked at; the harness maps the point to the op) or a whole
API call run to quiescence (E-LTS macros, expanded here into the same atomic ops).
Actors are numbered by the harness (`k`), names are small numbers.

  `case …pid=0|1` / `thrcase …`   new case: fresh model state                → `ok`
  `reg k n` `create k` `proxy k n|-` `pub k st` `unregpid k` `unregname k`   atomic ops
  `regname k n` `regpid k`        cluster E-THR, random schedules: the two halves of `reg k n` when the
                                  thread is left parked at `new.reg_pid` (`Model/RegistryWindow.lean`)
  `skip …`                        a region that touches no registry state     → `ok`
  `lookup n` → `none` | `found k st`     `lookuppid k` → `none` | `found k`
  `waitret k` → `ok`              `spawnret k` → `ok` | `dup` | `fail`
  `spawn k n|- ok|fail` `spawnproxy k n|-` `exit k how` `exitbegin k` `exitend k`   macros

Every impl line is `<answer> | names=n:k,… pids=k,…|x actors=k:n|-:L|R:st,…` — the view read
off the real tables after the op. The oracle is `Registry.failing` on that view plus the
transition clause `okRegister` and "a lookup never returns an actor whose wait returned".
-/

namespace Driver.Registry
open _root_.Registry Driver

structure DState where
  s : State := init
  pidOn : Bool := false
  evOn : Bool := false            -- a pid_registry::monitor listener logs lifecycle events
  prev : Option View := none      -- previous implementation view in this case
  waited : List Nat := []         -- actors whose `wait()` returned (implementation)
  released : List Nat := []       -- names that were registered and released in this case
  win : List Nat := []            -- cells parked between the two registry operations of their constructor

def showOptNat : Option Nat → String
  | some n => toString n
  | none => "-"

def sortPairs (l : List (Nat × Nat)) : List (Nat × Nat) :=
  (l.toArray.qsort (fun a b => a.1 < b.1 || (a.1 == b.1 && a.2 < b.2))).toList

def sortNats (l : List Nat) : List Nat := (l.toArray.qsort (· < ·)).toList

def showEvs (evs : List (Bool × Nat)) : String :=
  if evs.isEmpty then "-" else ",".intercalate (evs.map fun e => s!"{if e.1 then "S" else "T"}{e.2}")

def parseEv? (e : String) : Option (Bool × Nat) :=
  if e.startsWith "S" then (e.drop 1).toString.toNat?.map (true, ·)
  else if e.startsWith "T" then (e.drop 1).toString.toNat?.map (false, ·)
  else none

def showView (pidOn : Bool) (v : View) : String :=
  let names := sortPairs v.names
  let ns := if names.isEmpty then "-" else ",".intercalate (names.map fun p => s!"{p.1}:{p.2}")
  let ps := match pidOn, v.pids with
    | true, some ps => showNats (sortNats ps)
    | _, _ => "x"
  let acts := (v.actors.toArray.qsort (fun a b => a.id < b.id)).toList
  let as := if acts.isEmpty then "-" else ",".intercalate (acts.map fun x =>
    s!"{x.id}:{showOptNat x.name}:{if x.remote then "R" else "L"}:{x.status}")
  let es := match v.evs with
    | some evs => showEvs evs
    | none => "x"
  s!"names={ns} pids={ps} actors={as} ev={es}"

def parseOptNat? (s : String) : Option (Option Nat) :=
  if s == "-" then some none else s.toNat?.map some

def parsePair? (e : String) : Option (Nat × Nat) :=
  match splitOnChar e ':' with
  | [n, k] => do pure ((← n.toNat?), (← k.toNat?))
  | _ => none

def parseActor? (e : String) : Option VActor :=
  match splitOnChar e ':' with
  | [k, n, r, st] => do pure ⟨← k.toNat?, ← parseOptNat? n, r == "R", ← st.toNat?⟩
  | _ => none

def field? (w pre : String) : Option String :=
  if w.startsWith pre then some (w.drop pre.length).toString else none

def parseView? (s : String) : Option View :=
  match words s with
  | [ns, ps, as, es] => do
    let ns ← field? ns "names="
    let ps ← field? ps "pids="
    let as ← field? as "actors="
    let es ← field? es "ev="
    let names ← if ns == "-" then some [] else (splitOnChar ns ',').mapM parsePair?
    let pids ← if ps == "x" then some none else (natList? ps).map some
    let actors ← if as == "-" then some [] else (splitOnChar as ',').mapM parseActor?
    let evs ← if es == "x" then some none else if es == "-" then some (some [])
      else ((splitOnChar es ',').mapM parseEv?).map some
    pure { names, pids, actors, evs }
  | _ => none

def splitImpl (impl : String) : String × String :=
  match impl.splitOn " | " with
  | [a, v] => (a.trimAscii.toString, v.trimAscii.toString)
  | _ => (impl, "")

def showObs : Obs → String
  | .ok => "ok" | .dup => "dup" | .bad => "bad"
  | .prev s => s!"prev {s}"
  | .found none => "none"
  | .found (some (a, st)) => s!"found {a} {st}"
  | .foundPid none => "none"
  | .foundPid (some a) => s!"found {a}"

def runOps (s : State) (ops : List Op) : State := run false s ops
def evOps (s : State) (ops : List Op) : List (Bool × Nat) := runEvents false s ops

/-- Model answer and new state for one op line; `none` = unparsable. -/
def modelStep (s : State) (w : List String) : Option (State × String × Bool × List (Bool × Nat)) :=
  let exists? (k : Nat) := (getA s k).isSome
  match w with
  | ["reg", k, n] => do
    let k ← k.toNat?; let n ← n.toNat?
    let (s', o) := step false s (.register k n)
    pure (s', showObs o, o == .dup, pidEvents s (.register k n))
  | ["regname", k, n] => do
    let k ← k.toNat?; let n ← n.toNat?
    let (s', o) := regNameOnly s k n
    pure (s', showObs o, true, [])
  | ["regpid", k] => do
    let k ← k.toNat?
    let (s', o) := regPidOnly s k
    pure (s', showObs o, false, regPidEvents s k)
  | ["create", k] => do
    let k ← k.toNat?
    let (s', o) := step false s (.create k); pure (s', showObs o, false, pidEvents s (.create k))
  | ["proxy", k, n] => do
    let k ← k.toNat?; let n ← parseOptNat? n
    let (s', o) := step false s (.proxy k n); pure (s', showObs o, false, [])
  | ["pub", k, st] => do
    let k ← k.toNat?; let st ← st.toNat?
    let (s', o) := step false s (.publish k st); pure (s', (if o == .bad then "bad" else "ok"), false, [])
  | ["unregpid", k] => do
    let k ← k.toNat?
    let (s', o) := step false s (.unregPid k); pure (s', showObs o, false, pidEvents s (.unregPid k))
  | ["unregname", k] => do
    let k ← k.toNat?
    let (s', o) := step false s (.unregName k)
    let x := getA s k
    pure (s', showObs o, (x.map (fun x => x.remote && x.name.isSome)).getD false, [])
  | ["drain", k] => do
    let k ← k.toNat?
    let st0 := statusOf s k
    let (s', o) := step false s (.drain k)
    pure (s', showObs o, decide (st0 ≥ stopping), [])
  | ["late", k, how] => do
    let k ← k.toNat?
    if !exists? k then pure (s, "noactor", false, [])
    else if statusOf s k < stopping then pure (s, "notparked", false, [])
    else if how == "drain" then pure ((step false s (.drain k)).1, "ok", true, [])
    else pure (s, "ok", true, [])
  | "skip" :: _ => some (s, "ok", false, [])
  -- t uncontrolled threads race for one fresh name: C10.exactly_one_winner, whereIs_sound,
  -- name_free_after_exit say what every such round must answer
  | ["race", _] => some (s, "winners=1 agree=1 free=1", false, [])
  | ["lookup", n] => do
    let n ← n.toNat?
    let (s', o) := step false s (.lookup n)
    let interesting := match o with
      | .found (some (_, st)) => decide (st ≥ stopping)
      | _ => false
    pure (s', showObs o, interesting, [])
  | ["lookuppid", k] => do
    let k ← k.toNat?
    let (s', o) := step false s (.lookupPid k); pure (s', showObs o, false, [])
  | ["waitret", k] => do
    let k ← k.toNat?
    let (s', o) := step false s (.waitRet k); pure (s', showObs o, false, [])
  | ["spawnret", k] => do
    let k ← k.toNat?
    let r := match getA s k with
      | none => "dup"
      | some x => if x.status = stopped then "fail" else "ok"
    pure (s, r, false, [])
  | "spawn" :: k :: n :: how :: _flavour => do
    let k ← k.toNat?; let n ← parseOptNat? n
    let op0 := match n with
      | some n => Op.register k n
      | none => Op.create k
    let (s', o) := step false s op0
    let e0 := pidEvents s op0
    if o != .ok then pure (s', showObs o, o == .dup, e0)
    else if how == "fail" then
      pure (runOps s' (.publish k 1 :: exitOps k), "fail", false, e0 ++ evOps s' (.publish k 1 :: exitOps k))
    else pure (runOps s' [.publish k 1, .publish k 2], "ok", false, e0)
  | ["spawnproxy", k, n] => do
    let k ← k.toNat?; let n ← parseOptNat? n
    if exists? k then pure (s, "bad", false, [])
    else pure (runOps s (spawnProxyOps k n), "ok", n.isSome, [])
  | ["exit", k, _how] => do
    let k ← k.toNat?
    if !exists? k then pure (s, "noactor", false, [])
    else
      let x := getA s k
      pure (runOps s (exitOps k), "ok", (x.map (fun x => x.remote && x.name.isSome)).getD false,
            evOps s (exitOps k))
  | ["killwait", k] | ["stopwait", k] => do
    -- two parties end the actor back to back; the second one waits: exit, then wait() returns
    let k ← k.toNat?
    if !exists? k then pure (s, "noactor", false, [])
    else if statusOf s k ≥ stopping then pure (s, "notlive", false, [])
    else
      let s' := runOps s (exitOps k)
      pure (s', showObs (step false s' (.waitRet k)).2, true, evOps s (exitOps k))
  | ["exitbegin", k] => do
    let k ← k.toNat?
    if !exists? k then pure (s, "noactor", false, [])
    else pure (runOps s [.publish k stopping, .unregPid k, .unregName k], "ok", false,
               evOps s [.publish k stopping, .unregPid k, .unregName k])
  | ["exitend", k] => do
    let k ← k.toNat?
    if !exists? k then pure (s, "noactor", false, [])
    else pure (runOps s [.publish k stopped], "ok", false, [])
  | _ => none

def step (d : DState) (op impl : String) : DState × StepOut :=
  let w := words op
  match w with
  | "case" :: rest | "thrcase" :: rest =>
    let pidOn := rest.contains "pid=1"
    let evOn := rest.contains "ev=1"
    let (_, iv) := splitImpl impl
    let v := parseView? iv
    let d' : DState := { pidOn, evOn, prev := v }
    let orc := match v with
      | some v => failing v
      | none => ["unparsable-view"]
    (d', { model := s!"ok | {showView pidOn { view init with evs := if evOn then some [] else none }}", oracle := orc })
  | _ =>
    match modelStep d.s w with
    | none => (d, { model := "bad-op" })
    | some (s', ans, interesting, mevs) =>
      let (ians, iv) := splitImpl impl
      let v := parseView? iv
      let mv := { view s' with evs := if d.evOn then some mevs else none }
      -- oracle on the implementation's own observations
      -- cells inside the constructor window after this step (model side: the answer of the model)
      let win := match w with
        | ["regname", k, _] => if ans == "ok" then (k.toNat?.map (· :: d.win)).getD d.win else d.win
        | ["regpid", k] => (k.toNat?.map (fun k => d.win.filter (· != k))).getD d.win
        | _ => d.win
      -- `failing`'s clause `pid-table` wants every live local actor in the pid table: waived for the
      -- cells of `win` only (`failingW`); with an empty window it is `failing` itself
      let orcView := match v with
        | some v => if win.isEmpty then failing v else
            failingW win v ++ (if okWindow win v then [] else ["window-pid-before-name"])
        | none => ["unparsable-view"]
      let orcWin := match w, v with
        | ["regname", k, n], some v =>
          match k.toNat?, n.toNat? with
          | some k, some n =>
            if ians == "ok" && ((v.pids.getD []).contains k || !v.names.contains (n, k))
            then ["window-pid-before-name"] else []
          | _, _ => []
        | ["regpid", k], some v =>
          match k.toNat?, v.pids with
          | some k, some ps => if ps.contains k then [] else ["regpid-did-not-insert"]
          | _, _ => []
        | _, _ => []
      let orcReg := match w, v, d.prev with
        | ["regname", k, n], some v, some p =>
          match k.toNat?, n.toNat? with
          | some k, some n =>
            let res := if ians == "ok" then Obs.ok else if ians == "dup" then Obs.dup else Obs.bad
            if okRegister p v k n res then [] else ["register-not-atomic"]
          | _, _ => []
        | ["reg", k, n], some v, some p =>
          match k.toNat?, n.toNat? with
          | some k, some n =>
            let res := if ians == "ok" then Obs.ok else if ians == "dup" then Obs.dup else Obs.bad
            if okRegister p v k n res then [] else ["register-not-atomic"]
          | _, _ => []
        | "spawn" :: k :: n :: _, some v, some p =>
          match k.toNat?, n.toNat? with
          | some k, some n =>
            -- the registration half of a whole spawn: dup ⇔ name was taken
            if ians == "dup" then (if okRegister p v k n .dup then [] else ["register-not-atomic"])
            else if p.names.any (·.1 == n) then ["register-not-atomic"] else []
          | _, _ => []
        | _, _, _ => []
      let orcLookup := match w with
        | ["lookup", _] =>
          match words ians with
          | ["found", k, st] =>
            match k.toNat?, st.toNat? with
            | some k, some st =>
              (if d.waited.contains k then ["lookup-returned-waited-actor"] else []) ++
              (if st ≥ stopped then ["lookup-returned-stopped-actor"] else [])
            | _, _ => ["unparsable"]
          | _ => []
        | _ => []
      -- a spawn that answered AlreadyRegistered must not have touched the pid table's listeners
      let orcDup := match v with
        | some v => if ians == "dup" && !(v.evs.getD []).isEmpty then ["dup-spawn-had-pid-side-effects"] else []
        | none => []
      let orcRace := match w with
        | ["race", _] => if ians == "winners=1 agree=1 free=1" then [] else ["race-not-exactly-one-winner"]
        | _ => []
      let orcWait2 := match w with
        | [kw, _] => if (kw == "killwait" || kw == "stopwait") && ians == "early"
            then ["wait-returned-before-stopped"] else []
        | _ => []
      let orcWait := match w, v with
        | ["waitret", k], some v =>
          match k.toNat? with
          | some k =>
            if v.names.any (·.2 == k) then ["name-held-after-wait-returned"] else
            if ians == "pending" || ians == "early" then ["wait-returned-before-stopped"] else []
          | none => []
        | _, _ => []
      let waited := match w with
        | ["waitret", k] => (k.toNat?.map (· :: d.waited)).getD d.waited
        | _ => d.waited
      -- bookkeeping for the evidence: re-registration of a released name is non-trivial
      let before := d.s.names.map (·.1)
      let after := s'.names.map (·.1)
      let released := d.released ++ before.filter (fun n => !after.contains n)
      let rereg := after.any (fun n => !before.contains n && d.released.contains n)
      ({ d with s := s', prev := v, waited, released, win },
       { model := s!"{ans} | {showView d.pidOn mv}",
         oracle := (orcView ++ orcWin).eraseDups ++ orcReg ++ orcLookup ++ orcWait ++ orcWait2 ++ orcRace ++ orcDup,
         nontrivial := interesting || rereg })

def run (ops impl : Array String) : IO Tally :=
  replay ({} : DState) step ops impl

end Driver.Registry
