import RactorModel.Lemmas.StopPorts

/-!
Thread layer of `Model/StopPorts` (every schedule of every set of thread programs is an action
sequence, so the invariant holds in every reachable state) and the consequences of the invariant
that `Props/C07.lean` states: the oracle `Obs.violations` is empty, the exit reason is the priority
winner among the accepted requests, the fate of an accepted stop.
-/

namespace StopPorts

/-! ### thread layer: every schedule of every set of thread programs is an action sequence -/

theorem inv_step (g : G) (tid : Tid) (h : Inv g.s) : Inv (step g tid).s := by
  cases tid with
  | t i =>
    simp only [step]
    split
    · exact h
    · split
      · exact h
      · exact inv_act _ _ h
  | poll fin => exact inv_act g.s (.poll fin) h
  | dropPorts => exact inv_act g.s .dropPorts h

theorem inv_run (g : G) (sched : List Tid) (h : Inv g.s) : Inv (run g sched).s := by
  induction sched generalizing g with
  | nil => exact h
  | cons t l ih => exact ih (step g t) (inv_step g t h)

theorem inv_reach (progs : List (List Op)) (sched : List Tid) : Inv (run (init progs) sched).s :=
  inv_run _ _ inv_init

/-! ### consequences -/

/-- Two members satisfying a predicate that at most one element satisfies agree on every function. -/
theorem countP_le_one_agree {α β} (p : α → Bool) (f : α → β) (l : List α) (h : l.countP p ≤ 1)
    (a b : α) (ha : a ∈ l) (hb : b ∈ l) (pa : p a = true) (pb : p b = true) : f a = f b := by
  induction l with
  | nil => cases ha
  | cons x l ih =>
    simp only [List.countP_cons] at h
    rcases List.mem_cons.mp ha with rfl | ha' <;> rcases List.mem_cons.mp hb with rfl | hb'
    · rfl
    · have : 0 < l.countP p := List.countP_pos_iff.mpr ⟨b, hb', pb⟩
      simp only [pa, if_true] at h; omega
    · have : 0 < l.countP p := List.countP_pos_iff.mpr ⟨a, ha', pa⟩
      simp only [pb, if_true] at h; omega
    · exact ih (by split at h <;> omega) ha' hb'

theorem Phase.exit_chosen (p : Phase) (r : Reason) : p.exit? = some r → p.chosen? = some r := by
  cases p <;> simp [Phase.exit?, Phase.chosen?]

/-- a kill accepted before the loop's decisive poll -/
def killInTime (s : S) : Prop := ∃ c ∈ s.calls, c.killAcc = true ∧ c.epoch ≤ 1

section
variable {s : S} {r : Reason}

theorem stop_agree (h : Inv s) {β} (f : Call → β) {a b : Call} (ha : a ∈ s.calls) (hb : b ∈ s.calls)
    (pa : a.stopAcc = true) (pb : b.stopAcc = true) : f a = f b :=
  countP_le_one_agree Call.stopAcc f s.calls (by have := h.stop_one; omega) a b ha hb pa pb

theorem exit_killed_iff (h : Inv s) (he : s.phase.exit? = some r) : r = .killed ↔ killInTime s := by
  constructor
  · rintro rfl
    have := h.exit_killed (Phase.exit_chosen _ _ he)
    obtain ⟨c, hc, hp⟩ := List.any_eq_true.mp this
    exact ⟨c, hc, by simp_all⟩
  · rintro ⟨c, hc, hk, hle⟩
    apply Classical.byContradiction; intro hne
    have := h.exit_other r he hne c hc hk; omega

theorem exit_stop_iff (h : Inv s) (he : s.phase.exit? = some r) (x : Option Nat) :
    r = .stop x ↔ ¬ killInTime s ∧ ∃ c ∈ s.calls, c.stopAcc = true ∧ c.epoch = 0 ∧ c.reason = x := by
  constructor
  · rintro rfl
    refine ⟨?_, ?_⟩
    · rintro ⟨c, hc, hk, hle⟩
      have := h.exit_other _ he (by simp) c hc hk; omega
    · have := h.exit_stop x (Phase.exit_chosen _ _ he)
      obtain ⟨c, hc, hp⟩ := List.any_eq_true.mp this
      exact ⟨c, hc, by simp_all⟩
  · rintro ⟨hnk, c, hc, hs, he0, hr⟩
    cases r with
    | killed => exact absurd ((exit_killed_iff h he).mp rfl) hnk
    | stop y =>
      have := h.exit_stop y (Phase.exit_chosen _ _ he)
      obtain ⟨c', hc', hp⟩ := List.any_eq_true.mp this
      have e := stop_agree h Call.reason hc hc' hs (by simp_all)
      simp_all
    | drained =>
      have := (h.exit_drained (Phase.exit_chosen _ _ he)).2 c hc hs; omega

theorem exit_drained_iff (h : Inv s) (he : s.phase.exit? = some r) :
    r = .drained ↔ ¬ killInTime s ∧ ¬ ∃ c ∈ s.calls, c.stopAcc = true ∧ c.epoch = 0 := by
  constructor
  · rintro rfl
    refine ⟨?_, ?_⟩
    · rintro ⟨c, hc, hk, hle⟩
      have := h.exit_other _ he (by simp) c hc hk; omega
    · rintro ⟨c, hc, hs, he0⟩
      have := (h.exit_drained (Phase.exit_chosen _ _ he)).2 c hc hs; omega
  · rintro ⟨hnk, hns⟩
    cases r with
    | killed => exact absurd ((exit_killed_iff h he).mp rfl) hnk
    | stop y =>
      have := h.exit_stop y (Phase.exit_chosen _ _ he)
      obtain ⟨c', hc', hp⟩ := List.any_eq_true.mp this
      exact absurd ⟨c', hc', by simp_all⟩ hns
    | drained => rfl

theorem accepted_stop_fate (h : Inv s) (he : s.phase.exit? = some r) {c : Call} (hc : c ∈ s.calls)
    (hs : c.stopAcc = true) :
    (c.epoch = 0 → r = .stop c.reason ∨ r = .killed) ∧ (1 ≤ c.epoch → r = .drained ∨ r = .killed) := by
  cases r with
  | killed => simp
  | stop y =>
    have := h.exit_stop y (Phase.exit_chosen _ _ he)
    obtain ⟨c', hc', hp⟩ := List.any_eq_true.mp this
    have e1 := stop_agree h Call.reason hc hc' hs (by simp_all)
    have e2 := stop_agree h Call.epoch hc hc' hs (by simp_all)
    simp_all
  | drained =>
    have := (h.exit_drained (Phase.exit_chosen _ _ he)).2 c hc hs
    simp; omega

theorem exitViolations_nil (h : Inv s) : exitViolations s.calls s.marker s.phase.exit? = [] := by
  cases he : s.phase.exit? with
  | none => rfl
  | some r =>
    have hch := Phase.exit_chosen _ _ he
    have nk : r ≠ .killed → s.calls.all (fun c => !c.killInTime) = true := by
      intro hne
      simp only [List.all_eq_true]; intro c hc
      have := h.exit_other r he hne c hc
      grind [Call.killInTime]
    cases r with
    | killed =>
      have e : s.calls.any Call.killInTime = true := h.exit_killed hch
      simp only [exitViolations]
      rw [if_pos e]
    | stop x =>
      have := h.exit_stop x hch
      have e : s.calls.any (fun c => c.stopInTime && c.reason == x) = true := by
        simpa only [Call.stopInTime] using this
      simp only [exitViolations]
      rw [if_pos e, if_pos (nk (by simp))]; rfl
    | drained =>
      have ⟨hm, hs⟩ := h.exit_drained hch
      have e : s.calls.all (fun c => !c.stopInTime) = true := by
        simp only [List.all_eq_true]; intro c hc
        have := hs c hc
        grind [Call.stopInTime]
      simp only [exitViolations]
      rw [if_pos hm, if_pos (nk (by simp)), if_pos e]; rfl

/-- The run-time oracle is empty in every state satisfying the invariant. -/
theorem violations_nil (h : Inv s) (final : Bool) (hf : final = true → blocked s = true) :
    (obsOf s final).violations = [] := by
  have v1 : s.calls.countP Call.stopAcc ≤ 1 := by have := h.stop_one; omega
  have v2 : s.calls.countP Call.killAcc ≤ 1 := by have := h.kill_one; omega
  have v3 : firstOk (s.calls.find? (fun c => !c.kill)) = true := by
    cases hc : s.calls.find? (fun c => !c.kill) with
    | none => rfl
    | some c => rcases h.first_stop c hc with h1 | h1 <;> simp [firstOk, h1]
  have v4 : firstOk (s.calls.find? (fun c => c.kill)) = true := by
    cases hc : s.calls.find? (fun c => c.kill) with
    | none => rfl
    | some c => rcases h.first_kill c hc with h1 | h1 <;> simp [firstOk, h1]
  have v5 : s.calls.all (fun c => !(c.accepted && c.epoch == 3)) = true := by
    simp only [List.all_eq_true]; intro c hc
    have := h.no_acc_gone c hc
    cases hacc : c.accepted <;> simp_all
  have v6 := exitViolations_nil h
  have v7 := h.no_overtake
  have v8 : (!final || s.phase.exit?.isSome || s.calls.all (fun c => !(c.accepted && decide (c.epoch ≤ 1)))) = true := by
    cases final with
    | false => rfl
    | true =>
      have hb := hf rfl
      cases hp : s.phase with
      | listening =>
        simp only [blocked, hp] at hb
        have h1 := h.stop_pending (by simp [hp, Phase.epoch])
        have h2 := h.kill_pending (by simp [hp, Phase.epoch])
        have : s.calls.all (fun c => !(c.accepted && decide (c.epoch ≤ 1))) = true := by
          simp only [List.all_eq_true]; intro c hc
          have a1 := h1 (by simp_all) c hc
          have a2 := h2 (by simp_all) c hc
          cases hk : c.kill <;> simp_all [Call.stopAcc, Call.killAcc]
        simp only [this, Bool.or_true]
      | handling => simp [blocked, hp] at hb
      | postStop r => simp [blocked, hp] at hb
      | decided r => simp [Phase.exit?]
      | gone r => simp [Phase.exit?]
  simp only [Obs.violations, obsOf, v1, v2, v3, v4, v5, v6, v7, v8, if_true, List.append_nil, BEq.rfl]

/-- … and so is its epoch-free part (what free-running runs are judged by). -/
theorem freeViolations_nil (h : Inv s) (final : Bool) (hf : final = true → blocked s = true) :
    (obsOf s final).freeViolations = [] := by
  have v1 : s.calls.countP Call.stopAcc ≤ 1 := by have := h.stop_one; omega
  have v2 : s.calls.countP Call.killAcc ≤ 1 := by have := h.kill_one; omega
  have v3 : (match s.phase.exit? with
      | none => ([] : List String)
      | some .killed => if s.calls.any Call.killAcc then [] else ["exit-reason-not-an-accepted-request"]
      | some (.stop x) =>
        if s.calls.any (fun c => c.stopAcc && c.reason == x) then []
        else if s.calls.any (fun c => !c.kill && !c.accepted && c.reason == x) then ["refused-stop-reason-won"]
        else ["exit-reason-not-an-accepted-request"]
      | some .drained => if s.marker then [] else ["exit-reason-not-an-accepted-request"]) = [] := by
    cases he : s.phase.exit? with
    | none => rfl
    | some r =>
      have hch := Phase.exit_chosen _ _ he
      cases r with
      | killed =>
        have := h.exit_killed hch
        have e : s.calls.any Call.killAcc = true := by
          obtain ⟨c, hc, hp⟩ := List.any_eq_true.mp this
          exact List.any_eq_true.mpr ⟨c, hc, by simp_all⟩
        simp only [e, if_true]
      | stop x =>
        have := h.exit_stop x hch
        have e : s.calls.any (fun c => c.stopAcc && c.reason == x) = true := by
          obtain ⟨c, hc, hp⟩ := List.any_eq_true.mp this
          exact List.any_eq_true.mpr ⟨c, hc, by simp_all⟩
        simp only [e, if_true]
      | drained =>
        have := (h.exit_drained hch).1
        simp only [this, if_true]
  have v4 : (!final || s.phase.exit?.isSome || s.calls.all (fun c => !c.accepted)) = true := by
    cases final with
    | false => rfl
    | true =>
      have hb := hf rfl
      cases hp : s.phase with
      | listening =>
        simp only [blocked, hp] at hb
        have h1 := h.stop_pending (by simp [hp, Phase.epoch])
        have h2 := h.kill_pending (by simp [hp, Phase.epoch])
        have : s.calls.all (fun c => !c.accepted) = true := by
          simp only [List.all_eq_true]; intro c hc
          have a1 := h1 (by simp_all) c hc
          have a2 := h2 (by simp_all) c hc
          cases hk : c.kill <;> simp_all [Call.stopAcc, Call.killAcc]
        simp only [this, Bool.or_true]
      | handling => simp [blocked, hp] at hb
      | postStop r => simp [blocked, hp] at hb
      | decided r => simp [Phase.exit?]
      | gone r => simp [Phase.exit?]
  simp only [Obs.freeViolations, obsOf, v1, v2, v4, if_true, List.nil_append, List.append_nil]
  exact v3

end

end StopPorts
