import RactorModel.Model.FactoryOracle

/-! Lemmas for the discard-limit clause of C15 (factory queue and worker queues). -/

namespace Factory

/-! ### `takeFirst`, `popByPrio` -/

theorem takeFirst_perm {f : Job → Bool} {l : List Job} {x : Job} {r : List Job}
    (h : takeFirst f l = some (x, r)) : l.Perm (x :: r) := by
  induction l generalizing x r with
  | nil => simp [takeFirst] at h
  | cons a l ih =>
    unfold takeFirst at h
    split at h
    · simp only [Option.some.injEq, Prod.mk.injEq] at h
      obtain ⟨rfl, rfl⟩ := h
      exact List.Perm.refl _
    · cases htf : takeFirst f l with
      | none => simp [htf] at h
      | some xr =>
        obtain ⟨x', r'⟩ := xr
        simp only [htf, Option.some.injEq, Prod.mk.injEq] at h
        obtain ⟨rfl, rfl⟩ := h
        exact ((ih htf).cons a).trans (List.Perm.swap _ _ _)

theorem takeFirst_length {f : Job → Bool} {l : List Job} {x : Job} {r : List Job}
    (h : takeFirst f l = some (x, r)) : r.length + 1 = l.length := by
  have := (takeFirst_perm h).length_eq
  simp at this; omega

theorem takeFirst_isSome {f : Job → Bool} {l : List Job} {j : Job} (hj : j ∈ l) (hf : f j = true) :
    (takeFirst f l).isSome = true := by
  induction l with
  | nil => cases hj
  | cons a l ih =>
    unfold takeFirst
    split
    · rfl
    · rename_i hfa
      have hjl : j ∈ l := by
        cases hj with
        | head => exact absurd hf hfa
        | tail _ h => exact h
      have := ih hjl
      cases htf : takeFirst f l with
      | none => simp [htf] at this
      | some xr => rfl

theorem popByPrio_perm {cfg : Cfg} {ps : List Nat} {q : List Job} {x : Job} {r : List Job}
    (h : popByPrio cfg ps q = some (x, r)) : q.Perm (x :: r) := by
  induction ps with
  | nil => simp [popByPrio] at h
  | cons p ps ih =>
    unfold popByPrio at h
    split at h
    · rename_i r' htf
      simp only [Option.some.injEq] at h
      subst h
      exact takeFirst_perm htf
    · exact ih h

theorem popByPrio_length {cfg : Cfg} {ps : List Nat} {q : List Job} {x : Job} {r : List Job}
    (h : popByPrio cfg ps q = some (x, r)) : r.length + 1 = q.length := by
  have := (popByPrio_perm h).length_eq
  simp at this; omega

theorem prioOf_lt (cfg : Cfg) (j : Job) : prioOf cfg j < 5 := by
  unfold prioOf; split
  · simp only; split <;> omega
  · omega

theorem popByPrio_isSome {cfg : Cfg} {ps : List Nat} {q : List Job} {j : Job} (hj : j ∈ q)
    (hp : prioOf cfg j ∈ ps) : (popByPrio cfg ps q).isSome = true := by
  induction ps with
  | nil => cases hp
  | cons p ps ih =>
    unfold popByPrio
    split
    · rfl
    · rename_i hnone
      cases hp with
      | head =>
        have := takeFirst_isSome (f := fun j' => prioOf cfg j' == prioOf cfg j) hj (by simp)
        simp [hnone] at this
      | tail _ h => exact ih h

theorem mem_prioDown (cfg : Cfg) (j : Job) : prioOf cfg j ∈ prioDown := by
  have := prioOf_lt cfg j
  unfold prioDown
  generalize prioOf cfg j = n at *
  have : n = 0 ∨ n = 1 ∨ n = 2 ∨ n = 3 ∨ n = 4 := by omega
  rcases this with h | h | h | h | h <;> simp [h]

theorem mem_prioUp (cfg : Cfg) (j : Job) : prioOf cfg j ∈ prioUp := by
  have := prioOf_lt cfg j
  unfold prioUp
  generalize prioOf cfg j = n at *
  have : n = 0 ∨ n = 1 ∨ n = 2 ∨ n = 3 ∨ n = 4 := by omega
  rcases this with h | h | h | h | h <;> simp [h]

theorem qDiscardOldest_none {cfg : Cfg} {q : List Job} (h : qDiscardOldest cfg q = none) : q = [] := by
  cases q with
  | nil => rfl
  | cons j q =>
    have := popByPrio_isSome (cfg := cfg) (ps := prioDown) (q := j :: q) (j := j) (by simp) (mem_prioDown cfg j)
    unfold qDiscardOldest at h
    simp [h] at this

theorem qPopFront_none {cfg : Cfg} {q : List Job} (h : qPopFront cfg q = none) : q = [] := by
  cases q with
  | nil => rfl
  | cons j q =>
    have := popByPrio_isSome (cfg := cfg) (ps := prioUp) (q := j :: q) (j := j) (by simp) (mem_prioUp cfg j)
    unfold qPopFront at h
    simp [h] at this

/-! ### the factory queue: `maybe_enqueue` -/

def loadshedEv (h : Option Nat) (j : Job) : Ev := .discard .loadshed j.id h

/-- The shedding loop of `maybe_enqueue` ends with the queue within the limit (so the fuel
was enough: the loop left through its own exit condition), removes exactly the jobs `shed`,
reports each of them once as `Loadshed` and touches nothing else. -/
theorem shedQueueOldest_spec (limit : Nat) (fuel : Nat) (w : W) (hf : w.queue.length ≤ limit + fuel) :
    ∃ shed : List Job,
      (W.shedQueueOldest limit fuel w).queue.length ≤ limit ∧
      w.queue.Perm (shed ++ (W.shedQueueOldest limit fuel w).queue) ∧
      (W.shedQueueOldest limit fuel w).env.log = w.env.log ++ shed.map (loadshedEv w.handler) ∧
      (W.shedQueueOldest limit fuel w).pool = w.pool ∧
      (w.queue.length ≤ limit → shed = []) := by
  induction fuel generalizing w with
  | zero =>
    refine ⟨[], ?_, ?_, ?_, rfl, fun _ => rfl⟩
    · simpa [W.shedQueueOldest] using hf
    · simp [W.shedQueueOldest]
    · simp [W.shedQueueOldest]
  | succ fuel ih =>
    unfold W.shedQueueOldest
    split
    · rename_i hgt
      cases hd : qDiscardOldest w.cfg w.queue with
      | none =>
        have := qDiscardOldest_none hd
        simp [this] at hgt
      | some jq =>
        obtain ⟨j, q⟩ := jq
        simp only
        have hlen := popByPrio_length (show popByPrio w.cfg prioDown w.queue = some (j, q) from hd)
        have hperm := popByPrio_perm (show popByPrio w.cfg prioDown w.queue = some (j, q) from hd)
        obtain ⟨shed, h1, h2, h3, h4, _⟩ :=
          ih { w with queue := q, env := w.env.discard w.handler .loadshed j } (by simp only; omega)
        refine ⟨j :: shed, h1, ?_, ?_, h4, fun hle => by omega⟩
        · exact hperm.trans (by simpa using h2.cons j)
        · rw [h3]
          simp [Env.discard, Env.emit, loadshedEv]
    · rename_i hle
      exact ⟨[], by omega, by simp, by simp, rfl, fun _ => rfl⟩

/-- `maybe_enqueue`, Oldest: afterwards the factory queue holds at most `L` jobs, for every
`L` (0 included), every queue content and both queue types. -/
theorem maybeEnqueue_oldest_eq (w : W) (j : Job) (L : Nat) (hd : w.disc = some (L, .oldest)) :
    w.maybeEnqueue j = W.shedQueueOldest L ((w.queue ++ [{ j with port := false }]).length + 1)
      { w with env := w.env.accept j, queue := w.queue ++ [{ j with port := false }] } := by
  unfold W.maybeEnqueue
  simp only [hd]

theorem maybeEnqueue_oldest_le (w : W) (j : Job) (L : Nat) (hd : w.disc = some (L, .oldest)) :
    (w.maybeEnqueue j).queue.length ≤ L := by
  rw [maybeEnqueue_oldest_eq w j L hd]
  obtain ⟨_, h, _⟩ := shedQueueOldest_spec L ((w.queue ++ [{ j with port := false }]).length + 1)
    { w with env := w.env.accept j, queue := w.queue ++ [{ j with port := false }] }
    (by show (w.queue ++ [_]).length ≤ _; omega)
  exact h

/-- `maybe_enqueue`, Newest: a discardable job never makes the queue longer than `max L len`
(it is rejected when the queue is at or above `L`); only non-discardable jobs (priority
queue) may exceed the limit. -/
theorem maybeEnqueue_newest_le (w : W) (j : Job) (L : Nat) (hd : w.disc = some (L, .newest))
    (hdisc : discardable w.cfg j = true) :
    (w.maybeEnqueue j).queue.length ≤ max L w.queue.length := by
  unfold W.maybeEnqueue
  simp only [hd, hdisc, Bool.true_and]
  split
  · simp only; omega
  · rename_i h
    simp only [decide_eq_true_eq, ge_iff_le, Nat.not_le] at h
    simp only [List.length_append, List.length_cons, List.length_nil]
    omega

/-- Newest: the number of discardable jobs in the queue never exceeds `max L before`; with a
constant limit this is the invariant "at most `L` waiting discardable jobs". -/
theorem maybeEnqueue_newest_discardable (w : W) (j : Job) (L : Nat) (hd : w.disc = some (L, .newest)) :
    ((w.maybeEnqueue j).queue.filter (discardable w.cfg)).length
      ≤ max L (w.queue.filter (discardable w.cfg)).length := by
  unfold W.maybeEnqueue
  simp only [hd]
  split
  · simp only; omega
  · rename_i h
    have hfl : (w.queue.filter (discardable w.cfg)).length ≤ w.queue.length := List.length_filter_le _ _
    simp only [List.filter_append, List.length_append]
    by_cases hdj : discardable w.cfg j = true
    · have hdj' : discardable w.cfg { j with port := false } = true := by
        simpa [discardable] using hdj
      simp only [hdj, Bool.true_and, decide_eq_true_eq, ge_iff_le, Nat.not_le] at h
      simp [hdj']
      omega
    · have hdj' : discardable w.cfg { j with port := false } = false := by
        simpa [discardable] using hdj
      simp [hdj']
      omega

/-- Newest rejects exactly the incoming job, with exactly one `Loadshed` report. -/
theorem maybeEnqueue_newest_shed (w : W) (j : Job) (L : Nat) (hd : w.disc = some (L, .newest))
    (hdisc : discardable w.cfg j = true) (hfull : L ≤ w.queue.length) :
    (w.maybeEnqueue j).queue = w.queue ∧
    (w.maybeEnqueue j).env.log = w.env.log ++ [loadshedEv w.handler j] ++ (if j.port then [Ev.reply j.id true] else []) := by
  unfold W.maybeEnqueue
  simp only [hd, hdisc, Bool.true_and, decide_eq_true_eq.mpr hfull, if_true, true_and]
  unfold Env.reject Env.discard Env.emit loadshedEv
  split <;> simp

/-- Oldest sheds from the head (lowest priority first), reports each shed job exactly once as
`Loadshed` and keeps every other job. -/
theorem maybeEnqueue_oldest_shed (w : W) (j : Job) (L : Nat) (hd : w.disc = some (L, .oldest)) :
    ∃ shed : List Job,
      (w.queue ++ [{ j with port := false }]).Perm (shed ++ (w.maybeEnqueue j).queue) ∧
      (w.maybeEnqueue j).env.log = (w.env.accept j).log ++ shed.map (loadshedEv w.handler) := by
  rw [maybeEnqueue_oldest_eq w j L hd]
  obtain ⟨shed, _, h2, h3, _⟩ := shedQueueOldest_spec L ((w.queue ++ [{ j with port := false }]).length + 1)
    { w with env := w.env.accept j, queue := w.queue ++ [{ j with port := false }] }
    (by show (w.queue ++ [_]).length ≤ _; omega)
  exact ⟨shed, h2, by rw [h3]⟩

end Factory

namespace Factory

/-! ### worker queues: `enqueue_job` -/

theorem getNextNonExpired_length {h : Option Nat} (mq : List Job) (pend : List Nat) (e : Env) :
    (getNextNonExpired h mq pend e).2.1.length + (getNextNonExpired h mq pend e).1.toList.length ≤ mq.length := by
  induction mq generalizing pend e with
  | nil => simp [getNextNonExpired]
  | cons j rest ih =>
    unfold getNextNonExpired
    split
    · simp
    · have := ih (pend.erase j.key) (e.discard h .ttlExpired j)
      simp only [List.length_cons]; omega

theorem getNextNonExpired_actors {h : Option Nat} (mq : List Job) (pend : List Nat) (e : Env) :
    (getNextNonExpired h mq pend e).2.2.2.actors = e.actors := by
  induction mq generalizing pend e with
  | nil => rfl
  | cons j rest ih =>
    unfold getNextNonExpired
    split
    · rfl
    · rw [ih]; rfl

theorem getNext_length (p : WP) (e : Env) :
    (p.getNext e).2.1.mq.length + (p.getNext e).1.toList.length ≤ p.mq.length :=
  getNextNonExpired_length p.mq p.pending e

theorem getNext_actors (p : WP) (e : Env) : (p.getNext e).2.2.actors = e.actors :=
  getNextNonExpired_actors p.mq p.pending e

theorem getNext_actor (p : WP) (e : Env) : (p.getNext e).2.1.actor = p.actor := rfl
theorem getNext_disc (p : WP) (e : Env) : (p.getNext e).2.1.disc = p.disc := rfl
theorem getNext_curr (p : WP) (e : Env) : (p.getNext e).2.1.curr = p.curr := rfl

/-- the worker's actor is open: a hand-over to it succeeds -/
def ActorOpen (e : Env) (aid : Nat) : Prop := ∃ a, e.getActor aid = some a ∧ a.alive = true

theorem ActorOpen.of_actors {e e' : Env} {aid : Nat} (h : ActorOpen e aid) (ha : e'.actors = e.actors) :
    ActorOpen e' aid := by
  obtain ⟨a, h1, h2⟩ := h
  exact ⟨a, by simpa [Env.getActor, ha] using h1, h2⟩

/-- a successful hand-over leaves the worker's queue as it was -/
theorem dispatchJob_open_mq (p : WP) (e : Env) (j : Job) (h : ActorOpen e p.actor) :
    (p.dispatchJob e j).1.mq = p.mq := by
  obtain ⟨a, h1, h2⟩ := h
  unfold WP.dispatchJob Env.cast
  simp [h1, h2]

theorem getNextNonExpired_none_nil {hd : Option Nat} (mq : List Job) (pend : List Nat) (e : Env)
    (h : (getNextNonExpired hd mq pend e).1 = none) : (getNextNonExpired hd mq pend e).2.1 = [] := by
  induction mq generalizing pend e with
  | nil => rfl
  | cons j rest ih =>
    unfold getNextNonExpired at h ⊢
    split
    · rename_i hne; simp [hne] at h
    · rename_i hne
      simp only [hne] at h
      exact ih _ _ h

theorem shedOldest_length (limit fuel : Nat) (p : WP) (e : Env) (hf : p.mq.length ≤ limit + fuel) :
    (shedOldest limit fuel p e).1.mq.length ≤ limit := by
  induction fuel generalizing p e with
  | zero => simpa [shedOldest] using hf
  | succ fuel ih =>
    unfold shedOldest
    split
    · rename_i hgt
      have hl := getNext_length p e
      cases hn : p.getNext e with
      | mk r pe =>
        obtain ⟨p', e'⟩ := pe
        rw [hn] at hl
        cases r with
        | none =>
          -- nothing returned: every queued job had expired and the queue is now empty
          simp only
          apply ih
          have : p'.mq = [] := by
            have h1 : (p.getNext e).1 = none := by rw [hn]
            have h2 : (p.getNext e).2.1.mq = p'.mq := by rw [hn]
            rw [← h2]
            exact getNextNonExpired_none_nil p.mq p.pending e h1
          rw [this]; simp
        | some d =>
          simp only
          apply ih
          simp only [Option.toList_some, List.length_cons, List.length_nil] at hl
          show p'.mq.length ≤ limit + fuel
          omega
    · simp only; omega

/-- (C15 limit, worker queues) `enqueue_job` never grows a worker's queue beyond
`max L lenBefore`, in both modes, for every `L` including 0 — provided the hand-over to the
worker's actor succeeds (the actor is open, which holds at every message boundary of the
factory: supervision events outrank messages). -/
theorem enqueueJob_length (p : WP) (e : Env) (j : Job) (L : Nat) (m : Mode) (hd : p.disc = some (L, m))
    (hopen : ActorOpen e p.actor) :
    (p.enqueueJob e j).1.mq.length ≤ max L p.mq.length := by
  unfold WP.enqueueJob
  split
  · simp only; omega
  · rename_i hns
    have hopen' : ActorOpen (e.accept j) p.actor :=
      hopen.of_actors (by unfold Env.accept Env.emit; split <;> rfl)
    unfold WP.enqueueAccepted
    split
    · -- nothing in flight
      have hl := getNext_length (p.track j.key) (e.accept j)
      have ha := getNext_actors (p.track j.key) (e.accept j)
      have hact := getNext_actor (p.track j.key) (e.accept j)
      cases hn : (p.track j.key).getNext (e.accept j) with
      | mk r pe =>
        obtain ⟨p', e'⟩ := pe
        rw [hn] at hl ha hact
        simp only at hl ha hact
        have hopen2 : ActorOpen e' p'.actor := by
          rw [hact]; exact hopen'.of_actors ha
        cases r with
        | none =>
          simp only
          rw [dispatchJob_open_mq _ _ _ hopen2]
          simp only [WP.track] at hl; omega
        | some older =>
          simp only
          rw [dispatchJob_open_mq _ _ _ (by exact hopen2)]
          simp only [WP.track, Option.toList_some, List.length_cons, List.length_nil, List.length_append] at hl ⊢
          omega
    · rename_i hcurr
      simp only
      have hdisc : (p.track j.key).disc = some (L, m) := hd
      cases m with
      | oldest =>
        simp only [hdisc]
        exact Nat.le_trans (shedOldest_length L _ _ _ (by simp only; omega)) (Nat.le_max_left _ _)
      | newest =>
        simp only [hdisc]
        -- not shed: the worker is busy, so the queue was below the limit
        have hlt : p.mq.length < L := by
          unfold WP.shedsNewest at hns
          simp only [hd] at hns
          have hbusy : p.isAvailable = false := by
            unfold WP.isAvailable
            have : p.curr.isEmpty = false := by simpa [WP.track] using hcurr
            simp [this]
          simpa [hbusy] using hns
        simp only [WP.track, List.length_append, List.length_cons, List.length_nil]
        omega

/-- Oldest, a job already in flight: the queue ends within `L` (it is trimmed even when it was longer) -/
theorem enqueueJob_oldest_le (p : WP) (e : Env) (j : Job) (L : Nat) (hd : p.disc = some (L, .oldest))
    (hbusy : p.curr ≠ []) : (p.enqueueJob e j).1.mq.length ≤ L := by
  unfold WP.enqueueJob
  have hns : p.shedsNewest = false := by unfold WP.shedsNewest; simp [hd]
  simp only [hns, Bool.false_eq_true, if_false]
  unfold WP.enqueueAccepted
  have hc : (p.track j.key).curr.isEmpty = false := by
    simp only [WP.track]; cases h : p.curr with
    | nil => exact absurd h hbusy
    | cons _ _ => rfl
  simp only [hc, Bool.false_eq_true, if_false]
  have hdisc : (p.track j.key).disc = some (L, .oldest) := hd
  simp only [hdisc]
  exact shedOldest_length L _ _ _ (by simp only; omega)

end Factory
