//! C16 correspondence harness: the REAL `ractor::OutputPort` under the controlled-task
//! engine (E-LTS) and, in the `outport-v2` build, the real `dispatch_batch` (E-PURE).
//!
//! The binary is built twice: default features = the broadcast-ring port (v1), feature
//! `outport-v2` = ractor's `output-port-v2` port task. Every task ractor spawns after
//! `verif::install()` (the v2 port task, every v1 forwarding task) is gated: it is polled
//! only when an op grants it. Subscriber actors are spawned before the controller is
//! installed and run freely; a 1 ms sleep on the paused clock runs them to quiescence.
//!
//! ops (one per line; the observation goes to impl.txt):
//!   case v1|v2 <n> <actors> [<k>]  fresh port, <actors> fresh subscriber actors; the first <k>
//!                                of them are held in `pre_start` (status Starting: their
//!                                mailbox accepts messages, nothing is handled yet)  -> ok
//!   release <actor>              let a held actor finish `pre_start`             -> ok
//!   pub <m>                      port.send(m)                                    -> ok
//!   sub <key> <actor> <conv>     port.subscribe(actor, conv tagged with key)    -> v2: ok
//!                                                              v1: held=<h> fin=<f> rx=<r>
//!   stop <actor>                 actor.stop(None), wait until it is gone         -> ok
//!   drain <actor>                actor.drain(): refuses messages at once (status Draining), handles
//!                                its backlog, exits "Drained"; a held actor stays Draining until released
//!                                                                                -> ok | Draining
//!   grant port | grant <key>     poll the port task (v2) / forwarding task of subscription
//!                                <key> (v1) until it parks
//!                                       -> calls=<key:msg,…|-> done=<bool> [held= fin= rx=]
//!   seq <key>                    what the subscriber received under <key>        -> o,o,…|-
//!   dispatch <ad> <dead> <subs> <batch>   (v2 build) real dispatch_batch         -> trace | keys
//!   pubcheck <m>                 (v1) a publisher THREAD runs the real send(m) up to the schedule point
//!                                between receiver_count() and tx.send()    -> parked | skipped | closed
//!   pubstore                     the oldest parked publisher performs its tx.send -> ok | none
//!   drop                         drop the OutputPort (the last sender; v1: also the JoinHandles,
//!                                which detaches the forwarding tasks)            -> ok
//!                                afterwards: pub / sub -> closed; a grant must end with done=true
//!
//! converter `suicide`: identity which, called with an original message m (m % 8 == 6), calls
//! `drain()` on its OWN subscriber actor before returning Some(m): the subscriber stops accepting in
//! the middle of a batch (v2) / of a forwarding iteration (v1), the send of that very message fails.
//!
//! converter `echo`: identity which, when called with an original message m (m < ECHO_BASE,
//! m % 4 == 0), publishes m + ECHO_BASE*(key+1) on the very same port from INSIDE the converter
//! call (through a `Weak`): a publication landing in the middle of a poll of the port task /
//! forwarding task.
//!
//! usage: outport --seed S --cases N --out DIR [--replay-ops f1,f2 --only-replay 1]

use std::sync::{Arc, Mutex};

use hutil::{Args, Log, Rng, Stats};
use ractor::{Actor, ActorProcessingErr, ActorRef, OutputPort};

const V2: bool = cfg!(feature = "outport-v2");
const CONVS: [&str; 6] = ["all", "even", "odd", "none", "dbl", "m3"];
const ECHO_BASE: u64 = 100_000;

fn conv(kind: &str, m: u64) -> Option<u64> {
    match kind {
        "all" => Some(m),
        "even" => (m % 2 == 0).then_some(m),
        "odd" => (m % 2 == 1).then_some(m),
        "none" => None,
        "dbl" => Some(2 * m),
        "echo" | "dropper" | "suicide" => Some(m),
        _ => (m % 3 == 0).then_some(m + 1000),
    }
}

type Received = Arc<Mutex<Vec<(u64, u64)>>>;

/// every converter call `(key, msg)` of the running case, in call order
static CALLS: Mutex<Vec<(u64, u64)>> = Mutex::new(Vec::new());
/// key of the (single) subscription of the case made through `OutputPortSubscriberTrait`
/// publications made from inside a converter call (statistics)
static REPUBS: std::sync::atomic::AtomicU64 = std::sync::atomic::AtomicU64::new(0);
/// subscribers drained from inside their own converter call (statistics)
static SUICIDES: std::sync::atomic::AtomicU64 = std::sync::atomic::AtomicU64::new(0);
/// port drops performed from inside a converter call (statistics)
static MIDDROPS: std::sync::atomic::AtomicU64 = std::sync::atomic::AtomicU64::new(0);
static FROM_KEY: std::sync::atomic::AtomicU64 = std::sync::atomic::AtomicU64::new(u64::MAX);

/// the recorder actors' message: `(subscription key, converted value)`
struct RMsg(u64, u64);

/// `ActorRef<O>: OutputPortSubscriberTrait<I>` needs `O: From<I>`; its converter is
/// `|msg| Some(O::from(msg))`, so this `from` IS the converter call of that subscription
impl From<u64> for RMsg {
    fn from(m: u64) -> Self {
        let k = FROM_KEY.load(std::sync::atomic::Ordering::SeqCst);
        CALLS.lock().unwrap().push((k, m));
        RMsg(k, m)
    }
}

struct Recorder;

/// where the received messages go, and (for an actor that is held in `pre_start`) the gate
type RecorderArgs = (Received, Option<tokio::sync::oneshot::Receiver<()>>);

impl Actor for Recorder {
    type Msg = RMsg;
    type State = Received;
    type Arguments = RecorderArgs;
    async fn pre_start(&self, _: ActorRef<Self::Msg>, a: RecorderArgs) -> Result<Received, ActorProcessingErr> {
        if let Some(gate) = a.1 {
            let _ = gate.await; // still `Starting`: an actor subscribing itself before it runs
        }
        Ok(a.0)
    }
    async fn handle(&self, _: ActorRef<Self::Msg>, m: Self::Msg, st: &mut Received) -> Result<(), ActorProcessingErr> {
        st.lock().unwrap().push((m.0, m.1));
        Ok(())
    }
}

async fn settle() {
    tokio::time::sleep(std::time::Duration::from_millis(1)).await;
}

fn show_pairs(v: &[(u64, u64)]) -> String {
    if v.is_empty() {
        "-".into()
    } else {
        v.iter().map(|(a, b)| format!("{a}:{b}")).collect::<Vec<_>>().join(",")
    }
}

fn show_list(v: &[u64]) -> String {
    if v.is_empty() {
        "-".into()
    } else {
        v.iter().map(|a| a.to_string()).collect::<Vec<_>>().join(",")
    }
}

type PortCell = Arc<Mutex<Option<Arc<OutputPort<u64>>>>>;

struct World {
    ctl: Arc<ractor::verif::Controller>,
    /// the only strong handle of the port; a `dropper` converter shares the cell and empties it
    /// from inside a converter call
    port: PortCell,
    actors: Vec<(ActorRef<RMsg>, Received)>,
    /// gates of the actors still held in `pre_start`
    gates: Vec<Option<tokio::sync::oneshot::Sender<()>>>,
    /// controller tasks that are subscriber actors' message loops (an actor released from
    /// `pre_start` spawns its loop while the controller is installed): always run to quiescence
    actor_tasks: Vec<usize>,
    /// subscription key -> controller task id (v1)
    tasks: std::collections::HashMap<u64, usize>,
    /// number of `pub` ops so far, and its value at the last grant of each task (statistics)
    npub: u64,
    /// publications since the last grant of any task
    unpolled: u64,
    /// publisher threads parked between `receiver_count()` and `tx.send()`
    inflight: std::collections::VecDeque<(Arc<ractor::verif::ThreadCtl>, std::thread::JoinHandle<()>)>,
    last_grant: std::collections::HashMap<usize, u64>,
}

impl World {
    async fn new(nactors: usize, nheld: usize) -> World {
        ractor::verif::uninstall();
        let mut actors = Vec::new();
        let mut gates = Vec::new();
        for i in 0..nactors {
            let rec: Received = Arc::new(Mutex::new(Vec::new()));
            if i < nheld {
                // `spawn_instant`: the reference exists at once, `pre_start` waits for the gate
                let (tx, rx) = tokio::sync::oneshot::channel();
                let (a, _) = ractor::ActorRuntime::<Recorder>::spawn_instant(None, Recorder, (rec.clone(), Some(rx))).expect("spawn held recorder");
                actors.push((a, rec));
                gates.push(Some(tx));
            } else {
                let (a, _) = Actor::spawn(None, Recorder, (rec.clone(), None)).await.expect("spawn recorder");
                actors.push((a, rec));
                gates.push(None);
            }
        }
        settle().await;
        let ctl = ractor::verif::install();
        // v2: `default()` spawns the port task (controller task 0)
        let port = Arc::new(OutputPort::<u64>::default());
        CALLS.lock().unwrap().clear();
        FROM_KEY.store(u64::MAX, std::sync::atomic::Ordering::SeqCst);
        World { ctl, port: Arc::new(Mutex::new(Some(port))), actors, gates, actor_tasks: vec![], tasks: Default::default(), npub: 0, unpolled: 0, inflight: Default::default(), last_grant: Default::default() }
    }

    /// subscriber actors are not under test: whenever one of their (gated) loops can run, it runs
    async fn pump_actors(&self) {
        for _ in 0..200 {
            let mut any = false;
            for id in &self.actor_tasks {
                if let Some(t) = self.ctl.task(*id) {
                    if t.runnable() {
                        t.grant();
                        any = true;
                    }
                }
            }
            if !any {
                break;
            }
            settle().await;
        }
    }

    #[cfg(not(feature = "outport-v2"))]
    fn v1_counts(&self) -> String {
        let (h, f, r) = self.port.lock().unwrap().as_ref().unwrap().verif_subscriptions();
        format!("held={h} fin={f} rx={r}")
    }

    async fn grant(&mut self, id: usize, st: &mut Stats) -> String {
        let Some(t) = self.ctl.task(id) else { return "no-such-task".into() };
        let behind = self.npub - self.last_grant.insert(id, self.npub).unwrap_or(0);
        self.unpolled = 0;
        if !t.is_done() {
            if V2 && behind > 32 {
                st.bump("v2_grant_backlog_over_32");
            }
            if !V2 && behind > 16 {
                st.bump("v1_grant_backlog_over_16");
            }
        }
        CALLS.lock().unwrap().clear();
        let mut rounds = 0;
        loop {
            if t.is_done() {
                break;
            }
            t.grant();
            settle().await;
            rounds += 1;
            if t.is_done() || !t.runnable() || rounds > 1000 {
                break;
            }
        }
        let c = CALLS.lock().unwrap().clone();
        st.add("converter_calls", c.len() as u64);
        if self.port.lock().unwrap().is_none() && rounds > 0 {
            st.bump("grant_after_drop_ran");
            st.add("converter_calls_after_drop", c.len() as u64);
        }
        if rounds > 0 && t.is_done() {
            st.bump("grant_task_ended");
        }
        if rounds > 1 {
            st.bump("grant_needed_several_polls");
        }
        format!("calls={} done={}", show_pairs(&c), t.is_done())
    }

    async fn exec(&mut self, op: &str, st: &mut Stats) -> String {
        self.pump_actors().await;
        let r = self.exec_op(op, st).await;
        self.pump_actors().await;
        r
    }

    async fn exec_op(&mut self, op: &str, st: &mut Stats) -> String {
        let w: Vec<&str> = op.split_whitespace().collect();
        match w.as_slice() {
            ["pub", m] => {
                st.bump("pub");
                let guard = self.port.lock().unwrap();
                let Some(port) = guard.as_ref() else { return "closed".into() };
                self.npub += 1;
                self.unpolled += 1;
                let u = self.unpolled;
                st.0.entry("max_publications_accepted_while_no_task_was_polled".into()).and_modify(|x| *x = (*x).max(u)).or_insert(u);
                let before = CALLS.lock().unwrap().len();
                // every forwarding task / the port task is gated: the call returns without any of them running
                port.send(m.parse().unwrap());
                let inline = CALLS.lock().unwrap().len() - before;
                if inline == 0 { "ok".into() } else { format!("ok inline-converter-calls={inline}") }
            }
            #[cfg(not(feature = "outport-v2"))]
            ["pubcheck", m] => {
                st.bump("pubcheck");
                let m: u64 = m.parse().unwrap();
                let p = {
                    let guard = self.port.lock().unwrap();
                    let Some(port) = guard.as_ref() else { return "closed".into() };
                    port.clone()
                };
                let ctl = ractor::verif::ThreadCtl::new();
                let c2 = ctl.clone();
                let h = std::thread::spawn(move || {
                    ractor::verif::thread_register(c2.clone());
                    let r = std::panic::catch_unwind(std::panic::AssertUnwindSafe(|| p.send(m)));
                    drop(p);
                    ractor::verif::thread_unregister();
                    c2.finish();
                    if let Err(e) = r {
                        std::panic::resume_unwind(e);
                    }
                });
                match ctl.wait_parked() {
                    ractor::verif::ThreadPhase::AtPoint(_) => {
                        st.bump("publisher_parked_between_check_and_store");
                        self.inflight.push_back((ctl, h));
                        "parked".into()
                    }
                    _ => {
                        let _ = h.join();
                        self.npub += 1;
                        "skipped".into()
                    }
                }
            }
            ["pubstore"] => {
                let Some((ctl, h)) = self.inflight.pop_front() else { return "none".into() };
                st.bump("pubstore");
                ctl.release();
                ctl.wait_parked();
                let r = h.join();
                self.npub += 1;
                if r.is_ok() { "ok".into() } else { "panicked".into() }
            }
            ["drop"] => {
                if !self.inflight.is_empty() {
                    return "busy".into();
                }
                st.bump("drop");
                let taken = self.port.lock().unwrap().take();
                if let Some(p) = taken {
                    assert_eq!(Arc::strong_count(&p), 1, "the harness holds the only handle");
                    drop(p);
                }
                "ok".into()
            }
            ["sub", key, actor, kind] => {
                st.bump("sub");
                let key: u64 = key.parse().unwrap();
                let a: usize = actor.parse().unwrap();
                let kind = kind.to_string();
                let before = self.ctl.len();
                let guard = self.port.lock().unwrap();
                let Some(port) = guard.as_ref() else { return "closed".into() };
                let weak = Arc::downgrade(port);
                let echo = kind == "echo";
                if echo {
                    st.bump("sub_echo");
                }
                let dropper = kind == "dropper";
                if dropper {
                    st.bump("sub_dropper");
                }
                let cell = self.port.clone();
                // `suicide`: the converter drains its OWN subscriber from inside the call, before returning
                // Some: the subscriber stops accepting in the middle of a batch / of an iteration
                let suicide = kind == "suicide";
                if suicide {
                    st.bump("sub_suicide");
                }
                let own = self.actors[a].0.clone();
                if kind == "from" {
                    // the public trait-object route: `Box<dyn OutputPortSubscriberTrait<u64>>`
                    if FROM_KEY.load(std::sync::atomic::Ordering::SeqCst) != u64::MAX {
                        return "bad-op".into();
                    }
                    st.bump("sub_from_trait");
                    FROM_KEY.store(key, std::sync::atomic::Ordering::SeqCst);
                    let b: ractor::port::OutputPortSubscriber<u64> = Box::new(self.actors[a].0.clone());
                    b.subscribe_to_port(port);
                } else {
                port.subscribe(self.actors[a].0.clone(), move |m: u64| {
                    CALLS.lock().unwrap().push((key, m));
                    if echo && m < ECHO_BASE && m % 4 == 0 {
                        // a publication from inside the converter call = in the middle of the poll
                        if let Some(p) = weak.upgrade() {
                            p.send(m + ECHO_BASE * (key + 1));
                            REPUBS.fetch_add(1, std::sync::atomic::Ordering::SeqCst);
                        }
                    }
                    if suicide && m < ECHO_BASE && m % 8 == 6 {
                        let _ = own.drain();
                        SUICIDES.fetch_add(1, std::sync::atomic::Ordering::SeqCst);
                    }
                    if dropper && m < ECHO_BASE && m % 8 == 4 {
                        // the port is dropped from inside the converter call = in the middle of the poll
                        let taken = cell.lock().unwrap().take();
                        if let Some(p) = taken {
                            assert_eq!(Arc::strong_count(&p), 1);
                            drop(p);
                            MIDDROPS.fetch_add(1, std::sync::atomic::Ordering::SeqCst);
                        }
                    }
                    conv(&kind, m).map(|o| RMsg(key, o))
                });
                }
                drop(guard);
                #[cfg(not(feature = "outport-v2"))]
                {
                    assert_eq!(self.ctl.len(), before + 1, "subscribe spawns exactly one forwarding task");
                    self.tasks.insert(key, before);
                    self.v1_counts()
                }
                #[cfg(feature = "outport-v2")]
                {
                    assert_eq!(self.ctl.len(), before, "v2 subscribe spawns nothing");
                    "ok".to_string()
                }
            }
            ["release", actor] => {
                st.bump("release");
                let a: usize = actor.parse().unwrap();
                let before = self.ctl.len();
                if let Some(Some(g)) = self.gates.get_mut(a).map(|g| g.take()) {
                    let _ = g.send(());
                }
                settle().await;
                // `pre_start` returned: the start task has spawned the actor's loop, gated
                for id in before..self.ctl.len() {
                    self.actor_tasks.push(id);
                }
                self.pump_actors().await;
                "ok".into()
            }
            ["stop", actor] => {
                st.bump("stop");
                let a: usize = actor.parse().unwrap();
                self.actors[a].0.stop(None);
                settle().await;
                self.pump_actors().await;
                let s = self.actors[a].0.get_status();
                if s == ractor::ActorStatus::Stopped { "ok".into() } else { format!("{s:?}") }
            }
            ["drain", actor] => {
                st.bump("drain");
                let a: usize = actor.parse().unwrap();
                let _ = self.actors[a].0.drain();
                settle().await;
                self.pump_actors().await;
                let s = self.actors[a].0.get_status();
                if s == ractor::ActorStatus::Stopped { "ok".into() } else { format!("{s:?}") }
            }
            ["grant", "port"] => {
                st.bump("grant");
                self.grant(0, st).await
            }
            ["grant", key] => {
                st.bump("grant");
                let key: u64 = key.parse().unwrap();
                match self.tasks.get(&key).copied() {
                    None => "no-such-task".into(),
                    Some(id) => {
                        let r = self.grant(id, st).await;
                        #[cfg(not(feature = "outport-v2"))]
                        let r = if self.port.lock().unwrap().is_some() { format!("{r} {}", self.v1_counts()) } else { r };
                        r
                    }
                }
            }
            ["seq", key] => {
                st.bump("seq");
                settle().await;
                self.pump_actors().await;
                let key: u64 = key.parse().unwrap();
                let mut out = Vec::new();
                for (_, rec) in &self.actors {
                    // a subscription has one subscriber, so its entries are in one actor's log
                    let v: Vec<u64> = rec.lock().unwrap().iter().filter(|(k, _)| *k == key).map(|(_, o)| *o).collect();
                    if !v.is_empty() {
                        assert!(out.is_empty(), "key {key} seen by two actors");
                        out = v;
                    }
                }
                show_list(&out)
            }
            _ => "bad-op".into(),
        }
    }

    async fn finish(mut self) {
        for g in self.gates.iter_mut() {
            if let Some(g) = g.take() {
                let _ = g.send(());
            }
        }
        // let every gated task run to its end so nothing stays parked forever
        while let Some((ctl, h)) = self.inflight.pop_front() {
            ctl.release();
            let _ = h.join();
        }
        let last = self.port.lock().unwrap().take();
        drop(last);
        for t in self.ctl.tasks() {
            for _ in 0..200 {
                if t.is_done() {
                    break;
                }
                t.grant();
                settle().await;
            }
        }
        ractor::verif::uninstall();
        for (a, _) in &self.actors {
            a.stop(None);
        }
        settle().await;
    }
}

/// Execute one case (`ops[0]` is its `case` line).
async fn run_case(ops: &[String], log: &mut Log, st: &mut Stats) {
    let w: Vec<&str> = ops[0].split_whitespace().collect();
    let want_v2 = w.get(1) == Some(&"v2");
    if want_v2 != V2 {
        return; // a case recorded for the other build
    }
    let nactors: usize = w.get(3).and_then(|x| x.parse().ok()).unwrap_or(4);
    let nheld: usize = w.get(4).and_then(|x| x.parse().ok()).unwrap_or(0);
    st.bump("cases");
    if nheld > 0 {
        st.bump("cases_with_starting_subscriber");
    }
    let mut world = World::new(nactors, nheld).await;
    log.rec(&ops[0], "ok");
    for op in &ops[1..] {
        let obs = world.exec(op, st).await;
        log.rec(op, obs);
    }
    world.finish().await;
}

fn gen_case(rng: &mut Rng, n: u64) -> Vec<String> {
    let nactors = rng.range(1, 4);
    // in a third of the cases some subscribers are still in `pre_start` (status Starting)
    let nheld = if rng.chance(1, 3) { rng.range(1, nactors) } else { 0 };
    let mut held: Vec<u64> = (0..nheld).collect();
    let mut ops = vec![if nheld > 0 {
        format!("case {} {n} {nactors} {nheld}", if V2 { "v2" } else { "v1" })
    } else {
        format!("case {} {n} {nactors}", if V2 { "v2" } else { "v1" })
    }];
    let mut next_msg = 1u64;
    let mut keys: Vec<u64> = Vec::new();
    let steps = rng.range(4, 40);
    // personality of the case: how long the bursts are and how eager the tasks
    let burst_max = *rng.pick(&[3u64, 3, 8, 20, 40, 70]);
    let grant_w = *rng.pick(&[5u64, 15, 30]);
    let stop_w = *rng.pick(&[0u64, 2, 2, 8]);
    // a third of the cases have re-entrant converters (on actor 0, which is then never stopped:
    // a v1 task whose cast is rejected in the very call that published is finer than a model step)
    let echo_case = rng.chance(1, 3);
    // a third of the cases drop the port somewhere in the second half
    let drop_at = if rng.chance(1, 3) { Some(rng.range(steps / 2, steps - 1)) } else { None };
    let mut dropped = false;
    let mut from_used = false;
    // publisher threads parked inside `send` (v1, not with re-entrant converters)
    let mut inflight = 0u32;
    let grant_all = |ops: &mut Vec<String>, keys: &[u64], rng: &mut Rng| {
        if V2 {
            ops.push("grant port".into());
        } else {
            let mut ks = keys.to_vec();
            rng.shuffle(&mut ks);
            for k in ks {
                ops.push(format!("grant {k}"));
            }
        }
    };
    for step in 0..steps {
        if drop_at == Some(step) {
            for _ in 0..inflight {
                ops.push("pubstore".into());
            }
            inflight = 0;
            ops.push("drop".into());
            dropped = true;
        }
        if inflight > 0 && rng.chance(1, 3) {
            ops.push("pubstore".into());
            inflight -= 1;
        }
        if !V2 && !echo_case && !dropped && rng.chance(1, 8) {
            if !keys.is_empty() && rng.chance(1, 3) {
                // every receiver disappears between the check and the store
                for a in 0..nactors {
                    ops.push(format!("drain {a}"));
                }
                ops.push(format!("pub {next_msg}"));
                ops.push(format!("pubcheck {}", next_msg + 1));
                next_msg += 2;
                grant_all(&mut ops, &keys, rng);
                ops.push("pubstore".into());
                continue;
            }
            ops.push(format!("pubcheck {next_msg}"));
            next_msg += 1;
            inflight += 1;
            continue;
        }
        let k = rng.below(100);
        if dropped && k < 50 && rng.chance(4, 5) {
            // after the drop mostly let the tasks run
            if V2 {
                ops.push("grant port".into());
            } else if !keys.is_empty() {
                ops.push(format!("grant {}", rng.pick(&keys)));
            }
        } else if dropped && keys.is_empty() {
            ops.push(format!("pub {next_msg}"));
            next_msg += 1;
        } else if k < 30 {
            let b = rng.range(1, burst_max);
            for _ in 0..b {
                ops.push(format!("pub {next_msg}"));
                next_msg += 1;
            }
        } else if k < 50 || keys.is_empty() {
            let key = keys.len() as u64;
            if echo_case && rng.chance(1, 3) {
                ops.push(format!("sub {key} 0 {}", if rng.chance(1, 4) { "dropper" } else { "echo" }));
            } else if !echo_case && rng.chance(1, 8) {
                ops.push(format!("sub {key} {} suicide", rng.below(nactors)));
            } else if !from_used && rng.chance(1, 6) {
                from_used = true;
                ops.push(format!("sub {key} {} from", rng.below(nactors)));
            } else {
                let kind = if rng.chance(1, 2) { "all" } else { *rng.pick(&CONVS) };
                ops.push(format!("sub {key} {} {kind}", rng.below(nactors)));
            }
            if !dropped {
                keys.push(key);
            }
        } else if k < 50 + stop_w {
            // an actor that is still starting cannot be stopped gracefully: only released ones
            let a = rng.below(nactors);
            if echo_case && a == 0 {
                // never stopped
            } else if rng.chance(1, 3) {
                // drain: refuses at once; a held (Starting) actor stays Draining until released
                ops.push(format!("drain {a}"));
            } else if !held.contains(&a) {
                ops.push(format!("stop {a}"));
            } else if rng.chance(1, 2) {
                held.retain(|x| *x != a);
                ops.push(format!("release {a}"));
            }
        } else if k < 58 + grant_w {
            if V2 {
                ops.push("grant port".into());
            } else {
                ops.push(format!("grant {}", rng.pick(&keys)));
            }
        } else if k < 95 {
            ops.push(format!("pub {next_msg}"));
            next_msg += 1;
        } else {
            ops.push(format!("seq {}", rng.pick(&keys)));
        }
    }
    for _ in 0..inflight {
        ops.push("pubstore".into());
    }
    // what everybody has at an arbitrary point, then at quiescence
    for k in &keys {
        ops.push(format!("seq {k}"));
    }
    if !dropped && rng.chance(1, 5) {
        ops.push("drop".into());
    }
    if rng.chance(1, 2) {
        for a in held.drain(..) {
            ops.push(format!("release {a}"));
        }
    }
    grant_all(&mut ops, &keys, rng);
    if rng.chance(1, 2) {
        grant_all(&mut ops, &keys, rng);
    }
    for a in held.drain(..) {
        ops.push(format!("release {a}"));
    }
    for k in &keys {
        ops.push(format!("seq {k}"));
    }
    ops
}

// ---------------------------------------------------------------------------------------
// E-PURE on the real `dispatch_batch` (v2 build only)
// ---------------------------------------------------------------------------------------

#[cfg(feature = "outport-v2")]
mod pure {
    use super::*;
    use ractor::port::output::verif_hooks::{Item, SubSpec};
    // the REAL `Filtering` subscriber (what `OutputPort::subscribe` creates) around a fake actor reference
    use ractor::port::output::verif_hooks2::dispatch_filtering as dispatch_dying;

    fn kind_ix(k: &str) -> u8 {
        CONVS.iter().position(|c| *c == k).unwrap() as u8
    }

    fn parse_spec(s: &str, dead: &[u32]) -> SubSpec {
        let p: Vec<&str> = s.split(':').collect();
        let id: u32 = p[0].parse().unwrap();
        SubSpec { id, key: p[1].parse().unwrap(), conv: kind_ix(p[2]), dead: dead.contains(&id) }
    }

    pub async fn exec(op: &str) -> String {
        let w: Vec<&str> = op.split_whitespace().collect();
        // `dispatch ad dead subs batch [id:n]` — with `id:n` subscriber `id` dies after n sends
        let (ad, dead, subs, batch, dying) = match w.as_slice() {
            ["dispatch", ad, dead, subs, batch] => (ad, dead, subs, batch, None),
            ["dispatch", ad, dead, subs, batch, dy] => {
                let p: Vec<&str> = dy.split(':').collect();
                (ad, dead, subs, batch, Some((p[0].parse::<u32>().unwrap(), p[1].parse::<usize>().unwrap())))
            }
            _ => return "bad-op".into(),
        };
        let dead: Vec<u32> = if *dead == "-" { vec![] } else { dead.split(',').map(|x| x.parse().unwrap()).collect() };
        let subs: Vec<SubSpec> = if *subs == "-" { vec![] } else { subs.split(',').map(|s| parse_spec(s, &dead)).collect() };
        let batch: Vec<Item> = if *batch == "-" {
            vec![]
        } else {
            batch
                .split(',')
                .map(|b| match b.strip_prefix('d') {
                    Some(v) => Item::Data(v.parse().unwrap()),
                    None => Item::Set(parse_spec(b.strip_prefix('s').unwrap(), &dead)),
                })
                .collect()
        };
        let (trace, remaining) = dispatch_dying(&subs, &batch, *ad == "true", dying).await;
        let t = if trace.is_empty() {
            "-".to_string()
        } else {
            trace.iter().map(|(k, v, ok)| format!("{k}:{v}:{}", *ok as u8)).collect::<Vec<_>>().join(",")
        };
        let r: Vec<u64> = remaining.iter().map(|k| *k as u64).collect();
        format!("{t} | {}", show_list(&r))
    }

    pub fn gen(rng: &mut Rng) -> String {
        let ad = rng.chance(3, 4);
        let nids = rng.range(1, 4);
        let dead: Vec<u64> = (0..nids).filter(|_| rng.chance(1, 4)).collect();
        let mut key = 0u64;
        let mut spec = |rng: &mut Rng| {
            let s = format!("{}:{key}:{}", rng.below(nids), if rng.chance(1, 2) { "all" } else { *rng.pick(&CONVS) });
            key += 1;
            s
        };
        let nsubs = rng.range(0, 3);
        let subs: Vec<String> = (0..nsubs).map(|_| spec(rng)).collect();
        let n = rng.range(0, 9);
        let mut v = 1u64;
        let batch: Vec<String> = (0..n)
            .map(|_| {
                if rng.chance(1, 4) {
                    format!("s{}", spec(rng))
                } else {
                    v += 1;
                    format!("d{v}")
                }
            })
            .collect();
        let j = |v: &[String]| if v.is_empty() { "-".to_string() } else { v.join(",") };
        // sometimes a subscriber dies in the middle of the batch
        let dying = if rng.chance(1, 3) { format!(" {}:{}", rng.below(nids), rng.below(12)) } else { String::new() };
        format!("dispatch {ad} {} {} {}{dying}", show_list(&dead), j(&subs), j(&batch))
    }

    /// every batch of length ≤ 4 over {data, set(id0), set(id1)} × both flags × dead ⊆ {0}
    pub fn exhaustive() -> Vec<String> {
        let mut out = Vec::new();
        for ad in [true, false] {
            for dead in ["-", "0"] {
                for subs in ["-", "0:0:all", "0:0:even,1:1:all"] {
                    for len in 0..=4u32 {
                        for code in 0..3u32.pow(len) {
                            let mut c = code;
                            let mut key = 10;
                            let mut v = 0;
                            let mut items = Vec::new();
                            for _ in 0..len {
                                match c % 3 {
                                    0 => {
                                        v += 1;
                                        items.push(format!("d{v}"));
                                    }
                                    x => {
                                        items.push(format!("s{}:{key}:all", x - 1));
                                        key += 1;
                                    }
                                }
                                c /= 3;
                            }
                            let b = if items.is_empty() { "-".to_string() } else { items.join(",") };
                            out.push(format!("dispatch {ad} {dead} {subs} {b}"));
                        }
                    }
                }
            }
        }
        out
    }
}

async fn replay_file(path: &str, log: &mut Log, st: &mut Stats) {
    let Ok(txt) = std::fs::read_to_string(path) else { return };
    let lines: Vec<String> = txt.lines().map(|l| l.trim().to_string()).filter(|l| !l.is_empty() && !l.starts_with('#')).collect();
    let mut i = 0;
    while i < lines.len() {
        if lines[i].starts_with("case ") {
            let mut j = i + 1;
            while j < lines.len() && !lines[j].starts_with("case ") && !lines[j].starts_with("dispatch ") {
                j += 1;
            }
            run_case(&lines[i..j], log, st).await;
            st.bump("replayed_cases");
            i = j;
        } else if lines[i].starts_with("dispatch ") {
            #[cfg(feature = "outport-v2")]
            {
                let obs = pure::exec(&lines[i]).await;
                log.rec(&lines[i], obs);
                st.bump("replayed_dispatch");
            }
            i += 1;
        } else {
            // ops without a case line: give them a default world
            let mut j = i;
            while j < lines.len() && !lines[j].starts_with("case ") && !lines[j].starts_with("dispatch ") {
                j += 1;
            }
            let mut ops = vec![format!("case {} 0 4", if V2 { "v2" } else { "v1" })];
            ops.extend_from_slice(&lines[i..j]);
            run_case(&ops, log, st).await;
            i = j;
        }
    }
}

#[tokio::main(flavor = "current_thread", start_paused = true)]
async fn main() {
    let args = Args::parse();
    let seed = args.u64("seed", 1);
    let cases = args.u64("cases", 200);
    let out = args.str("out", "/tmp/ports-outport");
    let mut rng = Rng::new(seed ^ if V2 { 0x7632 } else { 0x7631 });
    let mut log = Log::create(std::path::Path::new(&out)).unwrap();
    let mut st = Stats::default();

    for f in args.str("replay-ops", "").split(',').filter(|f| !f.is_empty()) {
        replay_file(f, &mut log, &mut st).await;
    }
    if args.u64("only-replay", 0) != 1 {
        for n in 0..cases {
            let ops = gen_case(&mut rng, n);
            run_case(&ops, &mut log, &mut st).await;
        }
        #[cfg(feature = "outport-v2")]
        {
            if args.u64("exhaustive", 1) == 1 {
                for op in pure::exhaustive() {
                    let obs = pure::exec(&op).await;
                    log.rec(&op, obs);
                    st.bump("dispatch_exhaustive");
                }
            }
            for _ in 0..cases * 4 {
                let op = pure::gen(&mut rng);
                let obs = pure::exec(&op).await;
                log.rec(&op, obs);
                st.bump("dispatch_random");
            }
        }
    }
    st.add("reentrant_pub_inside_converter_call", REPUBS.load(std::sync::atomic::Ordering::SeqCst));
    st.add("subscriber_drained_inside_its_own_converter_call", SUICIDES.load(std::sync::atomic::Ordering::SeqCst));
    st.add("port_dropped_inside_converter_call", MIDDROPS.load(std::sync::atomic::Ordering::SeqCst));
    st.add("lines", log.lines);
    st.write_json(&std::path::Path::new(&out).join("stats.json"));
    log.finish();
}
