import RactorModel.Generated.JobMeta
import RactorModel.Lemmas.Codec

/-!
# GenJobMeta — list facts for the `copy_from_slice`/`split_off` code `rs2lean` generates from
`ractor/src/factory/job.rs`, and the abstraction to `Codec.JobMeta`.
-/

namespace GenJobMeta
open Generated.JobMeta Codec

/-- two `copy_from_slice` of `n`-element pieces into a zeroed `2n` buffer = concatenation -/
theorem copy_two {α : Type} (z : α) (a b : List α) (n : Nat) (ha : a.length = n) (hb : b.length = n) :
    Rust.copyInto (Rust.copyInto (List.replicate (n + n) z) 0 a) n b = a ++ b := by
  subst ha
  simp only [Rust.copyInto, List.take_zero, List.nil_append, Nat.zero_add, List.drop_replicate, Nat.add_sub_cancel]
  rw [List.take_append_of_le_length (Nat.le_refl _), List.take_length]
  rw [show a.length + b.length = (a ++ List.replicate a.length z).length by simp [hb]]
  simp

/-- header (`m` elements) then a tail copied at `m` into a zeroed buffer of the exact size -/
theorem copy_head_tail {α : Type} (z : α) (a b : List α) (m : Nat) (ha : a.length = m) :
    Rust.copyInto (Rust.copyInto (List.replicate (m + b.length) z) 0 a) m b = a ++ b := by
  subst ha
  simp only [Rust.copyInto, List.take_zero, List.nil_append, Nat.zero_add, List.drop_replicate, Nat.add_sub_cancel_left]
  rw [List.take_append_of_le_length (Nat.le_refl _), List.take_length]
  rw [show a.length + b.length = (a ++ List.replicate b.length z).length by simp]
  simp

def absMeta (key : Bytes) (o : JobOptions) : JobMeta := ⟨o.submit_time, o.ttl, key⟩

end GenJobMeta
