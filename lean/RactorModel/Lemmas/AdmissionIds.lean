import RactorModel.Lemmas.AdmissionBase

/-!
Per-message accounting behind C02 (a): for every id `i` exactly one "token" exists —
not yet allocated | a send frame before its enqueue | the message in the channel history |
a send frame / a logged return with a non-`Ok` result — and the channel history holds `i`
exactly as often as there are pending or logged `Ok` returns for `i`.
-/

namespace Admission

def Frame.pre (i : Nat) (f : Frame) : Bool :=
  f.id == i && (match f.pc with
    | .sStatus | .aLoad | .aCas _ | .box | .boxing | .enq => true
    | _ => false)
def Frame.okPend (i : Nat) (f : Frame) : Bool :=
  f.id == i && (match f.pc with
    | .rel .ok | .mLoad (some .ok) | .mCas _ (some .ok) | .mEnq (some .ok) => true
    | _ => false)
def Frame.errPend (i : Nat) (f : Frame) : Bool :=
  f.id == i && (match f.pc with
    | .rel .ok | .mLoad (some .ok) | .mCas _ (some .ok) | .mEnq (some .ok) => false
    | .rel _ | .mLoad (some _) | .mCas _ (some _) | .mEnq (some _) => true
    | _ => false)
/-- a logged `Ok` return of the send of message `i` -/
def Ret.okFor (i : Nat) (r : Ret) : Bool :=
  r.id == i && (match r.kind with | .send => true | _ => false) &&
    (match r.res with | .ok => true | _ => false)
/-- a logged non-`Ok` return of the send of message `i` -/
def Ret.errFor (i : Nat) (r : Ret) : Bool :=
  r.id == i && (match r.kind with | .send => true | _ => false) &&
    (match r.res with | .ok => false | _ => true)

structure IdN (i : Nat) (s : Shared) (P O E : Nat) : Prop where
  one : (if s.nextId ≤ i then 1 else 0) + P + s.enq.count (.msg i) + E
      + s.rets.countP (Ret.errFor i) = 1
  oks : s.enq.count (.msg i) = O + s.rets.countP (Ret.okFor i)

set_option hygiene false in
macro "admission_id_case" : tactic => `(tactic| (
  obtain ⟨h1, h2⟩ := h
  obtain ⟨e1, l1⟩ := d1
  obtain ⟨e2, l2⟩ := d2
  obtain ⟨e3, l3⟩ := d3
  (try (cases ops <;> try (rename_i op ops'; cases op))) <;>
  (try (cases r)) <;> (try (cases ret <;> try (rename_i r; cases r))) <;>
  simp only [stepThread, finish, startOp, mRet, Option.getD] at hs <;> (repeat' (split at hs)) <;>
  (try (simp only [Option.some.injEq, Prod.mk.injEq, reduceCtorEq] at hs)) <;>
  (try (obtain ⟨rfl, rfl⟩ := hs)) <;>
  simp only [List.countP_cons, List.countP_append, List.countP_nil, Frame.pre, Frame.okPend,
    Frame.errPend, kindOf] at * <;>
  generalize List.countP (Frame.pre i) rest = a at * <;>
  generalize List.countP (Frame.okPend i) rest = b at * <;>
  generalize List.countP (Frame.errPend i) rest = c at * <;>
  (try (simp only [Bool.false_eq_true, ↓reduceIte, Nat.add_zero, Bool.and_true, Bool.and_false,
    Bool.true_and, Bool.false_and] at *)) <;>
  (constructor <;>
    (try (simp only [List.countP_cons, List.countP_append, List.countP_nil, List.count_append,
      List.count_cons, List.count_nil, Ret.okFor, Ret.errFor])) <;>
    grind)))

section
variable {s s' : Shared} {rest stack' : List Frame} {id : Nat} {late bf : Bool} {ops : List Op} {sk : List Nat}
  {A B C A' B' C' : Nat} {seen : Word} {r : Res} {ret : Option Res} {i : Nat}

set_option hygiene false in
macro "id_lemma " n:ident pc:term : command => `(
  theorem $n (hs : stepThread s (⟨$pc, id, late, ops, bf, sk⟩ :: rest) = some (s', stack'))
    (d1 : Delta (Frame.pre i) (⟨$pc, id, late, ops, bf, sk⟩ :: rest) stack' A A')
    (d2 : Delta (Frame.okPend i) (⟨$pc, id, late, ops, bf, sk⟩ :: rest) stack' B B')
    (d3 : Delta (Frame.errPend i) (⟨$pc, id, late, ops, bf, sk⟩ :: rest) stack' C C')
    (h : IdN i s A B C) : IdN i s' A' B' C' := by
  admission_id_case)

id_lemma id_run Pc.run
id_lemma id_sStatus Pc.sStatus
id_lemma id_aLoad Pc.aLoad
id_lemma id_aCas (Pc.aCas seen)
id_lemma id_box Pc.box
id_lemma id_boxing Pc.boxing
id_lemma id_enq Pc.enq
id_lemma id_rel (Pc.rel r)
id_lemma id_dClose Pc.dClose
id_lemma id_dStatus Pc.dStatus
id_lemma id_mLoad (Pc.mLoad ret)
id_lemma id_mCas (Pc.mCas seen ret)
id_lemma id_mEnq (Pc.mEnq ret)
id_lemma id_bad Pc.bad
end

theorem idN_stepThread {i : Nat} {s s' : Shared} {stack stack' : List Frame}
    (hs : stepThread s stack = some (s', stack')) {A B C A' B' C' : Nat}
    (d1 : Delta (Frame.pre i) stack stack' A A') (d2 : Delta (Frame.okPend i) stack stack' B B')
    (d3 : Delta (Frame.errPend i) stack stack' C C')
    (h : IdN i s A B C) : IdN i s' A' B' C' := by
  cases stack with
  | nil => simp [stepThread] at hs
  | cons f rest =>
    obtain ⟨pc, id, late, ops, bf, sk⟩ := f
    cases pc
    · exact id_run hs d1 d2 d3 h
    · exact id_sStatus hs d1 d2 d3 h
    · exact id_aLoad hs d1 d2 d3 h
    · exact id_aCas hs d1 d2 d3 h
    · exact id_box hs d1 d2 d3 h
    · exact id_boxing hs d1 d2 d3 h
    · exact id_enq hs d1 d2 d3 h
    · exact id_rel hs d1 d2 d3 h
    · exact id_dClose hs d1 d2 d3 h
    · exact id_dStatus hs d1 d2 d3 h
    · exact id_mLoad hs d1 d2 d3 h
    · exact id_mCas hs d1 d2 d3 h
    · exact id_mEnq hs d1 d2 d3 h
    · exact id_bad hs d1 d2 d3 h

theorem idN_rx {i : Nat} {s : Shared} {A B C : Nat} (tid : Tid) (h : IdN i s A B C) :
    IdN i (stepRx s tid) A B C := by
  obtain ⟨h1, h2⟩ := h
  cases tid <;> simp only [stepRx] <;> (repeat' split) <;> constructor <;> simp_all

def IdInv (i : Nat) (g : G) : Prop :=
  IdN i g.sh (cnt (Frame.pre i) g) (cnt (Frame.okPend i) g) (cnt (Frame.errPend i) g)

theorem idInv_init (i : Nat) (progs : List (List Op)) : IdInv i (init progs) := by
  unfold IdInv
  rw [cnt_init (Frame.pre i) (fun _ => by simp [Frame.pre]),
    cnt_init (Frame.okPend i) (fun _ => by simp [Frame.okPend]),
    cnt_init (Frame.errPend i) (fun _ => by simp [Frame.errPend])]
  constructor <;> simp [init]

theorem idInv_step (i : Nat) (g : G) (tid : Tid) (h : IdInv i g) : IdInv i (step g tid) := by
  cases tid with
  | t k =>
    simp only [step]
    split
    · exact h
    · rename_i stack hi
      split
      · exact h
      · rename_i s' stack' hs
        exact idN_stepThread hs (delta_of_set _ g k s' stack stack' hi)
          (delta_of_set _ g k s' stack stack' hi) (delta_of_set _ g k s' stack stack' hi) h
  | recv => exact idN_rx .recv h
  | rxStop => exact idN_rx .rxStop h
  | rxClose => exact idN_rx .rxClose h
  | rxFlush => exact idN_rx .rxFlush h
  | setStatus st => exact idN_rx (.setStatus st) h

theorem idInv_run (i : Nat) (g : G) (sched : List Tid) (h : IdInv i g) :
    IdInv i (run g sched) := by
  induction sched generalizing g with
  | nil => exact h
  | cons t l ih => exact ih _ (idInv_step i g t h)

end Admission
