/-!
# RustSem — the meaning `extract/rs2lean.py` gives to Rust's integer primitives

Unsigned Rust integers of width `w` are `Nat`s (intended range `< 2 ^ w`); every operation that
can leave the range is explicit: saturation (`saturating_*`), wrap-around (`wrapping_*` and the
plain operators, release-mode semantics), `checked_*` (`none` on overflow), `T::try_from`
(`none` when the value does not fit; the error payload is dropped). `usize` is 64 bits.

Hand-written, core Lean only; part of the trusted base of the translator tie.
-/

namespace Rust

def satAdd (w a b : Nat) : Nat := min (a + b) (2 ^ w - 1)
def satMul (w a b : Nat) : Nat := min (a * b) (2 ^ w - 1)
def satSub (a b : Nat) : Nat := a - b
def wAdd (w a b : Nat) : Nat := (a + b) % 2 ^ w
def wSub (w a b : Nat) : Nat := (a + 2 ^ w - b % 2 ^ w) % 2 ^ w
def wMul (w a b : Nat) : Nat := (a * b) % 2 ^ w
def checkedAdd (w a b : Nat) : Option Nat := if a + b < 2 ^ w then some (a + b) else none
def checkedMul (w a b : Nat) : Option Nat := if a * b < 2 ^ w then some (a * b) else none
def checkedSub (a b : Nat) : Option Nat := if b ≤ a then some (a - b) else none
def cast (w a : Nat) : Nat := a % 2 ^ w
def tryFrom (w a : Nat) : Option Nat := if a < 2 ^ w then some a else none
def band (a b : Nat) : Nat := a &&& b
def bor (a b : Nat) : Nat := a ||| b
def bxor (a b : Nat) : Nat := a ^^^ b
def bnot (w a : Nat) : Nat := 2 ^ w - 1 - a % 2 ^ w
def shl (w a b : Nat) : Nat := (a <<< b) % 2 ^ w
def shr (a b : Nat) : Nat := a >>> b

/-- `Instant::checked_add`: `lim` is the largest representable `Instant` (ns offset). -/
def instantCheckedAdd (lim t d : Nat) : Option Nat := if t + d ≤ lim then some (t + d) else none

/-- `a[lo..hi]` -/
def slice {α : Type} (a : List α) (lo hi : Nat) : List α := (a.drop lo).take (hi - lo)

/-- `a[lo..lo + src.len()].copy_from_slice(src)` -/
def copyInto {α : Type} (a : List α) (lo : Nat) (src : List α) : List α :=
  a.take lo ++ src ++ a.drop (lo + src.length)

/-- One iteration of a compare-exchange retry loop
`let mut cur = A.load(); loop { …; match A.compare_exchange(cur, new) { Ok(_) => return v, Err(o) => cur = o } }`
as a function of the value `cur` observed: `done v` = `return v` before the exchange;
`cas cur new v` = attempt to replace `cur` by `new`: on success return `v`, on failure run the
iteration again on the value then observed. -/
inductive CasStep (α : Type) where
  | done (v : α)
  | cas (expected new : Nat) (onSuccess : α)
  deriving DecidableEq, Repr

/-- `unwrap`/`expect`: the panicking path yields `default`. -/
def unwrap {α : Type} [Inhabited α] (o : Option α) : α := o.getD default

/-- `try_from(..).map_err(|_| e)` -/
def okOr {ε α : Type} (o : Option α) (e : ε) : Except ε α :=
  match o with
  | some a => .ok a
  | none => .error e

end Rust
