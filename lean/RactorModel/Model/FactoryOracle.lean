import RactorModel.Model.Factory

/-!
# Oracles for C13 / C14 / C15 on factory histories

A history is a `List Ev` (`Model/Factory.lean`): harness operations, the observations the
implementation produced (worker builds, job starts, discard-handler calls, acceptance-port
replies, lifecycle hooks) and one quiescent snapshot per step (the three RPC queries and the
live worker actors).  The model writes the same vocabulary into its own log, so the very same
predicates judge the implementation's history (driver) and the model's (`Props/`).
Ghost events (`lost`, `dropped`, unreported discards) are ignored by every oracle.
-/

namespace Factory

/-- static facts of a case the oracles need -/
structure Info where
  router : RouterKind
  prioQueue : Bool
  hasHandler : Bool
  n : Nat
  disc : Option (Nat × Mode)
  rl : Option (Nat × Nat × Nat × Nat)
  deriving Repr

structure JobRec where
  id : Nat
  key : Nat
  acc : Bool
  /-- step number of the dispatch -/
  step : Nat
  afterDrain : Bool
  started : Option Nat := none
  discards : Nat := 0
  /-- refused outright (TTL, shutdown, rate limit) rather than shed from a queue -/
  refused : Bool := false
  replies : Nat := 0
  returned : Bool := false
  deriving Repr

structure OSt where
  info : Info
  jobs : List JobRec := []
  /-- (aid, id, key) currently being handled -/
  running : List (Nat × Nat × Nat) := []
  widOf : List (Nat × Nat) := []
  requested : Nat
  /-- identity of the discard handler that is installed now (`none`: no handler) -/
  handler : Option Nat
  /-- a handler has been installed all along: every discard is observable -/
  alwaysHandler : Bool
  /-- handler updates queued behind a busy factory -/
  pendingHandler : List (Option Nat) := []
  /-- handler updates took effect somewhere inside this step: no identity check -/
  handlerFuzzy : Bool := false
  /-- resize requests queued behind a busy handler, in order -/
  pendingReq : List Nat := []
  disc : Option (Nat × Mode)
  /-- the limit was (re)set in the current step -/
  discChanged : Bool := false
  drainReq : Bool := false
  hooks : List Hook := []
  up : Bool := true
  blocked : Bool := false
  step : Nat := 0
  /-- ops of the current step -/
  stepDispatch : Option Nat := none
  stepOps : Nat := 0
  /-- round-robin: wid of the previous step if it was a lone dispatch that started at once -/
  prevRR : Option (Nat × Nat) := none
  curStart : Option (Nat × Nat) := none
  prevQ : Nat := 0
  /-- last known worker queue lengths (wid, len) -/
  prevWq : List (Nat × Nat) := []
  prevIdleDrain : Bool := false
  startsTotal : Nat := 0
  /-- actors whose `Finished` report the factory has not processed yet (no answered snapshot since) -/
  unprocessed : List Nat := []
  /-- an incarnation died while its completion report was still unprocessed -/
  stale : Bool := false
  /-- the pool had size 0 and a resize request of this step gave it its first workers -/
  grewFromZero : Bool := false
  /-- ids of the jobs that started in the current step -/
  stepStarts : List Nat := []
  /-- an acceptance port was seen closed (dropped unanswered) in this step -/
  stepClosed : Bool := false
  /-- the factory has been held busy at some point (messages queued behind it bypass the factory queue's order) -/
  everBlocked : Bool := false
  bad : List String := []
  deriving Repr

/-- Violated clauses are recorded by name. In histories in which a worker incarnation died
after it reported a completion that the factory had not yet processed (`stale`, finding F4) the
factory's belief about that slot is wrong from then on; whatever clause trips afterwards is
recorded as `<property>-stale-completion`: that is the classifier of the known finding. -/
def OSt.flag (s : OSt) (c : String) : OSt :=
  { s with bad := s.bad ++ [if s.stale then (c.take 4).toString ++ "stale-completion" else c] }

def OSt.getJob (s : OSt) (id : Nat) : Option JobRec := s.jobs.find? (·.id == id)
def OSt.setJob (s : OSt) (j : JobRec) : OSt :=
  { s with jobs := s.jobs.map fun x => if x.id == j.id then j else x }

/-- priority index of the harness' `PriorityManager` (same as `prioOf` of the model) -/
def prioKey (key : Nat) : Nat := let r := key % 7; if r < 5 then r else 3

def affinityRouter : RouterKind → Bool
  | .kp | .sq => true
  | _ => false

/-- leaky-bucket window clause for the plain queuer: every start is one admission -/
def rlOk (info : Info) (starts now : Nat) : Bool :=
  match info.rl with
  | some (refill, interval, mx, initial) =>
    if info.router == .q then
      let c : LeakyBucket.Cfg := ⟨refill, interval, mx, 10 ^ 40⟩
      LeakyBucket.admitOk c (LeakyBucket.new c (some initial) 0) starts now
    else true
  | none => true

def isPrefixOf' (a b : List Hook) : Bool := a.length ≤ b.length && b.take a.length == a

def oStep (s : OSt) : Ev → OSt
  | .dispatched id key acc =>
    if !s.up then s
    else
      let s := { s with stepDispatch := some id, stepOps := s.stepOps + 1 }
      if (s.getJob id).isSome then s.flag "c13-duplicate-id"
      else { s with jobs := s.jobs ++ [{ id, key, acc, step := s.step, afterDrain := s.drainReq }] }
  | .finishOk aid =>
    { s with running := s.running.filter (·.1 != aid), stepOps := s.stepOps + 1, unprocessed := aid :: s.unprocessed }
  | .died aid =>
    { s with running := s.running.filter (·.1 != aid), stepOps := s.stepOps + 1,
             stale := s.stale || s.unprocessed.contains aid }
  | .requested n =>
    let s := { s with stepOps := s.stepOps + 1 }
    -- a request sent to a busy factory takes effect when its turn comes
    if s.blocked then { s with pendingReq := s.pendingReq ++ [n] }
    else if n == 0 then s
    else { s with requested := min n GLOBAL_WORKER_POOL_MAXIMUM, grewFromZero := s.grewFromZero || s.requested == 0 }
  | .released n =>
    let s := { s with stepOps := s.stepOps + 1 }
    let s := match s.pendingHandler.getLast? with
      | some h => { s with handler := h, alwaysHandler := s.alwaysHandler && s.pendingHandler.all (·.isSome),
                           pendingHandler := [], handlerFuzzy := true }
      | none => s
    let apply := fun (r : Nat) (n : Nat) => if n == 0 then r else min n GLOBAL_WORKER_POOL_MAXIMUM
    { s with requested := s.pendingReq.foldl apply (apply s.requested n), pendingReq := [] }
  | .settings d => { s with disc := d, discChanged := true, stepOps := s.stepOps + 1 }
  | .drainReq => { s with drainReq := true, stepOps := s.stepOps + 1 }
  | .build wid aid => { s with widOf := s.widOf ++ [(aid, wid)] }
  | .start aid id key =>
    let s := { s with startsTotal := s.startsTotal + 1, stepStarts := id :: s.stepStarts }
    let s := if !s.up then s.flag "c15-start-after-stop" else s
    -- C14 one at a time
    let s := if s.running.any (·.1 == aid) then s.flag "c14-two-jobs-on-one-worker" else s
    -- C14 affinity
    let s := if affinityRouter s.info.router && s.running.any (fun r => r.2.2 == key && r.1 != aid)
      then s.flag "c14-key-on-two-workers" else s
    let s := { s with running := s.running ++ [(aid, id, key)] }
    match s.getJob id with
    | none => s.flag "c13-unknown-job"
    | some j =>
      let s := if j.started.isSome then s.flag "c13-started-twice" else s
      let s := if j.discards > 0 then s.flag "c13-handled-and-discarded" else s
      let s := if j.returned then s.flag "c13-returned-and-handled" else s
      let s := if j.afterDrain then s.flag "c15-drain-accepts-job" else s
      -- C14 key-persistent order: no later-dispatched job of this key started before
      let s := if s.info.router == .kp &&
          s.jobs.any (fun o => o.key == key && o.started.isSome && o.step > j.step)
        then s.flag "c14-key-order" else s
      -- C14 custom hash in range: a job that starts in the step it was dispatched in went
      -- to the worker the hash chose
      let wid := (s.widOf.find? (·.1 == aid)).map (·.2)
      let s := if s.info.router == .cu && s.stepDispatch == some id && s.stepOps == 1 then
          (match wid with
           | some wd => if wd < s.requested then s else s.flag "c14-custom-out-of-range"
           | none => s.flag "c14-unknown-worker")
        else s
      let s := if s.stepDispatch == some id && s.stepOps == 1 then
          { s with curStart := wid.map fun wd => (wd, s.requested) } else s
      s.setJob { j with started := some aid }
  | .handlerSet h =>
    let s := { s with stepOps := s.stepOps + 1 }
    if s.blocked then { s with pendingHandler := s.pendingHandler ++ [h] }
    else { s with handler := h, alwaysHandler := s.alwaysHandler && h.isSome }
  | .discard r id hid =>
    match hid with
    | none => s
    | some hid =>
    match s.getJob id with
      | none => s.flag "c13-unknown-job"
      | some j =>
        -- C13: a discard is reported to the handler that is installed NOW (the one the latest
        -- UpdateSettings put in place), never to a replaced one
        let s := if !s.handlerFuzzy && s.handler != some hid then s.flag "c13-discard-wrong-handler" else s
        let j := if r != .loadshed then { j with refused := true } else j
        let s := if j.discards > 0 then s.flag "c13-discarded-twice" else s
        let s := if j.started.isSome then s.flag "c13-handled-and-discarded" else s
        let s := if j.afterDrain && r != .shutdown && r != .ttlExpired then s.flag "c15-drain-wrong-reason" else s
        -- C13 reasons over runs: `Shutdown` only after DrainRequests was sent, `RateLimited` only with a limiter
        -- (`C13.shutdown_discard_only_after_drain`, `C13.rate_limited_discard_needs_limiter`)
        let s := if r == .shutdown && !s.drainReq then s.flag "c13-shutdown-without-drain" else s
        let s := if r == .rateLimited && s.info.rl.isNone then s.flag "c13-ratelimited-without-limiter" else s
        s.setJob { j with discards := j.discards + 1 }
  | .reply id back =>
    match s.getJob id with
    | none => s.flag "c13-unknown-job"
    | some j =>
      let s := if !j.acc then s.flag "c13-reply-unrequested" else s
      let s := if j.replies > 0 then s.flag "c13-reply-twice" else s
      let s := if back && j.started.isSome then s.flag "c13-returned-and-handled" else s
      let s := if !back && j.afterDrain then s.flag "c15-drain-accepts-job" else s
      s.setJob { j with replies := j.replies + 1, returned := back }
  | .hook h =>
    let hs := s.hooks ++ [h]
    let s := { s with hooks := hs }
    if isPrefixOf' hs [.started, .draining, .stopped] then s else s.flag "c15-hook-order"
  | .portClosed _ => { s with stepClosed := true }
  | .lost .. | .dropped _ | .panicked | .handled .. | .installed _ | .abandoned _ => s
  | .snap up q act _cap live wq =>
    let blocked := up && q.isNone
    let s := if !up && s.up && !s.hooks.contains .stopped then s.flag "c15-stopped-without-hook" else s
    let s := if s.prevIdleDrain && up then s.flag "c15-drain-not-stopped" else s
    -- C13 acceptance port: a running factory never drops a port unanswered (`C13.acceptance_port_closed_only_at_exit`)
    let s := if up && s.stepClosed then s.flag "c13-port-closed-while-running" else s
    -- C13 drained exit: the factory stops only when nobody holds a job any more — every job it
    -- took in before DrainRequests was started, discarded or handed back by the time it is gone
    -- (a worker that a shrink flagged draining still counts)
    let s := if !up && s.up && s.alwaysHandler &&
        s.jobs.any (fun j => !j.afterDrain && j.started.isNone && j.discards == 0 && !j.returned)
      then s.flag "c13-job-lost-at-drain" else s
    let s := match q, act with
      | some q, some act =>
        -- C15 limit on the factory queue: a dispatch never grows it beyond L (a queue that was
        -- longer when L was lowered only stops growing / is trimmed when the next job backlogs)
        let s := if isFactoryQueueing s.info.router && s.stepDispatch.isSome && !s.discChanged then
            (match s.disc with
             | some (l, .oldest) => if q ≤ max l s.prevQ then s else s.flag "c15-queue-limit"
             | some (l, .newest) =>
               let nondisc := s.info.prioQueue && (match s.stepDispatch.bind s.getJob with
                 | some j => j.key % 4 == 3 | none => false)
               if nondisc || q ≤ max l s.prevQ then s else s.flag "c15-queue-limit"
             | none => s)
          else s
        -- C14 queuer never idles a worker while a job waits (with or without a rate limiter: a refused job is
        -- discarded as RateLimited, never left waiting)
        let s := if s.info.router == RouterKind.q && q > 0 && act < live.length
          then s.flag "c14-queuer-idle-worker" else s
        -- C14: worker-queueing routers never leave a job in the factory queue while the pool is non-empty
        let s := if !isFactoryQueueing s.info.router && s.requested > 0 && q > 0
          then s.flag "c14-worker-router-backlog" else s
        -- C13: a worker the factory counts as busy has an actor that is running a job (jobs
        -- queued for a worker that died are handed to its replacement)
        let s := if act > s.running.length then s.flag "c13-queued-job-not-handed-over" else s
        -- C13 acceptance port: the factory answered the queries, so its mailbox has been worked off — every port handed
        -- in so far has its answer (`C13.acceptance_port_replied_exactly_once`)
        let s := if s.jobs.any (fun j => j.acc && j.replies == 0) then s.flag "c13-port-unanswered" else s
        -- C15 pool convergence: nobody busy ⇒ live workers are exactly slots 0..n-1
        let s := if act == 0 && s.running.isEmpty then
            let wids := live.filterMap fun a => (s.widOf.find? (fun (x : Nat × Nat) => x.1 == a)).map (fun (x : Nat × Nat) => x.2)
            if wids.length == live.length && wids.length == s.requested &&
               (List.range s.requested).all (wids.contains ·) then s
            else s.flag "c15-pool-not-converged"
          else s
        -- C13 nothing silently disappears: factory idle ⇒ every accepted job has a fate
        let s := if act == 0 && q == 0 && s.running.isEmpty && s.alwaysHandler &&
            s.jobs.any (fun j => j.started.isNone && j.discards == 0 && !j.returned)
          then s.flag "c13-silently-disappeared" else s
        { s with prevQ := q, prevIdleDrain := s.drainReq && act == 0 && q == 0 && s.running.isEmpty, unprocessed := [] }
      | _, _ => { s with prevIdleDrain := false }
    -- C15 limit on the worker queues (worker-queueing routers): a dispatch never grows a worker's
    -- queue beyond L (a queue that was longer when L was lowered only stops growing)
    let s := match wq with
      | some wq =>
        let s := if !isFactoryQueueing s.info.router && s.stepDispatch.isSome && s.stepOps == 1 && !s.discChanged then
            (match s.disc with
             | some (l, _) =>
               if wq.all (fun (x : Nat × Nat) =>
                   x.2 ≤ max l (((s.prevWq.find? (fun (y : Nat × Nat) => y.1 == x.1)).map (fun (y : Nat × Nat) => y.2)).getD 0))
               then s else s.flag "c15-worker-queue-limit"
             | none => s)
          else s
        { s with prevWq := wq }
      | none => s
    -- C14 round-robin on the backlog path: a pool that gets its first workers takes the waiting backlog in
    -- turns — afterwards no worker holds (running + queued) two jobs more than another
    let s := match wq with
      | some wq =>
        if s.info.router == RouterKind.rr && s.grewFromZero && s.stepOps == 1 && up && !blocked && !wq.isEmpty then
          let load := wq.map fun (x : Nat × Nat) =>
            x.2 + (if s.running.any (fun r => (s.widOf.find? (fun (y : Nat × Nat) => y.1 == r.1)).map (fun (y : Nat × Nat) => y.2) == some x.1) then 1 else 0)
          if load.foldl max 0 ≤ load.foldl min (load.foldl max 0) + 1 then s else s.flag "c14-round-robin-uneven"
        else s
      | none => s
    -- C14 priority queue (plain queuer): a job taken from the factory queue in this step is at least as urgent as
    -- every job that was waiting before the step and still waits after it, and among equally urgent ones it is
    -- the older (`PriorityQueue::pop_front`: lowest priority index first, FIFO inside a class)
    let s := if s.info.router == RouterKind.q && s.info.prioQueue && !s.everBlocked && !blocked && s.alwaysHandler then
        let waiting := s.jobs.filter fun w => w.started.isNone && w.discards == 0 && !w.returned && w.step < s.step
        if s.stepStarts.any (fun id => match s.getJob id with
            | some j => waiting.any fun w =>
                prioKey w.key < prioKey j.key || (prioKey w.key == prioKey j.key && w.step < j.step)
            | none => false)
        then s.flag "c14-priority-order" else s
      else s
    -- C15 limit, Oldest: a dispatch that ends in the factory queue leaves it within L (a backlog
    -- that is deeper because the limit was lowered is trimmed by the very next such dispatch)
    let s := match q, s.stepDispatch.bind s.getJob, s.disc with
      | some q, some j, some (l, .oldest) =>
        let notParked := s.info.router == RouterKind.q ||
          (match wq with | some wq => wq.all (fun (x : Nat × Nat) => x.2 == 0) | none => false)
        if isFactoryQueueing s.info.router && s.stepOps == 1 && !s.discChanged && !blocked && up &&
           j.started.isNone && !j.refused && !j.afterDrain && s.info.rl.isNone && notParked && q > l
        then s.flag "c15-queue-limit-oldest" else s
      | _, _, _ => s
    -- every dispatch after DrainRequests is refused with Shutdown in its own step
    let s := match s.stepDispatch.bind s.getJob with
      | some j =>
        if j.afterDrain && up && !blocked && s.alwaysHandler && j.discards == 0 then s.flag "c15-drain-unreported"
        else if j.afterDrain && up && !blocked && j.acc && !j.returned then s.flag "c15-drain-not-returned"
        else s
      | none => s
    -- C14 round-robin: two lone dispatches in a row that both started at once hit neighbours
    let s := match s.prevRR, s.curStart with
      | some (w1, n1), some (w2, n2) =>
        if s.info.router == RouterKind.rr && n1 == n2 && n1 > 0 && w2 != rrNext w1 n1 then s.flag "c14-round-robin-skip" else s
      | _, _ => s
    { s with up := up, blocked := blocked, step := s.step + 1, stepDispatch := none, stepOps := 0,
             discChanged := false, prevRR := s.curStart, curStart := none, handlerFuzzy := false, grewFromZero := false,
             stepStarts := [], stepClosed := false, everBlocked := s.everBlocked || blocked }

def oInit (info : Info) : OSt :=
  { info, requested := info.n, disc := info.disc, handler := if info.hasHandler then some 0 else none,
    alwaysHandler := info.hasHandler }

def oRun (info : Info) (h : List Ev) : OSt := h.foldl oStep (oInit info)

/-- the leaky-bucket window clause is time-dependent; the driver evaluates it per step -/
def violations (info : Info) (h : List Ev) : List String := (oRun info h).bad

/-- (F4 classifier) no worker incarnation dies between reporting a completion and the factory
processing that report. -/
def noStaleCompletion (info : Info) (h : List Ev) : Bool := !(oRun info h).stale

def clausesOf (p : String) (v : List String) : List String := v.filter (·.startsWith p)

end Factory

namespace C13
/-- every accepted job ends in at most one terminal fate, is never handled twice, never handled
and discarded, never silently disappears -/
def fateOk (info : Factory.Info) (h : List Factory.Ev) : Bool :=
  (Factory.clausesOf "c13-" (Factory.violations info h)).isEmpty
end C13

namespace C14
def routingOk (info : Factory.Info) (h : List Factory.Ev) : Bool :=
  (Factory.clausesOf "c14-" (Factory.violations info h)).isEmpty
end C14

namespace C15
def capacityOk (info : Factory.Info) (h : List Factory.Ev) : Bool :=
  (Factory.clausesOf "c15-" (Factory.violations info h)).isEmpty
end C15
