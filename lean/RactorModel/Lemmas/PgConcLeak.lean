import RactorModel.Lemmas.PgConcRun

/-!
No reverse-index leak under interleaving: the reverse-index ENTRY (not just its three sets) of an actor
whose exit has finished — or that was already stopping when the run began — exists only while some
`monitor` / `monitor_scope` call naming it is between its `get_or_create_actor_relations` and the end of
its re-check region (which removes it again).
-/

namespace Pg.Conc
open AList Pg Pg.Fine

def relSome (st : State) (a : Nat) : Prop := (get st.rel a).isSome = true

/-- the caller is between `get_or_create_actor_relations(a)` and the end of its re-check region -/
def holdsRel (a : Nat) : Pc → Prop
  | .monitorRel _ b => b = a
  | .monitorRecheck _ b => b = a
  | .monitorScopeRel _ b => b = a
  | .monitorScopeRecheck _ b => b = a
  | _ => False

theorem relSome_removeEmptyRel {rel : List (Nat × Rel)} {b a : Nat}
    (h : (get (removeEmptyRel rel b) a).isSome = true) : (get rel a).isSome = true := by
  rw [removeEmptyRel_get] at h
  by_cases e : a = b
  · rw [if_pos e] at h
    rw [e]
    cases hg : get rel b with
    | none => rw [hg] at h; cases h
    | some r => rfl
  · rw [if_neg e] at h; exact h

theorem relSome_foldl_removeEmptyRel (xs : List Nat) {rel : List (Nat × Rel)} {a : Nat}
    (h : (get (xs.foldl removeEmptyRel rel) a).isSome = true) : (get rel a).isSome = true := by
  induction xs generalizing rel with
  | nil => exact h
  | cons x xs ih => exact relSome_removeEmptyRel (ih h)

theorem relSome_alter_map {rel : List (Nat × Rel)} {b a : Nat} {f : Rel → Rel}
    (h : (get (alter rel b (fun o => o.map f)) a).isSome = true) : (get rel a).isSome = true := by
  rw [get_alter] at h
  by_cases e : a = b
  · rw [if_pos e] at h; rw [e]
    cases hg : get rel b with
    | none => rw [hg] at h; cases h
    | some r => rfl
  · rw [if_neg e] at h; exact h

/-- an empty reverse-index entry does not survive `remove_empty_actor_relations` -/
theorem removeEmptyRel_none {st : State} {a : Nat} (h1 : ∀ k, k ∉ relMem st a) (h2 : ∀ k, k ∉ relGmon st a)
    (h3 : ∀ s, s ∉ relWmon st a) : get (removeEmptyRel st.rel a) a = none := by
  rw [removeEmptyRel_get, if_pos rfl]
  cases hg : get st.rel a with
  | none => rfl
  | some r =>
    have e1 : r.mem = [] := List.eq_nil_iff_forall_not_mem.mpr (fun k hk => h1 k (by simp [relMem, relOf, hg]; exact hk))
    have e2 : r.gmon = [] := List.eq_nil_iff_forall_not_mem.mpr (fun k hk => h2 k (by simp [relGmon, relOf, hg]; exact hk))
    have e3 : r.wmon = [] := List.eq_nil_iff_forall_not_mem.mpr (fun k hk => h3 k (by simp [relWmon, relOf, hg]; exact hk))
    simp [Rel.isEmpty, e1, e2, e3]

/-- a caller region stepped through `callStep` creates the entry of a stopping actor `a` only as the
`get_or_create_actor_relations` of a `monitor` / `monitor_scope` naming `a` -/
theorem relSome_call (st : State) (pc : Pc) (a : Nat) (hd : a ∈ st.dead) (h : relSome (callStep st pc).1 a) :
    relSome st a ∨ (∃ g, pc = .monitor g a) ∨ (∃ s, pc = .monitorScope s a) := by
  unfold relSome at h ⊢
  cases pc with
  | join s g as => exact Or.inl h
  | joinFiltered s g as => exact Or.inl h
  | joinIn s g as todo => exact Or.inl h
  | joinEntered s g as p => exact Or.inl (relSome_foldl_removeEmptyRel _ h)
  | notify p => exact Or.inl h
  | leave s g as =>
    replace h : (get (leaveEntry st s g as).1.rel a).isSome = true := h
    cases hg : get st.map (s, g) with
    | none => rw [leaveEntry_none st s g as hg] at h; exact Or.inl h
    | some gs =>
      rw [leaveEntry_some st s g as hg] at h
      left
      cases hr : get st.rel a with
      | none => rw [(leave_rel_none st s g as hg a).mpr hr] at h; cases h
      | some r => rfl
  | monitor g b =>
    replace h : (get (relUpdate st.rel b id) a).isSome = true := h
    rw [relUpdate_id_get] at h
    by_cases e : a = b
    · exact Or.inr (Or.inl ⟨g, by rw [e]⟩)
    · rw [if_neg e] at h; exact Or.inl h
  | monitorRel g b =>
    replace h : (get (monitorEntry st g b).rel a).isSome = true := h
    unfold monitorEntry at h
    by_cases hb : b ∈ st.dead
    · have : alive st b = false := by simp [alive, hb]
      rw [this] at h; exact Or.inl h
    · have : alive st b = true := alive_iff.mpr hb
      rw [this, if_pos rfl, monitor_alive_rel_get st g b hb] at h
      have e : ¬ a = b := fun e => hb (e ▸ hd)
      rw [if_neg e] at h; exact Or.inl h
  | monitorRecheck g b =>
    replace h : (get (monitorRecheck st g b).rel a).isSome = true := h
    unfold monitorRecheck at h
    split at h
    · exact Or.inl h
    · exact Or.inl (relSome_removeEmptyRel h)
  | monitorScope s b =>
    replace h : (get (relUpdate st.rel b id) a).isSome = true := h
    rw [relUpdate_id_get] at h
    by_cases e : a = b
    · exact Or.inr (Or.inr ⟨s, by rw [e]⟩)
    · rw [if_neg e] at h; exact Or.inl h
  | monitorScopeRel s b =>
    replace h : (get (monitorScopeEntry st s b).rel a).isSome = true := h
    unfold monitorScopeEntry at h
    by_cases hb : b ∈ st.dead
    · have : alive st b = false := by simp [alive, hb]
      rw [this] at h; exact Or.inl h
    · have : alive st b = true := alive_iff.mpr hb
      rw [this, if_pos rfl, monitorScope_alive_rel_get st s b hb] at h
      have e : ¬ a = b := fun e => hb (e ▸ hd)
      rw [if_neg e] at h; exact Or.inl h
  | monitorScopeRecheck s b =>
    replace h : (get (monitorScopeRecheck st s b).rel a).isSome = true := h
    unfold monitorScopeRecheck at h
    split at h
    · exact Or.inl h
    · exact Or.inl (relSome_removeEmptyRel h)
  | demonitor g b => exact Or.inl (relSome_alter_map h)
  | demonitorScope s b => exact Or.inl (relSome_alter_map h)
  | demonitorCall g b => exact Or.inl h
  | demonitorScopeCall s b => exact Or.inl h
  | demonitorFwd g b => exact Or.inl h
  | demonitorScopeFwd s b => exact Or.inl h
  | done => exact Or.inl h

/-- no region of any exit creates a reverse-index entry -/
theorem relSome_exreg (st : State) (b : Nat) (ph : Phase) (r : ExReg) (a : Nat)
    (h : relSome (fstep b ⟨st, ph⟩ r.toFOp).st a) : relSome st a := by
  unfold relSome at h ⊢
  cases r with
  | mark => cases ph <;> exact h
  | demTake =>
    cases ph with
    | marked => exact relSome_alter_map h
    | _ => exact h
  | demKey k =>
    cases ph with
    | demon gk wk =>
      simp only [ExReg.toFOp, fstep] at h
      split at h <;> exact h
    | _ => exact h
  | demWKey s =>
    cases ph with
    | demon gk wk =>
      simp only [ExReg.toFOp, fstep] at h
      split at h <;> exact h
    | _ => exact h
  | demDone =>
    cases ph with
    | demon gk wk =>
      cases gk with
      | nil => cases wk <;> exact h
      | cons _ _ => exact h
    | _ => exact h
  | take =>
    cases ph with
    | demonDone => exact relSome_alter_map h
    | _ => exact h
  | lvKey k =>
    cases ph with
    | leaving mk rm =>
      simp only [ExReg.toFOp, fstep] at h
      split at h
      · rw [leaveKey_rel] at h; exact h
      · exact h
    | _ => exact h
  | finish =>
    cases ph with
    | leaving mk rm =>
      cases mk with
      | nil => exact relSome_removeEmptyRel h
      | cons _ _ => exact h
    | _ => exact h

/-! ### the invariant -/

/-- `a`'s exit is over, or `a` was already stopping when the run began -/
def exitOver (g : G) (a : Nat) : Prop := a ∈ g.st.dead ∧ (phaseOf g a = .done ∨ phaseOf g a = .live)

def NoLeak (g : G) (a : Nat) : Prop :=
  exitOver g a → relSome g.st a → ∃ (i : Nat) (pc : Pc), g.thr[i]? = some pc ∧ holdsRel a pc

/-- the three reverse-index sets of `a` are empty once its exit has drained them (or it never had one) -/
theorem sets_empty {g : G} {a : Nat} {ph : Phase} (h : VInv a (gView g) ph)
    (hp : drainedM ph ∨ (ph = .live ∧ a ∈ g.st.dead)) :
    (∀ k, k ∉ relMem g.st a) ∧ (∀ k, k ∉ relGmon g.st a) ∧ (∀ s, s ∉ relWmon g.st a) := by
  rcases hp with hp | ⟨hp, hd⟩
  · have hg : drainedG ph := by cases ph <;> first | trivial | exact hp
    exact ⟨h.drM hp, (h.drG hg).1, (h.drG hg).2⟩
  · exact (h.old hp hd).2

theorem holder_set {thr : List Pc} {a : Nat} {i : Nat} {pc pc' : Pc} (hp : thr[i]? = some pc)
    (hkeep : holdsRel a pc → holdsRel a pc')
    (h : ∃ (j : Nat) (q : Pc), thr[j]? = some q ∧ holdsRel a q) :
    ∃ (j : Nat) (q : Pc), (thr.set i pc')[j]? = some q ∧ holdsRel a q := by
  obtain ⟨j, q, hj, hq⟩ := h
  by_cases e : i = j
  · subst e
    rw [hp] at hj
    simp only [Option.some.injEq] at hj
    subst hj
    have hlt : i < thr.length := by
      rcases Nat.lt_or_ge i thr.length with h | h
      · exact h
      · rw [List.getElem?_eq_none h] at hp; cases hp
    exact ⟨i, pc', by simp [hlt], hkeep hq⟩
  · exact ⟨j, q, by rw [List.getElem?_set_ne e]; exact hj, hq⟩

theorem holder_new {thr : List Pc} {a : Nat} {i : Nat} {pc pc' : Pc} (hp : thr[i]? = some pc) (hq : holdsRel a pc') :
    ∃ (j : Nat) (q : Pc), (thr.set i pc')[j]? = some q ∧ holdsRel a q := by
  have hlt : i < thr.length := by
    rcases Nat.lt_or_ge i thr.length with h | h
    · exact h
    · rw [List.getElem?_eq_none h] at hp; cases hp
  exact ⟨i, pc', by simp [hlt], hq⟩

theorem fstep_over (a : Nat) (st : State) (ph : Phase) (r : ExReg)
    (h : (fstep a ⟨st, ph⟩ r.toFOp).ph = .done ∨ (fstep a ⟨st, ph⟩ r.toFOp).ph = .live) :
    ((ph = .done ∨ ph = .live) ∧ (r = .mark → ph = .done) ∧ (fstep a ⟨st, ph⟩ r.toFOp).st.rel = st.rel) ∨
    (∃ rm, ph = .leaving [] rm ∧ r = .finish) := by
  cases r with
  | mark => cases ph <;> simp [fstep, ExReg.toFOp] at h ⊢
  | demTake => cases ph <;> simp [fstep, ExReg.toFOp] at h ⊢
  | demKey k =>
    cases ph with
    | demon gk wk => simp only [fstep, ExReg.toFOp] at h; split at h <;> simp at h
    | _ => simp [fstep, ExReg.toFOp] at h ⊢
  | demWKey s =>
    cases ph with
    | demon gk wk => simp only [fstep, ExReg.toFOp] at h; split at h <;> simp at h
    | _ => simp [fstep, ExReg.toFOp] at h ⊢
  | demDone =>
    cases ph with
    | demon gk wk =>
      cases gk with
      | nil => cases wk <;> simp [fstep, ExReg.toFOp] at h
      | cons _ _ => simp [fstep, ExReg.toFOp] at h
    | _ => simp [fstep, ExReg.toFOp] at h ⊢
  | take => cases ph <;> simp [fstep, ExReg.toFOp] at h ⊢
  | lvKey k =>
    cases ph with
    | leaving mk rm => simp only [fstep, ExReg.toFOp] at h; split at h <;> simp at h
    | _ => simp [fstep, ExReg.toFOp] at h ⊢
  | finish =>
    cases ph with
    | leaving mk rm =>
      cases mk with
      | nil => exact Or.inr ⟨rm, rfl, rfl⟩
      | cons _ _ => simp [fstep, ExReg.toFOp] at h
    | _ => simp [fstep, ExReg.toFOp] at h ⊢

theorem noLeak_step {g : G} {a : Nat} (h : NoLeak g a) (hv : VInv a (gView g) (phaseOf g a)) (t : Tid) :
    NoLeak (step g t) a := by
  unfold NoLeak at h ⊢
  cases t with
  | ex b r =>
    by_cases hs : exSkip g b r
    · rw [step_ex_skip g b r hs]; exact h
    · rw [step_ex g b r hs]
      intro hover hsome
      obtain ⟨hd', hph'⟩ := hover
      simp only [phaseOf_ex] at hph'
      have hsome0 : relSome g.st a := relSome_exreg g.st b (phaseOf g b) r a hsome
      by_cases e : a = b
      · subst e
        rw [if_pos rfl] at hph'
        rcases fstep_over a g.st (phaseOf g a) r hph' with ⟨hp0, hmark, hrel⟩ | ⟨rm, hp0, rfl⟩
        · -- the region was a no-op on the reverse index and the phase was already over
          have hd : a ∈ g.st.dead := by
            rcases hp0 with hp0 | hp0
            · exact hv.dead (by rw [hp0]; simp)
            · -- phase live: the region is not `mark` (it would have been skipped or moved on)
              have hnm : r ≠ .mark := by
                intro e; have := hmark e; rw [this] at hp0; cases hp0
              obtain ⟨e', t', _, _, _⟩ := exreg_trans g.st a (phaseOf g a) r
              cases r with
              | mark => exact absurd rfl hnm
              | _ =>
                rw [hp0] at hd'
                exact hd'
          exact h ⟨hd, hp0⟩ hsome0
        · -- `finish`: `remove_empty_actor_relations` removes the (empty) entry
          exfalso
          have hemp := sets_empty hv (Or.inl (by rw [hp0]; trivial))
          rw [hp0] at hsome
          have : get (finishLeave g.st a rm).1.rel a = none := removeEmptyRel_none hemp.1 hemp.2.1 hemp.2.2
          unfold relSome at hsome
          have hs' : (get (finishLeave g.st a rm).1.rel a).isSome = true := hsome
          rw [this] at hs'; cases hs'
      · rw [if_neg e] at hph'
        obtain ⟨_, _, _, db, _⟩ := exreg_trans g.st b (phaseOf g b) r
        exact h ⟨db a (fun x => e x.symm) hd', hph'⟩ hsome0
  | call i =>
    cases hp : g.thr[i]? with
    | none => rw [step_call_none g i hp]; exact h
    | some pc =>
      by_cases hb : blocked g pc
      · rw [step_call_blocked g i pc hp hb]; exact h
      · by_cases c1 : ∃ s g' as, pc = .joinFiltered s g' as
        · obtain ⟨s, g', as, rfl⟩ := c1
          rw [step_call_lock g i s g' as hp hb]
          intro hover hsome
          exact holder_set hp (fun x => absurd x (by simp [holdsRel])) (h hover hsome)
        · by_cases c2 : ∃ s g' as todo, pc = .joinIn s g' as todo
          · obtain ⟨s, g', as, todo, rfl⟩ := c2
            cases todo with
            | nil =>
              rw [step_call_commit g i s g' as hp]
              intro hover hsome
              have hr := (joinCommit_rest g.st (s, g') (joinedOf g (s, g')))
              have hover0 : exitOver g a := ⟨by have := hover.1; rw [show (_ : G).st.dead = (joinCommit g.st (s, g') (joinedOf g (s, g'))).dead from rfl, hr.2.2] at this; exact this, hover.2⟩
              have hsome0 : relSome g.st a := by
                unfold relSome at hsome ⊢
                rw [show (_ : G).st.rel = (joinCommit g.st (s, g') (joinedOf g (s, g'))).rel from rfl, hr.2.1] at hsome
                exact hsome
              exact holder_set hp (fun x => absurd x (by simp [holdsRel])) (h hover0 hsome0)
            | cons x todo =>
              rw [step_call_one g i s g' as x todo hp]
              intro hover hsome
              by_cases ok : joinOk g (s, g') x = true
              · simp only [ok, ↓reduceIte] at hover hsome ⊢
                have hx : x ∉ g.st.dead := by
                  unfold joinOk at ok
                  simp only [Bool.and_eq_true] at ok
                  exact alive_iff.mp ok.1
                have hover0 : exitOver g a := hover
                have hne : ¬ a = x := fun e => hx (e ▸ hover0.1)
                have hsome0 : relSome g.st a := by
                  unfold relSome at hsome ⊢
                  have hs' : (get (relUpdate g.st.rel x (fun r => { r with mem := ins (s, g') r.mem })) a).isSome = true := hsome
                  unfold relUpdate at hs'
                  rw [get_alter, if_neg hne] at hs'
                  exact hs'
                exact holder_set hp (fun x => absurd x (by simp [holdsRel])) (h hover0 hsome0)
              · simp only [ok, Bool.false_eq_true, ↓reduceIte] at hover hsome ⊢
                exact holder_set hp (fun x => absurd x (by simp [holdsRel])) (h hover hsome)
          · have h1 : ∀ s g' as, pc ≠ .joinFiltered s g' as := fun s g' as e => c1 ⟨s, g', as, e⟩
            have h2 : ∀ s g' as todo, pc ≠ .joinIn s g' as todo := fun s g' as todo e => c2 ⟨s, g', as, todo, e⟩
            rw [step_call_other g i pc hp hb h1 h2]
            intro hover hsome
            obtain ⟨_, _, _, db, _⟩ := call_trans g.st pc
            have hover0 : exitOver g a := ⟨db a hover.1, hover.2⟩
            have hemp := sets_empty hv (by
              rcases hover0.2 with e | e
              · exact Or.inl (by rw [e]; trivial)
              · exact Or.inr ⟨e, hover0.1⟩)
            have hdead : alive g.st a = false := by simp [alive, hover0.1]
            rcases relSome_call g.st pc a hover0.1 hsome with h0 | ⟨g1, rfl⟩ | ⟨s1, rfl⟩
            · -- the entry was there before: its holder is still holding, or this very region removed it
              refine holder_set hp ?_ (h hover0 h0)
              intro hq
              cases pc with
              | monitorRel g1 b => exact hq
              | monitorScopeRel s1 b => exact hq
              | monitorRecheck g1 b =>
                exfalso
                have hb' : b = a := hq
                subst hb'
                have hs' : (get (monitorRecheck g.st g1 b).rel b).isSome = true := hsome
                unfold monitorRecheck at hs'
                rw [hdead] at hs'
                simp only [Bool.false_eq_true, ↓reduceIte] at hs'
                rw [removeEmptyRel_none hemp.1 hemp.2.1 hemp.2.2] at hs'; cases hs'
              | monitorScopeRecheck s1 b =>
                exfalso
                have hb' : b = a := hq
                subst hb'
                have hs' : (get (monitorScopeRecheck g.st s1 b).rel b).isSome = true := hsome
                unfold monitorScopeRecheck at hs'
                rw [hdead] at hs'
                simp only [Bool.false_eq_true, ↓reduceIte] at hs'
                rw [removeEmptyRel_none hemp.1 hemp.2.1 hemp.2.2] at hs'; cases hs'
              | _ => exact absurd hq (by simp [holdsRel])
            · exact holder_new hp (by simp [callStep, holdsRel])
            · exact holder_new hp (by simp [callStep, holdsRel])

theorem noLeak_run {g : G} (hall : AllInv g) (hl : LockInv g) (h : ∀ a, NoLeak g a) (sched : List Tid) :
    ∀ a, NoLeak (run g sched) a := by
  unfold run
  induction sched generalizing g with
  | nil => exact h
  | cons t ts ih =>
    exact ih (allInv_step hall hl t) (lockInv_step hl t) (fun a => noLeak_step (h a) (hall a) t)

theorem noLeak_start {st : State} (h : Inv st) (calls : List Pc) (a : Nat) : NoLeak (start st calls) a := by
  unfold NoLeak
  intro hover hsome
  exfalso
  have := h.dead a hover.1
  unfold relSome at hsome
  have hs : (get st.rel a).isSome = true := hsome
  rw [this] at hs; cases hs

end Pg.Conc
