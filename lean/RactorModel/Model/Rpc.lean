/-
Model of ractor's RPC layer (`ractor/src/rpc.rs`, `ractor/src/port.rs`) at the level of
API calls between quiescent points: reply ports are LINEAR resources with exactly one
location; callers wait on the receiving half with an optional deadline on the virtual clock.

What is modelled, line by line from `rpc.rs`:
* `call`: create a oneshot, wrap the sender into `RpcReplyPort`, send the message; a failed
  send returns `Err` (the message — and the port inside it — is handed back and dropped);
  otherwise await the receiver, under `timeout(d, rx)` when a timeout is given.
* the callee side is the environment: a handler that dequeued a call may reply, drop the
  port, keep it in the actor (handler/state: dies with the actor) or move it to a task that
  outlives the actor (`detached`).
* callee exit (stop / kill / failure / drain completion): the port set is dropped, which
  closes and flushes the mailbox (`ActorPortSet::drop`), the handler future and the state are
  dropped: every port located in the mailbox or in the actor is dropped.
* `multi_call`: one port per actor, sent in order (`?` on the first failing send: the ports
  already sent are abandoned — their receivers are dropped), results threaded by index.
* `call_and_forward`: a task awaits the reply and on `Success v` sends `map v` to the forward
  target exactly once.

Import-free (core Lean only).
-/

namespace Rpc

inductive Loc where
  | mailbox (a : Nat)      -- inside a message queued at actor `a`
  | actor (a : Nat)        -- held by `a`'s running handler or state: dropped when `a` exits
  /-- inside the boxed state of the `ActorTerminated(cell, Some(state), _)` event of actor `a`
  (graceful stop of a supervised actor): queued at, or stashed by, `a`'s supervisor — lives as
  long as that event -/
  | event (a : Nat)
  | detached               -- moved to a task that outlives the callee
  | replied (v : Nat)      -- `send v` was called on it (consumed)
  | dropped                -- dropped without a reply
  deriving Repr, DecidableEq

inductive Res where
  | success (v : Nat) | senderError | timeout | sendErr
  /-- the receiver was dropped by `multi_call` bailing out on a later failed send -/
  | abandoned
  deriving Repr, DecidableEq

/-- One call = one reply port (`port id = index in S.calls`). -/
structure Call where
  callee : Nat
  deadline : Option Nat          -- absolute virtual time
  loc : Loc
  res : Option Res               -- `none`: the caller is still waiting
  group : Option Nat             -- `multi_call` group
  forward : Option Nat           -- `call_and_forward` target actor
  /-- the id of the port whose RECEIVING half this caller awaits (`let (tx, rx) = oneshot()`:
  `tx` travels in the message as port `p`, the caller keeps `rx`). The caller's result is read
  from the channel of port `rx` — NOT from its own record — so a cross-wired caller (`rx ≠ p`)
  is expressible; `C09.caller_reads_own_port` proves it never happens. -/
  rx : Nat
  /-- `multi_call`: the index `i` of `rx_ports.into_iter().enumerate()` threaded into this member's
  receiver task (`(i, result)`): where its result is written in the result vector. 0 for other calls. -/
  slot : Nat := 0
  deriving Repr, DecidableEq

inductive Item where
  | call (p : Nat)
  | fwd (v : Nat)                -- a forwarded reply delivered as an ordinary message
  deriving Repr, DecidableEq

structure Actor where
  alive : Bool
  draining : Bool
  mailbox : List Item
  received : List Nat            -- forwarded values handled, in order
  sup : Option Nat := none       -- supervisor (index in `S.sups`) the actor was spawned linked to
  deriving Repr, DecidableEq

/-- A supervisor: an actor whose `handle_supervisor_evt` decides, for every termination event
that carries the child's last state, whether to keep (stash) or drop it. Events are named by
the child they report (an actor terminates once). Events without a state (kill, failure)
hold no port and are not tracked. -/
structure Sup where
  alive : Bool
  inbox : List Nat               -- state-carrying termination events not yet handled, in arrival order
  stash : List Nat               -- events the supervisor decided to keep
  deriving Repr, DecidableEq

structure S where
  now : Nat
  actors : List Actor
  calls : List Call
  groups : Nat                   -- number of multi_call groups created
  sups : List Sup := []
  /-- ghost history: every `RpcReplyPort::send` that was performed, in order: (port id, value) -/
  sent : List (Nat × Nat) := []
  /-- ghost: the actors each `multi_call` was asked to call, in request order (one list per group) -/
  mreqs : List (List Nat) := []
  /-- ghost: every forward `call_and_forward` attempted: (call, target, value, target accepted it) -/
  fwdlog : List (Nat × Nat × Nat × Bool) := []
  /-- the result vector of each `multi_call` (`results.resize_with(n, …)` then `results[i] = r` as the
  members complete, in completion order); `none` = not written yet -/
  mresults : List (List (Option Res)) := []
  deriving Repr

def init : S :=
  { now := 0, actors := [], calls := [], groups := 0, sups := [], sent := [], mreqs := [], fwdlog := [],
    mresults := [] }

/-- what the callee's handler does with a dequeued call -/
inductive Act where
  | reply (v : Nat) | drop | keep | detach
  deriving Repr, DecidableEq

inductive Op where
  | spawn
  | call (a : Nat) (timeout : Option Nat)
  | mcall (as : List Nat) (timeout : Option Nat)
  | fcall (a f : Nat) (timeout : Option Nat)
  | handle (a : Nat) (act : Act)        -- `a` dequeues and handles its next message
  | later (p : Nat) (act : Act)         -- a kept/detached port is used afterwards (`reply`/`drop`)
  | exit (a : Nat)                      -- kill / handler failure
  /-- graceful stop: the handler blocked on the current message (if any) finishes with `act`,
  then the actor processes the stop and exits — before any task woken by that reply runs -/
  | stop (a : Nat) (act : Act)
  | drain (a : Nat)
  | advance (d : Nat)
  | spawnSup                            -- a new supervisor
  | spawnl (u : Nat)                    -- `spawn_linked` under supervisor `u` (fails if `u` is gone)
  /-- supervisor `u` handles the next queued termination event: stash it (`keep`) or drop it -/
  | suphandle (u : Nat) (keep : Bool)
  | supdrop (u a : Nat)                 -- `u` drops the stashed event of actor `a`
  | supexit (u : Nat)                   -- `u` is killed: inbox and stash are dropped, its children are killed
  /-- `cast` (`rpc::cast`, `ActorRef::cast`, `cast!`, `DerivedActorRef::{cast, send_message}`): a
  plain message carrying `v` is enqueued iff the actor accepts messages -/
  | cast (a v : Nat)
  /-- the handler of `a`'s current message FAILS (returns `Err` or panics): `ActorErr::Failed` →
  `SupervisionEvent::ActorFailed(cell, err)` carries NO state; the handler future (with the port it
  dequeued), the mailbox and the state (dropped when the actor task ends) all go — for the ports
  exactly a kill. Nothing to fail when no message is being handled. -/
  | fail (a : Nat)
  /-- `handle a act` and `advance d` in ONE step: the handler's action and the clock reaching
  `now + d` are seen together by the callers (a reply available at the deadline instant) -/
  | handleAt (a : Nat) (act : Act) (d : Nat)
  deriving Repr

def accepting (s : S) (a : Nat) : Bool :=
  match s.actors[a]? with
  | some x => x.alive && !x.draining
  | none => false

def setCall (s : S) (p : Nat) (f : Call → Call) : S :=
  { s with calls := s.calls.modify p f }

def setActor (s : S) (a : Nat) (f : Actor → Actor) : S :=
  { s with actors := s.actors.modify a f }

/-- Decide every waiting call whose fate is now determined: a reply or a drop of its port
resolves it at once; otherwise its deadline does. (A reply available at the deadline
instant wins: `timeout` polls the receiver first.) -/
def resolveCall (now : Nat) (c : Call) : Call :=
  match c.res with
  | some _ => c
  | none =>
    match c.loc with
    | .replied v => { c with res := some (.success v) }
    | .dropped => { c with res := some .senderError }
    | _ =>
      match c.deadline with
      | some d => if d ≤ now then { c with res := some .timeout } else c
      | none => c

/-- Forwarding step of `call_and_forward`: a forward-call that just resolved with
`Success v` sends `v` to its target (once). Returns the updated actors. -/
def deliverForwards (before after : List Call) (actors : List Actor) : List Actor :=
  let newly : List (Nat × Nat) := (List.zip before after).filterMap (fun (b, a) =>
    match b.res, a.res, a.forward with
    | none, some (.success v), some f => some (f, v)
    | _, _, _ => none)
  newly.foldl (fun acts (f, v) =>
    acts.modify f (fun x => if x.alive && !x.draining then { x with mailbox := x.mailbox ++ [.fwd v] } else x)) actors

/-- The forwards performed by one `resolve`: call number `off + i` forwards iff it was waiting, has
just become `Success v` and is a forward-call; `acc f` = the target accepted the message. (Ghost
bookkeeping of exactly the `newly` list of `deliverForwards`, with the call ids kept —
`Lemmas/RpcForward: deliverForwards_eq_log`.) -/
def newFwdFrom (acc : Nat → Bool) (g : Call → Call) : Nat → List Call → List (Nat × Nat × Nat × Bool)
  | _, [] => []
  | off, b :: rest =>
    (match b.res, (g b).res, (g b).forward with
     | none, some (.success v), some f => [(off, f, v, acc f)]
     | _, _, _ => []) ++ newFwdFrom acc g (off + 1) rest

/-- The members completing in one `resolve` write their results through their threaded index:
`results[slot] = r` (in the order the join-set yields them — here port order; the slots of a group
are distinct, so the order does not matter: `Lemmas/RpcResults`). -/
def writeFrom (f : Call → Call) : List (List (Option Res)) → List Call → List (List (Option Res))
  | M, [] => M
  | M, b :: rest =>
    writeFrom f (match b.res, (f b).res, b.group with
      | none, some r, some g => M.modify g (fun v => v.set b.slot (some r))
      | _, _, _ => M) rest

def acceptingIn (actors : List Actor) (a : Nat) : Bool :=
  match actors[a]? with
  | some x => x.alive && !x.draining
  | none => false

/-- the caller-local reading (each caller looks at the channel in its OWN record): what `resolve`
amounts to once `rx = p` is known (`Lemmas: resolve_eq_local`) -/
def resolveLocal (s : S) : S :=
  let calls' := s.calls.map (resolveCall s.now)
  { s with calls := calls', actors := deliverForwards s.calls calls' s.actors,
           fwdlog := s.fwdlog ++ newFwdFrom (acceptingIn s.actors) (resolveCall s.now) 0 s.calls,
           mresults := writeFrom (resolveCall s.now) s.mresults s.calls }

/-- state of the channel of port `q`, as its receiver sees it -/
def portLoc (calls : List Call) (q : Nat) : Loc :=
  match calls[q]? with
  | some c => c.loc
  | none => .dropped

/-- A waiting caller polls the receiving half it holds — the channel of port `c.rx`. -/
def resolveVia (now : Nat) (calls : List Call) (c : Call) : Call :=
  match c.res with
  | some _ => c
  | none =>
    match portLoc calls c.rx with
    | .replied v => { c with res := some (.success v) }
    | .dropped => { c with res := some .senderError }
    | _ =>
      match c.deadline with
      | some d => if d ≤ now then { c with res := some .timeout } else c
      | none => c

def resolve (s : S) : S :=
  let calls' := s.calls.map (resolveVia s.now s.calls)
  { s with calls := calls', actors := deliverForwards s.calls calls' s.actors,
           fwdlog := s.fwdlog ++ newFwdFrom (acceptingIn s.actors) (resolveVia s.now s.calls) 0 s.calls,
           mresults := writeFrom (resolveVia s.now s.calls) s.mresults s.calls }

/-- drop every port located in `a`'s mailbox or held by `a` -/
def dropPortsOf (a : Nat) (c : Call) : Call :=
  match c.loc with
  | .mailbox b => if b == a then { c with loc := .dropped } else c
  | .actor b => if b == a then { c with loc := .dropped } else c
  | _ => c

def exitActor (s : S) (a : Nat) : S :=
  match s.actors[a]? with
  | some x =>
    if x.alive then
      { s with actors := s.actors.modify a (fun x => { x with alive := false, mailbox := [] }),
               calls := s.calls.map (dropPortsOf a) }
    else s
  | none => s

/-! ### supervisors holding the last state of a gracefully stopped child -/

/-- some live supervisor holds (queued or stashed) the termination event of actor `a` -/
def supHolds (sups : List Sup) (a : Nat) : Bool :=
  sups.any (fun u => u.alive && (u.inbox.contains a || u.stash.contains a))

/-- some live supervisor has STASHED the termination event of actor `a` (it can reach into the state) -/
def supStashed (sups : List Sup) (a : Nat) : Bool :=
  sups.any (fun u => u.alive && u.stash.contains a)

def supAlive (s : S) (u : Nat) : Bool :=
  match s.sups[u]? with
  | some x => x.alive
  | none => false

/-- the ports held in `a`'s state travel with the boxed state into `a`'s termination event -/
def toEvent (a : Nat) (c : Call) : Call :=
  match c.loc with
  | .actor b => if b == a then { c with loc := .event a } else c
  | _ => c

/-- Graceful exit (`stop`, drain completion): `processing_loop` returns `Ok`, the state is boxed
into `ActorTerminated(cell, Some(BoxedState), reason)` and sent to the supervisor (actor.rs,
`start`); the mailbox is dropped as in any exit. Without a (live) supervisor the event — and the
state in it — is dropped at once. A kill / failure (`exitActor`) never carries the state. -/
def stopActor (s : S) (a : Nat) : S :=
  match s.actors[a]? with
  | some x =>
    if x.alive then
      match x.sup with
      | some u =>
        if supAlive s u then
          exitActor { s with sups := s.sups.modify u (fun y => { y with inbox := y.inbox ++ [a] }),
                             calls := s.calls.map (toEvent a) } a
        else exitActor s a
      | none => exitActor s a
    else s
  | none => s

/-- a port inside an event that no live supervisor holds any more is dropped -/
def dropOrphan (sups : List Sup) (c : Call) : Call :=
  match c.loc with
  | .event a => if supHolds sups a then c else { c with loc := .dropped }
  | _ => c

/-- after a supervisor dropped an event (or died): drop the ports whose event is gone -/
def sweep (s : S) : S := { s with calls := s.calls.map (dropOrphan s.sups) }

/-- `terminate()`: a dying supervisor kills every child still linked to it -/
def killChildren (s : S) (u : Nat) : S :=
  (List.range s.actors.length).foldl (fun s a =>
    match s.actors[a]? with
    | some y => if y.sup == some u then exitActor s a else s
    | none => s) s

/-- supervisor `u` is killed: the event it was handling, its supervision queue and its state
(the stash) are dropped; its children are killed (their events find no supervisor) -/
def supExit (s : S) (u : Nat) : S :=
  match s.sups[u]? with
  | some x =>
    if x.alive then
      killChildren (sweep { s with sups := s.sups.modify u (fun _ => { alive := false, inbox := [], stash := [] }) }) u
    else s
  | none => s

/-- one `call`-style send of a fresh port to `a`; returns the new state and whether the send succeeded -/
def sendCall (s : S) (a : Nat) (timeout group forward : Option Nat) : S × Bool :=
  let p := s.calls.length
  let dl := timeout.map (· + s.now)
  -- the enumerate index of a multi_call member = how many members of its group were sent before it
  let slot := match group with
    | some g => (s.calls.filter (fun c => c.group == some g)).length
    | none => 0
  if accepting s a then
    ({ s with calls := s.calls ++ [⟨a, dl, .mailbox a, none, group, forward, p, slot⟩],
              actors := s.actors.modify a (fun x => { x with mailbox := x.mailbox ++ [.call p] }) }, true)
  else
    ({ s with calls := s.calls ++ [⟨a, dl, .dropped, some .sendErr, group, forward, p, slot⟩] }, false)

/-- `multi_call`: send in order, stop at the first failing send and abandon the ports already sent. -/
def sendMulti (s : S) (g : Nat) (timeout : Option Nat) : List Nat → S
  | [] => s
  | a :: rest =>
    let (s1, ok) := sendCall s a timeout (some g) none
    if ok then sendMulti s1 g timeout rest
    else { s1 with calls := s1.calls.map (fun c =>
            if c.group == some g && c.res == none then { c with res := some .abandoned } else c) }

/-- `RpcReplyPort::send(v)` on port `p`: the value is written into the channel (and recorded in
the ghost history of sends) -/
def replyOn (s : S) (p v : Nat) : S :=
  { setCall s p (fun c => { c with loc := .replied v }) with sent := s.sent ++ [(p, v)] }

/-! ### `multi_call` groups -/

/-- the calls `multi_call` number `g` created, in port order = the order it sent them -/
def groupMembers (s : S) (g : Nat) : List Call := s.calls.filter (fun c => c.group == some g)

/-- a send of the group failed: `multi_call` returned `Err` at once (`?`), no result vector -/
def failedRes (c : Call) : Bool := c.res == some .sendErr || c.res == some .abandoned
def groupFailed (s : S) (g : Nat) : Bool := (groupMembers s g).any failedRes

/-- every member has its result: the `JoinSet` is exhausted and `multi_call` returns -/
def groupDone (s : S) (g : Nat) : Bool := (groupMembers s g).all (fun c => c.res.isSome)

/-- The result vector `multi_call` returns: `results[i]` is written through the index `i` threaded
into the `i`-th receiver's task (rpc.rs), i.e. it is the result of the `i`-th call sent. -/
def groupResults (s : S) (g : Nat) : List (Option Res) := (groupMembers s g).map (·.res)

def applyAct (s : S) (p : Nat) (holder : Nat) (act : Act) : S :=
  match act with
  | .reply v => replyOn s p v
  | .drop => setCall s p (fun c => { c with loc := .dropped })
  | .keep => setCall s p (fun c => { c with loc := .actor holder })
  | .detach => setCall s p (fun c => { c with loc := .detached })

/-- `a` dequeues its next message and its handler performs `act` -/
def handleCore (s : S) (a : Nat) (act : Act) : S :=
  match s.actors[a]? with
  | some x =>
    if !x.alive then s else
    match x.mailbox with
    | [] => if x.draining then stopActor s a else s       -- the drain marker: stop by itself (gracefully)
    | .call p :: _ =>
      applyAct (setActor s a (fun y => { y with mailbox := y.mailbox.tail })) p a act
    | .fwd v :: _ =>
      setActor s a (fun y => { y with mailbox := y.mailbox.tail, received := y.received ++ [v] })
  | none => s

def stepCore (s : S) : Op → S
  | .spawn => { s with actors := s.actors ++ [{ alive := true, draining := false, mailbox := [], received := [], sup := none }] }
  | .call a t => (sendCall s a t none none).1
  | .mcall as t =>
    let s' := sendMulti s s.groups t as
    { s' with groups := s.groups + 1, mreqs := s.mreqs ++ [as],
              mresults := s.mresults ++ [List.replicate (s'.calls.filter (fun c => c.group == some s.groups)).length none] }
  | .fcall a f t => (sendCall s a t none (some f)).1
  | .handle a act => handleCore s a act
  | .later p act =>
    match s.calls[p]? with
    | some c =>
      (match c.loc, act with
       | .actor _, .reply v => replyOn s p v
       | .detached, .reply v => replyOn s p v
       | .actor _, .drop => setCall s p (fun c => { c with loc := .dropped })
       | .detached, .drop => setCall s p (fun c => { c with loc := .dropped })
       -- the supervisor takes the port out of a state it stashed (`BoxedState::take`)
       | .event a, .reply v => if supStashed s.sups a then replyOn s p v else s
       | .event a, .drop => if supStashed s.sups a then setCall s p (fun c => { c with loc := .dropped }) else s
       | _, _ => s)
    | none => s
  | .exit a => exitActor s a
  | .stop a act => stopActor (handleCore s a act) a
  | .drain a => setActor s a (fun x => if x.alive then { x with draining := true } else x)
  | .advance d => { s with now := s.now + d }
  | .spawnSup => { s with sups := s.sups ++ [{ alive := true, inbox := [], stash := [] }] }
  | .spawnl u =>
    if supAlive s u then
      { s with actors := s.actors ++ [{ alive := true, draining := false, mailbox := [], received := [], sup := some u }] }
    else s
  | .suphandle u keep =>
    match s.sups[u]? with
    | some x =>
      if !x.alive then s else
      match x.inbox with
      | [] => s
      | a :: rest =>
        if keep then { s with sups := s.sups.modify u (fun y => { y with inbox := rest, stash := y.stash ++ [a] }) }
        else sweep { s with sups := s.sups.modify u (fun y => { y with inbox := rest }) }
    | none => s
  | .supdrop u a =>
    match s.sups[u]? with
    | some x =>
      if x.alive && x.stash.contains a then
        sweep { s with sups := s.sups.modify u (fun y => { y with stash := y.stash.erase a }) }
      else s
    | none => s
  | .supexit u => supExit s u
  | .fail a =>
    match s.actors[a]? with
    | some x => if x.alive && !x.mailbox.isEmpty then exitActor s a else s
    | none => s
  | .handleAt a act d => { handleCore s a act with now := (handleCore s a act).now + d }
  | .cast a v =>
    { s with actors := s.actors.modify a (fun x =>
        if x.alive && !x.draining then { x with mailbox := x.mailbox ++ [.fwd v] } else x) }

/-- A draining actor whose mailbox is empty has reached its drain marker: it stops by itself. -/
def drainExits (s : S) : S :=
  (List.range s.actors.length).foldl (fun s a =>
    match s.actors[a]? with
    | some x => if x.alive && x.draining && x.mailbox.isEmpty then stopActor s a else s
    | none => s) s

def step (s : S) (op : Op) : S := resolve (drainExits (stepCore s op))

def run (ops : List Op) : S := ops.foldl step init

/-! ### the property predicate (shared by the theorems and the run-time oracle) -/

/-- No cross-wiring and no hanging, on one call record: a `Success v` comes from a reply of
exactly `v` on this very port; `SenderError` only if this port was dropped unanswered; a
call whose deadline has passed, whose port was answered or dropped, is complete. -/
def callOk (now : Nat) (c : Call) : Bool :=
  (match c.res with
   | some (.success v) => c.loc == .replied v
   | some .senderError => c.loc == .dropped
   | some .sendErr => c.loc == .dropped
   | some .timeout => (match c.deadline with | some d => decide (d ≤ now) | none => false)
   | some .abandoned => c.group.isSome
   | none =>
     (match c.loc with | .replied _ => false | .dropped => false | _ => true) &&
     (match c.deadline with | some d => decide (now < d) | none => true))

/-- Ports located in a dead actor do not exist: everything a stopped callee still owned was dropped
— or travelled, inside its last state, into a termination event that a LIVE supervisor holds. -/
def locOk (actors : List Actor) (sups : List Sup) (c : Call) : Bool :=
  match c.loc with
  | .mailbox a => (match actors[a]? with | some x => x.alive | none => false)
  | .actor a => (match actors[a]? with | some x => x.alive | none => false)
  | .event a => supHolds sups a
  | _ => true

def ok (s : S) : Bool := s.calls.all (fun c => callOk s.now c && locOk s.actors s.sups c)

end Rpc
