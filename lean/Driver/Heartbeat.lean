import RactorModel.Model.FactoryHeartbeat
import Driver.Common

/-! Driver for the `Heartbeat` model (dead-man's switch, C13/C15).

ops: `hbnew` | `hbping <t>` | `hbstart <t>` | `hbfinish <t>` → `pending=<0|1> sent=<ns|none>`
     `hbcheck <t> <timeout>` → `stuck=<0|1> clock=1 pending=.. sent=..`

Oracle (on the implementation's observations): `hb-stuck-without-long-job` — whenever the implementation declares the
slot stuck, the worker (as the harness played it) is inside a job that has been running for longer than the timeout;
`hb-stuck-idle` — an idle worker is never declared stuck; `hb-clock` — `is_stuck` (reading the paused clock) agrees with
`is_stuck_at`. -/

namespace Driver.HeartbeatD
open _root_.Heartbeat Driver

structure St where
  s : Slot := {}
  /-- the worker as the ops say (independent of the model's state): start instant of the current job -/
  job : Option Nat := none

def showSlot (s : Slot) : String :=
  s!"pending={if s.hb.isPending then 1 else 0} sent={match s.hb.sentAt with | some d => toString d | none => "none"}"

def step (st : St) (op impl : String) : St × StepOut :=
  match words op with
  | ["hbnew"] => ({}, { model := showSlot {} })
  | ["hbping", t] =>
    match t.toNat? with
    | some t => let s := st.s.step (.ping t); ({ st with s }, { model := showSlot s, nontrivial := s.hb != st.s.hb })
    | none => (st, { model := "bad-op" })
  | ["hbstart", t] =>
    match t.toNat? with
    | some t =>
      let s := st.s.step (.start t)
      ({ st with s, job := match st.job with | some j => some j | none => some t }, { model := showSlot s, nontrivial := s.hb != st.s.hb })
    | none => (st, { model := "bad-op" })
  | ["hbfinish", t] =>
    match t.toNat? with
    | some t => let s := st.s.step (.finish t); ({ st with s, job := none }, { model := showSlot s, nontrivial := s.hb != st.s.hb })
    | none => (st, { model := "bad-op" })
  | ["hbcheck", t, to] =>
    match t.toNat?, to.toNat? with
    | some t, some to =>
      let r := st.s.stuckAt t to
      let s := st.s.step (.check t to)
      let implStuck := (words impl).head? == some "stuck=1"
      let clockBad := (words impl).any (· == "clock=0")
      let orc :=
        (if implStuck then
           (match st.job with
            | none => ["hb-stuck-idle"]
            | some j => if t - j > to then [] else ["hb-stuck-without-long-job"])
         else []) ++ (if clockBad then ["hb-clock"] else [])
      ({ st with s }, { model := s!"stuck={if r then 1 else 0} clock=1 {showSlot s}", oracle := orc, nontrivial := r })
    | _, _ => (st, { model := "bad-op" })
  | _ => (st, { model := "bad-op" })

def run (ops impl : Array String) : IO Tally := replay ({} : St) step ops impl

end Driver.HeartbeatD
