import RactorModel.Lemmas.Registry
import RactorModel.Model.RegistryWindow

/-! Helper for `Model/RegistryWindow.lean` (the two halves of the constructor region, E-THR window ops). -/

namespace Registry

theorem getA_append_fresh {s : State} {a : Nat} (hf : fresh s a = true) (x : Actor) (hx : x.id = a) :
    (s.actors ++ [x]).find? (·.id == a) = some x := by
  have h0 : s.actors.find? (·.id == a) = none := by
    simpa [fresh, getA, Option.isNone_iff_eq_none] using hf
  rw [List.find?_append, h0]
  simp [hx]

end Registry
