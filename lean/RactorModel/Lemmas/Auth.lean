import RactorModel.Model.Auth

/-! Helper lemmas for the two handshake state machines (C17). -/

namespace Auth

section
variable {C D : Type} [DecidableEq D] (H : C → Nat → D) (cookie : C)

theorem Server.next_close (fresh : Nat) (m : Msg D) :
    Server.next H cookie fresh (.close : Server D) m = .close := by
  cases m <;> rfl

theorem Client.next_close (fresh : Nat) (m : Msg D) :
    Client.next H cookie fresh (.close : Client D) m = .close := by
  cases m <;> rfl

omit [DecidableEq D] in
theorem Server.startChallenge_ne_ok (fresh : Nat) (s : Server D) :
    (Server.startChallenge H cookie fresh s).isOk = false := by
  cases s <;> rfl

theorem Server.next_ok_iff (fresh : Nat) (st : Server D) (m : Msg D) (d : D) :
    Server.next H cookie fresh st m = .ok d ↔
      ∃ c e c', st = .waitingReply c e ∧ m = .clientChallenge c' e ∧ d = H cookie c' := by
  constructor
  · intro h
    cases st with
    | waitingReply c e =>
      cases m with
      | clientChallenge c' dg =>
        simp only [Server.next] at h
        split at h
        · rename_i heq
          subst heq
          simp only [Server.ok.injEq] at h
          exact ⟨c, e, c', rfl, rfl, h.symm⟩
        · simp at h
      | _ => simp [Server.next] at h
    | waitingClientStatus =>
      cases m with
      | clientStatus b => cases b <;> simp [Server.next, Server.startChallenge] at h
      | _ => simp [Server.next] at h
    | _ => cases m <;> simp [Server.next] at h
  · rintro ⟨c, e, c', rfl, rfl, rfl⟩
    simp [Server.next]

theorem Client.next_ok_iff (fresh : Nat) (st : Client D) (m : Msg D) :
    Client.next H cookie fresh st m = .ok ↔
      ∃ n cs sc reply ours e, st = .waitingAck n cs sc reply ours e ∧ m = .serverAck e := by
  constructor
  · intro h
    cases st with
    | waitingAck n cs sc reply ours e =>
      cases m with
      | serverAck dg =>
        simp only [Client.next] at h
        split at h
        · rename_i heq
          subst heq
          exact ⟨n, cs, sc, reply, ours, e, rfl, rfl⟩
        · simp at h
      | _ => simp [Client.next] at h
    | _ => cases m <;> simp [Client.next] at h
  · rintro ⟨n, cs, sc, reply, ours, e, rfl, rfl⟩
    simp [Client.next]

theorem Server.next_unexpected (fresh : Nat) (st : Server D) (m : Msg D)
    (h : st.expects m = false) : Server.next H cookie fresh st m = .close := by
  cases st <;> cases m <;> try (simp_all [Server.next, Server.expects]; done)
  all_goals (rename_i b; cases b <;> simp_all [Server.next, Server.expects])

theorem Client.next_unexpected (fresh : Nat) (st : Client D) (m : Msg D)
    (h : st.expects m = false) : Client.next H cookie fresh st m = .close := by
  cases st <;> cases m <;> simp_all [Client.next, Client.expects]

theorem Server.next_violation (fresh : Nat) (st : Server D) (m : Msg D)
    (h : st.accepts m = false) : Server.next H cookie fresh st m = .close := by
  cases st <;> cases m <;> try (simp_all [Server.next, Server.accepts, Server.expects]; done)
  all_goals (rename_i b; cases b <;> simp_all [Server.next, Server.accepts, Server.expects])

theorem Client.next_violation (fresh : Nat) (st : Client D) (m : Msg D)
    (h : st.accepts m = false) : Client.next H cookie fresh st m = .close := by
  cases st <;> cases m <;> simp_all [Client.next, Client.accepts, Client.expects]

omit [DecidableEq D] in
theorem Server.startChallenge_wf (fresh : Nat) (s : Server D) :
    (Server.startChallenge H cookie fresh s).wf H cookie := by
  cases s <;> simp [Server.startChallenge, Server.wf]

theorem Server.next_wf (fresh : Nat) (s : Server D) (m : Msg D) :
    (Server.next H cookie fresh s m).wf H cookie := by
  cases s <;> cases m <;> simp only [Server.next, Server.startChallenge] <;>
    (try split) <;> simp [Server.wf]

theorem Client.next_wf (fresh : Nat) (c : Client D) (m : Msg D) :
    (Client.next H cookie fresh c m).wf H cookie := by
  cases c <;> cases m <;> simp only [Client.next] <;> (try split) <;> simp [Client.wf]

end
end Auth
