import RactorModel.Model.OutPort

/-!
Invariant of the default (broadcast ring) output port machine `OutPort.V1`, for every
schedule of publish / subscribe / subscriber exit / forwarding-task steps.
-/

namespace OutPort
variable {M O : Type}

/-! ### `pick` -/

theorem pick_nil_right (k : List (Option Nat)) : pick k ([] : List M) = [] := by
  cases k with
  | nil => rfl
  | cons a k => cases a <;> rfl

theorem pick_sublist (k : List (Option Nat)) (l : List M) : (pick k l).Sublist l := by
  induction k generalizing l with
  | nil => simp [pick]
  | cons a k ih =>
    cases l with
    | nil => simp [pick_nil_right]
    | cons m l =>
      cases a with
      | none => exact (ih l).cons_cons m
      | some t => exact (ih l).cons m

theorem pick_take (k : List (Option Nat)) (l : List M) : pick k l = pick k (l.take k.length) := by
  induction k generalizing l with
  | nil => simp [pick]
  | cons a k ih =>
    cases l with
    | nil => simp
    | cons m l =>
      cases a with
      | none => simp only [pick, List.length_cons, List.take_succ_cons]; rw [← ih]
      | some t => simp only [pick, List.length_cons, List.take_succ_cons]; rw [← ih]

theorem pick_append_right (k : List (Option Nat)) (l x : List M) (h : k.length ≤ l.length) :
    pick k (l ++ x) = pick k l := by
  rw [pick_take k (l ++ x), List.take_append_of_le_length h, ← pick_take]

theorem pick_skips (n t : Nat) (l : List M) : pick (List.replicate n (some t)) l = [] := by
  induction n generalizing l with
  | zero => simp [pick]
  | succ n ih =>
    cases l with
    | nil => simp [pick_nil_right]
    | cons m l => simp only [List.replicate_succ, pick]; exact ih l

theorem pick_append_skips (k : List (Option Nat)) (n t : Nat) (l : List M) :
    pick (k ++ List.replicate n (some t)) l = pick k l := by
  induction k generalizing l with
  | nil => simp [pick_skips, pick]
  | cons a k ih =>
    cases l with
    | nil => simp [pick_nil_right]
    | cons m l => cases a <;> simp [pick, ih]

theorem pick_append_none (k : List (Option Nat)) (l : List M) (m : M)
    (h : l[k.length]? = some m) : pick (k ++ [none]) l = pick k l ++ [m] := by
  induction k generalizing l with
  | nil =>
    cases l with
    | nil => simp at h
    | cons a l => simp at h; subst h; simp [pick]
  | cons a k ih =>
    cases l with
    | nil => simp at h
    | cons b l =>
      have h' : l[k.length]? = some m := by simpa using h
      cases a <;> simp [pick, ih l h']

/-- when no entry is a skip, `pick` keeps everything (up to the length of the mask) -/
theorem pick_all_none (k : List (Option Nat)) (l : List M) (h : ∀ x ∈ k, x = none) :
    pick k l = l.take k.length := by
  induction k generalizing l with
  | nil => simp [pick]
  | cons a k ih =>
    cases l with
    | nil => simp [pick_nil_right]
    | cons m l =>
      have ha : a = none := h a (by simp)
      subst ha
      simp [pick, ih l (fun x hx => h x (by simp [hx]))]

theorem pick_append (k1 k2 : List (Option Nat)) (l1 l2 : List M) (h : k1.length = l1.length) :
    pick (k1 ++ k2) (l1 ++ l2) = pick k1 l1 ++ pick k2 l2 := by
  induction k1 generalizing l1 with
  | nil => cases l1 <;> simp_all [pick]
  | cons a k ih =>
    cases l1 with
    | nil => simp at h
    | cons m l =>
      have h' : k.length = l.length := by simpa using h
      cases a <;> simp [pick, ih l h']

theorem pick_split (k : List (Option Nat)) (l : List M) (d : Nat) (hk : k.length = l.length)
    (hall : ∀ x ∈ k.drop d, x = none) : pick k l = pick (k.take d) (l.take d) ++ l.drop d := by
  have hd : (k.drop d).length = (l.drop d).length := by simp [hk]
  calc pick k l = pick (k.take d ++ k.drop d) (l.take d ++ l.drop d) := by
        rw [List.take_append_drop, List.take_append_drop]
    _ = pick (k.take d) (l.take d) ++ l.drop d := by
        rw [pick_append _ _ _ _ (by simp [hk]), pick_all_none _ _ hall, hd, List.take_length]

/-- if the last `c` mask entries are reads, the last `c` list entries are all picked -/
theorem pick_recent (k : List (Option Nat)) (l : List M) (c : Nat) (hk : k.length = l.length)
    (hnone : ∀ j t, k[j]? = some (some t) → j < l.length - c) :
    pick k l = pick (k.take (l.length - c)) (l.take (l.length - c)) ++ l.drop (l.length - c) := by
  apply pick_split _ _ _ hk
  intro x hx
  obtain ⟨i, hi, rfl⟩ := List.getElem_of_mem hx
  cases hx' : (k.drop (l.length - c))[i] with
  | none => rfl
  | some t =>
    have : k[l.length - c + i]? = some (some t) := by
      rw [← List.getElem?_drop, List.getElem?_eq_getElem hi, hx']
    have := hnone _ _ this
    omega

/-! ### the invariant -/

/-- what the forwarding task of `f` delivered, in terms of what it read -/
def GotOk (dead : List Nat) (f : Fwd M O) : Prop :=
  if f.ended then
    ∃ init m, f.readMsgs = init ++ [m] ∧ f.actor ∈ dead ∧
      f.got = init.filterMap f.conv
  else f.got = f.readMsgs.filterMap f.conv

structure FwdOk (cap : Nat) (log pubs : List M) (dead : List Nat) (f : Fwd M O) : Prop where
  hLen : f.start + f.mask.length = f.cursor
  hCur : f.cursor ≤ log.length
  hPs : f.pstart ≤ pubs.length
  /-- the ring positions the task has passed hold the publications made after the subscription -/
  hView : (log.drop f.start).take f.mask.length = (pubs.drop f.pstart).take f.mask.length
  /-- while its receiver exists every publication is stored -/
  hLive : f.ended = false → log.drop f.start = pubs.drop f.pstart
  hRead : f.readMsgs = pick f.mask (log.drop f.start)
  hGot : GotOk dead f
  /-- a position was skipped only when it was already more than `cap` behind the tail -/
  hSkip : ∀ j t, f.mask[j]? = some (some t) → f.start + j + cap < t ∧ t ≤ log.length

def Inv1 (st : V1 M O) : Prop := ∀ f ∈ st.fwds, FwdOk st.cap st.log st.pubs st.dead f

theorem inv1_init (c : Nat) : Inv1 (V1.init M O c) := by
  intro f hf; simp [V1.init] at hf

theorem FwdOk.held {cap : Nat} {log pubs : List M} {dead : List Nat} {f : Fwd M O}
    (h : FwdOk cap log pubs dead f) :
    FwdOk cap log pubs dead (if f.ended then { f with held := false } else f) := by
  split
  · exact ⟨h.hLen, h.hCur, h.hPs, h.hView, h.hLive, h.hRead, h.hGot, h.hSkip⟩
  · exact h

theorem GotOk.mono {dead dead' : List Nat} {f : Fwd M O} (hd : ∀ a ∈ dead, a ∈ dead')
    (h : GotOk dead f) : GotOk dead' f := by
  unfold GotOk at *
  split
  · rename_i he
    rw [if_pos he] at h
    obtain ⟨i, m, h1, h3, h4⟩ := h
    exact ⟨i, m, h1, hd _ h3, h4⟩
  · rename_i he
    rw [if_neg he] at h; exact h

/-- storing one more publication -/
theorem FwdOk.stored {cap : Nat} {log pubs : List M} {dead : List Nat} {f : Fwd M O} (m : M)
    (h : FwdOk cap log pubs dead f) : FwdOk cap (log ++ [m]) (pubs ++ [m]) dead f := by
  have hs : f.start ≤ log.length := by have := h.hLen; have := h.hCur; omega
  have hml : f.mask.length ≤ (log.drop f.start).length := by
    have := h.hLen; have := h.hCur; simp; omega
  have hmp : f.mask.length ≤ (pubs.drop f.pstart).length := by
    have := congrArg List.length h.hView
    simp only [List.length_take] at this
    omega
  refine ⟨h.hLen, by have := h.hCur; simp; omega, by have := h.hPs; simp; omega, ?_, ?_, ?_, h.hGot, ?_⟩
  · rw [List.drop_append_of_le_length hs, List.drop_append_of_le_length h.hPs,
      List.take_append_of_le_length hml, List.take_append_of_le_length hmp]
    exact h.hView
  · intro he
    rw [List.drop_append_of_le_length hs, List.drop_append_of_le_length h.hPs, h.hLive he]
  · rw [List.drop_append_of_le_length hs, pick_append_right _ _ _ hml]
    exact h.hRead
  · intro j t hj
    have := h.hSkip j t hj
    simp; omega

/-- a publication that is not stored (no receiver): only possible when `f` has ended -/
theorem FwdOk.dropped {cap : Nat} {log pubs : List M} {dead : List Nat} {f : Fwd M O} (m : M)
    (he : f.ended = true) (h : FwdOk cap log pubs dead f) : FwdOk cap log (pubs ++ [m]) dead f := by
  have hmp : f.mask.length ≤ (pubs.drop f.pstart).length := by
    have := congrArg List.length h.hView
    have := h.hLen; have := h.hCur
    simp only [List.length_take, List.length_drop] at *
    omega
  refine ⟨h.hLen, h.hCur, by have := h.hPs; simp; omega, ?_, ?_, h.hRead, h.hGot, h.hSkip⟩
  · rw [List.drop_append_of_le_length h.hPs, List.take_append_of_le_length hmp]
    exact h.hView
  · intro h'; rw [he] at h'; cases h'

theorem inv1_publish {st : V1 M O} (m : M) (h : Inv1 st) : Inv1 (st.publish m) := by
  unfold V1.publish
  split
  · intro f hf; exact (h f hf).stored m
  · rename_i hr
    intro f hf
    have he : f.ended = true := by
      simp only [V1.hasReceiver, List.any_eq_true, not_exists, not_and, Bool.not_eq_true] at hr
      have := hr f hf
      simpa using this
    exact (h f hf).dropped m he

theorem inv1_subscribe {st : V1 M O} (a : Nat) (c : M → Option O) (h : Inv1 st) :
    Inv1 (st.subscribe a c) := by
  intro f hf
  simp only [V1.subscribe, List.mem_append, List.mem_map, List.mem_singleton] at hf
  rcases hf with ⟨g, hg, rfl⟩ | rfl
  · exact (h g hg).held
  · refine ⟨by simp, by simp [V1.subscribe], by simp [V1.subscribe], by simp, ?_, by simp [pick], by simp [GotOk], ?_⟩
    · intro _; simp [V1.subscribe]
    · intro j t hj; simp at hj

theorem inv1_exit {st : V1 M O} (a : Nat) (h : Inv1 st) : Inv1 { st with dead := a :: st.dead } := by
  intro f hf
  have := h f hf
  exact ⟨this.hLen, this.hCur, this.hPs, this.hView, this.hLive, this.hRead,
    this.hGot.mono (fun _ h => List.mem_cons_of_mem _ h), this.hSkip⟩

theorem getElem?_drop_start {log : List M} {s n : Nat} : (log.drop s)[n]? = log[s + n]? := by
  simp

/-- the fields that do not depend on the outcome of the cast, after reading one entry -/
theorem FwdOk.read {cap : Nat} {log pubs : List M} {dead : List Nat} {f : Fwd M O} {m : M}
    (h : FwdOk cap log pubs dead f) (hlive : f.ended = false) (hm : log[f.cursor]? = some m)
    (g : List O) (e : Bool)
    (hg : GotOk dead { f with cursor := f.cursor + 1, mask := f.mask ++ [none],
                              readMsgs := f.readMsgs ++ [m], got := g, ended := e }) :
    FwdOk cap log pubs dead { f with cursor := f.cursor + 1, mask := f.mask ++ [none],
                                     readMsgs := f.readMsgs ++ [m], got := g, ended := e } := by
  have hc : f.cursor < log.length := (List.getElem?_eq_some_iff.mp hm).1
  have hrd : (log.drop f.start)[f.mask.length]? = some m := by
    rw [getElem?_drop_start, h.hLen]; exact hm
  refine ⟨?_, ?_, h.hPs, ?_, fun _ => h.hLive hlive, ?_, hg, ?_⟩
  · have := h.hLen; simp; omega
  · simp; omega
  · simp only; rw [h.hLive hlive]
  · simp only; rw [pick_append_none _ _ _ hrd, h.hRead]
  · intro j t hj
    simp only at hj
    by_cases hjl : j < f.mask.length
    · rw [List.getElem?_append_left hjl] at hj
      exact h.hSkip j t hj
    · rw [List.getElem?_append_right (by omega)] at hj
      have hj' := List.getElem?_eq_some_iff.mp hj
      obtain ⟨hlt, hv⟩ := hj'
      simp at hlt hv

/-- one iteration of the forwarding loop preserves the per-subscription invariant -/
theorem FwdOk.step {cap : Nat} {log pubs : List M} {dead : List Nat} {f : Fwd M O}
    (h : FwdOk cap log pubs dead f) : FwdOk cap log pubs dead (f.step cap log dead).1 := by
  unfold Fwd.step
  split
  · exact h
  · rename_i hne
    have hlive : f.ended = false := by simpa using hne
    have hgot : f.got = f.readMsgs.filterMap f.conv := by
      have := h.hGot; simpa [GotOk, hlive] using this
    split
    · -- Lagged
      rename_i hlag
      dsimp only
      refine ⟨?_, ?_, h.hPs, ?_, h.hLive, ?_, ?_, ?_⟩
      · have := h.hLen; simp; omega
      · simp
      · simp only; rw [h.hLive hlive]
      · simp only; rw [pick_append_skips]; exact h.hRead
      · simpa [GotOk, hlive] using hgot
      · intro j t hj
        simp only at hj
        by_cases hjl : j < f.mask.length
        · rw [List.getElem?_append_left hjl] at hj
          exact h.hSkip j t hj
        · rw [List.getElem?_append_right (by omega)] at hj
          have hj' := List.getElem?_eq_some_iff.mp hj
          obtain ⟨hlt, hv⟩ := hj'
          simp at hlt hv
          have := h.hLen
          subst hv
          dsimp only
          omega
    · split
      · exact h
      · rename_i m hm
        dsimp only
        split
        · rename_i hc
          split
          · rename_i hd
            refine h.read hlive hm f.got true ?_
            simp only [GotOk, ↓reduceIte]
            exact ⟨f.readMsgs, m, rfl, by simpa using hd, hgot⟩
          · refine h.read hlive hm f.got f.ended ?_
            simp [GotOk, hlive, hgot, List.filterMap_append, hc]
        · rename_i o hc
          split
          · rename_i hd
            refine h.read hlive hm f.got true ?_
            simp only [GotOk, ↓reduceIte]
            exact ⟨f.readMsgs, m, rfl, by simpa using hd, hgot⟩
          · refine h.read hlive hm (f.got ++ [o]) f.ended ?_
            simp [GotOk, hlive, hgot, List.filterMap_append, hc]

theorem inv1_task {st : V1 M O} (i : Nat) (h : Inv1 st) : Inv1 (st.task i).1 := by
  unfold V1.task
  split
  · exact h
  · rename_i f hf
    intro g hg
    simp only at hg
    rcases List.mem_or_eq_of_mem_set hg with hg | rfl
    · exact h g hg
    · exact (h f (List.mem_of_getElem? hf)).step

theorem inv1_step {st : V1 M O} (op : Op1 M O) (h : Inv1 st) : Inv1 (st.step op) := by
  cases op with
  | publish m => exact inv1_publish m h
  | subscribe a c => exact inv1_subscribe a c h
  | exit a => exact inv1_exit a h
  | task i => exact inv1_task i h

theorem inv1_run {st : V1 M O} (ops : List (Op1 M O)) (h : Inv1 st) : Inv1 (st.run ops) := by
  induction ops generalizing st with
  | nil => exact h
  | cons op ops ih => exact ih (inv1_step op h)

/-! ### consequences of the invariant -/

theorem FwdOk.maskLen {cap : Nat} {log pubs : List M} {dead : List Nat} {f : Fwd M O}
    (h : FwdOk cap log pubs dead f) : f.mask.length ≤ (pubs.drop f.pstart).length := by
  have := congrArg List.length h.hView
  have := h.hLen; have := h.hCur
  simp only [List.length_take, List.length_drop] at *
  omega

/-- the messages read are those publications after the subscription point whose mask entry
is a read -/
theorem FwdOk.readAfter {cap : Nat} {log pubs : List M} {dead : List Nat} {f : Fwd M O}
    (h : FwdOk cap log pubs dead f) : f.readMsgs = pick f.mask (pubs.drop f.pstart) := by
  rw [h.hRead, pick_take, h.hView, ← pick_take]

theorem FwdOk.gotSub {cap : Nat} {log pubs : List M} {dead : List Nat} {f : Fwd M O}
    (h : FwdOk cap log pubs dead f) : f.got.Sublist (f.readMsgs.filterMap f.conv) := by
  have := h.hGot
  unfold GotOk at this
  split at this
  · obtain ⟨i, m, h1, _, h4⟩ := this
    rw [h4, h1, List.filterMap_append]
    exact List.sublist_append_left _ _
  · rw [this]; exact List.Sublist.refl _

theorem FwdOk.subseq {cap : Nat} {log pubs : List M} {dead : List Nat} {f : Fwd M O}
    (h : FwdOk cap log pubs dead f) : f.got.Sublist ((pubs.drop f.pstart).filterMap f.conv) := by
  refine h.gotSub.trans ?_
  rw [h.readAfter]
  exact (pick_sublist _ _).filterMap _

theorem FwdOk.noLag {cap : Nat} {log pubs : List M} {dead : List Nat} {f : Fwd M O}
    (h : FwdOk cap log pubs dead f) (hn : ∀ x ∈ f.mask, x = none) (hl : f.ended = false) :
    f.got = ((pubs.drop f.pstart).take f.mask.length).filterMap f.conv := by
  have := h.hGot
  simp only [GotOk, hl, Bool.false_eq_true, ↓reduceIte] at this
  rw [this, h.readAfter, pick_all_none _ _ hn]

theorem FwdOk.recent {cap : Nat} {log pubs : List M} {dead : List Nat} {f : Fwd M O}
    (h : FwdOk cap log pubs dead f) (hl : f.ended = false) (hpark : f.cursor = log.length) :
    ((pubs.drop f.pstart).drop ((pubs.drop f.pstart).length - cap)).filterMap f.conv <:+ f.got := by
  have hgot := h.hGot
  simp only [GotOk, hl, Bool.false_eq_true, ↓reduceIte] at hgot
  have hlen : f.mask.length = (pubs.drop f.pstart).length := by
    have := h.hLen; have := h.hCur
    have := congrArg List.length (h.hLive hl)
    simp only [List.length_drop] at *
    omega
  have hlen2 : (pubs.drop f.pstart).length + f.start = log.length := by
    have := h.hLen; omega
  rw [hgot, h.readAfter, pick_recent _ _ cap hlen, List.filterMap_append]
  · exact List.suffix_append _ _
  · intro j t hj
    have := h.hSkip j t hj
    omega

theorem step1_cap (st : V1 M O) (op : Op1 M O) : (st.step op).cap = st.cap := by
  cases op with
  | publish m => simp only [V1.step, V1.publish]; split <;> rfl
  | subscribe a c => rfl
  | exit a => rfl
  | task i => simp only [V1.step, V1.task]; split <;> rfl

theorem run1_cap' (st : V1 M O) (ops : List (Op1 M O)) : (st.run ops).cap = st.cap := by
  induction ops generalizing st with
  | nil => rfl
  | cons op ops ih => simp only [V1.run, List.foldl_cons] at ih ⊢; rw [ih, step1_cap]

theorem run1_cap (cap : Nat) (ops : List (Op1 M O)) : ((V1.init M O cap).run ops).cap = cap :=
  run1_cap' _ _

theorem task1_frame (st : V1 M O) (i : Nat) :
    (st.task i).1.log = st.log ∧ (st.task i).1.pubs = st.pubs ∧
      ∀ j, j ≠ i → (st.task i).1.fwds[j]? = st.fwds[j]? := by
  unfold V1.task
  split
  · exact ⟨rfl, rfl, fun _ _ => rfl⟩
  · refine ⟨rfl, rfl, fun j hj => ?_⟩
    simp only
    rw [List.getElem?_set_ne (Ne.symm hj)]

end OutPort
